#!/usr/bin/env python3
"""C19: interprets the case language through the built Python extension module and prints the same
observation lines as the Rust harness (for the operations Python exposes). Usage: pyrun.py <module dir> <case file>"""
import os, sys, tempfile
sys.path.insert(0, sys.argv[1])
import biodivine_boolean_functions as M

CALLED = set()


def call(obj, name, *args):
    CALLED.add((type(obj).__name__ if not isinstance(obj, type) else obj.__name__, name))
    return getattr(obj, name)(*args)


def unhex(h): return "" if h == "-" else bytes.fromhex(h).decode("utf-8")
def hx(s): return s.encode("utf-8").hex() if s else "-"
def names(l):
    l = list(l)
    return "-" if not l else ",".join((hx(x) if x else "~") for x in l)
def bits(v):
    v = list(v)
    return "-" if not v else "".join("1" if b else "0" for b in v)
def pt(p): return "." if len(p) == 0 else bits(p)
def pts(l):
    l = list(l)
    return "-" if not l else ",".join(pt(p) for p in l)


def kind_of(o):
    return {"Expression": "E", "Table": "T", "Bdd": "B"}[type(o).__name__]


def all_points(n):
    return [[bool((i >> (n - 1 - k)) & 1) for k in range(n)] for i in range(1 << n)]


def build(toks, i=0):
    t = toks[i]
    if t == "L": return call(M.Expression, "mk_literal", unhex(toks[i + 1])), i + 2
    if t == "C": return call(M.Expression, "mk_constant", toks[i + 1] == "1"), i + 2
    if t == "N":
        e, j = build(toks, i + 1); return call(M.Expression, "mk_not", e), j
    n = int(toks[i + 1]); j = i + 2; es = []
    for _ in range(n):
        e, j = build(toks, j); es.append(e)
    return call(M.Expression, "mk_and_n_ary" if t == "A" else "mk_or_n_ary", es), j


class Na(Exception): pass


def valuation(n, rest): return {unhex(rest[2 * k]): rest[2 * k + 1] == "1" for k in range(n)}


def execute(pool, t):
    def reg(s):
        o = pool[int(s)] if int(s) < len(pool) else None
        if o is None: raise Na()
        return o
    ins = t[0]
    if ins == "expr": return build(t, 1)[0]
    if ins == "parse":
        CALLED.add(("Expression", "__new__")); return M.Expression(unhex(t[1]))
    if ins == "op1":
        x = reg(t[2]); k = kind_of(x)
        if t[1] == "not":
            if k == "E": CALLED.add(("Expression", "__invert__")); return ~x
            return call(type(x), "mk_not", x)
        if k != "E": raise Na()
        return call(x, {"nnf": "to_nnf", "cnf": "to_cnf", "dnf": "to_dnf"}[t[1]])
    if ins == "op2":
        x, y = reg(t[3]), reg(t[4]); k = kind_of(x)
        if kind_of(y) != k or k == "E" or t[1] not in ("and", "or", "xor"): raise Na()
        return call(type(x), "mk_" + t[1], x, y)
    if ins == "binary":
        x, y = reg(t[2]), reg(t[3])
        if kind_of(x) != "E" or kind_of(y) != "E": raise Na()
        if t[1] == "and":
            CALLED.add(("Expression", "__and__")); r1 = x & y
            r2 = call(M.Expression, "mk_and_binary", x, y)
        else:
            CALLED.add(("Expression", "__or__")); r1 = x | y
            r2 = call(M.Expression, "mk_or_binary", x, y)
        if str(r1) != str(r2): raise RuntimeError("operator and mk_*_binary disagree")
        return r1
    if ins == "nary":
        n = int(t[2]); es = [reg(s) for s in t[3:3 + n]]
        if any(kind_of(e) != "E" for e in es): raise Na()
        return call(M.Expression, "mk_and_n_ary" if t[1] == "and" else "mk_or_n_ary", es)
    if ins == "negate":
        x = reg(t[1])
        if kind_of(x) != "E": raise Na()
        return call(M.Expression, "mk_not", x)
    if ins in ("conv", "bigconv"):
        x = reg(t[2]); k = kind_of(x); tgt = t[1]
        if tgt == k: return x
        if k == "E": return call(x, "to_table") if tgt == "T" else call(x, "to_bdd")
        if k == "T": return call(x, "to_expression") if tgt == "E" else call(x, "to_bdd")
        return call(x, "to_expression") if tgt == "E" else call(x, "to_table")
    if ins == "restrict":
        x = reg(t[1]); return call(x, "restrict", valuation(int(t[2]), t[3:]))
    if ins in ("exists", "forall", "deriv"):
        x = reg(t[1]); n = int(t[2]); vs = {unhex(h) for h in t[3:3 + n]}
        return call(x, {"exists": "existential_quantification", "forall": "universal_quantification", "deriv": "derivative"}[ins], vs)
    if ins == "subst":
        x = reg(t[1]); n = int(t[2]); m = {}
        for k in range(n):
            g = reg(t[4 + 2 * k])
            if kind_of(g) != kind_of(x): raise Na()
            m[unhex(t[3 + 2 * k])] = g
        return call(x, "substitute", m)
    if ins == "mkconst":
        if t[1] == "E": return call(M.Expression, "mk_constant", t[2] == "1")
        if t[1] == "B": return call(M.Bdd, "mk_const", t[2] == "1")
        raise Na()
    if ins == "mkliteral":
        if t[1] == "E":
            l = call(M.Expression, "mk_literal", unhex(t[2]))
            return l if t[3] == "1" else call(M.Expression, "mk_not", l)
        if t[1] == "B": return call(M.Bdd, "mk_literal", unhex(t[2]), t[3] == "1")
        raise Na()
    if ins == "csvin":
        if t[1] == "missing":
            d = tempfile.mkdtemp()
            try: return call(M.Table, "from_csv_file", os.path.join(d, "does-not-exist.csv"))
            finally: os.rmdir(d)
        text = unhex(t[2])
        if t[1] == "str": return call(M.Table, "from_csv_string", text)
        fd, path = tempfile.mkstemp(suffix=".csv")
        try:
            with os.fdopen(fd, "wb") as fh: fh.write(text.encode("utf-8"))
            return call(M.Table, "from_csv_file", path)
        finally:
            os.unlink(path)
    raise Na()


def iterator_protocol(o, full):
    """the Python iterator protocol of the four enumerations: iter(it) is it; two iterators obtained from one object
    advance independently and each yields the full sequence; after exhaustion StopIteration keeps being raised.
    Returns "ok" or a short description of the first deviation (a Python-only observation: expected value ok)."""
    for m, want in full.items():
        a = getattr(o, m)(); b = getattr(o, m)()
        if iter(a) is not a: return "%s:iter-not-self" % m
        got_a, got_b = [], []
        # interleave: two from a, one from b, ...
        done_a = done_b = False
        while not (done_a and done_b):
            for _ in range(2):
                if not done_a:
                    try: got_a.append(next(a))
                    except StopIteration: done_a = True
            if not done_b:
                try: got_b.append(next(b))
                except StopIteration: done_b = True
        if got_a != want: return "%s:interleaved-first-differs(%d/%d)" % (m, len(got_a), len(want))
        if got_b != want: return "%s:interleaved-second-differs(%d/%d)" % (m, len(got_b), len(want))
        for it in (a, b):
            for _ in range(2):
                try:
                    next(it); return "%s:yields-after-exhaustion" % m
                except StopIteration:
                    pass
    return "ok"


def truth_vector(o):
    ins = sorted(call(o, "inputs"))
    return [call(o, "evaluate_safe", dict(zip(ins, p))) for p in all_points(len(ins))]


STYLE = {"A": "Ascii", "M": "Modern", "D": "Markdown", "E": "Empty"}
FMT = {"N": "Number", "C": "Character", "W": "Word", "K": "CapitalizedWord"}


def query(pool, t):
    def reg(s):
        o = pool[int(s)] if int(s) < len(pool) else None
        if o is None: raise Na()
        return o
    q = t[0]
    if q == "obs":
        o = reg(t[1])
        empty = kind_of(o) == "T" and call(o, "to_csv") == ""
        gl = names(sorted(call(o, "gather_literals"))) if kind_of(o) != "B" else None
        ins = names(sorted(call(o, "inputs")))
        if gl is not None and gl != ins: return "kind=%s inputs=inconsistent" % kind_of(o)
        return "kind=%s inputs=%s tv=%s" % (kind_of(o), ins, "-" if empty else bits(truth_vector(o)))
    if q == "enum":
        o = reg(t[1]); k = kind_of(o)
        dom = list(call(o, "domain")); img = list(call(o, "image")); rel = list(call(o, "relation")); sup = list(call(o, "support"))
        proto = iterator_protocol(o, {"domain": dom, "image": img, "relation": rel, "support": sup})
        if k == "B": sup.sort()
        sat = call(o, "sat_point")
        rel_s = "-" if not rel else ",".join("%s:%d" % (pt(p), 1 if b else 0) for p, b in rel)
        return "kind=%s inputs=%s ess=%s deg=%d essdeg=%d dom=%s img=%s rel=%s sup=%s w=%d sat=%s nodes=%s" % (
            k, names(sorted(call(o, "inputs"))), names(sorted(call(o, "essential_inputs"))), call(o, "degree"), call(o, "essential_degree"),
            pts(dom), bits(img), rel_s, pts(sup), call(o, "weight"), "none" if sat is None else pt(sat),
            str(call(o, "node_count")) if k == "B" else "-") + " proto=" + proto
    if q == "weight":
        o = reg(t[1]); k = kind_of(o)
        if k == "E": return "skip"
        return "w=%d deg=%d nodes=%s" % (call(o, "weight"), call(o, "degree"), str(call(o, "node_count")) if k == "B" else "-")
    if q == "eval":
        o = reg(t[1]); v = valuation(int(t[3]), t[4:])
        if t[2] == "-":
            try:
                return "checked=ok:%d" % (1 if call(o, "evaluate_checked", v) else 0)
            except KeyError as e:
                msg = e.args[0]
                lst = msg.split(": ", 1)[1].split(", ") if ": " in msg else []
                return "checked=missing:%s exc=KeyError" % names(lst)
        d = t[2] == "1"
        r = call(o, "evaluate_with_default", v, d)
        if not d and call(o, "evaluate_safe", v) != r: return "val=inconsistent"
        return "val=%d" % (1 if r else 0)
    if q in ("equiv", "implied", "semeq"):
        x, y = reg(t[1]), reg(t[2])
        if kind_of(x) != kind_of(y): return "ans=na"
        if q == "equiv": r = call(x, "is_equivalent", y)
        elif q == "implied": r = call(x, "is_implied_by", y)
        else: r = call(x, "semantic_eq", y) if kind_of(x) != "B" else call(x, "is_equivalent", y)
        return "ans=%d" % (1 if r else 0)
    if q == "preds":
        o = reg(t[1])
        if kind_of(o) != "E": return "skip"
        shape = "lit=%d const=%d not=%d and=%d or=%d" % tuple(int(call(o, m)) for m in ("is_literal", "is_constant", "is_not", "is_and", "is_or"))
        return "nnf=%d cnf=%d dnf=%d %s" % (int(call(o, "is_nnf")), int(call(o, "is_cnf")), int(call(o, "is_dnf")), shape)
    if q == "parse":
        CALLED.add(("Expression", "__new__"))
        try:
            e = M.Expression(unhex(t[1]))
        except BaseException as e:
            return "acc=0 exc=%s" % type(e).__name__
        ins = sorted(call(e, "inputs"))
        tv = "skip" if len(ins) > 12 else bits(truth_vector(e))
        CALLED.add(("Expression", "__str__"))
        return "acc=1 inputs=%s tv=%s show=%s" % (names(ins), tv, hx(str(e)))
    if q in ("show", "display"):
        o = reg(t[1]); k = kind_of(o)
        if k == "B": return "skip"
        CALLED.add((type(o).__name__, "__str__"))
        return ("show=%s" if q == "show" else "text=%s") % hx(str(o))
    if q == "repr":
        o = reg(t[1]); CALLED.add((type(o).__name__, "__repr__")); CALLED.add((type(o).__name__, "__str__"))
        return "repr=%s str=%s" % (hx(repr(o)), hx(str(o)))
    if q == "csvdef":
        o = reg(t[1])
        if kind_of(o) != "T": return "skip"
        return "text=%s" % hx(call(o, "to_csv"))
    if q == "render":
        o = reg(t[1])
        if kind_of(o) != "T" or t[3] != t[4]: return "skip"
        return "text=%s" % hx(call(o, "to_string_formatted", getattr(M.TableStyle, STYLE[t[2]]), getattr(M.TableBooleanFormatting, FMT[t[3]])))
    if q == "row":
        o = reg(t[1])
        if kind_of(o) != "T": return "skip"
        return "row=%s" % bits(call(o, "row", int(t[2])))
    if q == "pyctor":
        # wrong constructor arguments raise TypeError; an Expression argument is copied
        arg = {"int": 5, "none": None, "list": ["a"], "float": 1.5, "bytes": b"a"}.get(t[1])
        CALLED.add(("Expression", "__new__"))
        try:
            M.Expression(arg); return "exc=none"
        except BaseException as e:
            return "exc=%s" % type(e).__name__
    if q == "pyvars":
        vs = M.vars([unhex(h) for h in t[1:]]); v1 = M.var(unhex(t[1])); b = M.bool(True)
        CALLED.update({("module", "vars"), ("module", "var"), ("module", "bool")})
        return "vars=%s var=%s bool=%s" % (",".join(hx(str(x)) for x in vs), hx(str(v1)), hx(str(b)))
    if q == "pycopy":
        o = reg(t[1])
        if kind_of(o) != "E": return "skip"
        CALLED.add(("Expression", "__new__")); c = M.Expression(o)
        return "show=%s" % hx(str(c))
    if q == "pyfrom":
        # the static from_* constructors agree with the to_* methods
        o = reg(t[1]); k = kind_of(o); out = []
        if k == "E":
            out.append(str(call(M.Table, "from_expression", o)) == str(call(o, "to_table")))
            out.append(repr(call(M.Bdd, "from_expression", o)) == repr(call(o, "to_bdd")))
        elif k == "T":
            out.append(str(call(M.Expression, "from_table", o)) == str(call(o, "to_expression")))
            out.append(repr(call(M.Bdd, "from_table", o)) == repr(call(o, "to_bdd")))
        else:
            out.append(str(call(M.Expression, "from_bdd", o)) == str(call(o, "to_expression")))
            out.append(str(call(M.Table, "from_bdd", o)) == str(call(o, "to_table")))
        return "same=%s" % bits(out)
    return "skip"


def main():
    case, lineno, pool = "", 0, []
    out = sys.stdout
    for line in open(sys.argv[2], encoding="utf-8"):
        t = line.split()
        if not t: continue
        if t[0] == "case":
            case, lineno, pool = t[1], 0, []
        elif t[0] == "end":
            pass
        elif t[0] == "r":
            lineno += 1
            try:
                pool.append(execute(pool, t[1:])); s = "ok"
            except Na:
                pool.append(None); s = "na"
            except BaseException as e:
                pool.append(None); s = "exc exc=%s" % type(e).__name__
            out.write("%s %d %s\n" % (case, lineno, s))
        elif t[0] == "q":
            lineno += 1
            try:
                s = query(pool, t[1:])
            except Na:
                s = "skip"
            except BaseException as e:
                s = "exc exc=%s" % type(e).__name__
            out.write("%s %d %s\n" % (case, lineno, s))
    out.write("#called %s\n" % " ".join(sorted("%s.%s" % c for c in CALLED)))
    out.flush()


if __name__ == "__main__":
    main()
