(* Driver: reads the case language on stdin (or a file), runs the extracted model and the
   extracted specification, prints one line of observations per instruction.
   Unverified glue: parsing and printing only. *)
open Model

let rec nat_of_int i = if i <= 0 then O else S (nat_of_int (i - 1))
let rec int_of_nat = function O -> 0 | S n -> 1 + int_of_nat n
let rec pos_of_int i = if i <= 1 then XH else if i land 1 = 0 then XO (pos_of_int (i lsr 1)) else XI (pos_of_int (i lsr 1))
let n_of_int i = if i = 0 then N0 else Npos (pos_of_int i)
let rec int_of_pos = function XH -> 1 | XO p -> 2 * int_of_pos p | XI p -> 2 * int_of_pos p + 1
let int_of_n = function N0 -> 0 | Npos p -> int_of_pos p
(* weights can exceed 2^62 only for > 62 inputs, which the generators never produce *)

(* decimal rendering of a binary natural number of any size (weights of wide diagrams exceed 2^62) *)
let string_of_n (x : n) : string =
  (* digits little-endian base 10; double and add one per bit, most significant bit first *)
  let double_add ds carry0 =
    let rec go ds carry = match ds with
      | [] -> if carry = 0 then [] else [carry]
      | d :: r -> let v = 2 * d + carry in (v mod 10) :: go r (v / 10) in
    go ds carry0 in
  let rec bits_msb p acc = match p with XH -> 1 :: acc | XO q -> bits_msb q (0 :: acc) | XI q -> bits_msb q (1 :: acc) in
  match x with
  | N0 -> "0"
  | Npos p ->
      let ds = List.fold_left (fun ds b -> double_add ds b) [] (bits_msb p []) in
      String.concat "" (List.rev_map string_of_int ds)

(* ---- names: hex of UTF-8 bytes <-> list of code points ---- *)
let bytes_of_hex h =
  if h = "-" then "" else
  String.init (String.length h / 2) (fun i -> Char.chr (int_of_string ("0x" ^ String.sub h (2 * i) 2)))
let hex_of_bytes s =
  if s = "" then "-" else
  String.concat "" (List.map (fun c -> Printf.sprintf "%02x" (Char.code c)) (List.init (String.length s) (String.get s)))

let decode_utf8 (s : string) : int list =
  let n = String.length s in
  let rec go i acc =
    if i >= n then List.rev acc else
    let c = Char.code s.[i] in
    if c < 0x80 then go (i + 1) (c :: acc)
    else if c < 0xe0 then go (i + 2) ((((c land 0x1f) lsl 6) lor (Char.code s.[i+1] land 0x3f)) :: acc)
    else if c < 0xf0 then go (i + 3) ((((c land 0x0f) lsl 12) lor ((Char.code s.[i+1] land 0x3f) lsl 6) lor (Char.code s.[i+2] land 0x3f)) :: acc)
    else go (i + 4) ((((c land 0x07) lsl 18) lor ((Char.code s.[i+1] land 0x3f) lsl 12) lor ((Char.code s.[i+2] land 0x3f) lsl 6) lor (Char.code s.[i+3] land 0x3f)) :: acc)
  in go 0 []
let encode_utf8 (cps : int list) : string =
  let b = Buffer.create 16 in
  List.iter (fun c ->
    if c < 0x80 then Buffer.add_char b (Char.chr c)
    else if c < 0x800 then (Buffer.add_char b (Char.chr (0xc0 lor (c lsr 6))); Buffer.add_char b (Char.chr (0x80 lor (c land 0x3f))))
    else if c < 0x10000 then (Buffer.add_char b (Char.chr (0xe0 lor (c lsr 12))); Buffer.add_char b (Char.chr (0x80 lor ((c lsr 6) land 0x3f))); Buffer.add_char b (Char.chr (0x80 lor (c land 0x3f))))
    else (Buffer.add_char b (Char.chr (0xf0 lor (c lsr 18))); Buffer.add_char b (Char.chr (0x80 lor ((c lsr 12) land 0x3f))); Buffer.add_char b (Char.chr (0x80 lor ((c lsr 6) land 0x3f))); Buffer.add_char b (Char.chr (0x80 lor (c land 0x3f))))) cps;
  Buffer.contents b

let name_of_hex h : name = List.map n_of_int (decode_utf8 (bytes_of_hex h))
let hex_of_name (x : name) : string = hex_of_bytes (encode_utf8 (List.map int_of_n x))

(* ---- printing ---- *)
let bits l = if l = [] then "-" else String.concat "" (List.map (fun b -> if b then "1" else "0") l)
let names l = if l = [] then "-" else String.concat "," (List.map (fun x -> if x = [] then "~" else hex_of_name x) l)
let pt p = if p = [] then "." else bits p
let pts l = if l = [] then "-" else String.concat "," (List.map pt l)
let sorted_pts l = pts (List.sort compare l)

let rec show_expr = function
  | Lit x -> "L" ^ (let h = hex_of_name x in if h = "-" then "" else h)
  | Const b -> if b then "C1" else "C0"
  | Not e -> "N(" ^ show_expr e ^ ")"
  | And es -> "A(" ^ String.concat "," (List.map show_expr es) ^ ")"
  | Or es -> "O(" ^ String.concat "," (List.map show_expr es) ^ ")"
let rec show_dd = function
  | Leaf b -> if b then "T" else "F"
  | Node (v, lo, hi) -> Printf.sprintf "V%d(%s,%s)" (int_of_nat v) (show_dd lo) (show_dd hi)

let show_struct = function
  | OE e -> show_expr e
  | OT t -> names t.t_inputs ^ ":" ^ bits t.t_outputs
  | OB b -> names b.b_inputs ^ ":" ^ string_of_int (int_of_nat b.b_nv) ^ ":" ^ show_dd b.b_root
let kind_char = function OE _ -> "E" | OT _ -> "T" | OB _ -> "B"

let lhex_of_name x = let h = hex_of_name x in if h = "-" then "" else h
let rec show_tok = function
  | TAnd -> "And" | TOr -> "Or" | TNot -> "Not" | TTrue -> "T" | TFalse -> "F"
  | TLit x -> "L" ^ lhex_of_name x
  | TParens l -> "P" ^ show_toks l
and show_toks l = "[" ^ String.concat "," (List.map show_tok l) ^ "]"
let show_tok_err = function
  | UnexpectedClosingParenthesis p -> Printf.sprintf "err:UnexpectedClosingParenthesis@%d" (int_of_nat p)
  | MissingClosingParenthesis p -> Printf.sprintf "err:MissingClosingParenthesis@%d" (int_of_nat p)
  | UnexpectedClosingCurlyBrace p -> Printf.sprintf "err:UnexpectedClosingCurlyBrace@%d" (int_of_nat p)
  | MissingClosingCurlyBrace p -> Printf.sprintf "err:MissingClosingCurlyBrace@%d" (int_of_nat p)
  | EmptyLiteralName p -> Printf.sprintf "err:EmptyLiteralName@%d" (int_of_nat p)
  | UnknownSymbolError p -> Printf.sprintf "err:UnknownSymbolError@%d" (int_of_nat p)
  | UnexpectedWhitespace -> "err:UnexpectedWhitespace"
let show_perr = function
  | EmptySideOfOperator -> "err:EmptySideOfOperator"
  | UnexpectedLiteralsGroup -> "err:UnexpectedLiteralsGroup"

let csv_err_name = function
  | 1 -> "DuplicateVariableName" | 2 -> "UnexpectedEof" | 3 -> "RecordDifferentSizeThanHeader"
  | 4 -> "NonBooleanCellValue" | 5 -> "NoOutputColumn" | 6 -> "MismatchedRecordCountAndVariableCount"
  | 7 -> "NoDelimiterFound" | 8 -> "ParsingError" | 9 -> "IOError" | k -> "E" ^ string_of_int k
let show_table t = names t.t_inputs ^ ":" ^ bits t.t_outputs
let show_csv_res = function
  | Ok t -> "ok:" ^ show_table t
  | Err c -> "err:" ^ csv_err_name (int_of_nat c)
  | Panic _ -> "panic"
let fmt_of = function "N" -> FNumber | "C" -> FCharacter | "W" -> FWord | "K" -> FCapitalizedWord | s -> failwith s
let sty_of = function "A" -> SAscii | "M" -> SModern | "D" -> SMarkdown | "E" -> SEmpty | s -> failwith s
let show_rows rows =
  if rows = [] then "-" else String.concat ";" (List.map (fun r -> String.concat "," (List.map hex_of_name r)) rows)

let tv_limit = 12
(* semantic digest of an expression: inputs and truth vector (skipped above tv_limit inputs) *)
let digest (e : expr) =
  let ins = literals e in
  let tv = if List.length ins > tv_limit then "skip" else bits (obj_tv (OE e)) in
  (names ins, tv)

let parse_fields (s : name) : string * expr option =
  let tk = tokenize s in
  let tok = (match tk with TokOk t -> show_toks t | TokErr e -> show_tok_err e | TokFuel -> "fuel") in
  let (parse, show, eo) = (match from_str_full s with
    | ParsedOk e -> (show_expr e, hex_of_name (display e), Some e)
    | TokenizingError e -> (show_tok_err e, "-", None)
    | ParsingError e -> (show_perr e, "-", None)
    | ParsePanic c -> (Printf.sprintf "panic%d" (int_of_nat c), "-", None)) in
  let pt = (match tk with
    | TokOk t -> (match parse_tokens t with POk e -> show_expr e | PErr e -> show_perr e | PPanic -> "panic")
    | _ -> "-") in
  (Printf.sprintf "tok=%s parse=%s pt=%s show=%s" tok parse pt show, eo)

(* ---- parsing ---- *)
exception Bad of string
let rec parse_pe toks =
  match toks with
  | "L" :: h :: r -> (Lit (name_of_hex h), r)
  | "C" :: b :: r -> (Const (b = "1"), r)
  | "N" :: r -> let (e, r') = parse_pe r in (Not e, r')
  | "A" :: n :: r -> let (es, r') = parse_n (int_of_string n) r in (And es, r')
  | "O" :: n :: r -> let (es, r') = parse_n (int_of_string n) r in (Or es, r')
  | t :: _ -> raise (Bad ("expr token " ^ t))
  | [] -> raise (Bad "expr eof")
and parse_n n toks =
  if n = 0 then ([], toks) else
  let (e, r) = parse_pe toks in
  let (es, r') = parse_n (n - 1) r in (e :: es, r')

let reg_of s = nat_of_int (int_of_string s)
let rec take_pairs n toks f =
  if n = 0 then [] else
  match toks with a :: b :: r -> f a b :: take_pairs (n - 1) r f | _ -> raise (Bad "pairs")
let rec take n toks = if n = 0 then [] else match toks with a :: r -> a :: take (n - 1) r | [] -> raise (Bad "take")
let kind_of = function "E" -> KE | "T" -> KT | "B" -> KB | s -> raise (Bad ("kind " ^ s))
let sort_valuation l = List.sort (fun (a, _) (b, _) -> compare (List.map int_of_n a) (List.map int_of_n b)) l
let sort_names l = List.sort_uniq (fun a b -> compare (List.map int_of_n a) (List.map int_of_n b)) l

let parse_instr toks : instr =
  match toks with
  | "expr" :: r -> let (e, _) = parse_pe r in IExpr e
  | ["op1"; o; i] ->
      IOp1 ((match o with "not" -> ONot | "nnf" -> ONnf | "cnf" -> OCnf | "dnf" -> ODnf | _ -> raise (Bad o)), reg_of i)
  | ["op2"; o; _form; i; j] ->
      IOp2 ((match o with "and" -> OAnd | "or" -> OOr | "xor" -> OXor | "imply" -> OImply | "iff" -> OIff | _ -> raise (Bad o)),
            reg_of i, reg_of j)
  | ["conv"; k; i] -> IConv (kind_of k, reg_of i)
  | "restrict" :: i :: n :: r ->
      IRestrict (reg_of i, sort_valuation (take_pairs (int_of_string n) r (fun h b -> (name_of_hex h, b = "1"))))
  | q :: i :: n :: r when q = "exists" || q = "forall" || q = "deriv" ->
      IQuant ((match q with "exists" -> QExists | "forall" -> QForall | _ -> QDeriv), reg_of i,
              sort_names (List.map name_of_hex (take (int_of_string n) r)))
  | "subst" :: i :: n :: r ->
      ISubst (reg_of i, sort_valuation (take_pairs (int_of_string n) r (fun h j -> (name_of_hex h, reg_of j))))
  | ["mkconst"; k; b] -> IMkConst (kind_of k, b = "1")
  | ["mkliteral"; k; h; b] -> IMkLiteral (kind_of k, name_of_hex h, b = "1")
  | "nary" :: o :: n :: r -> INary (o = "and", List.map reg_of (take (int_of_string n) r))
  | ["binary"; o; i; j] -> IBinary (o = "and", reg_of i, reg_of j)
  | ["negate"; i] -> INegate (reg_of i)
  | ["parse"; h] -> IParse (name_of_hex h)
  | ["csvin"; w; h] -> ICsvIn (w = "file", name_of_hex h)
  | t :: _ -> raise (Bad ("instr " ^ t))
  | [] -> raise (Bad "empty instr")

let exc_name = function
  | RuntimeError -> "RuntimeError" | KeyError -> "KeyError" | TypeError -> "TypeError"
  | EOFError -> "EOFError" | OSError -> "OSError" | PanicException -> "PanicException"
(* what the Python classes raise for this instruction (Model/PyProg.v) *)
let py_exc_of p i = match py_exec p i with PyRaise x -> " py.exc=" ^ exc_name x | _ -> ""
let status_of = function
  | Ok _ -> "ok"
  | Err c -> if int_of_nat c = 90 then "na" else "err"
  | Panic _ -> "panic"

let show_checked = function
  | Inl b -> "ok:" ^ (if b then "1" else "0")
  | Inr l -> "missing:" ^ names l

let spec_checked (f : bf) (rho : valuation) =
  let missing = List.filter (fun x -> not (List.exists (fun (k, _) -> k = x) rho)) f.ins in
  if missing = [] then "ok:" ^ (if f.fn (fun x -> match List.assoc_opt x rho with Some b -> b | None -> false) then "1" else "0")
  else "missing:" ^ names missing

(* for expression registers: is the declared-input set of the specification exact (not just an upper bound)?
   justified by the proved equalities literals(e_restrict ..) = .., literals(e_elim ..) = .., literals(e_and/e_or ..) = union,
   literals(to_nnf e) = literals e; inclusion only is proved for xor/imply/iff, cnf/dnf, substitution and conversions *)
let big : int list ref = ref []
let exact : bool list ref = ref []
let exact_of (i : instr) : bool =
  let ex r = (match List.nth_opt !exact (int_of_nat r) with Some b -> b | None -> false) in
  match i with
  | IExpr _ | IParse _ | IMkConst _ | IMkLiteral _ -> true
  | IOp1 (ONot, r) | IOp1 (ONnf, r) -> ex r
  | IOp1 (_, _) -> false
  | IOp2 (OAnd, a, b) | IOp2 (OOr, a, b) -> ex a && ex b
  | IOp2 (_, _, _) -> false
  | IConv (_, _) -> false
  | IRestrict (r, _) | IQuant (_, r, _) -> ex r
  | ISubst (_, _) -> false
  | INary (_, rs) -> List.for_all ex rs
  | IBinary (_, a, b) -> ex a && ex b
  | INegate r -> ex r
  | ICsvIn (_, _) -> true

let query (p : pool) toks : string =
  let get i = reg p (reg_of i) in
  match toks with
  | ["obs"; i] ->
      (match get i with
       | None -> "skip"
       | Some e ->
           let o = e.e_obj in
           Printf.sprintf "kind=%s struct=%s inputs=%s tv=%s s.rel=%s s.inputs=%s s.tv=%s"
             (kind_char o) (if e.e_opaque then "*" else show_struct o)
             (names (obj_inputs o)) (match o with OT { t_outputs = []; _ } -> "-" | _ -> bits (obj_tv o))
             (match o with OE _ -> (match List.nth_opt !exact (int_of_string i) with Some true -> "eq" | _ -> "sub") | _ -> "eq")
             (names e.e_spec.ins) (match o with OT { t_outputs = []; _ } -> "-" | _ -> bits (bf_tv e.e_spec)))
  | ["enum"; i] ->
      (match get i with
       | None -> "skip"
       | Some e ->
           let o = e.e_obj in
           let f = e.e_spec in
           let is_b = (match o with OB _ -> true | _ -> false) in
           let sup = obj_support o in
           let rel_str r = if r = [] then "-" else String.concat "," (List.map (fun (q, b) -> pt q ^ ":" ^ (if b then "1" else "0")) r) in
           let extra = (match o with
             | OB _ -> ""
             | _ ->
                 let ins = obj_inputs o in
                 let ps = power_set ins in
                 let pset = " pset=" ^ pts (List.map (fun rho -> List.map (fun x -> match List.assoc_opt x rho with Some b -> b | None -> false) ins) ps) in
                 (match o with
                  | OT t -> pset ^ Printf.sprintf " rows=%s rwo=%s nrows=%d nvars=%d" (pts (obj_domain o)) (rel_str (obj_relation o))
                                     (1 lsl (List.length t.t_inputs)) (List.length t.t_inputs)
                  | _ -> pset)) in
           (* the iterator machines of Model/Iter.v stepped by next(): 2^n + 2 calls on fresh iterators, nth(n) and
              nth(2^n - 1) each followed by one more next(), count() of the image, last() of the domain *)
           let iters =
             let n = int_of_nat (obj_dom_count o) in
             if n > 12 then "" else begin
               let k = nat_of_int ((1 lsl n) + 2) in
               let opt f = function None -> "~" | Some x -> f x in
               let rl (q, b) = pt q ^ ":" ^ (if b then "1" else "0") in
               let pair f (a, b) = opt f a ^ "/" ^ opt f b in
               let n1 = nat_of_int n and n2 = nat_of_int ((1 lsl n) - 1) in
               Printf.sprintf " nx.dom=%s nx.img=%s nx.rel=%s nx.sup=%s nth.dom=%s;%s nth.rel=%s;%s cnt.img=%d last.dom=%s rest=%s"
                 (String.concat "," (List.map (opt pt) (obj_dom_steps o k)))
                 (String.concat "" (List.map (opt (fun b -> if b then "1" else "0")) (obj_img_steps o k)))
                 (String.concat "," (List.map (opt rl) (obj_rel_steps o k)))
                 (match obj_sup_steps o k with None -> "*" | Some l -> String.concat "," (List.map (opt pt) l))
                 (pair pt (obj_dom_nth o n1)) (pair pt (obj_dom_nth o n2))
                 (pair rl (obj_rel_nth o n1)) (pair rl (obj_rel_nth o n2))
                 (int_of_nat (obj_img_count o)) (opt pt (obj_dom_last o))
                 (let (c, l) = obj_dom_rest o n1 in Printf.sprintf "%d/%s;%d" (int_of_nat c) (opt pt l) (int_of_nat (obj_img_rest o n1)))
             end in
           (fun s -> s ^ extra ^ iters) @@
           Printf.sprintf "kind=%s inputs=%s ess=%s deg=%d essdeg=%d dom=%s img=%s rel=%s sup=%s w=%d sat=%s nodes=%s s.rel=%s s.inputs=%s s.ess=%s s.sup=%s s.w=%d"
             (kind_char o) (names (obj_inputs o))
             (match obj_essential o with Ok l -> names l | _ -> "panic")
             (int_of_nat (obj_degree o)) (int_of_nat (obj_essential_degree o))
             (pts (obj_domain o)) (bits (obj_image o))
             (let r = obj_relation o in if r = [] then "-" else String.concat "," (List.map (fun (q, b) -> pt q ^ ":" ^ (if b then "1" else "0")) r))
             (if is_b then sorted_pts sup else pts sup)
             (int_of_n (obj_weight o))
             (if is_b then "*" else (match obj_sat_point o with None -> "none" | Some q -> pt q))
             (match o with OB b -> string_of_int (int_of_nat (b_node_count b)) | _ -> "-")
             (match o with OE _ -> "sub" | _ -> "eq")
             (names f.ins) (names (spec_essential f)) (sorted_pts (spec_support f))
             (List.length (spec_support f)))
  | "rename" :: i :: n :: r ->
      (* Expression::rename_literals (Model/Extra.v); the specified function is the original's after renaming its
         arguments, tabulated over the inputs of the result *)
      (match get i with
       | Some ({ e_obj = OE ex; _ } as e) ->
           let m = sort_valuation (take_pairs (int_of_string n) r (fun h g -> (name_of_hex h, name_of_hex g))) in
           let res = e_rename ex m in
           let ins = literals res in
           let stv = List.map (fun p -> let v = env_of ins p in e.e_spec.fn (fun x -> v (rn m x))) (points (nat_of_int (List.length ins))) in
           Printf.sprintf "ren=%s inputs=%s rtv=%s s.rtv=%s" (if e.e_opaque then "*" else show_expr res) (names ins)
             (bits (obj_tv (OE res))) (bits stv)
       | _ -> "skip")
  | ["p2v"; i; pb] ->
      (match get i with
       | None -> "skip"
       | Some e ->
           let p = if pb = "." then [] else List.init (String.length pb) (fun k -> pb.[k] = '1') in
           let show = function None -> "none" | Some rho -> if rho = [] then "-" else String.concat "," (List.map (fun (x, b) -> (if x = [] then "~" else hex_of_name x) ^ ":" ^ (if b then "1" else "0")) rho) in
           let ex = (match e.e_obj with OE _ -> (match List.nth_opt !exact (int_of_string i) with Some true -> true | _ -> false) | _ -> true) in
           (match obj_point_valuation e.e_obj p with
            | Ok v -> "p2v=" ^ show v ^ (if ex then Printf.sprintf " s.n=%d" (List.length e.e_spec.ins) else "")
            | _ -> "skip"))
  | "eval" :: i :: d :: n :: r ->
      (match get i with
       | None -> "skip"
       | Some e ->
           let rho = sort_valuation (take_pairs (int_of_string n) r (fun h b -> (name_of_hex h, b = "1"))) in
           if d = "-" then
             (* for an expression whose declared inputs the specification only bounds (results of conversions, xor,
                normal forms, substitution: `exact` above) the set of inputs that checked evaluation may report is not
                determined by the specification: only the model's own answer is printed (and `*` when even the
                model's structure is not determined: expressions out of diagrams) *)
             let is_e = (match e.e_obj with OE _ -> true | _ -> false) in
             let ex = (not is_e) || (match List.nth_opt !exact (int_of_string i) with Some true -> true | _ -> false) in
             if ex then
               Printf.sprintf "checked=%s s.checked=%s py.exc=%s" (show_checked (obj_eval_checked e.e_obj rho)) (spec_checked e.e_spec rho)
                 (match py_eval_checked e.e_obj rho with Inr x -> exc_name x | Inl _ -> "none")
             else if e.e_opaque then "checked=*"
             else Printf.sprintf "checked=%s py.exc=%s" (show_checked (obj_eval_checked e.e_obj rho))
                 (match py_eval_checked e.e_obj rho with Inr x -> exc_name x | Inl _ -> "none")
           else
             let dv = (d = "1") in
             let sv = e.e_spec.fn (fun x -> match List.assoc_opt x rho with Some b -> b | None -> dv) in
             Printf.sprintf "val=%s s.val=%s" (if obj_eval_default e.e_obj rho dv then "1" else "0") (if sv then "1" else "0"))
  | [q; i; j] when q = "equiv" || q = "implied" || q = "semeq" ->
      (match get i, get j with
       | Some a, Some b ->
           let m = (if q = "implied" then obj_implied_by a.e_obj b.e_obj else obj_equiv a.e_obj b.e_obj) in
           let s = (if q = "implied" then spec_implies b.e_spec a.e_spec else spec_equiv a.e_spec b.e_spec) in
           Printf.sprintf "ans=%s s.ans=%s"
             (match m with Ok v -> if v then "1" else "0" | Err _ -> "na" | Panic _ -> "panic")
             (if s then "1" else "0")
       | _, _ -> "skip")
  | ["parse"; h] ->
      (* the specification of a parse is the meaning of the reference reading, which the model's
         result is proved to be (C12_from_str_is_reference) *)
      let (f, eo) = parse_fields (name_of_hex h) in
      (match eo with
       | Some e -> let (i, tv) = digest e in
                   Printf.sprintf "%s acc=1 inputs=%s tv=%s s.acc=1 s.rel=eq s.inputs=%s s.tv=%s" f i tv i tv
       | None -> Printf.sprintf "%s acc=0 s.acc=0 py.exc=%s" f
                   (match py_new (AStr (name_of_hex h)) with Inr x -> exc_name x | Inl _ -> "none"))
  | ["csvout"; i; fi; fo] ->
      (match get i with
       | Some { e_obj = OT t; _ } ->
           let text = to_csv_formatted (n_of_int 44) (fmt_of fi) (fmt_of fo) t in
           let back = from_csv_string text in
           (* C17: a well-formed table with csv-safe names comes back equal *)
           let wf = (List.length t.t_outputs = 1 lsl (List.length t.t_inputs)) && List.length t.t_inputs < 62 in
           Printf.sprintf "text=%s round=%s%s" (hex_of_name text) (show_csv_res back)
             (if wf && csv_safe t then " s.round=ok:" ^ show_table t else "")
       | _ -> "skip")
  | ["csvdef"; i] ->
      (match get i with
       | Some { e_obj = OT t; _ } ->
           Printf.sprintf "text=%s s.text=%s" (hex_of_name (to_csv t))
             (hex_of_name (to_csv_formatted (n_of_int 44) FNumber FNumber t))
       | _ -> "skip")
  | ["render"; i; st; fi; fo] ->
      (match get i with
       | Some { e_obj = OT t; _ } ->
           let rows = table_rows (fmt_of fi) (fmt_of fo) t in
           Printf.sprintf "text=%s%s" (hex_of_name (to_string_formatted uwidth (sty_of st) (fmt_of fi) (fmt_of fo) t))
             (if clean_rowsb (sty_of st) rows then " s.style=" ^ st ^ " s.rows=" ^ show_rows rows else "")
       | _ -> "skip")
  | ["display"; i] ->
      (match get i with
       | Some { e_obj = OT t; _ } ->
           Printf.sprintf "text=%s s.text=%s" (hex_of_name (display_table uwidth t))
             (hex_of_name (to_string_formatted uwidth SEmpty FWord FWord t))
       | Some { e_obj = OE x; e_opaque = o; _ } -> if o then "text=*" else Printf.sprintf "text=%s" (hex_of_name (display x))
       | _ -> "skip")
  | ["show"; i] ->
      (match get i with
       | Some { e_obj = OE x; e_opaque = o; _ } -> if o then "show=*" else Printf.sprintf "show=%s" (hex_of_name (display x))
       | _ -> "skip")
  | "roundtrip" :: i :: flags ->
      (* flags: `printable` (names are identifiers other than keywords, no empty And/Or: the text must
         parse back to the same function over the same variables), `proper` (every And/Or has >= 2
         operands: the same tree) -- theorems C14_round_trip_meaning / C14_round_trip_exact *)
      (match get i with
       | Some { e_obj = OE x; _ } ->
           let text = display x in
           let (fl, eo) = parse_fields text in
           let spec =
             (if List.mem "printable" flags then
                Printf.sprintf " s.acc=1 s.rel=eq s.inputs=%s s.tv=%s" (names (literals x))
                  (if List.length (literals x) > tv_limit then "skip" else bits (obj_tv (OE x)))
              else "") ^
             (if List.mem "proper" flags then " s.parse=" ^ show_expr x else "") in
           (match eo with
            | Some e -> let (i2, tv) = digest e in
                        Printf.sprintf "text=%s %s acc=1 inputs=%s tv=%s%s" (hex_of_name text) fl i2 tv spec
            | None -> Printf.sprintf "text=%s %s acc=0%s" (hex_of_name text) fl spec)
       | _ -> "skip")
  | ["preds"; i] ->
      (match get i with
       | Some { e_obj = OE x; e_opaque = o; _ } ->
           if o then "nnf=* cnf=* dnf=* lit=* const=* not=* and=* or=*" else
           (* the specification of the predicates is the reference shapes, to which the model's predicates are
              proved equal (C11_is_nnf_reference, C11_is_cnf_reference, C11_is_dnf_reference) *)
           (fun s_ -> s_ ^ Printf.sprintf " s.nnf=%d s.cnf=%d s.dnf=%d" (Bool.to_int (is_nnf x)) (Bool.to_int (is_cnf x)) (Bool.to_int (is_dnf x))) @@
           Printf.sprintf "nnf=%d cnf=%d dnf=%d lit=%d const=%d not=%d and=%d or=%d" (Bool.to_int (is_nnf x)) (Bool.to_int (is_cnf x)) (Bool.to_int (is_dnf x))
             (Bool.to_int (match x with Lit _ -> true | Not (Lit _) -> true | _ -> false))
             (Bool.to_int (match x with Const _ -> true | _ -> false)) (Bool.to_int (match x with Not _ -> true | _ -> false))
             (Bool.to_int (match x with And _ -> true | _ -> false)) (Bool.to_int (match x with Or _ -> true | _ -> false))
       | _ -> "skip")
  | ["nf"; i] ->
      (match get i with
       | Some { e_obj = OE x; e_opaque = false; _ } ->
           let (n, c, d) = (nnf false x, to_cnf x, to_dnf x) in
           let tv y = bits (obj_tv (OE y)) in
           let ins y = names (literals y) in
           let rec const_free = function Lit _ -> true | Const _ -> false | Not e -> const_free e | And es | Or es -> List.for_all const_free es in
           (* C11: same function; for constant-free input the promised shapes *)
           Printf.sprintf "nnf=%s cnf=%s dnf=%s shape=%d%d%d tvs=%s,%s,%s ins=%s;%s;%s%s"
             (show_expr n) (show_expr c) (show_expr d)
             (Bool.to_int (is_nnf n)) (Bool.to_int (is_cnf c)) (Bool.to_int (is_dnf d))
             (tv n) (tv c) (tv d) (ins n) (ins c) (ins d)
             (if const_free x then " s.shape=111" else "")
       | Some { e_obj = OE _; _ } -> "nnf=* cnf=* dnf=* shape=* tvs=* ins=*"
       | _ -> "skip")
  | ["weight"; i; expected] when List.mem (int_of_string i) !big ->
      (* unmodelled register (see bigconv): only the expected weight, which the generator knows in closed form *)
      Printf.sprintf "w=* deg=* nodes=* s.w=%s" expected
  | ["weight"; i; expected] ->
      (match get i with
       | Some { e_obj = OB b; _ } ->
           Printf.sprintf "w=%s deg=%d nodes=%d s.w=%s" (string_of_n (obj_weight (OB b))) (int_of_nat (obj_degree (OB b))) (int_of_nat (b_node_count b)) expected
       | Some { e_obj = OT t; _ } ->
           Printf.sprintf "w=%s deg=%d nodes=- s.w=%s" (string_of_n (obj_weight (OT t))) (int_of_nat (obj_degree (OT t))) expected
       | _ -> "skip")
  | ["fresh"; i] ->
      (* by canonicity (C15_diagram_determined_by_function) and wf_table, a fresh object of the same function
         over the same inputs is the same object: every comparison answers yes *)
      (match get i with
       | Some { e_obj = OE _; _ } | None -> "skip"
       | Some _ -> "fresh=11111 s.fresh=11111")
  | "pyctor" :: _ -> "pyonly py.exc=" ^ (match py_new AOther with Inr x -> exc_name x | Inl _ -> "none")
  | ("repr" | "row" | "pyvars" | "pycopy" | "pyfrom") :: _ -> "pyonly"
  | t :: _ -> raise (Bad ("query " ^ t))
  | [] -> raise (Bad "empty query")

let () =
  let ic = if Array.length Sys.argv > 1 then open_in Sys.argv.(1) else stdin in
  let case = ref "" and lineno = ref 0 and pool = ref ([] : pool) in
  (try
     while true do
       let line = input_line ic in
       let toks = List.filter (fun s -> s <> "") (String.split_on_char ' ' (String.trim line)) in
       (match toks with
        | [] -> ()
        | "case" :: id :: _ -> case := id; lineno := 0; pool := []; exact := []; big := []
        | ["end"] -> ()
        | "r" :: rest ->
            incr lineno;
            let out =
              (try
                 (* the file system is outside the model: a path that does not exist is an IOError by definition *)
                 (match rest with "csvin" :: "missing" :: _ -> raise Exit | _ -> ());
                 (* a conversion whose result is beyond the practical reach of the extracted model (a table of 2^17 rows):
                    not executed here; the register is remembered so that `weight` can still print the expected value *)
                 (match rest with "bigconv" :: _ -> raise Not_found | _ -> ());
                 let i = parse_instr rest in
                 let res = exec !pool i in
                 let pyx = py_exc_of !pool i in
                 exact := !exact @ [ exact_of i ];
                 pool := !pool @ [ (match res with Ok e -> Some e | _ -> None) ];
                 (match i, res with
                  | ICsvIn (_, txt), Err c -> "err variant=" ^ csv_err_name (int_of_nat c)
                      ^ (match csv_duplicate_name txt with Some x when int_of_nat c = 1 -> " dup=" ^ (if x = [] then "~" else hex_of_name x) | _ -> "")
                      ^ (match csv_bad_cell txt with Some x when int_of_nat c = 4 -> " cell=" ^ (if x = [] then "~" else hex_of_name x) | _ -> "")
                  | _ -> status_of res) ^ pyx
               with Bad m -> pool := !pool @ [None]; exact := !exact @ [false]; "bad:" ^ m
                  | Exit -> pool := !pool @ [None]; exact := !exact @ [false]; "err variant=IOError py.exc=" ^ exc_name exc_of_missing_file
                  | Not_found -> big := List.length !pool :: !big; pool := !pool @ [None]; exact := !exact @ [false]; "ok") in
            Printf.printf "%s %d %s\n" !case !lineno out
        | "q" :: rest ->
            incr lineno;
            let out = (try query !pool rest with Bad m -> "bad:" ^ m) in
            Printf.printf "%s %d %s\n" !case !lineno out
        | t :: _ -> incr lineno; Printf.printf "%s %d bad:%s\n" !case !lineno t)
     done
   with End_of_file -> ());
  flush stdout
