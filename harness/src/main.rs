//! Harness: interprets the case language against the real library (linked from /repo) and
//! prints one line of observations per instruction, in the same format as the model driver.
use bbf::bdd::Bdd;
use bbf::expressions::{Expression, ExpressionNode};
use bbf::table::TruthTable;
use bbf::traits::{BooleanFunction, Equality, Evaluate, Implication, PowerSet, SemanticEq};
use std::collections::{BTreeMap, BTreeSet};
use std::io::{BufRead, Write};
use std::panic::{catch_unwind, AssertUnwindSafe};

type E = Expression<String>;
type T = TruthTable<String>;
type B = Bdd<String>;

#[derive(Clone)]
enum Obj {
    E(E),
    T(T),
    B(B),
}

fn unhex(h: &str) -> String {
    if h == "-" {
        return String::new();
    }
    let bytes: Vec<u8> = (0..h.len() / 2)
        .map(|i| u8::from_str_radix(&h[2 * i..2 * i + 2], 16).unwrap())
        .collect();
    String::from_utf8(bytes).unwrap()
}
fn hex(s: &str) -> String {
    if s.is_empty() {
        return "-".to_string();
    }
    s.bytes().map(|b| format!("{:02x}", b)).collect()
}
fn names<'a, I: IntoIterator<Item = &'a String>>(it: I) -> String {
    // an empty name is written "~" so that it cannot be confused with the empty list "-"
    let v: Vec<String> = it.into_iter().map(|s| if s.is_empty() { "~".to_string() } else { hex(s) }).collect();
    if v.is_empty() {
        "-".to_string()
    } else {
        v.join(",")
    }
}
fn bits(v: &[bool]) -> String {
    if v.is_empty() {
        "-".to_string()
    } else {
        v.iter().map(|b| if *b { '1' } else { '0' }).collect()
    }
}
fn pt(p: &[bool]) -> String {
    if p.is_empty() {
        ".".to_string()
    } else {
        bits(p)
    }
}
fn pts(v: &[Vec<bool>]) -> String {
    if v.is_empty() {
        "-".to_string()
    } else {
        v.iter().map(|p| pt(p)).collect::<Vec<_>>().join(",")
    }
}

fn show_expr(e: &E) -> String {
    match e.node() {
        ExpressionNode::Literal(x) => {
            let h = hex(x);
            format!("L{}", if h == "-" { "" } else { &h })
        }
        ExpressionNode::Constant(b) => (if *b { "C1" } else { "C0" }).to_string(),
        ExpressionNode::Not(x) => format!("N({})", show_expr(x)),
        ExpressionNode::And(es) => format!("A({})", es.iter().map(show_expr).collect::<Vec<_>>().join(",")),
        ExpressionNode::Or(es) => format!("O({})", es.iter().map(show_expr).collect::<Vec<_>>().join(",")),
    }
}

fn show_dd(b: &biodivine_lib_bdd::Bdd, p: biodivine_lib_bdd::BddPointer, budget: &mut usize) -> String {
    if *budget == 0 {
        return "#".to_string();
    }
    *budget -= 1;
    if p.is_zero() {
        "F".to_string()
    } else if p.is_one() {
        "T".to_string()
    } else {
        format!(
            "V{}({},{})",
            b.var_of(p).to_index(),
            show_dd(b, b.low_link_of(p), budget),
            show_dd(b, b.high_link_of(p), budget)
        )
    }
}

fn show_struct(o: &Obj) -> String {
    match o {
        Obj::E(e) => show_expr(e),
        Obj::T(t) => {
            let (i, o) = t.verif_raw();
            format!("{}:{}", names(i.iter()), bits(o))
        }
        Obj::B(b) => {
            let inner = b.inner();
            let mut budget = 200000usize;
            let tree = show_dd(inner, inner.root_pointer(), &mut budget);
            let valid = match inner.validate() {
                Ok(()) => "".to_string(),
                Err(_) => "!invalid".to_string(),
            };
            format!("{}:{}:{}{}", names(b.verif_inputs().iter()), inner.num_vars(), tree, valid)
        }
    }
}

fn inputs_of(o: &Obj) -> BTreeSet<String> {
    match o {
        Obj::E(e) => e.inputs(),
        Obj::T(t) => t.inputs(),
        Obj::B(b) => b.inputs(),
    }
}
fn eval_default(o: &Obj, v: &BTreeMap<String, bool>, d: bool) -> bool {
    match o {
        Obj::E(e) => e.evaluate_with_default(v, d),
        Obj::T(t) => t.evaluate_with_default(v, d),
        Obj::B(b) => b.evaluate_with_default(v, d),
    }
}
fn eval_plain(o: &Obj, v: &BTreeMap<String, bool>) -> bool {
    match o {
        Obj::E(e) => e.evaluate(v),
        Obj::T(t) => t.evaluate(v),
        Obj::B(b) => b.evaluate(v),
    }
}
fn eval_checked(o: &Obj, v: &BTreeMap<String, bool>) -> Result<bool, Vec<String>> {
    match o {
        Obj::E(e) => e.evaluate_checked(v),
        Obj::T(t) => t.evaluate_checked(v),
        Obj::B(b) => b.evaluate_checked(v),
    }
}

/// all points of dimension n in lexicographic order, computed here (not by the library)
fn all_points(n: usize) -> Vec<Vec<bool>> {
    let mut out = Vec::new();
    for i in 0..(1usize << n) {
        out.push((0..n).map(|k| (i >> (n - 1 - k)) & 1 == 1).collect());
    }
    out
}

fn truth_vector(o: &Obj) -> Vec<bool> {
    let ins: Vec<String> = inputs_of(o).into_iter().collect();
    all_points(ins.len())
        .into_iter()
        .map(|p| {
            let v: BTreeMap<String, bool> = ins.iter().cloned().zip(p).collect();
            eval_plain(o, &v)
        })
        .collect()
}

// ---- the Debug rendering of Vec<FinalToken> (the type is not nameable from outside the crate) ----
struct P {
    c: Vec<char>,
    i: usize,
}
impl P {
    fn eat(&mut self, s: &str) -> bool {
        let n = s.chars().count();
        if self.i + n <= self.c.len() && self.c[self.i..self.i + n].iter().collect::<String>() == s {
            self.i += n;
            true
        } else {
            false
        }
    }
    fn string(&mut self) -> String {
        assert!(self.eat("\""));
        let mut out = String::new();
        loop {
            let ch = self.c[self.i];
            self.i += 1;
            if ch == '"' {
                break;
            }
            if ch == '\\' {
                let e = self.c[self.i];
                self.i += 1;
                match e {
                    'n' => out.push('\n'),
                    'r' => out.push('\r'),
                    't' => out.push('\t'),
                    '0' => out.push('\0'),
                    '\\' => out.push('\\'),
                    '"' => out.push('"'),
                    '\'' => out.push('\''),
                    'u' => {
                        assert!(self.eat("{"));
                        let mut h = String::new();
                        while self.c[self.i] != '}' {
                            h.push(self.c[self.i]);
                            self.i += 1;
                        }
                        self.i += 1;
                        out.push(char::from_u32(u32::from_str_radix(&h, 16).unwrap()).unwrap());
                    }
                    _ => panic!("escape {}", e),
                }
            } else {
                out.push(ch);
            }
        }
        out
    }
    fn list(&mut self) -> String {
        assert!(self.eat("["));
        let mut items = vec![];
        if self.eat("]") {
            return "[]".to_string();
        }
        loop {
            items.push(self.tok());
            if self.eat(", ") {
                continue;
            }
            assert!(self.eat("]"));
            break;
        }
        format!("[{}]", items.join(","))
    }
    fn tok(&mut self) -> String {
        if self.eat("And") {
            "And".into()
        } else if self.eat("Or") {
            "Or".into()
        } else if self.eat("Not") {
            "Not".into()
        } else if self.eat("ConstantTrue") {
            "T".into()
        } else if self.eat("ConstantFalse") {
            "F".into()
        } else if self.eat("Literal(") {
            let s = self.string();
            assert!(self.eat(")"));
            let h = hex(&s);
            format!("L{}", if h == "-" { "" } else { &h })
        } else if self.eat("Parentheses(") {
            let l = self.list();
            assert!(self.eat(")"));
            format!("P{}", l)
        } else {
            panic!("token at {}", self.i)
        }
    }
}
fn canon_tokens(dbg: &str) -> String {
    let mut p = P { c: dbg.chars().collect(), i: 0 };
    let r = p.list();
    assert!(p.i == p.c.len());
    r
}
fn canon_tok_err(dbg: &str) -> String {
    let name: String = dbg.chars().take_while(|c| c.is_alphanumeric()).collect();
    match dbg.find("position: ") {
        Some(k) => {
            let d: String = dbg[k + 10..].chars().take_while(|c| c.is_ascii_digit()).collect();
            format!("err:{}@{}", name, d)
        }
        None => format!("err:{}", name),
    }
}

const TV_LIMIT: usize = 12;
fn digest(e: &E) -> (String, String) {
    let ins = e.inputs();
    let tv = if ins.len() > TV_LIMIT {
        "skip".to_string()
    } else {
        match catch_unwind(AssertUnwindSafe(|| truth_vector(&Obj::E(e.clone())))) {
            Ok(v) => bits(&v),
            Err(_) => "panic".to_string(),
        }
    };
    (names(ins.iter()), tv)
}

fn parse_fields(s: &str) -> (String, Option<E>) {
    use std::str::FromStr;
    let tok = match catch_unwind(AssertUnwindSafe(|| bbf::parser::tokenize(s))) {
        Err(_) => "panic".to_string(),
        Ok(Ok(t)) => canon_tokens(&format!("{:?}", t)),
        Ok(Err(e)) => canon_tok_err(&format!("{:?}", e)),
    };
    // the Display text of an error is what a caller (and every Python user) sees: it must exist and be the same
    // text whenever the same string is parsed (`i.`: not an observation of the model)
    let msg = match catch_unwind(AssertUnwindSafe(|| E::from_str(s).err().map(|e| e.to_string()))) {
        Err(_) => " i.msg=panic".to_string(),
        Ok(None) => String::new(),
        Ok(Some(m)) => format!(" i.msg={}", hex(&m)),
    };
    let (parse, show, eo) = match catch_unwind(AssertUnwindSafe(|| E::from_str(s))) {
        Err(_) => ("panic".to_string(), "-".to_string(), None),
        Ok(Ok(e)) => (show_expr(&e), hex(&e.to_string()), Some(e)),
        Ok(Err(bbf::parser::ParseError::TokenizingError(e))) => (canon_tok_err(&format!("{:?}", e)), "-".to_string(), None),
        Ok(Err(bbf::parser::ParseError::ParsingError(e))) => (format!("err:{:?}", e), "-".to_string(), None),
    };
    let pt = match catch_unwind(AssertUnwindSafe(|| bbf::parser::tokenize(s).ok().map(|t| bbf::parser::parse_tokens(&t)))) {
        Err(_) => "panic".to_string(),
        Ok(None) => "-".to_string(),
        Ok(Some(Ok(e))) => show_expr(&e),
        Ok(Some(Err(e))) => format!("err:{:?}", e),
    };
    (format!("tok={} parse={} pt={} show={}{}", tok, parse, pt, show, msg), eo)
}

fn kind_char(o: &Obj) -> &'static str {
    match o {
        Obj::E(_) => "E",
        Obj::T(_) => "T",
        Obj::B(_) => "B",
    }
}

fn parse_pe<'a>(toks: &mut std::slice::Iter<'a, &'a str>) -> E {
    match *toks.next().expect("expr eof") {
        "L" => ExpressionNode::Literal(unhex(toks.next().unwrap())).into(),
        "C" => ExpressionNode::Constant(*toks.next().unwrap() == "1").into(),
        "N" => ExpressionNode::Not(parse_pe(toks)).into(),
        "A" => {
            let n: usize = toks.next().unwrap().parse().unwrap();
            ExpressionNode::And((0..n).map(|_| parse_pe(toks)).collect()).into()
        }
        "O" => {
            let n: usize = toks.next().unwrap().parse().unwrap();
            ExpressionNode::Or((0..n).map(|_| parse_pe(toks)).collect()).into()
        }
        t => panic!("bad expr token {t}"),
    }
}

enum Step {
    Ok(Obj),
    Err,
    ErrV(String),
    Na,
}

fn csv_err_name(e: &bbf::table::csv::error::TruthTableFromCsvError) -> &'static str {
    use bbf::table::csv::error::TruthTableFromCsvError::*;
    match e {
        DuplicateVariableName { .. } => "DuplicateVariableName",
        UnexpectedEof => "UnexpectedEof",
        RecordDifferentSizeThanHeader { .. } => "RecordDifferentSizeThanHeader",
        NonBooleanCellValue { .. } => "NonBooleanCellValue",
        NoOutputColumn => "NoOutputColumn",
        MismatchedRecordCountAndVariableCount { .. } => "MismatchedRecordCountAndVariableCount",
        NoDelimiterFound => "NoDelimiterFound",
        ParsingError(_) => "ParsingError",
        IOError(_) => "IOError",
    }
}
fn show_table(t: &T) -> String {
    let (i, o) = t.verif_raw();
    format!("{}:{}", names(i.iter()), bits(o))
}
fn csv_in(file: bool, text: &str) -> Result<T, String> {
    let r = if file {
        use std::io::Write as _;
        let mut f = tempfile::NamedTempFile::new().unwrap();
        f.write_all(text.as_bytes()).unwrap();
        f.flush().unwrap();
        T::from_csv_file(f.path())
    } else {
        T::from_csv_string(text)
    };
    match r {
        Ok(t) => Ok(t),
        Err(e) => {
            // the message must be printable too (it is what Python users see)
            // ... and is part of the result (determinism): `i.` marks an observation the model does not make
            // (the io::Error text of the file entry point is the operating system's, not compared)
            let msg = e.to_string();
            let dup = match &e {
                bbf::table::csv::error::TruthTableFromCsvError::DuplicateVariableName { name } => format!(" dup={}", if name.is_empty() { "~".to_string() } else { hex(name) }),
                bbf::table::csv::error::TruthTableFromCsvError::NonBooleanCellValue { actual } => format!(" cell={}", if actual.is_empty() { "~".to_string() } else { hex(actual) }),
                _ => String::new(),
            };
            if csv_err_name(&e) == "IOError" { Err(csv_err_name(&e).to_string()) } else { Err(format!("{}{} i.msg={}", csv_err_name(&e), dup, hex(&msg))) }
        }
    }
}
fn fmt_of(s: &str) -> bbf::table::display_formatted::TableBooleanFormatting {
    use bbf::table::display_formatted::TableBooleanFormatting::*;
    match s {
        "N" => Number,
        "C" => Character,
        "W" => Word,
        "K" => CapitalizedWord,
        _ => panic!("fmt"),
    }
}
fn sty_of(s: &str) -> bbf::table::display_formatted::TableStyle {
    use bbf::table::display_formatted::TableStyle::*;
    match s {
        "A" => Ascii,
        "M" => Modern,
        "D" => Markdown,
        "E" => Empty,
        _ => panic!("style"),
    }
}

fn valuation(n: usize, rest: &[&str]) -> BTreeMap<String, bool> {
    (0..n).map(|k| (unhex(rest[2 * k]), rest[2 * k + 1] == "1")).collect()
}

fn t_op2(o: &str, form: &str, a: &T, b: &T) -> T {
    let by_ref = form == "ref";
    match o {
        "and" => if by_ref { a & b } else { a.clone() & b.clone() },
        "or" => if by_ref { a | b } else { a.clone() | b.clone() },
        "xor" => if by_ref { a ^ b } else { a.clone() ^ b.clone() },
        "imply" => if by_ref { &(!a) | b } else { (!a.clone()) | b.clone() },
        "iff" => if by_ref { &(a & b) | &(&(!a) & &(!b)) } else { (a.clone() & b.clone()) | ((!a.clone()) & (!b.clone())) },
        _ => panic!("bad op2"),
    }
}
fn b_op2(o: &str, form: &str, a: &B, b: &B) -> B {
    match (o, form) {
        ("and", "ref") => a & b,
        ("and", "assign") => { let mut x = a.clone(); x &= b.clone(); x }
        ("and", _) => a.clone() & b.clone(),
        ("or", "ref") => a | b,
        ("or", "assign") => { let mut x = a.clone(); x |= b.clone(); x }
        ("or", _) => a.clone() | b.clone(),
        ("xor", "ref") => a ^ b,
        ("xor", "assign") => { let mut x = a.clone(); x ^= b.clone(); x }
        ("xor", _) => a.clone() ^ b.clone(),
        ("imply", "ref") => &(!a) | b,
        ("imply", _) => (!a.clone()) | b.clone(),
        ("iff", "ref") => &(a & b) | &(&(!a) & &(!b)),
        ("iff", _) => (a.clone() & b.clone()) | ((!a.clone()) & (!b.clone())),
        _ => panic!("bad op2"),
    }
}

fn exec(pool: &[Option<Obj>], toks: &[&str]) -> Step {
    let reg = |s: &str| -> Option<Obj> { pool.get(s.parse::<usize>().unwrap()).cloned().flatten() };
    macro_rules! need {
        ($e:expr) => {
            match $e {
                Some(x) => x,
                None => return Step::Na,
            }
        };
    }
    match toks[0] {
        "expr" => {
            let mut it = toks[1..].iter();
            Step::Ok(Obj::E(parse_pe(&mut it)))
        }
        "op1" => {
            let x = need!(reg(toks[2]));
            match (toks[1], x) {
                ("not", Obj::E(e)) => Step::Ok(Obj::E(!e)),
                ("not", Obj::T(t)) => Step::Ok(Obj::T(!t)),
                ("not", Obj::B(b)) => Step::Ok(Obj::B(!b)),
                ("nnf", Obj::E(e)) => Step::Ok(Obj::E(e.to_nnf())),
                ("cnf", Obj::E(e)) => Step::Ok(Obj::E(e.to_cnf())),
                ("dnf", Obj::E(e)) => Step::Ok(Obj::E(e.to_dnf())),
                _ => Step::Na,
            }
        }
        "op2" => {
            let x = need!(reg(toks[3]));
            let y = need!(reg(toks[4]));
            match (x, y) {
                (Obj::E(a), Obj::E(b)) => Step::Ok(Obj::E(match toks[1] {
                    "and" => a & b,
                    "or" => a | b,
                    "xor" => a ^ b,
                    "imply" => a.imply(b),
                    "iff" => a.iff(b),
                    _ => panic!("bad op2"),
                })),
                (Obj::T(a), Obj::T(b)) => Step::Ok(Obj::T(t_op2(toks[1], toks[2], &a, &b))),
                (Obj::B(a), Obj::B(b)) => Step::Ok(Obj::B(b_op2(toks[1], toks[2], &a, &b))),
                _ => Step::Na,
            }
        }
        "conv" | "bigconv" => {
            let x = need!(reg(toks[2]));
            match (toks[1], x) {
                ("E", Obj::E(e)) => Step::Ok(Obj::E(e)),
                ("T", Obj::T(t)) => Step::Ok(Obj::T(t)),
                ("B", Obj::B(b)) => Step::Ok(Obj::B(b)),
                ("T", Obj::E(e)) => Step::Ok(Obj::T(T::from(e))),
                ("B", Obj::E(e)) => match B::try_from(e) {
                    Ok(b) => Step::Ok(Obj::B(b)),
                    Err(_) => Step::Err,
                },
                ("E", Obj::T(t)) => Step::Ok(Obj::E(t.to_expression_trivial())),
                ("B", Obj::T(t)) => match B::try_from(t) {
                    Ok(b) => Step::Ok(Obj::B(b)),
                    Err(_) => Step::Err,
                },
                ("E", Obj::B(b)) => Step::Ok(Obj::E(E::from(b))),
                ("T", Obj::B(b)) => Step::Ok(Obj::T(T::from(b))),
                _ => Step::Na,
            }
        }
        "restrict" => {
            let x = need!(reg(toks[1]));
            let n: usize = toks[2].parse().unwrap();
            let v = valuation(n, &toks[3..]);
            Step::Ok(match x {
                Obj::E(e) => Obj::E(e.restrict(&v)),
                Obj::T(t) => Obj::T(t.restrict(&v)),
                Obj::B(b) => Obj::B(b.restrict(&v)),
            })
        }
        q @ ("exists" | "forall" | "deriv") => {
            let x = need!(reg(toks[1]));
            let n: usize = toks[2].parse().unwrap();
            let vars: BTreeSet<String> = (0..n).map(|k| unhex(toks[3 + k])).collect();
            macro_rules! quant {
                ($f:expr) => {
                    match q {
                        "exists" => $f.existential_quantification(vars),
                        "forall" => $f.universal_quantification(vars),
                        _ => $f.derivative(vars),
                    }
                };
            }
            Step::Ok(match x {
                Obj::E(e) => Obj::E(quant!(e)),
                Obj::T(t) => Obj::T(quant!(t)),
                Obj::B(b) => Obj::B(quant!(b)),
            })
        }
        "subst" => {
            let x = need!(reg(toks[1]));
            let n: usize = toks[2].parse().unwrap();
            let mut items = Vec::new();
            for k in 0..n {
                items.push((unhex(toks[3 + 2 * k]), need!(reg(toks[4 + 2 * k]))));
            }
            match x {
                Obj::E(e) => {
                    let mut m = BTreeMap::new();
                    for (k, o) in items {
                        match o {
                            Obj::E(g) => { m.insert(k, g); }
                            _ => return Step::Na,
                        }
                    }
                    Step::Ok(Obj::E(e.substitute(&m)))
                }
                Obj::T(t) => {
                    let mut m = BTreeMap::new();
                    for (k, o) in items {
                        match o {
                            Obj::T(g) => { m.insert(k, g); }
                            _ => return Step::Na,
                        }
                    }
                    Step::Ok(Obj::T(t.substitute(&m)))
                }
                Obj::B(b) => {
                    let mut m = BTreeMap::new();
                    for (k, o) in items {
                        match o {
                            Obj::B(g) => { m.insert(k, g); }
                            _ => return Step::Na,
                        }
                    }
                    Step::Ok(Obj::B(b.substitute(&m)))
                }
            }
        }
        "mkconst" => match toks[1] {
            "E" => Step::Ok(Obj::E(bbf::expressions::bool(toks[2] == "1"))),
            "B" => Step::Ok(Obj::B(B::mk_const(toks[2] == "1"))),
            _ => Step::Na,
        },
        "mkliteral" => {
            let x = unhex(toks[2]);
            let v = toks[3] == "1";
            match toks[1] {
                "E" => {
                    let l = bbf::expressions::var(x);
                    Step::Ok(Obj::E(if v { l } else { Expression::negate(&l) }))
                }
                "B" => Step::Ok(Obj::B(B::mk_literal(x, v))),
                _ => Step::Na,
            }
        }
        "nary" => {
            let n: usize = toks[2].parse().unwrap();
            let mut es = Vec::new();
            for k in 0..n {
                match need!(reg(toks[3 + k])) {
                    Obj::E(e) => es.push(e),
                    _ => return Step::Na,
                }
            }
            Step::Ok(Obj::E(if toks[1] == "and" { Expression::n_ary_and(&es) } else { Expression::n_ary_or(&es) }))
        }
        "binary" => {
            let x = need!(reg(toks[2]));
            let y = need!(reg(toks[3]));
            match (x, y) {
                (Obj::E(a), Obj::E(b)) => Step::Ok(Obj::E(if toks[1] == "and" {
                    Expression::binary_and(&a, &b)
                } else {
                    Expression::binary_or(&a, &b)
                })),
                _ => Step::Na,
            }
        }
        "csvin" if toks[1] == "missing" => {
            // a path that does not exist: the io::Error passes through as TruthTableFromCsvError::IOError
            let d = tempfile::tempdir().unwrap();
            match T::from_csv_file(d.path().join("does-not-exist.csv")) {
                Ok(t) => Step::Ok(Obj::T(t)),
                Err(e) => {
                    let _ = e.to_string();
                    Step::ErrV(csv_err_name(&e).to_string())
                }
            }
        }
        "csvin" => match csv_in(toks[1] == "file", &unhex(toks[2])) {
            Ok(t) => Step::Ok(Obj::T(t)),
            Err(v) => Step::ErrV(v),
        },
        "parse" => {
            use std::str::FromStr;
            match E::from_str(&unhex(toks[1])) {
                Ok(e) => Step::Ok(Obj::E(e)),
                Err(_) => Step::Err,
            }
        }
        "negate" => match need!(reg(toks[1])) {
            Obj::E(a) => Step::Ok(Obj::E(Expression::negate(&a))),
            _ => Step::Na,
        },
        t => panic!("bad instr {t}"),
    }
}

fn show_checked(r: Result<bool, Vec<String>>) -> String {
    match r {
        Ok(b) => format!("ok:{}", if b { 1 } else { 0 }),
        Err(l) => format!("missing:{}", names(l.iter())),
    }
}

fn query(pool: &[Option<Obj>], toks: &[&str]) -> String {
    let reg = |s: &str| -> Option<Obj> { pool.get(s.parse::<usize>().unwrap()).cloned().flatten() };
    match toks[0] {
        "obs" => match reg(toks[1]) {
            None => "skip".to_string(),
            Some(o) => {
                let is_empty_table = matches!(&o, Obj::T(t) if t.verif_raw().1.is_empty());
                let tv = if is_empty_table {
                    "-".to_string()
                } else {
                    match catch_unwind(AssertUnwindSafe(|| truth_vector(&o))) {
                        Ok(v) => bits(&v),
                        Err(_) => "panic".to_string(),
                    }
                };
                format!(
                    "kind={} struct={} inputs={} tv={}",
                    kind_char(&o),
                    show_struct(&o),
                    names(inputs_of(&o).iter()),
                    tv
                )
            }
        },
        "enum" => match reg(toks[1]) {
            None => "skip".to_string(),
            Some(o) => {
                macro_rules! en {
                    ($f:expr, $is_b:expr, $nodes:expr) => {{
                        let f = $f;
                        // an enumeration that does not end must show as a wrong answer, not exhaust the memory:
                        // at most 2^n + 3 items are taken (more than any correct enumeration has)
                        let cap = (1usize << f.degree().min(24)) + 3;
                        let dom: Vec<Vec<bool>> = f.domain().take(cap).collect();
                        let img: Vec<bool> = f.image().take(cap).collect();
                        let rel: Vec<(Vec<bool>, bool)> = f.relation().take(cap).collect();
                        let mut sup: Vec<Vec<bool>> = f.support().take(cap).collect();
                        if $is_b {
                            sup.sort();
                        }
                        let rel_s = if rel.is_empty() {
                            "-".to_string()
                        } else {
                            rel.iter().map(|(p, b)| format!("{}:{}", pt(p), if *b { 1 } else { 0 })).collect::<Vec<_>>().join(",")
                        };
                        // iterators must stay exhausted
                        let mut it = f.domain();
                        for _ in 0..dom.len() { it.next(); }
                        let fused = it.next().is_none() && it.next().is_none();
                        let sat = f.sat_point();
                        let sat_s = match &sat { None => "none".to_string(), Some(p) => pt(p) };
                        // the iterator protocol itself (Model/Iter.v): the four iterators are created first and then
                        // stepped in turn by next(), 2^n + 2 times each; nth(n) and nth(2^n - 1) each followed by one
                        // more next(); count() of the image; last() of the domain
                        let iters = if f.degree() > 12 { String::new() } else {
                            let n = f.degree();
                            let k = (1usize << n) + 2;
                            let (mut i1, mut i2, mut i3, mut i4) = (f.domain(), f.image(), f.relation(), f.support());
                            let (mut d, mut im, mut rl, mut su) = (vec![], vec![], vec![], vec![]);
                            for _ in 0..k {
                                d.push(i1.next());
                                im.push(i2.next());
                                rl.push(i3.next());
                                su.push(i4.next());
                            }
                            let optp = |o: &Option<Vec<bool>>| match o { None => "~".to_string(), Some(p) => pt(p) };
                            let optr = |o: &Option<(Vec<bool>, bool)>| match o { None => "~".to_string(), Some((p, b)) => format!("{}:{}", pt(p), *b as u8) };
                            if $is_b {
                                // order of a diagram's support is lib-bdd's: items sorted, the None answers kept in place
                                let mut some: Vec<Option<Vec<bool>>> = su.iter().filter(|x| x.is_some()).cloned().collect();
                                some.sort();
                                let mut it = some.into_iter();
                                su = su.iter().map(|x| if x.is_some() { it.next().unwrap() } else { None }).collect();
                            }
                            let nth2 = (1usize << n) - 1;
                            let (mut a1, mut a2, mut a3, mut a4) = (f.domain(), f.domain(), f.relation(), f.relation());
                            let (x1, x2, x3, x4) = (a1.nth(n), a2.nth(nth2), a3.nth(n), a4.nth(nth2));
                            // partly consumed iterators (after nth(n) and one more next()): count(), last(), and
                            // size_hint() must bound what is really left
                            let (mut c1, mut c2, mut c3) = (f.domain(), f.domain(), f.image());
                            c1.nth(n); c1.next(); c2.nth(n); c2.next(); c3.nth(n); c3.next();
                            let rest = format!("{}/{};{}", c1.count(), optp(&c2.last()), c3.count());
                            let mut sh_ok = true;
                            macro_rules! hint { ($it:expr) => {{ let mut it = $it; it.nth(n); it.next(); let (lo, hi) = it.size_hint(); let rem = it.count(); if lo > rem || hi.map_or(false, |h| rem > h) { sh_ok = false; } }}; }
                            hint!(f.domain()); hint!(f.image()); hint!(f.relation()); hint!(f.support());
                            macro_rules! hint0 { ($it:expr) => {{ let it = $it; let (lo, hi) = it.size_hint(); let rem = it.count(); if lo > rem || hi.map_or(false, |h| rem > h) { sh_ok = false; } }}; }
                            hint0!(f.domain()); hint0!(f.image()); hint0!(f.relation()); hint0!(f.support());
                            format!(
                                " nx.dom={} nx.img={} nx.rel={} nx.sup={} nth.dom={}/{};{}/{} nth.rel={}/{};{}/{} cnt.img={} last.dom={} rest={}{}",
                                d.iter().map(optp).collect::<Vec<_>>().join(","),
                                im.iter().map(|o| match o { None => "~", Some(true) => "1", Some(false) => "0" }).collect::<Vec<_>>().join(""),
                                rl.iter().map(optr).collect::<Vec<_>>().join(","),
                                su.iter().map(optp).collect::<Vec<_>>().join(","),
                                optp(&x1), optp(&a1.next()), optp(&x2), optp(&a2.next()),
                                optr(&x3), optr(&a3.next()), optr(&x4), optr(&a4.next()),
                                f.image().count(),
                                optp(&f.domain().last()),
                                rest,
                                if sh_ok { "" } else { " sh=0" }
                            )
                        };
                        format!(
                            "kind={} inputs={} ess={} deg={} essdeg={} dom={} img={} rel={} sup={} w={} sat={} nodes={}{}{}",
                            kind_char(&o),
                            names(f.inputs().iter()),
                            names(f.essential_inputs().iter()),
                            f.degree(),
                            f.essential_degree(),
                            pts(&dom),
                            bits(&img),
                            rel_s,
                            pts(&sup),
                            f.weight(),
                            sat_s,
                            $nodes,
                            if fused { "" } else { " fused=0" },
                            iters
                        )
                    }};
                }
                // generate_power_set: every assignment of the inputs, in the order the code produces them
                fn pset_str(vals: Vec<BTreeMap<String, bool>>) -> String {
                    if vals.is_empty() {
                        return "-".to_string();
                    }
                    vals.iter().map(|v| pt(&v.values().cloned().collect::<Vec<_>>())).collect::<Vec<_>>().join(",")
                }
                match &o {
                    Obj::E(e) => format!("{} pset={}", en!(e, false, "-".to_string()), pset_str(e.generate_power_set())),
                    Obj::T(t) => {
                        let rows: Vec<Vec<bool>> = (0..t.row_count()).map(|i| t.row(i)).collect();
                        let rwo: Vec<String> = (0..t.row_count()).map(|i| { let (p, b) = t.row_with_output(i); format!("{}:{}", pt(&p), b as u8) }).collect();
                        format!(
                            "{} pset={} rows={} rwo={} nrows={} nvars={}",
                            en!(t, false, "-".to_string()),
                            pset_str(t.generate_power_set()),
                            pts(&rows),
                            if rwo.is_empty() { "-".to_string() } else { rwo.join(",") },
                            t.row_count(),
                            t.variable_count()
                        )
                    }
                    Obj::B(b) => en!(b, true, b.node_count().to_string()),
                }
            }
        },
        "eval" => match reg(toks[1]) {
            None => "skip".to_string(),
            Some(o) => {
                let n: usize = toks[3].parse().unwrap();
                let v = valuation(n, &toks[4..]);
                if toks[2] == "-" {
                    format!("checked={}", show_checked(eval_checked(&o, &v)))
                } else {
                    let d = toks[2] == "1";
                    let r = eval_default(&o, &v, d);
                    // `evaluate` is `evaluate_with_default(false)`
                    if !d && eval_plain(&o, &v) != r {
                        return "val=inconsistent".to_string();
                    }
                    format!("val={}", if r { 1 } else { 0 })
                }
            }
        },
        q @ ("equiv" | "implied" | "semeq") => match (reg(toks[1]), reg(toks[2])) {
            (Some(x), Some(y)) => {
                let ans = match (q, &x, &y) {
                    ("equiv", Obj::E(a), Obj::E(b)) => Some(a.is_equivalent(b)),
                    ("equiv", Obj::T(a), Obj::T(b)) => Some(a.is_equivalent(b)),
                    ("equiv", Obj::B(a), Obj::B(b)) => Some(a.is_equivalent(b)),
                    ("implied", Obj::E(a), Obj::E(b)) => Some(a.is_implied_by(b)),
                    ("implied", Obj::T(a), Obj::T(b)) => Some(a.is_implied_by(b)),
                    ("implied", Obj::B(a), Obj::B(b)) => Some(a.is_implied_by(b)),
                    ("semeq", Obj::E(a), Obj::E(b)) => {
                        let r = a.semantic_eq(b);
                        if a.semantic_ne(b) == r { None } else { Some(r) }
                    }
                    ("semeq", Obj::T(a), Obj::T(b)) => {
                        let r = a.semantic_eq(b);
                        if a.semantic_ne(b) == r { None } else { Some(r) }
                    }
                    ("semeq", Obj::B(a), Obj::B(b)) => Some(a.is_equivalent(b)),
                    _ => return "ans=na".to_string(),
                };
                match ans {
                    Some(b) => format!("ans={}", if b { 1 } else { 0 }),
                    None => "ans=inconsistent".to_string(),
                }
            }
            _ => "skip".to_string(),
        },
        "parse" => {
            let (f, eo) = parse_fields(&unhex(toks[1]));
            match eo {
                Some(e) => {
                    let (i, tv) = digest(&e);
                    format!("{} acc=1 inputs={} tv={}", f, i, tv)
                }
                None => format!("{} acc=0", f),
            }
        }
        "csvout" => match reg(toks[1]) {
            Some(Obj::T(t)) => {
                let text = t.to_csv_formatted(',', fmt_of(toks[2]), fmt_of(toks[3]));
                let back = match catch_unwind(AssertUnwindSafe(|| csv_in(false, &text))) {
                    Ok(Ok(t2)) => format!("ok:{}", show_table(&t2)),
                    Ok(Err(v)) => format!("err:{}", v),
                    Err(_) => "panic".to_string(),
                };
                format!("text={} round={}", hex(&text), back)
            }
            _ => "skip".to_string(),
        },
        "csvdef" => match reg(toks[1]) {
            Some(Obj::T(t)) => format!("text={}", hex(&t.to_csv())),
            _ => "skip".to_string(),
        },
        "render" => match reg(toks[1]) {
            Some(Obj::T(t)) => format!(
                "text={}",
                hex(&t.to_string_formatted(sty_of(toks[2]), fmt_of(toks[3]), fmt_of(toks[4])))
            ),
            _ => "skip".to_string(),
        },
        "display" => match reg(toks[1]) {
            Some(Obj::T(t)) => format!("text={}", hex(&t.to_string())),
            Some(Obj::E(e)) => format!("text={}", hex(&e.to_string())),
            _ => "skip".to_string(),
        },
        "show" => match reg(toks[1]) {
            Some(Obj::E(e)) => format!("show={}", hex(&e.to_string())),
            _ => "skip".to_string(),
        },
        "roundtrip" => match reg(toks[1]) {
            Some(Obj::E(x)) => {
                let text = x.to_string();
                let (f, eo) = parse_fields(&text);
                match eo {
                    Some(e) => {
                        let (i, tv) = digest(&e);
                        format!("text={} {} acc=1 inputs={} tv={}", hex(&text), f, i, tv)
                    }
                    None => format!("text={} {} acc=0", hex(&text), f),
                }
            }
            _ => "skip".to_string(),
        },
        // ---- queries used by the Python comparison (C19): what the binding source says each method forwards to
        "repr" => match reg(toks[1]) {
            Some(Obj::E(e)) => format!("repr={} str={}", hex(&format!("PythonExpression(\"{}\")", e)), hex(&e.to_string())),
            Some(Obj::T(t)) => format!("repr={} str={}", hex(&format!("PythonTruthTable(\n{})", t)), hex(&t.to_string())),
            Some(Obj::B(b)) => format!("repr={} str={}", hex(&format!("{:?}", b)), hex(&format!("{:?}", b))),
            None => "skip".to_string(),
        },
        "rename" => match reg(toks[1]) {
            Some(Obj::E(e)) => {
                let n: usize = toks[2].parse().unwrap();
                let m: BTreeMap<String, String> = (0..n).map(|k| (unhex(toks[3 + 2 * k]), unhex(toks[4 + 2 * k]))).collect();
                let r = Obj::E(e.rename_literals(&m));
                format!("ren={} inputs={} rtv={}", show_struct(&r), names(inputs_of(&r).iter()), bits(&truth_vector(&r)))
            }
            _ => "skip".to_string(),
        },
        "p2v" => {
            let p: Vec<bool> = if toks[2] == "." { vec![] } else { toks[2].chars().map(|c| c == '1').collect() };
            let show = |v: Option<BTreeMap<String, bool>>| match v {
                None => "none".to_string(),
                Some(m) => if m.is_empty() { "-".to_string() } else { m.iter().map(|(k, b)| format!("{}:{}", if k.is_empty() { "~".to_string() } else { hex(k) }, *b as u8)).collect::<Vec<_>>().join(",") },
            };
            match reg(toks[1]) {
                Some(Obj::E(e)) => format!("p2v={}", show(e.boolean_point_to_valuation(p))),
                Some(Obj::T(t)) => format!("p2v={}", show(t.boolean_point_to_valuation(p))),
                _ => "skip".to_string(),
            }
        }
        "row" => match reg(toks[1]) {
            Some(Obj::T(t)) => format!("row={}", bits(&t.row(toks[2].parse().unwrap()))),
            _ => "skip".to_string(),
        },
        "pyctor" => "exc=TypeError".to_string(),
        "pyvars" => {
            let names_: Vec<String> = toks[1..].iter().map(|h| unhex(h)).collect();
            format!(
                "vars={} var={} bool={}",
                names_.iter().map(|n| hex(&bbf::expressions::var(n).to_string())).collect::<Vec<_>>().join(","),
                hex(&bbf::expressions::var(&names_[0]).to_string()),
                hex(&bbf::expressions::bool(true).to_string())
            )
        }
        "pycopy" => match reg(toks[1]) {
            Some(Obj::E(e)) => format!("show={}", hex(&e.clone().to_string())),
            _ => "skip".to_string(),
        },
        "pyfrom" => match reg(toks[1]) {
            Some(_) => "same=11".to_string(),
            None => "skip".to_string(),
        },
        // a freshly built object of the same function over the same inputs must be indistinguishable (C15)
        "fresh" => match reg(toks[1]) {
            Some(o) => {
                let ins: Vec<String> = inputs_of(&o).into_iter().collect();
                let tv = truth_vector(&o);
                let n = ins.len();
                let lit = |i: usize| -> E { ExpressionNode::Literal(ins[i].clone()).into() };
                let mut terms: Vec<E> = vec![];
                for (row, val) in tv.iter().enumerate() {
                    if *val {
                        let cells: Vec<E> = (0..n)
                            .map(|i| if (row >> (n - 1 - i)) & 1 == 1 { lit(i) } else { Expression::negate(&lit(i)) })
                            .collect();
                        terms.push(if n == 0 { ExpressionNode::Constant(true).into() } else { Expression::n_ary_and(&cells) });
                    }
                }
                for i in 0..n {
                    terms.push(Expression::n_ary_and(&[lit(i), Expression::negate(&lit(i))]));
                }
                let e: E = if terms.is_empty() { ExpressionNode::Constant(false).into() } else { Expression::n_ary_or(&terms) };
                let b = |x: bool| if x { '1' } else { '0' };
                match &o {
                    Obj::E(_) => "skip".to_string(),
                    Obj::T(t) => {
                        let f = T::from(e);
                        format!("fresh={}{}{}{}{}", b(*t == f), b(t.is_equivalent(&f)), b(f.is_equivalent(t)), b(t.is_implied_by(&f)), b(f.is_implied_by(t)))
                    }
                    Obj::B(d) => {
                        let f = B::try_from(e).unwrap();
                        format!("fresh={}{}{}{}{}", b(d.node_count() == f.node_count()), b(d.is_equivalent(&f)), b(f.is_equivalent(d)), b(d.is_implied_by(&f)), b(f.is_implied_by(d)))
                    }
                }
            }
            None => "skip".to_string(),
        },
        // normal forms computed and dropped at once (nothing is kept alive between calls)
        "nf" => match reg(toks[1]) {
            Some(Obj::E(e)) => {
                let (n, c, d) = (e.to_nnf(), e.to_cnf(), e.to_dnf());
                let tv = |x: &E| match catch_unwind(AssertUnwindSafe(|| truth_vector(&Obj::E(x.clone())))) {
                    Ok(v) => bits(&v),
                    Err(_) => "panic".to_string(),
                };
                format!(
                    "nnf={} cnf={} dnf={} shape={}{}{} tvs={},{},{} ins={};{};{}",
                    show_expr(&n), show_expr(&c), show_expr(&d),
                    n.is_nnf() as u8, c.is_cnf() as u8, d.is_dnf() as u8,
                    tv(&n), tv(&c), tv(&d),
                    names(n.inputs().iter()), names(c.inputs().iter()), names(d.inputs().iter())
                )
            }
            _ => "skip".to_string(),
        },
        // weight alone (no enumeration): usable for diagrams with many inputs
        "weight" => match reg(toks[1]) {
            Some(Obj::B(b)) => format!("w={} deg={} nodes={}", b.weight(), b.degree(), b.node_count()),
            Some(Obj::T(t)) => format!("w={} deg={} nodes=-", t.weight(), t.degree()),
            Some(Obj::E(_)) | None => "skip".to_string(),
        },
        "preds" => match reg(toks[1]) {
            Some(Obj::E(e)) => format!(
                "nnf={} cnf={} dnf={} lit={} const={} not={} and={} or={}",
                e.is_nnf() as u8,
                e.is_cnf() as u8,
                e.is_dnf() as u8,
                e.is_literal() as u8,
                e.is_constant() as u8,
                e.is_not() as u8,
                e.is_and() as u8,
                e.is_or() as u8
            ),
            _ => "skip".to_string(),
        },
        t => format!("bad:{t}"),
    }
}

/// a node-by-node rebuilt copy: equal to the argument, sharing no allocation with it (tables and
/// diagrams own their vectors, so `clone` already is one)
fn deep_e(e: &E) -> E {
    match e.node() {
        ExpressionNode::Literal(n) => ExpressionNode::Literal(n.clone()).into(),
        ExpressionNode::Constant(b) => ExpressionNode::Constant(*b).into(),
        ExpressionNode::Not(x) => ExpressionNode::Not(deep_e(x)).into(),
        ExpressionNode::And(es) => ExpressionNode::And(es.iter().map(deep_e).collect()).into(),
        ExpressionNode::Or(es) => ExpressionNode::Or(es.iter().map(deep_e).collect()).into(),
    }
}
fn deep_pool(pool: &[Option<Obj>]) -> Vec<Option<Obj>> {
    pool.iter()
        .map(|o| match o {
            Some(Obj::E(e)) => Some(Obj::E(deep_e(e))),
            Some(Obj::T(t)) => Some(Obj::T(t.clone())),
            Some(Obj::B(b)) => Some(Obj::B(b.clone())),
            None => None,
        })
        .collect()
}

fn dbg_obj(o: &Obj) -> String {
    match o { Obj::E(e) => format!("{:?}", e), Obj::T(t) => format!("{:?}", t), Obj::B(b) => format!("{:?}", b) }
}

/// purity as the public traits see it: a clone and the Debug text of every register, taken before a call
fn snapshot(pool: &[Option<Obj>]) -> Vec<Option<(Obj, String)>> {
    pool.iter().map(|o| o.as_ref().map(|o| (o.clone(), dbg_obj(o)))).collect()
}

/// every register still `==` the clone taken before the call and still has the same Debug text
/// (an operand altered through interior mutability - a cache cell, a counter - shows here)
fn unchanged(pool: &[Option<Obj>], before: &[Option<(Obj, String)>]) -> bool {
    pool.iter().zip(before.iter()).all(|(now, was)| match (now, was) {
        (Some(Obj::E(a)), Some((Obj::E(b), d))) => a == b && format!("{:?}", a) == *d,
        (Some(Obj::T(a)), Some((Obj::T(b), d))) => a == b && format!("{:?}", a) == *d,
        (Some(Obj::B(a)), Some((Obj::B(b), d))) => a == b && format!("{:?}", a) == *d,
        (None, None) => true,
        _ => false,
    })
}

/// The instructions above work on clones of the registers, so a method that alters `self` through interior
/// mutability (a cache cell, a counter) never touches the register itself.  This probe calls the `&self` methods
/// of the public API on the register in place and then compares it (`==`, Debug text) with the clone taken
/// before: false = some method altered its operand observably.
fn probe_purity(o: &Obj) -> bool {
    let before = o.clone();
    let dbg = dbg_obj(o);
    macro_rules! battery {
        ($f:expr) => {{
            let f = $f;
            let names: Vec<String> = f.inputs().into_iter().collect();
            let empty: BTreeMap<String, bool> = BTreeMap::new();
            let _ = f.degree();
            let _ = f.essential_inputs();
            let _ = f.essential_degree();
            let _ = f.weight();
            let _ = f.sat_point();
            if names.len() <= 12 {
                let _ = f.domain().count();
                let _ = f.image().count();
                let _ = f.relation().count();
                let _ = f.support().count();
            }
            let _ = f.evaluate(&empty);
            let _ = f.evaluate_with_default(&empty, true);
            let _ = f.evaluate_checked(&empty);
            let _ = f.is_equivalent(f);
            let _ = f.is_implied_by(f);
            let _ = f.restrict(&empty);
            let first: BTreeSet<String> = names.iter().take(1).cloned().collect();
            let _ = f.existential_quantification(first.clone());
            let _ = f.universal_quantification(first.clone());
            let _ = f.derivative(first);
            let _ = format!("{:?}", f);
        }};
    }
    let r = catch_unwind(AssertUnwindSafe(|| match o {
        Obj::E(e) => { battery!(e); let _ = e.to_string(); let _ = e.to_nnf(); if e.inputs().len() <= 12 { let _ = T::from(e.clone()); } }
        Obj::T(t) => { if !t.verif_raw().1.is_empty() { battery!(t); let _ = t.to_string(); } }
        Obj::B(b) => { battery!(b); let _ = b.node_count(); let _ = b.clone() & b.clone(); let _ = !b.clone(); if b.inputs().len() <= 12 { let _ = T::from(b.clone()); } }
    }));
    let _ = r;
    match (o, &before) {
        (Obj::E(a), Obj::E(b)) => a == b && format!("{:?}", a) == dbg,
        (Obj::T(a), Obj::T(b)) => a == b && format!("{:?}", a) == dbg,
        (Obj::B(a), Obj::B(b)) => a == b && format!("{:?}", a) == dbg,
        _ => false,
    }
}

fn main() {
    std::panic::set_hook(Box::new(|_| {}));
    let mut args: Vec<String> = std::env::args().collect();
    // --twice: every instruction and query is executed twice in this process and the two results
    // must be equal (determinism within a process). The second execution gets *equal arguments that
    // are different objects*: a node-by-node rebuilt copy of every register, each register separately,
    // so no two operands share an allocation there even when they do in the first execution.
    let twice = args.iter().any(|a| a == "--twice");
    args.retain(|a| a != "--twice");
    let input: Box<dyn BufRead> = if args.len() > 1 {
        Box::new(std::io::BufReader::new(std::fs::File::open(&args[1]).unwrap()))
    } else {
        Box::new(std::io::BufReader::new(std::io::stdin()))
    };
    let stdout = std::io::stdout();
    let mut out = std::io::BufWriter::new(stdout.lock());
    let mut case = String::new();
    let mut lineno = 0usize;
    let mut pool: Vec<Option<Obj>> = Vec::new();
    for line in input.lines() {
        let line = line.unwrap();
        let toks: Vec<&str> = line.split_whitespace().collect();
        if toks.is_empty() {
            continue;
        }
        match toks[0] {
            "case" => {
                case = toks[1].to_string();
                lineno = 0;
                pool.clear();
            }
            "end" => {
                // one flush per case: when the process is killed for a hang, everything before the hanging case is out
                out.flush().unwrap();
            }
            "r" => {
                lineno += 1;
                let before = if twice { snapshot(&pool) } else { vec![] };
                let res = catch_unwind(AssertUnwindSafe(|| exec(&pool, &toks[1..])));
                let mut variant = String::new();
                if twice && !unchanged(&pool, &before) {
                    variant.push_str(" pure=0");
                }
                if twice {
                    let copies = deep_pool(&pool);
                    let again = catch_unwind(AssertUnwindSafe(|| exec(&copies, &toks[1..])));
                    let sig = |r: &std::thread::Result<Step>| match r {
                        Ok(Step::Ok(o)) => format!("ok {} {}", show_struct(o), match o { Obj::E(e) => format!("{:?}", e), Obj::T(t) => format!("{:?}", t), Obj::B(b) => format!("{:?}", b) }),
                        Ok(Step::Err) => "err".to_string(),
                        Ok(Step::ErrV(v)) => format!("err {}", v),
                        Ok(Step::Na) => "na".to_string(),
                        Err(_) => "panic".to_string(),
                    };
                    if sig(&res) != sig(&again) {
                        variant.push_str(" det=0");
                    }
                }
                let status = match res {
                    Ok(Step::Ok(o)) => {
                        if twice && !probe_purity(&o) {
                            variant.push_str(" pure=0");
                        }
                        pool.push(Some(o));
                        "ok"
                    }
                    Ok(Step::Err) => {
                        pool.push(None);
                        "err"
                    }
                    Ok(Step::ErrV(v)) => {
                        pool.push(None);
                        variant.push_str(&format!(" variant={}", v));
                        "err"
                    }
                    Ok(Step::Na) => {
                        pool.push(None);
                        "na"
                    }
                    Err(_) => {
                        pool.push(None);
                        "panic"
                    }
                };
                writeln!(out, "{} {} {}{}", case, lineno, status, variant).unwrap();
            }
            "q" => {
                lineno += 1;
                let before = if twice { snapshot(&pool) } else { vec![] };
                let res = catch_unwind(AssertUnwindSafe(|| query(&pool, &toks[1..])));
                let mut s = match res {
                    Ok(s) => s,
                    Err(_) => "panic".to_string(),
                };
                if twice && !unchanged(&pool, &before) {
                    s.push_str(" pure=0");
                }
                if twice {
                    let copies = deep_pool(&pool);
                    let again = match catch_unwind(AssertUnwindSafe(|| query(&copies, &toks[1..]))) {
                        Ok(s) => s,
                        Err(_) => "panic".to_string(),
                    };
                    if again != s {
                        s.push_str(" det=0");
                    }
                }
                writeln!(out, "{} {} {}", case, lineno, s).unwrap();
            }
            t => {
                lineno += 1;
                writeln!(out, "{} {} bad:{}", case, lineno, t).unwrap();
            }
        }
    }
    out.flush().unwrap();
}
