(* C17 - Exporting a truth table to CSV and importing it again gives back an equal table, for
   every Boolean cell formatting with the comma delimiter; the text has a header line, then one
   line per domain point in domain order. *)
From BBF Require Import Base.Prelude Base.Names Base.Bits Model.Table Model.Render Model.Csv
     Proofs.RenderProofs Proofs.CsvProofs.

(* csv_safe: no name contains a comma, a double quote, CR or LF, and the first name does not start
   with U+FEFF (the export does not quote; the reader drops a byte order mark); tables with 2^64
   rows do not exist in the implementation *)
Theorem C17_round_trip : forall fi fo t,
  wf_table t -> csv_safe t = true -> length (t_inputs t) < usize_bits ->
  from_csv_string (to_csv_formatted c_comma fi fo t) = Ok t.
Proof. exact csv_round_trip. Qed.
Print Assumptions C17_round_trip.

Theorem C17_round_trip_default : forall t,
  wf_table t -> csv_safe t = true -> length (t_inputs t) < usize_bits ->
  from_csv_string (to_csv t) = Ok t.
Proof. exact csv_round_trip_default. Qed.
Print Assumptions C17_round_trip_default.

(* the lines of the text are the rows of cells joined with the delimiter ... *)
Theorem C17_lines : forall fi fo t,
  wf_table t -> Forall plain_cell (t_inputs t) ->
  cut_at c_lf (to_csv_formatted c_comma fi fo t) = map (tjoin [c_comma]) (table_rows fi fo t).
Proof. exact to_csv_lines. Qed.
Print Assumptions C17_lines.

(* ... and the rows are the header (the inputs in order, then "result") followed by one row per
   domain point, in domain order, carrying the point's values and the output *)
Theorem C17_rows : forall fi fo t, wf_table t ->
  table_rows fi fo t =
  (t_inputs t ++ [w_result])
  :: map (fun po => map (format_bool fi) (fst po) ++ [format_bool fo (snd po)])
         (combine (points (length (t_inputs t))) (t_outputs t)).
Proof. exact table_rows_wf. Qed.
Print Assumptions C17_rows.

Theorem C17_empty_table : forall d fi fo, to_csv_formatted d fi fo empty_table = [] /\ from_csv_string [] = Ok empty_table.
Proof. exact (fun d fi fo => conj (to_csv_empty d fi fo) from_csv_string_empty). Qed.
Print Assumptions C17_empty_table.

(* non-vacuity: a xor over the names "é" and "漢", characters and capitalised words *)
Example C17_example :
  let t := {| t_inputs := [[233%N]; [28450%N]]; t_outputs := [false; true; true; false] |} in
  wf_table t /\ csv_safe t = true /\
  to_csv_formatted c_comma FCharacter FCapitalizedWord t
  = [233;44;28450;44;114;101;115;117;108;116;10; 70;44;70;44;70;97;108;115;101;10; 70;44;84;44;84;114;117;101;10;
     84;44;70;44;84;114;117;101;10; 84;44;84;44;70;97;108;115;101]%N /\
  from_csv_string (to_csv_formatted c_comma FCharacter FCapitalizedWord t) = Ok t.
Proof.
  split; [split; [repeat constructor|reflexivity]|]. split; [reflexivity|]. split; vm_compute; reflexivity.
Qed.
