(* C18 - The text rendering of a table, in every style and Boolean formatting: a header with the
   input names in order and a result column, then one row per domain point in domain order whose
   cells are the point's values and the output in the requested formatting; reading the cells back
   reproduces the relation; Display is the frameless style with word formatting. *)
From BBF Require Import Base.Prelude Base.Names Base.Bits Model.Table Model.Render Model.Csv
     Proofs.RenderProofs Proofs.CsvProofs.

(* for every width function and every matrix of cells that is rectangular, not empty, and whose
   cells are not empty and contain no blank, no LF and not the vertical glyph of the style:
   cutting the rendering into lines, dropping the rule lines, blanking the vertical glyphs and
   cutting at blanks gives the matrix back *)
Theorem C18_cells_render : forall (width : N -> nat) st rows,
  clean_rowsb st rows = true -> cells st (render width st rows) = rows.
Proof. exact cells_render. Qed.
Print Assumptions C18_cells_render.

Theorem C18_cells_table : forall (width : N -> nat) st fi fo t,
  wf_table t -> forallb (clean_cellb st) (t_inputs t) = true ->
  cells st (to_string_formatted width st fi fo t) = table_rows fi fo t.
Proof. exact cells_to_string_formatted. Qed.
Print Assumptions C18_cells_table.

(* the rows: header, then exactly one row per domain point, in domain order *)
Theorem C18_rows : forall fi fo t, wf_table t ->
  table_rows fi fo t =
  (t_inputs t ++ [w_result])
  :: map (fun po => map (format_bool fi) (fst po) ++ [format_bool fo (snd po)])
         (combine (points (length (t_inputs t))) (t_outputs t)).
Proof. exact table_rows_wf. Qed.
Print Assumptions C18_rows.

Theorem C18_row_count : forall fi fo t, wf_table t -> length (table_rows fi fo t) = S (2 ^ length (t_inputs t)).
Proof. exact table_rows_length. Qed.
Print Assumptions C18_row_count.

(* reading the cells of the rows below the header as Booleans reproduces the relation *)
Theorem C18_relation : forall (width : N -> nat) st fi fo t,
  wf_table t -> forallb (clean_cellb st) (t_inputs t) = true ->
  map (map string_to_bool) (tl (cells st (to_string_formatted width st fi fo t)))
  = map (fun po => map Some (fst po ++ [snd po])) (t_relation t).
Proof. exact rendered_relation. Qed.
Print Assumptions C18_relation.

Theorem C18_display : forall (width : N -> nat) t,
  display_table width t = to_string_formatted width SEmpty FWord FWord t.
Proof. exact display_is_empty_word. Qed.
Print Assumptions C18_display.

(* non-vacuity: the conjunction of "é" and the wide "漢" in the Markdown style and as Display,
   with the widths of unicode-width *)
Example C18_example :
  let t := {| t_inputs := [[233%N]; [28450%N]]; t_outputs := [false; false; false; true] |} in
  wf_table t /\
  forallb (clean_cellb SMarkdown) (t_inputs t) = true /\
  to_string_formatted uwidth SMarkdown FNumber FCharacter t
  = [124;32;233;32;124;32;28450;32;124;32;114;101;115;117;108;116;32;124;10;
     124;45;45;45;124;45;45;45;45;124;45;45;45;45;45;45;45;45;124;10;
     124;32;48;32;124;32;48;32;32;124;32;70;32;32;32;32;32;32;124;10;
     124;32;48;32;124;32;49;32;32;124;32;70;32;32;32;32;32;32;124;10;
     124;32;49;32;124;32;48;32;32;124;32;70;32;32;32;32;32;32;124;10;
     124;32;49;32;124;32;49;32;32;124;32;84;32;32;32;32;32;32;124]%N /\
  display_table uwidth t
  = [233;32;32;32;32;32;28450;32;32;32;32;114;101;115;117;108;116;32;10;
     102;97;108;115;101;32;102;97;108;115;101;32;102;97;108;115;101;32;32;10;
     102;97;108;115;101;32;116;114;117;101;32;32;102;97;108;115;101;32;32;10;
     116;114;117;101;32;32;102;97;108;115;101;32;102;97;108;115;101;32;32;10;
     116;114;117;101;32;32;116;114;117;101;32;32;116;114;117;101;32;32;32]%N.
Proof.
  split; [split; [repeat constructor|reflexivity]|]. split; [reflexivity|]. split; vm_compute; reflexivity.
Qed.
