(* C11 - Normal-form conversions preserve the function and produce the promised shape. *)
From BBF Require Import Base.Prelude Base.Names Base.Bits Spec.Sem
     Model.Expr Model.Table Model.LibBdd Model.Bdd
     Proofs.ExprProofs Proofs.TableProofs Proofs.QuantProofs Proofs.NfProofs Proofs.DdProofs Proofs.BddProofs Proofs.BddOps
     Proofs.ConvProofs Proofs.RenderProofs Proofs.EnumProofs.
Theorem C11_nnf_sem : forall v e, sem v (to_nnf e) = sem v e.
Proof. exact to_nnf_sem. Qed.
Print Assumptions C11_nnf_sem.

Theorem C11_cnf_sem : forall v e, sem v (to_cnf e) = sem v e.
Proof. exact to_cnf_sem. Qed.
Print Assumptions C11_cnf_sem.

Theorem C11_dnf_sem : forall v e, sem v (to_dnf e) = sem v e.
Proof. exact to_dnf_sem. Qed.
Print Assumptions C11_dnf_sem.

Theorem C11_nnf_vars : forall e, literals (to_nnf e) = literals e.
Proof. exact to_nnf_literals. Qed.
Print Assumptions C11_nnf_vars.

Theorem C11_cnf_vars : forall e x, In x (literals (to_cnf e)) -> In x (literals e).
Proof. exact to_cnf_literals. Qed.
Print Assumptions C11_cnf_vars.

Theorem C11_dnf_vars : forall e x, In x (literals (to_dnf e)) -> In x (literals e).
Proof. exact to_dnf_literals. Qed.
Print Assumptions C11_dnf_vars.

Theorem C11_nnf_shape : forall e, const_free e = true -> is_nnf (to_nnf e) = true.
Proof. exact to_nnf_is_nnf. Qed.
Print Assumptions C11_nnf_shape.

Theorem C11_cnf_shape : forall e, const_free e = true -> is_cnf (to_cnf e) = true.
Proof. exact to_cnf_is_cnf. Qed.
Print Assumptions C11_cnf_shape.

Theorem C11_dnf_shape : forall e, const_free e = true -> is_dnf (to_dnf e) = true.
Proof. exact to_dnf_is_dnf. Qed.
Print Assumptions C11_dnf_shape.

Theorem C11_is_nnf_reference : forall e, is_nnf e = true <-> nnf_ref e.
Proof. exact is_nnf_ref. Qed.
Print Assumptions C11_is_nnf_reference.

Theorem C11_is_cnf_reference : forall e, is_cnf e = true <-> cnf_ref e.
Proof. exact is_cnf_ref. Qed.
Print Assumptions C11_is_cnf_reference.

Theorem C11_is_dnf_reference : forall e, is_dnf e = true <-> dnf_ref e.
Proof. exact is_dnf_ref. Qed.
Print Assumptions C11_is_dnf_reference.

Theorem C11_nnf_idempotent : forall e neg, nnf false (nnf neg e) = nnf neg e.
Proof. exact nnf_idem. Qed.
Print Assumptions C11_nnf_idempotent.

(* conversion never fails: to_nnf / to_cnf / to_dnf are total functions of the model; in particular the
   empty disjunction and conjunction, on which the unrepaired code panicked (D9), are returned as they are *)
Example C11_empty : to_cnf (Or []) = Or [] /\ to_dnf (And []) = And [] /\ to_cnf (Not (And [Or []; Lit [97%N]])) = And [].
Proof. split; [reflexivity|split; reflexivity]. Qed.

Example C11_example :
  to_cnf (Or [And [Lit [97%N]; Lit [98%N]]; Not (Or [Lit [99%N]; Not (Lit [100%N])])]) =
  And [And [Or [Lit [97%N]; Not (Lit [99%N])]; Or [Lit [97%N]; Lit [100%N]]];
       And [Or [Lit [98%N]; Not (Lit [99%N])]; Or [Lit [98%N]; Lit [100%N]]]].
Proof. reflexivity. Qed.
