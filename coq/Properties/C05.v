(* C05 - Restriction fixes variables to constants and removes them from the inputs. *)
From BBF Require Import Base.Prelude Base.Names Base.Bits Spec.Sem
     Model.Expr Model.Table Model.LibBdd Model.Bdd Proofs.ExprProofs Proofs.TableProofs Proofs.DdProofs Proofs.BddProofs Proofs.BddOps.
From BBF Require Import Model.Lexer Model.Parser Model.Display Model.Render Model.Csv Model.Prog Proofs.ProgProofs Proofs.ConvChain Proofs.OpsObjects.

Theorem C05_expr_sem : forall e rho v, sem v (e_restrict e rho) = sem (override v rho) e.
Proof. exact sem_restrict. Qed.
Print Assumptions C05_expr_sem.

Theorem C05_expr_inputs : forall e rho, literals (e_restrict e rho) = set_diff (literals e) (keys rho).
Proof. exact literals_restrict. Qed.
Print Assumptions C05_expr_inputs.

Theorem C05_expr_empty : forall e, e_restrict e [] = e.
Proof. exact restrict_nil. Qed.
Print Assumptions C05_expr_empty.

Theorem C05_table_sem : forall t rho v, wf_table t -> tsem (t_restrict t rho) v = tsem t (override v rho).
Proof. exact t_restrict_sem. Qed.
Print Assumptions C05_table_sem.

Theorem C05_table_inputs : forall t rho, t_inputs (t_restrict t rho) = set_diff (t_inputs t) (keys rho).
Proof. exact t_restrict_inputs. Qed.
Print Assumptions C05_table_inputs.

Theorem C05_table_wf : forall t rho, wf_table t -> wf_table (t_restrict t rho).
Proof. exact t_restrict_wf. Qed.
Print Assumptions C05_table_wf.

Theorem C05_table_empty : forall t, wf_table t -> t_restrict t [] = t.
Proof. exact t_restrict_nil. Qed.
Print Assumptions C05_table_empty.

Theorem C05_bdd : forall dbg b rho, wf_bdd b ->
  exists r, b_restrict dbg b rho = Ok r /\ wf_bdd r /\ b_inputs r = set_diff (b_inputs b) (keys rho) /\
            forall v, bsem r v = bsem b (override v rho).
Proof. exact b_restrict_spec. Qed.
Print Assumptions C05_bdd.

(* the precondition of the unsafe prune is established, not assumed *)
Theorem C05_prune_ok : forall dbg b new, wf_bdd b -> sset new -> incl new (b_inputs b) ->
  (forall i x, occurs i (b_root b) -> nth_error (b_inputs b) i = Some x -> In x new) ->
  exists b', prune dbg b new = Ok b' /\ wf_bdd b' /\ b_inputs b' = new /\ forall v, bsem b' v = bsem b v.
Proof. exact prune_ok. Qed.
Print Assumptions C05_prune_ok.

(* non-vacuity: restricting a 3-input table by one of its inputs and a foreign variable *)
Example C05_table_example :
  let t := {| t_inputs := [[97%N]; [98%N]; [99%N]]; t_outputs := [false; true; true; false; true; true; false; false] |} in
  wf_table t /\
  t_restrict t [([98%N], true); ([122%N], false)] = {| t_inputs := [[97%N]; [99%N]]; t_outputs := [true; false; false; false] |}.
Proof. split; [split; [repeat constructor|reflexivity]|reflexivity]. Qed.

(* ---- an object of any representation: total, pointwise, inputs exactly the others ---- *)
Theorem C05_objects : forall o rho, owf o ->
  exists o', exec_restrict o rho = Ok o' /\ owf o' /\ obj_kind o' = obj_kind o /\
             (forall v, osem o' v = osem o (override v rho)) /\
             decl o' = set_diff (decl o) (keys rho).
Proof. exact obj_restrict_spec. Qed.
Print Assumptions C05_objects.
