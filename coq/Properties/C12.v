(* C12 - A parsed text means what the reference reading of the language says:
   NOT binds tighter than AND, AND tighter than OR, a parenthesised group is a unit, names
   are preserved.  Statements only; every proof is `exact <lemma>`.
   The reference reading is Spec/Grammar.v: `lexes` (lexemes), `flatten` (nesting),
   `G_or` (grammar and denotation), `denotes s e` = the three together. *)
From BBF Require Import Base.Prelude Base.Names Model.Expr Model.Lexer Model.Parser
     Spec.Grammar Proofs.LexerProofs Proofs.ParserProofs Proofs.PlainBoundary.
From Coq Require Import Strings.String.

(* from_str returns e exactly when the reference reading of the text is e *)
Theorem C12_from_str_is_reference : forall s e, from_str s = Ok e <-> denotes s e.
Proof. exact from_str_denotes. Qed.
Print Assumptions C12_from_str_is_reference.

(* the two halves separately: the tokenizer against the reference lexer (all strings) ... *)
Theorem C12_tokenizer_sound : forall s forest, tokenize s = TokOk forest -> lexes s (flatten forest).
Proof. exact tokenize_sound. Qed.
Print Assumptions C12_tokenizer_sound.

Theorem C12_tokenizer_complete : forall s forest, lexes s (flatten forest) -> tokenize s = TokOk forest.
Proof. exact tokenize_complete. Qed.
Print Assumptions C12_tokenizer_complete.

(* ... in executable form ... *)
Theorem C12_tokenizer_executable_reference : forall s, tokens_of_result (tokenize s) = ref_forest s.
Proof. exact tokenize_ref_forest. Qed.
Print Assumptions C12_tokenizer_executable_reference.

(* ... and parse_tokens against the grammar (all token forests) *)
Theorem C12_parser_is_grammar : forall ts e, parse_tokens ts = POk e <-> G_or ts e.
Proof. exact parse_tokens_grammar. Qed.
Print Assumptions C12_parser_is_grammar.

(* the reference tests the end of a keyword with the case-folded identifier class, as the
   code does; with the plain class [-_a-zA-Z0-9] the language and its reading are the same *)
Theorem C12_plain_class_same_reading : forall s ts, lexes_plain s ts <-> lexes s ts.
Proof. exact plain_boundary_same_language. Qed.
Print Assumptions C12_plain_class_same_reading.

Theorem C12_from_str_is_plain_reference : forall s e, from_str s = Ok e <-> denotes_plain s e.
Proof. exact from_str_denotes_plain. Qed.
Print Assumptions C12_from_str_is_plain_reference.

(* a text has at most one reading *)
Theorem C12_reading_unique : forall s ts1 ts2, lexes s ts1 -> lexes s ts2 -> ts1 = ts2.
Proof. exact lexes_det. Qed.
Print Assumptions C12_reading_unique.

Theorem C12_nesting_unique : forall a b, flatten a = flatten b -> a = b.
Proof. exact flatten_inj. Qed.
Print Assumptions C12_nesting_unique.

(* names are preserved: the literal occurrences of the result are the name lexemes, in order *)
Theorem C12_names_preserved : forall s e, from_str s = Ok e ->
  exists ts, lexes s ts /\ occurrences e = fnames ts.
Proof. exact from_str_names. Qed.
Print Assumptions C12_names_preserved.

(* non-vacuity: precedence, grouping, case folding, verbatim names on a concrete text *)
Example C12_example :
  (* "a or NOT b && (c v d) | {x y} ^ fal<U+017F>e" ; `str` maps an ASCII Coq string to code points *)
  let s := str "a or NOT b && (c v d) | {x y} ^ fal"%string ++ [383%N] ++ str "e"%string in
  let x := fun c => Lit (str c) in
  from_str s = Ok (Or [x "a"; And [Not (x "b"); Or [x "c"; x "d"]]; And [x "x y"; Const false]])%string
  /\ ref_forest s = Some [TLit (str "a"); TOr; TNot; TLit (str "b"); TAnd;
                          TParens [TLit (str "c"); TOr; TLit (str "d")]; TOr;
                          TLit (str "x y"); TAnd; TFalse]%string.
Proof. split; vm_compute; reflexivity. Qed.
