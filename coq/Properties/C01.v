(* C01 - Conversions between the three representations preserve the function.
   Five of the six conversions are proved correct for all inputs. The sixth, table -> diagram,
   is the known finding D1: the theorem C01_T_B_current says what the code does (constant true),
   C01_T_B_refuted gives the failing class and C01_T_B_outside_class the rest. *)
From BBF Require Import Base.Prelude Base.Names Base.Bits Spec.Sem
     Model.Expr Model.Table Model.LibBdd Model.Bdd
     Proofs.ExprProofs Proofs.TableProofs Proofs.QuantProofs Proofs.NfProofs Proofs.DdProofs Proofs.BddProofs Proofs.BddOps
     Proofs.ConvProofs Proofs.RenderProofs Proofs.EnumProofs.
From BBF Require Import Model.Lexer Model.Parser Model.Display Model.Render Model.Csv Model.Prog Proofs.ProgProofs Proofs.ConvChain.
Theorem C01_E_T : forall e, wf_table (table_of_expr e) /\ t_inputs (table_of_expr e) = literals e /\ forall v, tsem (table_of_expr e) v = sem v e.
Proof. exact table_of_expr_spec. Qed.
Print Assumptions C01_E_T.

Theorem C01_T_E : forall t, wf_table t -> (forall v, sem v (expr_of_table t) = tsem t v) /\ (forall x, In x (literals (expr_of_table t)) -> In x (t_inputs t)).
Proof. exact expr_of_table_spec. Qed.
Print Assumptions C01_T_E.

Theorem C01_E_B : forall e, (too_many (length (literals e)) = true -> bdd_of_expr e = Err 1) /\ (too_many (length (literals e)) = false -> exists b, bdd_of_expr e = Ok b /\ wf_bdd b /\ b_inputs b = literals e /\ forall v, bsem b v = sem v e).
Proof. exact bdd_of_expr_spec. Qed.
Print Assumptions C01_E_B.

Theorem C01_B_E : forall b, wf_bdd b -> exists e, expr_of_bdd b = Ok e /\ (forall v, sem v e = bsem b v) /\ (forall x, In x (literals e) -> In x (b_inputs b)).
Proof. exact expr_of_bdd_spec. Qed.
Print Assumptions C01_B_E.

Theorem C01_B_T : forall b, wf_bdd b -> wf_table (table_of_bdd b) /\ t_inputs (table_of_bdd b) = b_inputs b /\ forall v, tsem (table_of_bdd b) v = bsem b v.
Proof. exact table_of_bdd_spec. Qed.
Print Assumptions C01_B_T.

Theorem C01_T_B_current : forall t, wf_table t -> too_many (length (t_inputs t)) = false -> exists b, bdd_of_table t = Ok b /\ wf_bdd b /\ b_inputs b = t_inputs t /\ forall v, bsem b v = true.
Proof. exact bdd_of_table_current. Qed.
Print Assumptions C01_T_B_current.

Theorem C01_T_B_outside_class : forall t, wf_table t -> too_many (length (t_inputs t)) = false -> (forall v, tsem t v = true) -> exists b, bdd_of_table t = Ok b /\ wf_bdd b /\ b_inputs b = t_inputs t /\ forall v, bsem b v = tsem t v.
Proof. exact bdd_of_table_tautology. Qed.
Print Assumptions C01_T_B_outside_class.

Theorem C01_T_B_refuted : forall t v, wf_table t -> too_many (length (t_inputs t)) = false -> tsem t v = false -> exists b, bdd_of_table t = Ok b /\ bsem b v <> tsem t v.
Proof. exact bdd_of_table_refuted. Qed.
Print Assumptions C01_T_B_refuted.

(* the witness replayed on the implementation: the table of a & b becomes a diagram with image 1111 *)
Example C01_T_B_witness :
  let t := {| t_inputs := [[97%N]; [98%N]]; t_outputs := [false; false; false; true] |} in
  wf_table t /\ exists b, bdd_of_table t = Ok b /\ b_image b = [true; true; true; true].
Proof. exact bdd_of_table_witness. Qed.

(* ---- any chain of conversions ---- *)

(* for every path of conversions that does not take the table -> diagram step (D1), from every well-formed object:
   the end object is well-formed and denotes the same function at every assignment, declares no new input;
   the chain never panics and can fail only with the too-many-variables error *)
Theorem C01_chains : forall ks o, owf o -> avoids_D1 (obj_kind o) ks = true ->
  (forall o', conv_chain ks o = Ok o' -> owf o' /\ (forall v, osem o' v = osem o v) /\ incl (decl o') (decl o)) /\
  (forall c, conv_chain ks o <> Panic c) /\
  (forall c, conv_chain ks o = Err c -> c = 1).
Proof. exact conv_chain_spec. Qed.
Print Assumptions C01_chains.

(* a conversion into a table or a diagram keeps the declared input set unchanged *)
Theorem C01_inputs_kept : forall k o o', owf o -> is_D1 k o = false -> k <> KE -> exec_conv k o = Ok o' -> decl o' = decl o.
Proof. exact conv_step_inputs. Qed.
Print Assumptions C01_inputs_kept.

(* a single conversion fails only on an expression with more than 65535 variables, with the error value *)
Theorem C01_failure_only_too_many_variables : forall k o, owf o -> is_D1 k o = false ->
  (forall c, exec_conv k o <> Panic c) /\
  (forall c, exec_conv k o = Err c -> c = 1 /\ exists e, o = OE e /\ k = KB /\ too_many (length (literals e)) = true).
Proof. exact conv_step_fail. Qed.
Print Assumptions C01_failure_only_too_many_variables.

Example C01_chain_example :
  let e := And [Lit [97%N]; Not (Lit [98%N])] in
  avoids_D1 KE [KB; KE; KT; KE; KB; KT] = true /\
  exists o', conv_chain [KB; KE; KT; KE; KB; KT] (OE e) = Ok o' /\ decl o' = [[97%N]; [98%N]].
Proof. split; [reflexivity|]. eexists. split; reflexivity. Qed.
