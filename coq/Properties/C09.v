(* C09 - Declared and essential inputs are reported exactly. *)
From BBF Require Import Base.Prelude Base.Names Base.Bits Spec.Sem
     Model.Expr Model.Table Model.LibBdd Model.Bdd
     Proofs.ExprProofs Proofs.TableProofs Proofs.QuantProofs Proofs.NfProofs Proofs.DdProofs Proofs.BddProofs Proofs.BddOps
     Proofs.ConvProofs Proofs.RenderProofs Proofs.EnumProofs.
Theorem C09_expr : forall e u, In u (e_essential e) <-> In u (literals e) /\ exists v, sem (upd v u false) e <> sem (upd v u true) e.
Proof. exact e_essential_spec. Qed.
Print Assumptions C09_expr.

Theorem C09_table : forall t x, wf_table t -> (In x (t_essential t) <-> In x (t_inputs t) /\ exists v, tsem t (upd v x false) <> tsem t (upd v x true)).
Proof. exact t_essential_spec. Qed.
Print Assumptions C09_table.

Theorem C09_bdd : forall b, wf_bdd b -> exists ess, b_essential b = Ok ess /\ sset ess /\ forall x, In x ess <-> In x (b_inputs b) /\ exists v, bsem b (upd v x false) <> bsem b (upd v x true).
Proof. exact b_essential_spec. Qed.
Print Assumptions C09_bdd.

Theorem C09_expr_sorted : forall e, sset (e_essential e).
Proof. exact e_essential_sset. Qed.
Print Assumptions C09_expr_sorted.

Theorem C09_table_sorted : forall t, sset (t_essential t).
Proof. exact t_essential_sset. Qed.
Print Assumptions C09_table_sorted.

Theorem C09_support_is_dependence : forall x t k, ordered_from k t -> reduced t -> (In x (dd_support t) <-> exists p, dd_eval t (updn p x false) <> dd_eval t (updn p x true)).
Proof. exact support_iff_depends. Qed.
Print Assumptions C09_support_is_dependence.

(* degree and essential degree are the sizes of the two sets *)
Theorem C09_degrees : forall e t b, e_degree e = length (literals e) /\ e_essential_degree e = length (e_essential e) /\
  t_degree t = length (t_literals t) /\ t_essential_degree t = length (t_essential t) /\ b_degree b = length (b_literals b).
Proof. intros. repeat split. Qed.
Print Assumptions C09_degrees.

(* representations of the same function report the same essential inputs *)
Theorem C09_same_function_same_essentials : forall e t, wf_table t -> (forall v, sem v e = tsem t v) ->
  forall x, In x (literals e) -> In x (t_inputs t) -> (In x (e_essential e) <-> In x (t_essential t)).
Proof.
  intros e t Hwf Hs x He Ht. rewrite e_essential_spec, (t_essential_spec t x Hwf).
  split; intros [_ (v & Hv)]; (split; [assumption|]); exists v; [rewrite <- !Hs|rewrite !Hs]; exact Hv.
Qed.
Print Assumptions C09_same_function_same_essentials.

Example C09_example :
  t_essential {| t_inputs := [[97%N]; [98%N]; [99%N]]; t_outputs := [false; false; true; true; true; true; true; true] |} = [[97%N]; [98%N]].
Proof. reflexivity. Qed.
