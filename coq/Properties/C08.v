(* C08 - Substitution is simultaneous functional composition. *)
From BBF Require Import Base.Prelude Base.Names Base.Bits Spec.Sem
     Model.Expr Model.Table Model.LibBdd Model.Bdd
     Proofs.ExprProofs Proofs.TableProofs Proofs.QuantProofs Proofs.NfProofs Proofs.DdProofs Proofs.BddProofs Proofs.BddOps
     Proofs.ConvProofs Proofs.RenderProofs Proofs.EnumProofs.
From BBF Require Import Model.Lexer Model.Parser Model.Display Model.Render Model.Csv Model.Prog Proofs.ProgProofs Proofs.ConvChain Proofs.OpsObjects.
From BBF Require Import Model.Iter Model.Extra Proofs.ExtraProofs.
Theorem C08_expr_sem : forall e m v, sem v (e_substitute e m) = sem (subst_env_e m v) e.
Proof. exact sem_substitute. Qed.
Print Assumptions C08_expr_sem.

Theorem C08_expr_inputs : forall e m x, In x (occurrences (e_substitute e m)) <-> (In x (occurrences e) /\ get m x = None) \/ (exists k g, In k (occurrences e) /\ get m k = Some g /\ In x (occurrences g)).
Proof. exact occ_substitute. Qed.
Print Assumptions C08_expr_inputs.

Theorem C08_table : forall t m, wf_table t -> wf_table (t_substitute t m) /\ t_inputs (t_substitute t m) = t_subst_inputs t m /\ forall v, tsem (t_substitute t m) v = tsem t (subst_env_t m v).
Proof. exact t_substitute_spec. Qed.
Print Assumptions C08_table.

Theorem C08_bdd : forall dbg b m, wf_bdd b -> (forall k g, In (k, g) m -> wf_bdd g) -> (forall k g, In (k, g) m -> ~ In k (b_inputs g)) -> exists r, b_substitute dbg b m = Ok r /\ wf_bdd r /\ b_inputs r = b_subst_inputs b m /\ forall v, bsem r v = bsem b (subst_env_b m v).
Proof. exact b_substitute_spec. Qed.
Print Assumptions C08_bdd.

Theorem C08_bdd_documented_refusal : forall dbg b m, (exists k g, In (k, g) m /\ In k (b_inputs g)) -> b_substitute dbg b m = Panic 30.
Proof. exact b_substitute_refuses. Qed.
Print Assumptions C08_bdd_documented_refusal.

(* a substituted variable stays an input only if some replacement mentions it *)
Theorem C08_table_key_stays_only_if_mentioned : forall t m k, In k (keys m) -> In k (t_subst_inputs t m) ->
  exists kg, In kg m /\ In k (t_inputs (snd kg)).
Proof.
  intros t m k Hk Hin. unfold t_subst_inputs in Hin. apply set_union_In in Hin. destruct Hin as [Hin|Hin].
  - apply set_diff_In in Hin. tauto.
  - apply (proj1 (set_of_list_In _ _)) in Hin. apply (proj1 (In_concat_map _ _ _)) in Hin. exact Hin.
Qed.
Print Assumptions C08_table_key_stays_only_if_mentioned.

Theorem C08_bdd_key_stays_only_if_mentioned : forall b m k, has (filter (fun kv => mem (fst kv) (b_inputs b)) m) k = true ->
  In k (b_subst_inputs b m) -> exists kg, In kg m /\ In k (b_inputs (snd kg)).
Proof.
  intros b m k Hk Hin. unfold b_subst_inputs in Hin. apply filter_In in Hin. destruct Hin as [_ Hc].
  rewrite Hk in Hc. simpl in Hc. apply mem_In in Hc. apply In_concat_map in Hc. destruct Hc as (kg & Hkg & Hx).
  exists kg. split; auto. apply filter_In in Hkg. tauto.
Qed.
Print Assumptions C08_bdd_key_stays_only_if_mentioned.

(* ---- Expression::rename_literals: substitution of variables by variables (Model/Extra.v) ---- *)
Theorem C08_rename_is_substitution : forall e m, e_rename e m = e_substitute e (map (fun kv => (fst kv, Lit (snd kv))) m).
Proof. exact rename_is_substitute. Qed.
Print Assumptions C08_rename_is_substitution.

(* simultaneous: every variable is looked up once, in the original mapping (a swap swaps) *)
Theorem C08_rename_sem : forall e m v, sem v (e_rename e m) = sem (fun x => v (rn m x)) e.
Proof. exact rename_sem. Qed.
Print Assumptions C08_rename_sem.

Theorem C08_rename_variables : forall e m, occurrences (e_rename e m) = map (rn m) (occurrences e).
Proof. exact rename_occurrences. Qed.
Print Assumptions C08_rename_variables.

Theorem C08_rename_empty_and_shape : forall e m, e_rename e [] = e /\ size (e_rename e m) = size e.
Proof. intros e m. exact (conj (rename_nil e) (rename_size e m)). Qed.
Print Assumptions C08_rename_empty_and_shape.

Example C08_rename_example :
  e_rename (And [Lit [97%N]; Not (Lit [98%N])]) [([97%N], [98%N]); ([98%N], [97%N])] = And [Lit [98%N]; Not (Lit [97%N])].
Proof. reflexivity. Qed.

Example C08_example :
  let ab := tabulate [[97%N]; [98%N]] (fun rho => evaluate (And [Lit [97%N]; Lit [98%N]]) rho) in
  let c := tabulate [[99%N]] (fun rho => evaluate (Lit [99%N]) rho) in
  t_substitute ab [([97%N], c)] = {| t_inputs := [[98%N]; [99%N]]; t_outputs := [false; false; false; true] |}.
Proof. reflexivity. Qed.

(* ---- objects of any representation: whenever the substitution returns, it is the simultaneous composition ---- *)
Theorem C08_objects : forall o (m : list (name * obj)) o', owf o -> (forall k g, In (k, g) m -> owf g) ->
  exec_subst o m = Ok o' ->
  owf o' /\
  forall v, osem o' v = osem o (fun k => match get m k with Some g => osem g v | None => v k end).
Proof. exact obj_subst_spec. Qed.
Print Assumptions C08_objects.
