(* C07 - The Boolean derivative marks where flipping the variables changes the output. *)
From BBF Require Import Base.Prelude Base.Names Base.Bits Spec.Sem
     Model.Expr Model.Table Model.LibBdd Model.Bdd
     Proofs.ExprProofs Proofs.TableProofs Proofs.QuantProofs Proofs.NfProofs Proofs.DdProofs Proofs.BddProofs Proofs.BddOps
     Proofs.ConvProofs Proofs.RenderProofs Proofs.EnumProofs Proofs.DualityProofs.
From BBF Require Import Model.Lexer Model.Parser Model.Display Model.Render Model.Csv Model.Prog Proofs.ProgProofs Proofs.ConvChain Proofs.OpsObjects.
From Coq Require Import Sorting.Permutation.
Theorem C07_expr_derivative_sem : forall vars e v, sem v (e_derivative e vars) = elim_fn xorb vars (fun w => sem w e) v.
Proof. exact e_derivative_sem. Qed.
Print Assumptions C07_expr_derivative_sem.

Theorem C07_expr_derivative_inputs : forall vars e, literals (e_derivative e vars) = set_diff (literals e) vars.
Proof. exact e_derivative_literals. Qed.
Print Assumptions C07_expr_derivative_inputs.

Theorem C07_table_derivative : forall vars t, wf_table t -> wf_table (t_derivative t vars) /\ t_inputs (t_derivative t vars) = set_diff (t_inputs t) vars /\ forall v, tsem (t_derivative t vars) v = elim_fn xorb vars (tsem t) v.
Proof. exact (t_elim_spec xorb). Qed.
Print Assumptions C07_table_derivative.

Theorem C07_bdd_derivative : forall dbg b vars, wf_bdd b -> exists r, b_derivative dbg b vars = Ok r /\ wf_bdd r /\ b_inputs r = set_diff (b_inputs b) vars /\ forall v, bsem r v = elim_fn xorb vars (bsem b) v.
Proof. exact b_derivative_spec. Qed.
Print Assumptions C07_bdd_derivative.

Theorem C07_derivative_all_assignments : forall vars f v, ext_fn f -> elim_fn xorb vars f v = big xorb vars (fun a => f (override v a)).
Proof. exact (elim_fn_big xorb medial_xorb). Qed.
Print Assumptions C07_derivative_all_assignments.

Theorem C07_derivative_any_order : forall l l', Permutation l l' -> forall f v, ext_fn f -> elim_fn xorb l f v = elim_fn xorb l' f v.
Proof. exact (elim_fn_perm xorb medial_xorb). Qed.
Print Assumptions C07_derivative_any_order.

Theorem C07_derivative_is_parity : forall vars g, big xorb vars g = parity (map g (assignments vars)).
Proof. exact big_xorb. Qed.
Print Assumptions C07_derivative_is_parity.

(* the derivative with respect to the empty set is the function itself *)
Theorem C07_empty_set : forall f v, elim_fn xorb [] f v = f v.
Proof. reflexivity. Qed.
Print Assumptions C07_empty_set.

(* one variable: true exactly where flipping it changes the value *)
Theorem C07_single : forall f x v, elim_fn xorb [x] f v = xorb (f (upd v x false)) (f (upd v x true)).
Proof. reflexivity. Qed.
Print Assumptions C07_single.

(* constantly false for a variable the function does not depend on *)
Theorem C07_independent_variable : forall (f : env -> bool) x v, (forall w b, f (upd w x b) = f w) -> elim_fn xorb [x] f v = false.
Proof. intros f x v H. simpl. rewrite !H. apply xorb_nilpotent. Qed.
Print Assumptions C07_independent_variable.

Example C07_example : forall v, sem v (e_derivative (Or [Not (Lit [98%N]); Lit [100%N]]) [[100%N]]) = v [98%N].
Proof. intros v. rewrite e_derivative_sem. simpl. unfold upd. simpl. destruct (v [98%N]); reflexivity. Qed.

(* a negation of the function does not change its derivative (one variable or more) *)
Theorem C07_derivative_of_negation : forall x r f v,
  elim_fn xorb (x :: r) (fun w => negb (f w)) v = elim_fn xorb (x :: r) f v.
Proof. exact derivative_of_negation. Qed.
Print Assumptions C07_derivative_of_negation.

(* ---- an object of any representation (quant_op QDeriv = xorb) ---- *)
Theorem C07_objects : forall o vars, owf o ->
  exists o', exec_quant QDeriv o vars = Ok o' /\ owf o' /\ obj_kind o' = obj_kind o /\
             (forall v, osem o' v = elim_fn xorb vars (osem o) v) /\
             decl o' = set_diff (decl o) vars.
Proof. intros o vars. exact (obj_quant_spec QDeriv o vars). Qed.
Print Assumptions C07_objects.
