(* C20 - Operations are deterministic pure functions of their arguments.
   What a theorem can say: every operation of the model is a Gallina function (so equal arguments give
   equal results by construction); the results do not depend on the iteration order of the hash
   containers the code builds; and no instruction alters a register that already exists.
   Process-level randomness and scheduling are exercised by the check, not proved (partial). *)
From BBF Require Import Base.Prelude Base.Names Base.Bits Spec.Sem
     Model.Expr Model.Table Model.LibBdd Model.Bdd Model.Lexer Model.Parser Model.Display Model.Render Model.Csv Model.Prog
     Proofs.DdProofs Proofs.BddProofs Proofs.BddOps Proofs.ProgProofs Proofs.DetProofs.
From Coq Require Import Sorting.Permutation.

(* the HashMap handed to rename_variables: any order of its entries gives the same diagram *)
Theorem C20_rename_order_independent : forall nv m m' t, NoDup (map fst m) -> Permutation m m' -> dd_rename nv m t = dd_rename nv m' t.
Proof. exact dd_rename_perm. Qed.
Print Assumptions C20_rename_order_independent.

Theorem C20_hashmap_lookup_order_independent : forall m m' k, NoDup (map fst m) -> Permutation m m' -> nat_get m k = nat_get m' k.
Proof. exact nat_get_perm. Qed.
Print Assumptions C20_hashmap_lookup_order_independent.

(* the HashSet of support variables: any order gives the same essential inputs and the same assertion outcome *)
Theorem C20_support_order_independent : forall b sup sup', Permutation sup sup' ->
  (forall i, In i sup -> i < length (b_inputs b)) -> forall e e',
  fold_right (fun i acc => l <- acc ;; match inner_to_outer b i with Some x => Ok (set_insert x l) | None => Panic 22 end) (Ok []) sup = Ok e ->
  fold_right (fun i acc => l <- acc ;; match inner_to_outer b i with Some x => Ok (set_insert x l) | None => Panic 22 end) (Ok []) sup' = Ok e' ->
  e = e'.
Proof. exact support_perm_essential. Qed.
Print Assumptions C20_support_order_independent.

Theorem C20_membership_tests_order_independent : forall (f : name -> bool) l l', Permutation l l' -> forallb f l = forallb f l'.
Proof. exact (@forallb_perm name). Qed.
Print Assumptions C20_membership_tests_order_independent.

Theorem C20_sorted_collection_order_independent : forall l l', Permutation l l' -> set_of_list l = set_of_list l'.
Proof. exact set_of_list_perm. Qed.
Print Assumptions C20_sorted_collection_order_independent.

(* operands are never altered: a step only appends a register *)
Theorem C20_operands_unchanged : forall p i r, r < length p -> nth_error (Prog.step p i) r = nth_error p r.
Proof. exact step_keeps_registers. Qed.
Print Assumptions C20_operands_unchanged.

Theorem C20_operands_unchanged_by_programs : forall is p r, r < length p -> nth_error (fold_left Prog.step is p) r = nth_error p r.
Proof. exact run_keeps_registers. Qed.
Print Assumptions C20_operands_unchanged_by_programs.

(* interleaving with unrelated instructions does not change a result: the result of an instruction depends
   only on the registers it reads *)
Theorem C20_result_depends_only_on_operands : forall p j x, exec p (IOp1 ONot j) = Ok x ->
  forall i, exec (Prog.step p i) (IOp1 ONot j) = Ok x.
Proof.
  intros p j x H i. simpl in *. destruct (reg p j) as [y|] eqn:E; [|discriminate].
  rewrite reg_step_old by (eapply reg_lt; eauto). rewrite E. exact H.
Qed.
Print Assumptions C20_result_depends_only_on_operands.
