(* C16 - Importing a truth table from CSV: a successful import agrees with every data record;
   text that does not describe a complete, unambiguous table is rejected with an error; no text
   causes a panic; the file and string entry points agree.  (from_csv.rs after the repair of D10.) *)
From BBF Require Import Base.Prelude Base.Names Base.Bits Model.Table Model.Render Model.Csv
     Proofs.RenderProofs Proofs.CsvProofs.
From Coq Require Import Sorting.Permutation.
From BBF Require Import Spec.Sem Model.Expr Model.LibBdd Model.Bdd Model.Prog Model.Iter Model.Extra Proofs.ExtraProofs.

(* on the records the reader delivers: the table is well formed, its inputs are the sorted column
   names (header names, or x_0, x_1, ...), every data record has the width of the first record and
   Boolean cells, its output is the value of the table at its valuation, and the input combinations
   of the records are all points of the domain, each once *)
Theorem C16_import_sound : forall rs t, import_records rs = Ok t ->
  let cols := csv_columns rs in
  wf_table t /\
  NoDup cols /\
  t_inputs t = set_of_list cols /\
  (forall r, In r (csv_data rs) ->
     length r = csv_width rs /\
     Forall (fun x => exists b, string_to_bool (cell_of cols r x) = Some b) (t_inputs t) /\
     record_output r = Some (tsem t (record_env cols r))) /\
  Permutation (map (record_point cols (t_inputs t)) (csv_data rs)) (points (length (t_inputs t))).
Proof. exact import_records_sound. Qed.
Print Assumptions C16_import_sound.

(* the same for the string entry point, on the records of the splitter *)
Theorem C16_string_sound : forall s t, s <> [] -> from_csv_string s = Ok t ->
  let rs := split_records s in
  let cols := csv_columns rs in
  wf_table t /\
  NoDup cols /\
  t_inputs t = set_of_list cols /\
  (forall r, In r (csv_data rs) ->
     length r = csv_width rs /\
     Forall (fun x => exists b, string_to_bool (cell_of cols r x) = Some b) (t_inputs t) /\
     record_output r = Some (tsem t (record_env cols r))) /\
  Permutation (map (record_point cols (t_inputs t)) (csv_data rs)) (points (length (t_inputs t))).
Proof. exact from_csv_string_sound. Qed.
Print Assumptions C16_string_sound.

Theorem C16_empty_text : from_csv_string [] = Ok empty_table.
Proof. exact from_csv_string_empty. Qed.
Print Assumptions C16_empty_text.

(* the splitter never delivers a record without fields *)
Theorem C16_records_nonempty : forall s, Forall (fun r => r <> []) (split_records s).
Proof. exact split_records_nonempty. Qed.
Print Assumptions C16_records_nonempty.

(* everything that is not a description of a table is rejected with an error ... *)
Theorem C16_rejects : forall rs, ~ describes_table rs -> exists c, import_records rs = Err c.
Proof. exact import_records_rejects. Qed.
Print Assumptions C16_rejects.

Theorem C16_string_rejects : forall s, s <> [] -> ~ describes_table (split_records s) -> exists c, from_csv_string s = Err c.
Proof. exact from_csv_string_rejects. Qed.
Print Assumptions C16_string_rejects.

(* ... in particular each fault class *)
Theorem C16_reject_duplicate_names : forall rs, ~ NoDup (csv_columns rs) -> exists c, import_records rs = Err c.
Proof. exact reject_duplicate_names. Qed.
Print Assumptions C16_reject_duplicate_names.

Theorem C16_reject_ragged : forall rs r, In r (csv_data rs) -> length r <> csv_width rs -> exists c, import_records rs = Err c.
Proof. exact reject_ragged. Qed.
Print Assumptions C16_reject_ragged.

Theorem C16_reject_non_boolean_input : forall rs r x,
  In r (csv_data rs) -> In x (csv_columns rs) -> string_to_bool (cell_of (csv_columns rs) r x) = None ->
  exists c, import_records rs = Err c.
Proof. exact reject_non_boolean_input. Qed.
Print Assumptions C16_reject_non_boolean_input.

Theorem C16_reject_non_boolean_output : forall rs r,
  In r (csv_data rs) -> record_output r = None -> exists c, import_records rs = Err c.
Proof. exact reject_non_boolean_output. Qed.
Print Assumptions C16_reject_non_boolean_output.

Theorem C16_reject_missing_combination : forall rs p,
  let cols := csv_columns rs in let vars := set_of_list cols in
  length p = length vars -> ~ In p (map (record_point cols vars) (csv_data rs)) ->
  exists c, import_records rs = Err c.
Proof. exact reject_missing_combination. Qed.
Print Assumptions C16_reject_missing_combination.

Theorem C16_reject_repeated_combination : forall rs,
  let cols := csv_columns rs in let vars := set_of_list cols in
  ~ NoDup (map (record_point cols vars) (csv_data rs)) -> exists c, import_records rs = Err c.
Proof. exact reject_repeated_combination. Qed.
Print Assumptions C16_reject_repeated_combination.

(* conversely every description of a table with fewer than 64 inputs is accepted *)
Theorem C16_accepts : forall rs,
  rs <> [] -> hd [] rs <> [] -> describes_table rs ->
  length (set_of_list (csv_columns rs)) < usize_bits ->
  exists t, import_records rs = Ok t.
Proof. exact import_records_complete. Qed.
Print Assumptions C16_accepts.

(* whatever the column order, the row order, the presence of a header line and the spellings:
   two accepted texts over the same variables whose records give the same output to the same
   input combination are the same table *)
Theorem C16_invariant : forall rs rs' t t',
  import_records rs = Ok t -> import_records rs' = Ok t' ->
  set_of_list (csv_columns rs) = set_of_list (csv_columns rs') ->
  (forall r r', In r (csv_data rs) -> In r' (csv_data rs') ->
     record_point (csv_columns rs) (t_inputs t) r = record_point (csv_columns rs') (t_inputs t) r' ->
     record_output r = record_output r') ->
  t = t'.
Proof. exact import_records_invariant. Qed.
Print Assumptions C16_invariant.

Theorem C16_never_panics : forall s c, from_csv_string s <> Panic c /\ from_csv_file s <> Panic c.
Proof. exact from_csv_never_panics. Qed.
Print Assumptions C16_never_panics.

Theorem C16_entry_points_agree : forall s, from_csv_file s = from_csv_string s.
Proof. exact from_csv_file_string. Qed.
Print Assumptions C16_entry_points_agree.

(* non-vacuity.  "b,a,r" CRLF "0,1,T" LF "\"1\",1,false" LF LF "1,0,True" CR "0,0,F": columns and
   rows out of order, four spellings, a quoted cell, a blank line, three line terminators;
   the former defects: "0,1" LF "1,0" LF keeps its first record, "a,r" LF "0,1" LF "0,0" LF and a
   header of 64 inputs without records are rejected *)
(* the payload of DuplicateVariableName (Model/Extra.v): whenever a name is reported the import is rejected with that
   variant, and the name is the first header cell that repeats an earlier one (nothing before it repeats) *)
Theorem C16_duplicate_name_reported : forall rs x, dup_of_records rs = Some x ->
  import_records rs = Err E_DuplicateVariableName /\
  exists hdr rest pre post, header_and_data rs = Ok (true, hdr, rest) /\ removelast hdr = pre ++ x :: post /\ In x pre /\ NoDup pre.
Proof. intros rs x H. exact (conj (dup_import rs x H) (dup_is_first_repeat rs x H)). Qed.
Print Assumptions C16_duplicate_name_reported.

Theorem C16_duplicate_name_string : forall s x, csv_duplicate_name s = Some x -> from_csv_string s = Err E_DuplicateVariableName.
Proof. exact dup_string. Qed.
Print Assumptions C16_duplicate_name_string.

(* ... and this variant is produced by nothing else: exactly the texts with a repeated header name get it *)
Theorem C16_duplicate_variant_iff : forall rs, import_records rs = Err E_DuplicateVariableName <-> exists x, dup_of_records rs = Some x.
Proof. intros rs. split; [exact (import_dup rs)|intros [x H]; exact (dup_import rs x H)]. Qed.
Print Assumptions C16_duplicate_variant_iff.

(* the payload of NonBooleanCellValue (Model/Extra.v): this variant is produced exactly when a cell is reported, the
   reported text is no Boolean spelling, and it is a cell of one of the records *)
Theorem C16_bad_cell_reported : forall rs,
  (import_records rs = Err E_NonBooleanCellValue <-> exists c, bad_cell_of_records rs = Some c) /\
  (forall c, bad_cell_of_records rs = Some c -> string_to_bool c = None /\ exists r, In r rs /\ In c r).
Proof.
  intros rs. split; [split; [exact (bad_cell_complete rs)|intros [c H]; exact (proj1 (bad_cell_sound rs c H))]|].
  intros c H. exact (proj2 (bad_cell_sound rs c H)).
Qed.
Print Assumptions C16_bad_cell_reported.

Example C16_example :
  from_csv_string [98;44;97;44;114;13;10; 48;44;49;44;84;10; 34;49;34;44;49;44;102;97;108;115;101;10;10;
                   49;44;48;44;84;114;117;101;13; 48;44;48;44;70]%N
  = Ok {| t_inputs := [[97%N]; [98%N]]; t_outputs := [false; true; true; false] |}
  /\ from_csv_string [48;44;49;10;49;44;48;10]%N = Ok {| t_inputs := [x_name 0]; t_outputs := [true; false] |}
  /\ from_csv_string [97;44;114;10;48;44;49;10;48;44;48;10]%N = Err E_MismatchedRecordCountAndVariableCount
  /\ from_csv_file (tjoin [c_comma] (map x_name (seq 0 64) ++ [w_result])) = Err E_MismatchedRecordCountAndVariableCount
  /\ from_csv_string [97;44;97;44;114;10;48;44;48;44;49]%N = Err E_DuplicateVariableName
  /\ from_csv_string [97;44;114;10;48;44;49;10;49]%N = Err E_ParsingError
  /\ from_csv_string [97;44;114;10;48;44;49;10;50;44;48]%N = Err E_NonBooleanCellValue
  /\ from_csv_string [10;13]%N = Err E_UnexpectedEof.
Proof. repeat split; vm_compute; reflexivity. Qed.
