(* C03 - Logical connectives act pointwise, over the union of the operands' variables. *)
From BBF Require Import Base.Prelude Base.Names Base.Bits Spec.Sem
     Model.Expr Model.Table Model.LibBdd Model.Bdd
     Proofs.ExprProofs Proofs.TableProofs Proofs.QuantProofs Proofs.NfProofs Proofs.DdProofs Proofs.BddProofs Proofs.BddOps
     Proofs.ConvProofs Proofs.RenderProofs Proofs.EnumProofs.
From BBF Require Import Model.Lexer Model.Parser Model.Display Model.Render Model.Csv Model.Prog Proofs.ProgProofs Proofs.ConvChain Proofs.OpsObjects.
Theorem C03_expr_and : forall v a b, sem v (e_and a b) = sem v a && sem v b.
Proof. exact sem_e_and. Qed.
Print Assumptions C03_expr_and.

Theorem C03_expr_or : forall v a b, sem v (e_or a b) = sem v a || sem v b.
Proof. exact sem_e_or. Qed.
Print Assumptions C03_expr_or.

Theorem C03_expr_xor : forall v a b, sem v (e_xor a b) = xorb (sem v a) (sem v b).
Proof. exact sem_e_xor. Qed.
Print Assumptions C03_expr_xor.

Theorem C03_expr_imply : forall v a b, sem v (e_imply a b) = implb (sem v a) (sem v b).
Proof. exact sem_e_imply. Qed.
Print Assumptions C03_expr_imply.

Theorem C03_expr_iff : forall v a b, sem v (e_iff a b) = Bool.eqb (sem v a) (sem v b).
Proof. exact sem_e_iff. Qed.
Print Assumptions C03_expr_iff.

Theorem C03_expr_not : forall v a, sem v (e_not a) = negb (sem v a).
Proof. exact sem_e_not. Qed.
Print Assumptions C03_expr_not.

Theorem C03_expr_inputs_and : forall a b, literals (e_and a b) = set_union (literals a) (literals b).
Proof. exact literals_e_and. Qed.
Print Assumptions C03_expr_inputs_and.

Theorem C03_expr_inputs_or : forall a b, literals (e_or a b) = set_union (literals a) (literals b).
Proof. exact literals_e_or. Qed.
Print Assumptions C03_expr_inputs_or.

Theorem C03_table_bit : forall op a b, wf_table a -> wf_table b -> wf_table (t_bit op a b) /\ t_inputs (t_bit op a b) = set_union (t_inputs a) (t_inputs b) /\ forall v, tsem (t_bit op a b) v = op (tsem a v) (tsem b v).
Proof. exact t_bit_spec. Qed.
Print Assumptions C03_table_bit.

Theorem C03_table_not : forall a, wf_table a -> wf_table (t_not a) /\ t_inputs (t_not a) = t_inputs a /\ forall v, tsem (t_not a) v = negb (tsem a v).
Proof. exact t_not_spec. Qed.
Print Assumptions C03_table_not.

Theorem C03_bdd_bit : forall dbg op a b, wf_bdd a -> wf_bdd b -> exists r, b_bit dbg (dd_apply op) a b = Ok r /\ wf_bdd r /\ b_inputs r = set_union (b_inputs a) (b_inputs b) /\ forall v, bsem r v = op (bsem a v) (bsem b v).
Proof. exact b_bit_spec. Qed.
Print Assumptions C03_bdd_bit.

Theorem C03_bdd_not : forall a, wf_bdd a -> wf_bdd (b_not a) /\ b_inputs (b_not a) = b_inputs a /\ forall v, bsem (b_not a) v = negb (bsem a v).
Proof. exact b_not_spec. Qed.
Print Assumptions C03_bdd_not.

Theorem C03_extend_ok : forall dbg b new, wf_bdd b -> sset new -> incl (b_inputs b) new -> exists b', extend dbg b new = Ok b' /\ wf_bdd b' /\ b_inputs b' = new /\ (forall v, bsem b' v = bsem b v) /\ (forall y, occurs y (b_root b') -> exists x, nth_error new y = Some x /\ In x (b_inputs b)).
Proof. exact extend_ok. Qed.
Print Assumptions C03_extend_ok.

Example C03_example :
  let a := tabulate [[97%N]] (fun rho => evaluate (Lit [97%N]) rho) in
  let b := tabulate [[98%N]] (fun rho => evaluate (Not (Lit [98%N])) rho) in
  wf_table a /\ wf_table b /\ t_and a b = {| t_inputs := [[97%N]; [98%N]]; t_outputs := [false; false; true; false] |}.
Proof. repeat split; repeat constructor. Qed.

(* ---- objects of any representation, as the case language runs the operations ---- *)

Theorem C03_objects : forall op x y z, owf x -> owf y -> exec_op2 op x y = Ok z ->
  owf z /\ obj_kind z = obj_kind x /\
  (forall v, osem z v = bool_op op (osem x v) (osem y v)) /\
  match z with
  | OE e => incl (literals e) (set_union (decl x) (decl y))
  | _ => decl z = set_union (decl x) (decl y)
  end.
Proof. exact obj_op2_spec. Qed.
Print Assumptions C03_objects.

Theorem C03_objects_total : forall op x y, owf x -> owf y -> obj_kind x = obj_kind y -> exists z, exec_op2 op x y = Ok z.
Proof. exact obj_op2_total. Qed.
Print Assumptions C03_objects_total.

Theorem C03_objects_not : forall x, owf x ->
  exists z, exec_op1 ONot x = Ok z /\ owf z /\ obj_kind z = obj_kind x /\ (forall v, osem z v = negb (osem x v)) /\
            match z with OE e => incl (literals e) (decl x) | _ => decl z = decl x end.
Proof. exact obj_not_spec. Qed.
Print Assumptions C03_objects_not.
