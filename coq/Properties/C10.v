(* C10 - Domain, image, relation, support, weight and sat-point enumerations are coherent. *)
From BBF Require Import Base.Prelude Base.Names Base.Bits Spec.Sem
     Model.Expr Model.Table Model.LibBdd Model.Bdd
     Proofs.ExprProofs Proofs.TableProofs Proofs.QuantProofs Proofs.NfProofs Proofs.DdProofs Proofs.BddProofs Proofs.BddOps
     Proofs.ConvProofs Proofs.RenderProofs Proofs.EnumProofs Proofs.CountProofs Proofs.EnumAgree.
From BBF Require Import Model.Lexer Model.Parser Model.Display Model.Render Model.Csv Model.Prog Proofs.ProgProofs Proofs.ConvChain Proofs.ObsProofs.
Theorem C10_domain_size : forall n, length (points n) = 2 ^ n.
Proof. exact points_length. Qed.
Print Assumptions C10_domain_size.

Theorem C10_domain_all_points : forall n p, In p (points n) <-> length p = n.
Proof. exact points_In. Qed.
Print Assumptions C10_domain_all_points.

Theorem C10_domain_once : forall n, NoDup (points n).
Proof. exact points_NoDup. Qed.
Print Assumptions C10_domain_once.

Theorem C10_domain_position_is_value : forall n i, i < 2 ^ n -> point_index (nth i (points n) []) = N.of_nat i.
Proof. exact nth_points_value. Qed.
Print Assumptions C10_domain_position_is_value.

Theorem C10_domain_lexicographic : forall n i j, i < j < 2 ^ n -> (point_index (nth i (points n) []) < point_index (nth j (points n) []))%N.
Proof. exact points_increasing. Qed.
Print Assumptions C10_domain_lexicographic.

Theorem C10_codec : forall p, nth (N.to_nat (point_index p)) (points (length p)) [] = p.
Proof. exact nth_points_index. Qed.
Print Assumptions C10_codec.

Theorem C10_codec_as_computed : forall i n, (i < 2 ^ N.of_nat n)%N -> index_point i n = nth (N.to_nat i) (points n) [].
Proof. exact index_point_spec. Qed.
Print Assumptions C10_codec_as_computed.

Theorem C10_expr : forall e, let ins := literals e in e_domain e = points (length ins) /\ e_image e = map (fun p => sem (env_of ins p) e) (e_domain e) /\ e_relation e = combine (e_domain e) (e_image e) /\ e_support e = filter (fun p => sem (env_of ins p) e) (e_domain e) /\ e_weight e = N.of_nat (length (e_support e)) /\ (forall p, e_sat_point e = Some p -> In p (e_support e)) /\ (e_sat_point e = None <-> e_support e = []).
Proof. exact e_enum_spec. Qed.
Print Assumptions C10_expr.

Theorem C10_table : forall t, wf_table t -> let ins := t_inputs t in t_domain t = points (length ins) /\ t_image t = map (fun p => tsem t (env_of ins p)) (t_domain t) /\ t_relation t = combine (t_domain t) (t_image t) /\ t_support t = filter (fun p => tsem t (env_of ins p)) (t_domain t) /\ t_weight t = N.of_nat (length (t_support t)) /\ (forall p, t_sat_point t = Some p -> In p (t_support t)) /\ (t_sat_point t = None <-> t_support t = []).
Proof. exact t_enum_spec. Qed.
Print Assumptions C10_table.

Theorem C10_bdd : forall b, wf_bdd b -> let ins := b_inputs b in b_domain b = points (length ins) /\ b_image b = map (fun p => bsem b (env_of ins p)) (b_domain b) /\ b_relation b = combine (b_domain b) (b_image b) /\ b_support b = filter (fun p => bsem b (env_of ins p)) (b_domain b) /\ (forall p, b_sat_point b = Some p -> In p (b_support b)) /\ (b_sat_point b = None <-> b_support b = []).
Proof. exact b_enum_spec. Qed.
Print Assumptions C10_bdd.

(* the diagram's weight (exact_cardinality on the tree) is the size of its support *)
Theorem C10_bdd_weight : forall b, wf_bdd b -> b_weight b = N.of_nat (length (b_support b)).
Proof. exact b_weight_is_support_size. Qed.
Print Assumptions C10_bdd_weight.

(* position i of a point stands for the i-th smallest input *)
Theorem C10_point_positions : forall inputs, sset inputs -> forall p, length p = length inputs -> map (env_of inputs p) inputs = p.
Proof. exact env_of_map. Qed.
Print Assumptions C10_point_positions.

(* the three representations of one function agree on every enumeration (here even as lists) *)
Theorem C10_representations_agree : forall e b, bdd_of_expr e = Ok b ->
  let t := table_of_expr e in
  e_domain e = t_domain t /\ t_domain t = b_domain b /\
  e_image e = t_image t /\ t_image t = b_image b /\
  e_relation e = t_relation t /\ t_relation t = b_relation b /\
  e_support e = t_support t /\ t_support t = b_support b /\
  e_weight e = t_weight t /\ t_weight t = b_weight b.
Proof. exact enumerations_agree. Qed.
Print Assumptions C10_representations_agree.

(* an object of any representation (what the model runner prints) *)
Theorem C10_object : forall o, owf o ->
  let ins := decl o in
  obj_domain o = points (length ins) /\
  obj_image o = map (fun p => osem o (env_of ins p)) (obj_domain o) /\
  obj_relation o = combine (obj_domain o) (obj_image o) /\
  obj_support o = filter (fun p => osem o (env_of ins p)) (obj_domain o) /\
  obj_weight o = N.of_nat (length (obj_support o)) /\
  (forall p, obj_sat_point o = Some p -> In p (obj_support o)) /\
  (obj_sat_point o = None <-> obj_support o = []).
Proof. exact obj_enumerations_spec. Qed.
Print Assumptions C10_object.

Example C10_example : e_relation (And [Lit [97%N]; Not (Lit [98%N])]) =
  [([false; false], false); ([false; true], false); ([true; false], true); ([true; true], false)].
Proof. reflexivity. Qed.
