(* C10 - Domain, image, relation, support, weight and sat-point enumerations are coherent. *)
From BBF Require Import Base.Prelude Base.Names Base.Bits Spec.Sem
     Model.Expr Model.Table Model.LibBdd Model.Bdd
     Proofs.ExprProofs Proofs.TableProofs Proofs.QuantProofs Proofs.NfProofs Proofs.DdProofs Proofs.BddProofs Proofs.BddOps
     Proofs.ConvProofs Proofs.RenderProofs Proofs.EnumProofs Proofs.CountProofs Proofs.EnumAgree.
From BBF Require Import Model.Lexer Model.Parser Model.Display Model.Render Model.Csv Model.Prog Proofs.ProgProofs Proofs.ConvChain Proofs.ObsProofs.
From BBF Require Import Model.Iter Proofs.IterProofs Model.Extra Proofs.ExtraProofs Proofs.IterSem.
Theorem C10_domain_size : forall n, length (points n) = 2 ^ n.
Proof. exact points_length. Qed.
Print Assumptions C10_domain_size.

Theorem C10_domain_all_points : forall n p, In p (points n) <-> length p = n.
Proof. exact points_In. Qed.
Print Assumptions C10_domain_all_points.

Theorem C10_domain_once : forall n, NoDup (points n).
Proof. exact points_NoDup. Qed.
Print Assumptions C10_domain_once.

Theorem C10_domain_position_is_value : forall n i, i < 2 ^ n -> point_index (nth i (points n) []) = N.of_nat i.
Proof. exact nth_points_value. Qed.
Print Assumptions C10_domain_position_is_value.

Theorem C10_domain_lexicographic : forall n i j, i < j < 2 ^ n -> (point_index (nth i (points n) []) < point_index (nth j (points n) []))%N.
Proof. exact points_increasing. Qed.
Print Assumptions C10_domain_lexicographic.

Theorem C10_codec : forall p, nth (N.to_nat (point_index p)) (points (length p)) [] = p.
Proof. exact nth_points_index. Qed.
Print Assumptions C10_codec.

Theorem C10_codec_as_computed : forall i n, (i < 2 ^ N.of_nat n)%N -> index_point i n = nth (N.to_nat i) (points n) [].
Proof. exact index_point_spec. Qed.
Print Assumptions C10_codec_as_computed.

Theorem C10_expr : forall e, let ins := literals e in e_domain e = points (length ins) /\ e_image e = map (fun p => sem (env_of ins p) e) (e_domain e) /\ e_relation e = combine (e_domain e) (e_image e) /\ e_support e = filter (fun p => sem (env_of ins p) e) (e_domain e) /\ e_weight e = N.of_nat (length (e_support e)) /\ (forall p, e_sat_point e = Some p -> In p (e_support e)) /\ (e_sat_point e = None <-> e_support e = []).
Proof. exact e_enum_spec. Qed.
Print Assumptions C10_expr.

Theorem C10_table : forall t, wf_table t -> let ins := t_inputs t in t_domain t = points (length ins) /\ t_image t = map (fun p => tsem t (env_of ins p)) (t_domain t) /\ t_relation t = combine (t_domain t) (t_image t) /\ t_support t = filter (fun p => tsem t (env_of ins p)) (t_domain t) /\ t_weight t = N.of_nat (length (t_support t)) /\ (forall p, t_sat_point t = Some p -> In p (t_support t)) /\ (t_sat_point t = None <-> t_support t = []).
Proof. exact t_enum_spec. Qed.
Print Assumptions C10_table.

Theorem C10_bdd : forall b, wf_bdd b -> let ins := b_inputs b in b_domain b = points (length ins) /\ b_image b = map (fun p => bsem b (env_of ins p)) (b_domain b) /\ b_relation b = combine (b_domain b) (b_image b) /\ b_support b = filter (fun p => bsem b (env_of ins p)) (b_domain b) /\ (forall p, b_sat_point b = Some p -> In p (b_support b)) /\ (b_sat_point b = None <-> b_support b = []).
Proof. exact b_enum_spec. Qed.
Print Assumptions C10_bdd.

(* the diagram's weight (exact_cardinality on the tree) is the size of its support *)
Theorem C10_bdd_weight : forall b, wf_bdd b -> b_weight b = N.of_nat (length (b_support b)).
Proof. exact b_weight_is_support_size. Qed.
Print Assumptions C10_bdd_weight.

(* position i of a point stands for the i-th smallest input *)
Theorem C10_point_positions : forall inputs, sset inputs -> forall p, length p = length inputs -> map (env_of inputs p) inputs = p.
Proof. exact env_of_map. Qed.
Print Assumptions C10_point_positions.

(* the three representations of one function agree on every enumeration (here even as lists) *)
Theorem C10_representations_agree : forall e b, bdd_of_expr e = Ok b ->
  let t := table_of_expr e in
  e_domain e = t_domain t /\ t_domain t = b_domain b /\
  e_image e = t_image t /\ t_image t = b_image b /\
  e_relation e = t_relation t /\ t_relation t = b_relation b /\
  e_support e = t_support t /\ t_support t = b_support b /\
  e_weight e = t_weight t /\ t_weight t = b_weight b.
Proof. exact enumerations_agree. Qed.
Print Assumptions C10_representations_agree.

(* an object of any representation (what the model runner prints) *)
Theorem C10_object : forall o, owf o ->
  let ins := decl o in
  obj_domain o = points (length ins) /\
  obj_image o = map (fun p => osem o (env_of ins p)) (obj_domain o) /\
  obj_relation o = combine (obj_domain o) (obj_image o) /\
  obj_support o = filter (fun p => osem o (env_of ins p)) (obj_domain o) /\
  obj_weight o = N.of_nat (length (obj_support o)) /\
  (forall p, obj_sat_point o = Some p -> In p (obj_support o)) /\
  (obj_sat_point o = None <-> obj_support o = []).
Proof. exact obj_enumerations_spec. Qed.
Print Assumptions C10_object.

(* ---- the iterator structs as state machines (Model/Iter.v mirrors `next` of each struct) ----
   The i-th call of next() on a fresh iterator returns the i-th item of the enumeration, and None from the end
   of the enumeration on, for every number k of calls (so the iterators are lazy, exact and fused). *)
Theorem C10_iter_domain : forall n k, steps dom_next k (dom_new n) = map (nth_error (points n)) (seq 0 k).
Proof. exact dom_steps_spec. Qed.
Print Assumptions C10_iter_domain.

Theorem C10_iter_expr : forall e k,
  steps e_img_next k (e_it_new e) = map (nth_error (e_image e)) (seq 0 k) /\
  steps e_rel_next k (e_it_new e) = map (nth_error (e_relation e)) (seq 0 k) /\
  steps e_sup_next k (e_it_new e) = map (nth_error (e_support e)) (seq 0 k).
Proof. intros e k. exact (conj (e_img_steps_spec e k) (conj (e_rel_steps_spec e k) (e_sup_steps_spec e k))). Qed.
Print Assumptions C10_iter_expr.

Theorem C10_iter_table : forall t k,
  steps t_img_next k (t_img_new t) = map (nth_error (t_image t)) (seq 0 k) /\
  steps t_rel_next k (t_rel_new t) = map (nth_error (t_relation t)) (seq 0 k) /\
  steps t_sup_next k (t_sup_new t) = map (nth_error (t_support t)) (seq 0 k).
Proof. intros t k. exact (conj (t_img_steps_spec t k) (conj (t_rel_steps_spec t k) (t_sup_steps_spec t k))). Qed.
Print Assumptions C10_iter_table.

Theorem C10_iter_bdd : forall b k,
  steps b_img_next k (b_img_new b) = map (nth_error (b_image b)) (seq 0 k) /\
  steps b_rel_next k (b_rel_new b) = map (nth_error (b_relation b)) (seq 0 k).
Proof. intros b k. exact (conj (b_img_steps_spec b k) (b_rel_steps_spec b k)). Qed.
Print Assumptions C10_iter_bdd.

(* what the model runner prints for an object: the answers of k calls on fresh iterators of the four kinds *)
Theorem C10_iter_object : forall o k,
  obj_dom_steps o k = map (nth_error (obj_domain o)) (seq 0 k) /\
  obj_img_steps o k = map (nth_error (obj_image o)) (seq 0 k) /\
  obj_rel_steps o k = map (nth_error (obj_relation o)) (seq 0 k) /\
  (forall l, obj_sup_steps o k = Some l -> l = map (nth_error (obj_support o)) (seq 0 k)).
Proof. exact obj_iter_spec. Qed.
Print Assumptions C10_iter_object.

(* once an iterator has answered None it answers None for ever *)
Theorem C10_iter_fused : forall (A : Type) (L : list A) i j, i <= j -> nth_error L i = None -> nth_error L j = None.
Proof. exact @answers_fused. Qed.
Print Assumptions C10_iter_fused.

(* Iterator's default methods, which the code does not override, on these machines: collect, nth then next,
   count, last *)
Theorem C10_iter_collect : forall n fuel, 2 ^ n < fuel -> drain dom_next fuel (dom_new n) = points n.
Proof. exact dom_collect. Qed.
Print Assumptions C10_iter_collect.

Theorem C10_iter_collect_support : forall e fuel, 2 ^ length (literals e) < fuel -> drain e_sup_next fuel (e_it_new e) = e_support e.
Proof. exact e_sup_collect. Qed.
Print Assumptions C10_iter_collect_support.

Theorem C10_iter_nth : forall o n,
  obj_dom_nth o n = (nth_error (obj_domain o) n, nth_error (obj_domain o) (S n)) /\
  obj_rel_nth o n = (nth_error (obj_relation o) n, nth_error (obj_relation o) (S n)).
Proof. intros o n. exact (conj (obj_dom_nth_spec o n) (obj_rel_nth_spec o n)). Qed.
Print Assumptions C10_iter_nth.

Theorem C10_iter_count_last : forall o,
  obj_img_count o = length (obj_image o) /\ obj_dom_last o = last (map Some (obj_domain o)) None.
Proof. intros o. exact (conj (obj_img_count_spec o) (obj_dom_last_spec o)). Qed.
Print Assumptions C10_iter_count_last.

(* count() and last() of a partly consumed iterator (after nth(n) and one more next()): what is left of the list *)
Theorem C10_iter_partly_consumed : forall o n,
  obj_dom_rest o n = (length (skipn (S (S n)) (obj_domain o)), last (map Some (skipn (S (S n)) (obj_domain o))) None) /\
  obj_img_rest o n = length (skipn (S (S n)) (obj_image o)).
Proof. intros o n. exact (conj (obj_dom_rest_spec o n) (obj_img_rest_spec o n)). Qed.
Print Assumptions C10_iter_partly_consumed.

(* the public boolean_point_to_valuation of expressions and tables: the sorted inputs paired with the point's
   values, and None for every point of another length *)
Theorem C10_point_to_valuation : forall vars p,
  (length p = length vars -> point_valuation vars p = Some (combine vars p)) /\
  (length p <> length vars -> point_valuation vars p = None).
Proof. exact point_valuation_spec. Qed.
Print Assumptions C10_point_to_valuation.

(* end to end, for a well-formed object with declared inputs ins (n of them): the i-th call of next() on fresh
   image / relation / domain iterators returns the function's value at the point whose binary value is i (with that
   point), for i < 2^n, and None from call 2^n on *)
Theorem C10_iter_means : forall o, owf o ->
  let ins := decl o in let n := length ins in
  forall k i, i < k -> i < 2 ^ n ->
    nth_error (obj_img_steps o k) i = Some (Some (osem o (env_of ins (index_point (N.of_nat i) n)))) /\
    nth_error (obj_rel_steps o k) i = Some (Some (index_point (N.of_nat i) n, osem o (env_of ins (index_point (N.of_nat i) n)))) /\
    nth_error (obj_dom_steps o k) i = Some (Some (index_point (N.of_nat i) n)).
Proof. exact iter_image_value. Qed.
Print Assumptions C10_iter_means.

Theorem C10_iter_ends : forall o, owf o ->
  let n := length (decl o) in
  forall k i, i < k -> 2 ^ n <= i ->
    nth_error (obj_img_steps o k) i = Some None /\ nth_error (obj_rel_steps o k) i = Some None /\ nth_error (obj_dom_steps o k) i = Some None.
Proof. exact iter_exhausted. Qed.
Print Assumptions C10_iter_ends.

Example C10_iter_example :
  steps e_sup_next 3 (e_it_new (Or [Lit [97%N]; Lit [98%N]])) = [Some [false; true]; Some [true; false]; Some [true; true]]
  /\ steps e_sup_next 5 (e_it_new (And [Lit [97%N]; Lit [98%N]])) = [Some [true; true]; None; None; None; None].
Proof. split; reflexivity. Qed.

Example C10_example : e_relation (And [Lit [97%N]; Not (Lit [98%N])]) =
  [([false; false], false); ([false; true], false); ([true; false], true); ([true; true], false)].
Proof. reflexivity. Qed.
