(* C14 - Printing an expression and parsing the text back.
   Statements only; every proof is `exact <lemma>`.
   Hypotheses (Proofs/RoundTrip.v):
     printable e : every name is non-empty, made of [-_a-zA-Z0-9] and not a keyword up to
                   case folding (true t 1 false f 0 and or v not); no And / Or node is empty;
     proper e    : every And / Or node has at least two operands;
     norm e      : e with every one-operand And / Or node replaced by its operand. *)
From BBF Require Import Base.Prelude Base.Names Model.Expr Model.Lexer Model.Parser Model.Display
     Spec.Grammar Proofs.LexerProofs Proofs.ParserProofs Proofs.RoundTrip.
From Coq Require Import Strings.String.

(* what exactly comes back *)
Theorem C14_round_trip : forall e, printable e = true -> from_str (display e) = Ok (norm e).
Proof. exact round_trip. Qed.
Print Assumptions C14_round_trip.

(* same meaning and same literals *)
Theorem C14_round_trip_meaning : forall e, printable e = true ->
  exists e', from_str (display e) = Ok e' /\ (forall v, sem v e' = sem v e) /\ literals e' = literals e.
Proof. exact round_trip_sem. Qed.
Print Assumptions C14_round_trip_meaning.

(* the same tree when every And / Or has at least two operands *)
Theorem C14_round_trip_exact : forall e, printable e = true -> proper e = true -> from_str (display e) = Ok e.
Proof. exact round_trip_exact. Qed.
Print Assumptions C14_round_trip_exact.

(* the printed text reads as the expected token forest *)
Theorem C14_printed_tokens : forall e, printable e = true -> tokenize (display e) = TokOk (toks e).
Proof. exact display_tokenize. Qed.
Print Assumptions C14_printed_tokens.

(* non-vacuity, and the boundary of the hypotheses: an empty node prints "()" which is
   rejected; a keyword-like name comes back as a constant *)
Example C14_example :
  let x := fun c => Lit (str c) in
  let e := Or [And [x "a"; Not (x "b-1")]; Const true; Not (Or [x "x_2"; And [x "Tr"; x "nota"]])]%string in
  printable e = true /\ proper e = true
  /\ display e = str "((a & !(b-1)) | true | !((x_2 | (Tr & nota))))"%string
  /\ from_str (display e) = Ok e
  /\ (let e1 := And [Or [x "a"]; x "b"]%string in
      printable e1 = true /\ proper e1 = false /\ from_str (display e1) = Ok (And [x "a"; x "b"])%string)
  /\ from_str (display (And [])) = Err 11
  /\ from_str (display (x "T"%string)) = Ok (Const true).
Proof. vm_compute. repeat split; reflexivity. Qed.
