(* C04 - Equivalence and implication tests decide semantic equality and entailment. *)
From BBF Require Import Base.Prelude Base.Names Base.Bits Spec.Sem
     Model.Expr Model.Table Model.LibBdd Model.Bdd
     Proofs.ExprProofs Proofs.TableProofs Proofs.QuantProofs Proofs.NfProofs Proofs.DdProofs Proofs.BddProofs Proofs.BddOps
     Proofs.ConvProofs Proofs.RenderProofs Proofs.EnumProofs.
From BBF Require Import Model.Lexer Model.Parser Model.Display Model.Render Model.Csv Model.Prog Proofs.ProgProofs Proofs.CompareProofs.
Theorem C04_expr_equiv : forall a b, e_equiv a b = true <-> forall v, sem v a = sem v b.
Proof. exact e_equiv_spec. Qed.
Print Assumptions C04_expr_equiv.

Theorem C04_expr_implied : forall a b, e_implied_by a b = true <-> forall v, sem v b = true -> sem v a = true.
Proof. exact e_implied_by_spec. Qed.
Print Assumptions C04_expr_implied.

Theorem C04_table_equiv : forall a b, t_equiv a b = true <-> forall v, tsem a v = tsem b v.
Proof. exact t_equiv_spec. Qed.
Print Assumptions C04_table_equiv.

Theorem C04_table_implied : forall a b, t_implied_by a b = true <-> forall v, tsem b v = true -> tsem a v = true.
Proof. exact t_implied_by_spec. Qed.
Print Assumptions C04_table_implied.

Theorem C04_bdd_equiv : forall dbg a b, wf_bdd a -> wf_bdd b -> exists r, b_equiv dbg a b = Ok r /\ (r = true <-> forall v, bsem a v = bsem b v).
Proof. exact b_equiv_spec. Qed.
Print Assumptions C04_bdd_equiv.

Theorem C04_bdd_implied : forall dbg a b, wf_bdd a -> wf_bdd b -> exists r, b_implied_by dbg a b = Ok r /\ (r = true <-> forall v, bsem b v = true -> bsem a v = true).
Proof. exact b_implied_by_spec. Qed.
Print Assumptions C04_bdd_implied.

Theorem C04_canonical : forall a b k, ordered_from k a -> reduced a -> ordered_from k b -> reduced b -> (forall p, dd_eval a p = dd_eval b p) -> a = b.
Proof. exact canonical. Qed.
Print Assumptions C04_canonical.

(* the answer depends only on the functions denoted *)
Theorem C04_expr_depends_only_on_function : forall a a' b b', (forall v, sem v a = sem v a') -> (forall v, sem v b = sem v b') -> e_equiv a b = e_equiv a' b'.
Proof.
  intros a a' b b' Ha Hb. destruct (e_equiv a b) eqn:E, (e_equiv a' b') eqn:E'; try reflexivity; exfalso.
  - apply Bool.not_true_iff_false in E'. apply E'. apply e_equiv_spec. intros v. rewrite <- Ha, <- Hb. apply (proj1 (e_equiv_spec a b) E).
  - apply Bool.not_true_iff_false in E. apply E. apply e_equiv_spec. intros v. rewrite Ha, Hb. apply (proj1 (e_equiv_spec a' b') E').
Qed.
Print Assumptions C04_expr_depends_only_on_function.

(* ---- objects of any representation ---- *)

Theorem C04_objects_equiv : forall x y, owf x -> owf y -> obj_kind x = obj_kind y ->
  exists r, obj_equiv x y = Ok r /\ (r = true <-> forall v, osem x v = osem y v).
Proof. exact obj_equiv_spec. Qed.
Print Assumptions C04_objects_equiv.

Theorem C04_objects_implied : forall x y, owf x -> owf y -> obj_kind x = obj_kind y ->
  exists r, obj_implied_by x y = Ok r /\ (r = true <-> forall v, osem y v = true -> osem x v = true).
Proof. exact obj_implied_by_spec. Qed.
Print Assumptions C04_objects_implied.

(* the answers depend only on the two functions: not on the representation, on how the objects were built, or on
   variables they merely declare *)
Theorem C04_answers_depend_only_on_functions : forall x y x' y',
  owf x -> owf y -> owf x' -> owf y' -> obj_kind x = obj_kind y -> obj_kind x' = obj_kind y' ->
  (forall v, osem x v = osem x' v) -> (forall v, osem y v = osem y' v) ->
  obj_equiv x y = obj_equiv x' y' /\ obj_implied_by x y = obj_implied_by x' y'.
Proof. exact compare_depends_only_on_functions. Qed.
Print Assumptions C04_answers_depend_only_on_functions.

Theorem C04_equivalence_is_mutual_implication : forall x y, owf x -> owf y -> obj_kind x = obj_kind y ->
  exists r s t, obj_equiv x y = Ok r /\ obj_implied_by x y = Ok s /\ obj_implied_by y x = Ok t /\ r = s && t.
Proof. exact equiv_is_mutual_implication. Qed.
Print Assumptions C04_equivalence_is_mutual_implication.

(* a | (a & b) against the table of a over {a}: different representations, different declared inputs, same function *)
Example C04_example :
  let e := Or [Lit [97%N]; And [Lit [97%N]; Lit [98%N]]] in
  let t := {| t_inputs := [[97%N]]; t_outputs := [false; true] |} in
  e_equiv e (Lit [97%N]) = true /\ t_equiv (table_of_expr e) t = true.
Proof. split; reflexivity. Qed.
