(* C06 - Existential and universal quantification eliminate variables one at a time. *)
From BBF Require Import Base.Prelude Base.Names Base.Bits Spec.Sem
     Model.Expr Model.Table Model.LibBdd Model.Bdd
     Proofs.ExprProofs Proofs.TableProofs Proofs.QuantProofs Proofs.NfProofs Proofs.DdProofs Proofs.BddProofs Proofs.BddOps
     Proofs.ConvProofs Proofs.RenderProofs Proofs.EnumProofs Proofs.DualityProofs.
From BBF Require Import Model.Lexer Model.Parser Model.Display Model.Render Model.Csv Model.Prog Proofs.ProgProofs Proofs.ConvChain Proofs.OpsObjects.
From Coq Require Import Sorting.Permutation.
Theorem C06_expr_exists_sem : forall vars e v, sem v (e_exists e vars) = elim_fn orb vars (fun w => sem w e) v.
Proof. exact e_exists_sem. Qed.
Print Assumptions C06_expr_exists_sem.

Theorem C06_expr_exists_inputs : forall vars e, literals (e_exists e vars) = set_diff (literals e) vars.
Proof. exact e_exists_literals. Qed.
Print Assumptions C06_expr_exists_inputs.

Theorem C06_table_exists : forall vars t, wf_table t -> wf_table (t_exists t vars) /\ t_inputs (t_exists t vars) = set_diff (t_inputs t) vars /\ forall v, tsem (t_exists t vars) v = elim_fn orb vars (tsem t) v.
Proof. exact (t_elim_spec orb). Qed.
Print Assumptions C06_table_exists.

Theorem C06_bdd_exists : forall dbg b vars, wf_bdd b -> exists r, b_exists dbg b vars = Ok r /\ wf_bdd r /\ b_inputs r = set_diff (b_inputs b) vars /\ forall v, bsem r v = elim_fn orb vars (bsem b) v.
Proof. exact b_exists_spec. Qed.
Print Assumptions C06_bdd_exists.

Theorem C06_exists_all_assignments : forall vars f v, ext_fn f -> elim_fn orb vars f v = big orb vars (fun a => f (override v a)).
Proof. exact (elim_fn_big orb medial_orb). Qed.
Print Assumptions C06_exists_all_assignments.

Theorem C06_exists_any_order : forall l l', Permutation l l' -> forall f v, ext_fn f -> elim_fn orb l f v = elim_fn orb l' f v.
Proof. exact (elim_fn_perm orb medial_orb). Qed.
Print Assumptions C06_exists_any_order.

Theorem C06_expr_forall_sem : forall vars e v, sem v (e_forall e vars) = elim_fn andb vars (fun w => sem w e) v.
Proof. exact e_forall_sem. Qed.
Print Assumptions C06_expr_forall_sem.

Theorem C06_expr_forall_inputs : forall vars e, literals (e_forall e vars) = set_diff (literals e) vars.
Proof. exact e_forall_literals. Qed.
Print Assumptions C06_expr_forall_inputs.

Theorem C06_table_forall : forall vars t, wf_table t -> wf_table (t_forall t vars) /\ t_inputs (t_forall t vars) = set_diff (t_inputs t) vars /\ forall v, tsem (t_forall t vars) v = elim_fn andb vars (tsem t) v.
Proof. exact (t_elim_spec andb). Qed.
Print Assumptions C06_table_forall.

Theorem C06_bdd_forall : forall dbg b vars, wf_bdd b -> exists r, b_forall dbg b vars = Ok r /\ wf_bdd r /\ b_inputs r = set_diff (b_inputs b) vars /\ forall v, bsem r v = elim_fn andb vars (bsem b) v.
Proof. exact b_forall_spec. Qed.
Print Assumptions C06_bdd_forall.

Theorem C06_forall_all_assignments : forall vars f v, ext_fn f -> elim_fn andb vars f v = big andb vars (fun a => f (override v a)).
Proof. exact (elim_fn_big andb medial_andb). Qed.
Print Assumptions C06_forall_all_assignments.

Theorem C06_forall_any_order : forall l l', Permutation l l' -> forall f v, ext_fn f -> elim_fn andb l f v = elim_fn andb l' f v.
Proof. exact (elim_fn_perm andb medial_andb). Qed.
Print Assumptions C06_forall_any_order.

Theorem C06_exists_is_some_choice : forall vars g, big orb vars g = existsb g (assignments vars).
Proof. exact big_orb. Qed.
Print Assumptions C06_exists_is_some_choice.

Theorem C06_forall_is_every_choice : forall vars g, big andb vars g = forallb g (assignments vars).
Proof. exact big_andb. Qed.
Print Assumptions C06_forall_is_every_choice.

Theorem C06_assignments_are_all : forall vars a, In a (assignments vars) <-> keys a = vars.
Proof. exact assignments_keys. Qed.
Print Assumptions C06_assignments_are_all.

(* quantifying nothing leaves the function unchanged *)
Theorem C06_empty_set : forall op f v, elim_fn op [] f v = f v.
Proof. reflexivity. Qed.
Print Assumptions C06_empty_set.

(* quantifying a variable the function does not depend on leaves it unchanged *)
Theorem C06_foreign_variable : forall (f : env -> bool) x v, (forall w b, f (upd w x b) = f w) ->
  elim_fn orb [x] f v = f v /\ elim_fn andb [x] f v = f v.
Proof. intros f x v H. simpl. rewrite !H. destruct (f v); auto. Qed.
Print Assumptions C06_foreign_variable.

Example C06_example : e_exists (And [Lit [97%N]; Not (Lit [98%N])]) [[97%N]; [98%N]] <> Const false /\
  sem (fun _ => false) (e_exists (e_xor (Lit [97%N]) (Lit [98%N])) [[97%N]; [98%N]]) = true.
Proof. split; [discriminate|reflexivity]. Qed.

(* the two quantifiers are dual *)
Theorem C06_forall_is_dual_of_exists : forall vars f v,
  elim_fn andb vars f v = negb (elim_fn orb vars (fun w => negb (f w)) v).
Proof. exact forall_is_dual_of_exists. Qed.
Print Assumptions C06_forall_is_dual_of_exists.

Theorem C06_exists_is_dual_of_forall : forall vars f v,
  elim_fn orb vars f v = negb (elim_fn andb vars (fun w => negb (f w)) v).
Proof. exact exists_is_dual_of_forall. Qed.
Print Assumptions C06_exists_is_dual_of_forall.

(* ---- an object of any representation ---- *)
Theorem C06_objects : forall q o vars, owf o ->
  exists o', exec_quant q o vars = Ok o' /\ owf o' /\ obj_kind o' = obj_kind o /\
             (forall v, osem o' v = elim_fn (quant_op q) vars (osem o) v) /\
             decl o' = set_diff (decl o) vars.
Proof. exact obj_quant_spec. Qed.
Print Assumptions C06_objects.
