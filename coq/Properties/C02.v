(* C02 - Evaluation follows Boolean semantics, with consistent default and checked modes.
   Statements only; every proof is `exact <lemma>`. *)
From BBF Require Import Base.Prelude Base.Names Base.Bits Spec.Sem
     Model.Expr Model.Table Model.LibBdd Model.Bdd Proofs.ExprProofs Proofs.TableProofs Proofs.DdProofs Proofs.BddProofs Proofs.BddOps.
From BBF Require Import Model.Lexer Model.Parser Model.Display Model.Render Model.Csv Model.Prog Proofs.ProgProofs Proofs.ConvChain Proofs.ObsProofs.

(* expressions: evaluation with a default is the meaning at the completed assignment *)
Theorem C02_expr_default : forall e rho d, eval_default e rho d = sem (complete d rho) e.
Proof. exact eval_default_sem. Qed.
Print Assumptions C02_expr_default.

(* the empty conjunction is true and the empty disjunction false, whatever the assignment *)
Theorem C02_expr_empty : forall rho d, eval_default (And []) rho d = true /\ eval_default (Or []) rho d = false.
Proof. intros; split; reflexivity. Qed.
Print Assumptions C02_expr_empty.

(* variables the function does not mention are ignored *)
Theorem C02_expr_coincidence : forall e v v', (forall x, In x (literals e) -> v x = v' x) -> sem v e = sem v' e.
Proof. exact sem_coincidence_lits. Qed.
Print Assumptions C02_expr_coincidence.

(* checked evaluation: the value exactly when every input is assigned, else exactly the unassigned inputs *)
Theorem C02_expr_checked : forall e rho,
  match eval_checked e rho with
  | inl b => (forall x, In x (literals e) -> get rho x <> None) /\ forall d, b = sem (complete d rho) e
  | inr errs => errs <> [] /\ errs = missing rho (occurrences e)
  end.
Proof. exact eval_checked_spec. Qed.
Print Assumptions C02_expr_checked.

Theorem C02_expr_checked_set : forall rho e x,
  In x (missing rho (occurrences e)) <-> In x (literals e) /\ get rho x = None.
Proof. intros. rewrite missing_In, literals_In. tauto. Qed.
Print Assumptions C02_expr_checked_set.

(* tables *)
Theorem C02_table_default : forall t rho d, t_eval_default t rho d = tsem t (complete d rho).
Proof. exact t_eval_default_sem. Qed.
Print Assumptions C02_table_default.

Theorem C02_table_coincidence : forall t v v', (forall x, In x (t_inputs t) -> v x = v' x) -> tsem t v = tsem t v'.
Proof. exact tsem_coincidence. Qed.
Print Assumptions C02_table_coincidence.

Theorem C02_table_checked : forall t rho,
  match t_eval_checked t rho with
  | inl b => (forall x, In x (t_inputs t) -> get rho x <> None) /\ forall d, b = tsem t (complete d rho)
  | inr errs => errs <> [] /\ forall x, In x errs <-> In x (t_inputs t) /\ get rho x = None
  end.
Proof. exact t_eval_checked_spec. Qed.
Print Assumptions C02_table_checked.

(* the lookup stays inside the output vector: evaluation of a well-formed table cannot index out of range *)
Theorem C02_table_in_range : forall t rho d, wf_table t ->
  N.to_nat (row_index (t_inputs t) rho d) < length (t_outputs t).
Proof.
  intros t rho d [_ Hl]. rewrite Hl. unfold row_index.
  pose proof (point_index_lt_nat (point_of (t_inputs t) rho d)) as H.
  unfold point_of in *. rewrite map_length in H. exact H.
Qed.
Print Assumptions C02_table_in_range.

(* diagrams *)
Theorem C02_bdd_default : forall b rho d, b_eval_default b rho d = bsem b (complete d rho).
Proof. exact b_eval_default_sem. Qed.
Print Assumptions C02_bdd_default.

Theorem C02_bdd_coincidence : forall b v v', (forall x, In x (b_inputs b) -> v x = v' x) -> bsem b v = bsem b v'.
Proof. exact bsem_coincidence. Qed.
Print Assumptions C02_bdd_coincidence.

Theorem C02_bdd_checked : forall b rho,
  match b_eval_checked b rho with
  | inl r => (forall x, In x (b_inputs b) -> get rho x <> None) /\ forall d, r = bsem b (complete d rho)
  | inr errs => errs <> [] /\ errs = missing rho (b_inputs b)
  end.
Proof. exact b_eval_checked_spec. Qed.
Print Assumptions C02_bdd_checked.

(* non-vacuity: a concrete table meets the hypotheses *)
Example C02_table_example :
  let t := {| t_inputs := [[97%N]; [98%N]]; t_outputs := [false; true; true; false] |} in
  wf_table t /\ t_eval_default t [([97%N], true)] false = true /\ t_eval_checked t [([97%N], true)] = inr [[98%N]].
Proof. repeat split. repeat constructor. Qed.

(* ---- an object of any representation (what the model runner prints) ---- *)

Theorem C02_object_default : forall o rho d, obj_eval_default o rho d = osem o (complete d rho).
Proof. exact obj_eval_default_spec. Qed.
Print Assumptions C02_object_default.

Theorem C02_object_checked : forall o rho,
  match obj_eval_checked o rho with
  | inl b => (forall x, In x (decl o) -> get rho x <> None) /\ forall d, b = osem o (complete d rho)
  | inr errs => errs <> [] /\ forall x, In x errs <-> In x (decl o) /\ get rho x = None
  end.
Proof. exact obj_eval_checked_spec. Qed.
Print Assumptions C02_object_checked.
