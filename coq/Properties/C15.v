(* C15 - Objects stay well-formed through every sequence of operations.
   `Rel x` = the object is well-formed (wf_table / wf_bdd: sorted distinct inputs, 2^n outputs;
   ordered reduced bounded diagram with num_vars = number of inputs), denotes the function of the
   specification run on the same program, and declares the specified inputs.
   Excluded (`allowed`): the table -> diagram conversion (known finding D1) and the explicitly empty
   table read from empty CSV text. *)
From BBF Require Import Base.Prelude Base.Names Base.Bits Spec.Sem
     Model.Expr Model.Table Model.LibBdd Model.Bdd Model.Lexer Model.Parser Model.Display Model.Render Model.Csv Model.Prog
     Proofs.DdProofs Proofs.BddProofs Proofs.BddOps Proofs.EnumProofs Proofs.ProgProofs.
From BBF Require Import Model.Lexer Model.Parser Model.Display Model.Render Model.Csv Model.Prog Proofs.ProgProofs Proofs.ConvChain Proofs.ObsProofs.

Theorem C15_step : forall p i x, Inv p -> allowed p i -> exec p i = Ok x -> Rel x.
Proof. exact exec_sound. Qed.
Print Assumptions C15_step.

Theorem C15_step_invariant : forall p i, Inv p -> allowed p i -> Inv (Prog.step p i).
Proof. exact step_inv. Qed.
Print Assumptions C15_step_invariant.

(* every history: any finite program from the empty pool *)
Theorem C15_run : forall is, allowed_all [] is -> Inv (run is).
Proof. exact run_from_empty. Qed.
Print Assumptions C15_run.

Theorem C15_run_from : forall is p, Inv p -> allowed_all p is -> Inv (fold_left Prog.step is p).
Proof. exact run_inv. Qed.
Print Assumptions C15_run_from.

(* the only panic is the documented refusal of a diagram substitution whose replacement mentions its key *)
Theorem C15_panics_only_as_documented : forall p i c, Inv p -> exec p i = Panic c -> documented_refusal p i.
Proof. exact exec_panics_only_as_documented. Qed.
Print Assumptions C15_panics_only_as_documented.

(* node count and every other observation of a diagram are those of the canonical diagram of its function:
   two well-formed diagrams over the same inputs denoting the same function are the same tree *)
Theorem C15_diagram_determined_by_function : forall a b, wf_bdd a -> wf_bdd b -> b_inputs a = b_inputs b ->
  (forall v, bsem a v = bsem b v) -> b_root a = b_root b.
Proof.
  intros a b Wa Wb Hi Hs. pose proof Wa as (Sa & Na & Oa & Ra & Ba). pose proof Wb as (Sb & Nb & Ob & Rb & Bb).
  apply (canonical _ _ 0); auto. intros p.
  rewrite <- (eval_env_of_inner a p Wa), <- (eval_env_of_inner b p Wb), Hi. apply Hs.
Qed.
Print Assumptions C15_diagram_determined_by_function.

(* the debug assertions of extend/prune never decide anything: debug and release builds compute the same objects *)
Theorem C15_profile_independent_restrict : forall b rho, wf_bdd b -> b_restrict true b rho = b_restrict false b rho.
Proof. exact restrict_profile_independent. Qed.
Print Assumptions C15_profile_independent_restrict.

Theorem C15_profile_independent_quantifiers : forall b vars, wf_bdd b ->
  b_exists true b vars = b_exists false b vars /\ b_forall true b vars = b_forall false b vars /\
  b_derivative true b vars = b_derivative false b vars.
Proof. exact quantifiers_profile_independent. Qed.
Print Assumptions C15_profile_independent_quantifiers.

Theorem C15_profile_independent_connectives : forall op a b, wf_bdd a -> wf_bdd b ->
  b_bit true (dd_apply op) a b = b_bit false (dd_apply op) a b.
Proof. exact bit_profile_independent. Qed.
Print Assumptions C15_profile_independent_connectives.

Theorem C15_profile_independent_substitute : forall b m, wf_bdd b -> (forall k g, In (k, g) m -> wf_bdd g) ->
  b_substitute true b m = b_substitute false b m.
Proof. exact substitute_profile_independent. Qed.
Print Assumptions C15_profile_independent_substitute.

(* a well-formed diagram is determined by its inputs and its function (so is every observation of it) *)
Theorem C15_bdd_determined : forall a b, wf_bdd a -> wf_bdd b -> b_inputs a = b_inputs b -> (forall v, bsem a v = bsem b v) -> a = b.
Proof. exact bdd_determined. Qed.
Print Assumptions C15_bdd_determined.

Theorem C15_table_determined : forall a b, wf_table a -> wf_table b -> t_inputs a = t_inputs b -> (forall v, tsem a v = tsem b v) -> a = b.
Proof. exact table_determined. Qed.
Print Assumptions C15_table_determined.

Example C15_example :
  let prog := [IExpr (And [Lit [97%N]; Not (Lit [98%N])]); IConv KT 0; IConv KB 0; IRestrict 2 [([97%N], true)]; IQuant QExists 1 [[98%N]]] in
  allowed_all [] prog /\ length (run prog) = 5.
Proof. split; [repeat split|reflexivity]. Qed.

(* the node count too is that of any other well-formed diagram of the same function over the same inputs *)
Theorem C15_node_count_determined : forall a b, wf_bdd a -> wf_bdd b -> b_inputs a = b_inputs b ->
  (forall v, bsem a v = bsem b v) -> b_node_count a = b_node_count b.
Proof. exact node_count_determined. Qed.
Print Assumptions C15_node_count_determined.
