(* C19 - The Python classes behave exactly like the Rust API they wrap (partial).
   The property is a correspondence between two executables and is decided by executing both
   (lib/check.py, py/pyrun.py). What is stated here is the forwarding table of the binding source
   where it is not the identity, and the error -> exception map, at the level of the model. *)
From BBF Require Import Base.Prelude Base.Names Base.Bits Spec.Sem Model.Expr Model.Table Model.Lexer Model.Parser
     Model.Render Model.Csv Model.Py Proofs.ExprProofs Proofs.LexerProofs Proofs.ParserProofs Proofs.CsvProofs.

Theorem C19_and_or_invert_meaning : forall v a b,
  sem v (py_and a b) = sem v a && sem v b /\ sem v (py_or a b) = sem v a || sem v b /\ sem v (py_invert a) = negb (sem v a).
Proof. intros. simpl. rewrite andb_true_r, orb_false_r. auto. Qed.
Print Assumptions C19_and_or_invert_meaning.

Theorem C19_evaluate_safe_is_default_false : forall e rho, py_evaluate_safe e rho = sem (complete false rho) e.
Proof. exact evaluate_sem. Qed.
Print Assumptions C19_evaluate_safe_is_default_false.

(* missing variables in checked evaluation surface as KeyError, and only they *)
Theorem C19_checked_keyerror_iff : forall e rho,
  (exists x, In x (literals e) /\ get rho x = None) <-> py_evaluate_checked e rho = inr KeyError.
Proof.
  intros e rho. unfold py_evaluate_checked. pose proof (eval_checked_spec e rho) as H.
  destruct (eval_checked e rho) as [b|errs].
  - destruct H as (Hall & _). split; [intros (x & Hx & Hn); exfalso; exact (Hall x Hx Hn)|discriminate].
  - destruct H as (Hne & He). split; [reflexivity|]. intros _. destruct errs as [|x r]; [contradiction|].
    exists x. assert (Hin : In x (missing rho (occurrences e))) by (rewrite <- He; left; reflexivity).
    apply missing_In in Hin. destruct Hin. split; [apply literals_In|]; assumption.
Qed.
Print Assumptions C19_checked_keyerror_iff.

(* constructor dispatch: TypeError iff the argument is neither an expression nor a string;
   RuntimeError iff it is a string outside the language; never an exception for text of the language *)
Theorem C19_constructor : forall a,
  (py_new a = inr TypeError <-> a = AOther) /\
  (py_new a = inr RuntimeError <-> exists s, a = AStr s /\ forall e, from_str s <> Ok e) /\
  (forall s e, from_str s = Ok e -> py_new (AStr s) = inl e).
Proof.
  intros a. split; [|split].
  - destruct a as [e|s|]; simpl; try (split; [discriminate|discriminate]); [|split; reflexivity].
    destruct (from_str s); split; discriminate.
  - destruct a as [e|s|]; simpl.
    + split; [discriminate|intros (s & [=] & _)].
    + destruct (from_str s) as [e| |] eqn:E.
      * split; [discriminate|]. intros (s' & [= <-] & H). exfalso. exact (H e E).
      * split; [|reflexivity]. intros _. exists s. split; [reflexivity|]. intros e. rewrite E. discriminate.
      * split; [|reflexivity]. intros _. exists s. split; [reflexivity|]. intros e. rewrite E. discriminate.
    + split; [discriminate|intros (s & [=] & _)].
  - intros s e H. simpl. rewrite H. reflexivity.
Qed.
Print Assumptions C19_constructor.

(* CSV import: success stays success; every error becomes an exception of the mapped class *)
Theorem C19_csv_exception_map : forall s,
  match from_csv_string s with
  | Ok t => py_from_csv_string s = inl t
  | Err c => py_from_csv_string s = inr (exc_of_csv c)
  | Panic _ => False
  end.
Proof.
  intros s. unfold py_from_csv_string. destruct (from_csv_string s) as [t|c|c] eqn:E; try reflexivity.
  destruct (from_csv_never_panics s c) as (H & _). exact (H E).
Qed.
Print Assumptions C19_csv_exception_map.

Example C19_example : py_new (AStr [97; 32; 38]%N) = inr RuntimeError /\ py_new AOther = inr TypeError /\
  py_evaluate_checked (py_and (Lit [97%N]) (Lit [98%N])) [([97%N], true)] = inr KeyError.
Proof. repeat split. Qed.
