(* C19 - The Python classes behave exactly like the Rust API they wrap (partial).
   The property is a correspondence between two executables and is decided by executing both
   (lib/check.py, py/pyrun.py). What is stated here is the forwarding table of the binding source
   where it is not the identity, and the error -> exception map, at the level of the model. *)
From BBF Require Import Base.Prelude Base.Names Base.Bits Spec.Sem Model.Expr Model.Table Model.Lexer Model.Parser
     Model.Render Model.Csv Model.Py Proofs.ExprProofs Proofs.LexerProofs Proofs.ParserProofs Proofs.CsvProofs.
From BBF Require Import Model.LibBdd Model.Bdd Model.Display Model.Prog Model.PyProg Proofs.ProgProofs Proofs.PyProofs.

Theorem C19_and_or_invert_meaning : forall v a b,
  sem v (py_and a b) = sem v a && sem v b /\ sem v (py_or a b) = sem v a || sem v b /\ sem v (py_invert a) = negb (sem v a).
Proof. intros. simpl. rewrite andb_true_r, orb_false_r. auto. Qed.
Print Assumptions C19_and_or_invert_meaning.

Theorem C19_evaluate_safe_is_default_false : forall e rho, py_evaluate_safe e rho = sem (complete false rho) e.
Proof. exact evaluate_sem. Qed.
Print Assumptions C19_evaluate_safe_is_default_false.

(* missing variables in checked evaluation surface as KeyError, and only they *)
Theorem C19_checked_keyerror_iff : forall e rho,
  (exists x, In x (literals e) /\ get rho x = None) <-> py_evaluate_checked e rho = inr KeyError.
Proof.
  intros e rho. unfold py_evaluate_checked. pose proof (eval_checked_spec e rho) as H.
  destruct (eval_checked e rho) as [b|errs].
  - destruct H as (Hall & _). split; [intros (x & Hx & Hn); exfalso; exact (Hall x Hx Hn)|discriminate].
  - destruct H as (Hne & He). split; [reflexivity|]. intros _. destruct errs as [|x r]; [contradiction|].
    exists x. assert (Hin : In x (missing rho (occurrences e))) by (rewrite <- He; left; reflexivity).
    apply missing_In in Hin. destruct Hin. split; [apply literals_In|]; assumption.
Qed.
Print Assumptions C19_checked_keyerror_iff.

(* constructor dispatch: TypeError iff the argument is neither an expression nor a string;
   RuntimeError iff it is a string outside the language; never an exception for text of the language *)
Theorem C19_constructor : forall a,
  (py_new a = inr TypeError <-> a = AOther) /\
  (py_new a = inr RuntimeError <-> exists s, a = AStr s /\ forall e, from_str s <> Ok e) /\
  (forall s e, from_str s = Ok e -> py_new (AStr s) = inl e).
Proof.
  intros a. split; [|split].
  - destruct a as [e|s|]; simpl; try (split; [discriminate|discriminate]); [|split; reflexivity].
    destruct (from_str s); split; discriminate.
  - destruct a as [e|s|]; simpl.
    + split; [discriminate|intros (s & [=] & _)].
    + destruct (from_str s) as [e| |] eqn:E.
      * split; [discriminate|]. intros (s' & [= <-] & H). exfalso. exact (H e E).
      * split; [|reflexivity]. intros _. exists s. split; [reflexivity|]. intros e. rewrite E. discriminate.
      * split; [|reflexivity]. intros _. exists s. split; [reflexivity|]. intros e. rewrite E. discriminate.
    + split; [discriminate|intros (s & [=] & _)].
  - intros s e H. simpl. rewrite H. reflexivity.
Qed.
Print Assumptions C19_constructor.

(* CSV import: success stays success; every error becomes an exception of the mapped class *)
Theorem C19_csv_exception_map : forall s,
  match from_csv_string s with
  | Ok t => py_from_csv_string s = inl t
  | Err c => py_from_csv_string s = inr (exc_of_csv c)
  | Panic _ => False
  end.
Proof.
  intros s. unfold py_from_csv_string. destruct (from_csv_string s) as [t|c|c] eqn:E; try reflexivity.
  destruct (from_csv_never_panics s c) as (H & _). exact (H E).
Qed.
Print Assumptions C19_csv_exception_map.

(* ---- scripted call sequences (the quantifier of the property): the case language through the Python classes ---- *)

(* a call returns a value through Python exactly when the Rust call does, and it is the same object *)
Theorem C19_call_returns_what_rust_returns : forall p i e, py_exec p i = PyOk e <-> exec p i = Ok e.
Proof. exact py_exec_ok. Qed.
Print Assumptions C19_call_returns_what_rust_returns.

(* hence whole scripts leave the same objects behind, whatever fails on the way *)
Theorem C19_scripts_agree : forall is, py_run is = run is.
Proof. exact py_run_is_run. Qed.
Print Assumptions C19_scripts_agree.

(* a raised exception is the mapped class of a Rust error, or PanicException for a Rust panic *)
Theorem C19_raises_only_for_failures : forall p i x, py_exec p i = PyRaise x ->
  (exists c, exec p i = Err c /\ c <> 90 /\ x = exc_of_instr i c) \/ (exists c, exec p i = Panic c /\ x = PanicException).
Proof. exact py_exec_raise. Qed.
Print Assumptions C19_raises_only_for_failures.

(* parse and conversion failures are RuntimeError: only the CSV import raises anything else *)
Theorem C19_only_csv_import_raises_other_kinds : forall p i x, py_exec p i = PyRaise x ->
  x <> RuntimeError -> x <> PanicException -> exists f s, i = ICsvIn f s.
Proof. exact py_exec_special_only_csv. Qed.
Print Assumptions C19_only_csv_import_raises_other_kinds.

(* no operation of the case language raises KeyError: that kind is reserved for checked evaluation *)
Theorem C19_operations_never_raise_keyerror : forall p i, py_exec p i <> PyRaise KeyError.
Proof. exact py_exec_never_key_error. Qed.
Print Assumptions C19_operations_never_raise_keyerror.

(* a Rust panic reaches Python only for the documented refusal (diagram substitution whose replacement
   mentions its key), on pools of well-formed objects *)
Theorem C19_panic_exception_only_for_documented_refusal : forall p i, Inv p -> py_exec p i = PyRaise PanicException ->
  documented_refusal p i.
Proof.
  intros p i Hinv H. apply py_exec_raise in H. destruct H as [(c & _ & _ & H)|(c & H & _)].
  - unfold exc_of_instr in H. destruct i; try discriminate.
    destruct (exc_of_csv_cases c) as [E|[E|[E|E]]]; rewrite E in H; discriminate.
  - exact (exec_panics_only_as_documented p i c Hinv H).
Qed.
Print Assumptions C19_panic_exception_only_for_documented_refusal.

Example C19_example_script :
  py_exec [] (IParse [97; 32; 38]%N) = PyRaise RuntimeError /\
  py_exec [] (ICsvIn false [97; 44; 114; 10; 48; 44; 120; 10; 49; 44; 48; 10]%N) = PyRaise TypeError /\
  exc_of_missing_file = OSError.
Proof. repeat split. Qed.

Example C19_example : py_new (AStr [97; 32; 38]%N) = inr RuntimeError /\ py_new AOther = inr TypeError /\
  py_evaluate_checked (py_and (Lit [97%N]) (Lit [98%N])) [([97%N], true)] = inr KeyError.
Proof. repeat split. Qed.
