(* C13 - Parsing is total (a value or an error, never a panic, never non-termination of
   the model) and rejects every text outside the language.
   Statements only; every proof is `exact <lemma>`. *)
From BBF Require Import Base.Prelude Base.Names Model.Expr Model.Lexer Model.Parser
     Spec.Grammar Proofs.LexerProofs Proofs.ParserProofs.
From Coq Require Import Strings.String.

(* total: with the canonical fuel (length of the text + 1) the result is Ok or Err *)
Theorem C13_total : forall s, (exists e, from_str s = Ok e) \/ (exists c, from_str s = Err c).
Proof. exact from_str_total. Qed.
Print Assumptions C13_total.

Theorem C13_never_panics : forall s c, from_str_full s <> ParsePanic c.
Proof. exact from_str_full_total. Qed.
Print Assumptions C13_never_panics.

Theorem C13_tokenizer_fuel_suffices : forall s, tokenize s <> TokFuel.
Proof. exact tokenize_no_fuel. Qed.
Print Assumptions C13_tokenizer_fuel_suffices.

Theorem C13_unreachable_is_unreachable : forall ts, parse_tokens ts <> PPanic.
Proof. exact parse_tokens_no_panic. Qed.
Print Assumptions C13_unreachable_is_unreachable.

(* rejects exactly what the reference does not read *)
Theorem C13_rejects_outside_language : forall s, (exists c, from_str s = Err c) <-> ~ exists e, denotes s e.
Proof. exact from_str_rejects. Qed.
Print Assumptions C13_rejects_outside_language.

Theorem C13_parser_rejects_outside_grammar : forall ts,
  (exists x, parse_tokens ts = PErr x) <-> ~ exists e, G_or ts e.
Proof. exact parse_tokens_reject. Qed.
Print Assumptions C13_parser_rejects_outside_grammar.

(* ---- the malformed classes ---- *)
(* empty or blank text *)
Theorem C13_blank : forall s, forallb is_ws s = true -> from_str_full s = ParsingError EmptySideOfOperator.
Proof. exact reject_blank. Qed.
Print Assumptions C13_blank.

(* after a readable prefix, the next character starts no lexeme *)
Theorem C13_unknown_symbol : forall s ts r c x,
  lexes_to s ts r -> trim_ws r = c :: x -> starts_lexeme c = false -> rejected s.
Proof. exact reject_unknown_symbol. Qed.
Print Assumptions C13_unknown_symbol.

(* unbalanced braces and the empty name *)
Theorem C13_closing_brace : forall s ts r x, lexes_to s ts r -> trim_ws r = 125%N :: x -> rejected s.
Proof. exact reject_closing_brace. Qed.
Print Assumptions C13_closing_brace.

Theorem C13_unclosed_brace : forall s ts r x,
  lexes_to s ts r -> trim_ws r = 123%N :: x -> forallb (fun c => negb (N.eqb c 125)) x = true -> rejected s.
Proof. exact reject_unclosed_brace. Qed.
Print Assumptions C13_unclosed_brace.

Theorem C13_empty_braces : forall s ts r x, lexes_to s ts r -> trim_ws r = 123%N :: 125%N :: x -> rejected s.
Proof. exact reject_empty_braces. Qed.
Print Assumptions C13_empty_braces.

(* unbalanced parentheses *)
Theorem C13_unbalanced_parentheses : forall s ts, lexes s ts -> depth_ok ts 0 = false -> rejected s.
Proof. exact reject_unbalanced. Qed.
Print Assumptions C13_unbalanced_parentheses.

(* operators and operands that do not alternate, at any nesting depth *)
Theorem C13_ill_shaped : forall s forest, lexes s (flatten forest) -> well_shaped forest = false -> rejected s.
Proof. exact reject_ill_shaped_text. Qed.
Print Assumptions C13_ill_shaped.

Theorem C13_accepted_is_well_shaped : forall ts e, parse_tokens ts = POk e -> well_shaped ts = true.
Proof. exact accepted_well_shaped. Qed.
Print Assumptions C13_accepted_is_well_shaped.

Theorem C13_trailing_operator : forall pre op,
  is_operand op = false -> exists x, parse_tokens (pre ++ [op]) = PErr x.
Proof. exact reject_trailing_operator. Qed.
Print Assumptions C13_trailing_operator.

Theorem C13_leading_operator : forall op post, is_binop op = true -> exists x, parse_tokens (op :: post) = PErr x.
Proof. exact reject_leading_operator. Qed.
Print Assumptions C13_leading_operator.

Theorem C13_adjacent_operators : forall pre op1 op2 post,
  is_operand op1 = false -> is_binop op2 = true -> exists x, parse_tokens (pre ++ op1 :: op2 :: post) = PErr x.
Proof. exact reject_adjacent_operators. Qed.
Print Assumptions C13_adjacent_operators.

Theorem C13_adjacent_operands : forall pre a b post,
  is_operand a = true -> is_binop b = false -> exists x, parse_tokens (pre ++ a :: b :: post) = PErr x.
Proof. exact reject_adjacent_operands. Qed.
Print Assumptions C13_adjacent_operands.

Theorem C13_bad_group : forall pre inner post,
  well_shaped inner = false -> exists x, parse_tokens (pre ++ TParens inner :: post) = PErr x.
Proof. exact reject_bad_group. Qed.
Print Assumptions C13_bad_group.

(* non-vacuity: one concrete text per class, with the error the model (and the code) reports *)
Example C13_example :
  let f := fun s => from_str_full (str s) in
  (f "" = ParsingError EmptySideOfOperator /\
   f "a & " = ParsingError EmptySideOfOperator /\
   f "a b" = ParsingError UnexpectedLiteralsGroup /\
   f "a ! b" = ParsingError UnexpectedLiteralsGroup /\
   f "a & | b" = ParsingError EmptySideOfOperator /\
   f "()" = ParsingError EmptySideOfOperator /\
   f "(a | b" = TokenizingError (MissingClosingParenthesis 6) /\
   f "a | b)" = TokenizingError (UnexpectedClosingParenthesis 5) /\
   f "a & {}" = TokenizingError (EmptyLiteralName 6) /\
   f "a & {b" = TokenizingError (MissingClosingCurlyBrace 6) /\
   f "a } b" = TokenizingError (UnexpectedClosingCurlyBrace 2) /\
   f "a @ b" = TokenizingError (UnknownSymbolError 2))%string
  /\ (* the hypotheses of the class theorems are met by such texts *)
  (lexes_to (str "a & {b") [FName (str "a"); FAnd] (str " {b") /\
   lexes (str "(a | b") [FLParen; FName (str "a"); FOr; FName (str "b")] /\
   depth_ok [FLParen; FName (str "a"); FOr; FName (str "b")] 0 = false /\
   well_shaped [TLit (str "a"); TLit (str "b")] = false)%string.
Proof.
  split; [vm_compute; repeat split; reflexivity|].
  split; [|split; [|split; reflexivity]].
  - econstructor; [vm_compute; reflexivity|]. econstructor; [vm_compute; reflexivity|]. constructor.
  - exists []. split; [|reflexivity].
    repeat (econstructor; [vm_compute; reflexivity|]). constructor.
Qed.
