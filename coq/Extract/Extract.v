(* Extraction of the executable model for the correspondence check.
   Only ExtrOcamlBasic's directives are used (bool, option, unit, list, prod, sumbool, sumor
   mapped to OCaml's own; andb/orb inlined). No Extract Constant. nat / N / positive stay the
   extracted inductive types. *)
Require Extraction.
Require Import ExtrOcamlBasic.
From BBF Require Import Base.Prelude Base.Names Base.Bits Spec.Sem
     Model.Expr Model.Table Model.LibBdd Model.Bdd Model.Lexer Model.Parser Model.Display Model.Render Model.Csv Model.Prog Model.Py Model.PyProg Model.Iter Model.Extra.

Extraction Language OCaml.
Extraction "model.ml"
  step exec run reg
  obj_inputs obj_tv obj_eval_default obj_eval_checked obj_equiv obj_implied_by
  obj_essential obj_degree obj_essential_degree obj_domain obj_image obj_relation
  obj_support obj_weight obj_sat_point b_node_count
  is_nnf is_cnf is_dnf literals sem nnf to_cnf to_dnf power_set
  tokenize from_str_full parse_tokens display
  from_csv_string from_csv_file to_csv_formatted to_csv csv_safe table_rows to_string_formatted display_table uwidth clean_rowsb
  bf_tv spec_essential spec_support spec_equiv spec_implies env_of
  py_exec py_eval_checked exc_of_missing_file py_new
  obj_dom_count obj_dom_steps obj_img_steps obj_rel_steps obj_sup_steps obj_dom_nth obj_rel_nth obj_img_count obj_dom_last obj_dom_rest obj_img_rest e_rename rn obj_point_valuation csv_duplicate_name csv_bad_cell
  N.of_nat N.to_nat.
