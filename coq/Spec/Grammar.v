(* REFERENCE reading of the expression language: what a text means, stated without looking
   at how the code scans it.

   (a) Lexical level.  A text is a sequence of lexemes separated by optional Unicode
       whitespace.  At a lexeme start:
         1. a keyword (true t 1 false f 0 and or v not), spelled up to simple case folding,
            that is followed by the end of the text or by a non-identifier character;
         2. otherwise a maximal non-empty run of identifier characters [-_a-zA-Z0-9]: a name;
         3. otherwise `{` text `}` with a non-empty text free of `}`: the name `text`, verbatim;
         4. otherwise the longest operator / bracket spelling among
            && || & U+2227 ^ * | U+2228 + ~ ! U+00AC ( );
         5. otherwise the text is not in the language.
       (For the "followed by" test of rule 1 the two non-ASCII characters that fold to ASCII
        letters, U+017F and U+212A, count as identifier characters, as in the code; this is
        not observable: neither of them can start a lexeme, so the text is rejected under
        both readings.  The reading with the plain ASCII class in that test is `lexes_plain`
        at the end of this file; `plain_boundary_same_language` in Proofs/PlainBoundary.v
        proves that the two readings accept the same texts with the same lexemes.)
   (b) Brackets must nest: the flat lexeme sequence is the flattening of a token forest.
   (c) Grammar over forests, NOT binds tighter than AND, AND tighter than OR, a bracketed
       group is a unit:
           or   ::= and (OR and)*          and ::= un (AND un)*
           un   ::= NOT un | atom           atom ::= TRUE | FALSE | name | ( or )
       with the denotation: one operand denotes itself, n >= 2 operands denote one n-ary
       node with the operands in order. *)
From BBF Require Import Base.Prelude Base.Names Model.Expr Model.Lexer.
Local Open Scope N_scope.

(* ---------- (a) lexemes ---------- *)
Inductive ftoken : Type :=
| FAnd | FOr | FNot | FTrue | FFalse
| FName (x : name)
| FLParen | FRParen.

Definition keywords : list (list N * ftoken) :=
  [ ([102; 97; 108; 115; 101], FFalse);     (* false *)
    ([116; 114; 117; 101], FTrue);          (* true *)
    ([97; 110; 100], FAnd);                 (* and *)
    ([110; 111; 116], FNot);                (* not *)
    ([111; 114], FOr);                      (* or *)
    ([118], FOr);                           (* v *)
    ([102], FFalse);                        (* f *)
    ([48], FFalse);                         (* 0 *)
    ([116], FTrue);                         (* t *)
    ([49], FTrue) ].                        (* 1 *)

(* longest spellings first *)
Definition symbols : list (list N * ftoken) :=
  [ ([38; 38], FAnd); ([124; 124], FOr);
    ([38], FAnd); ([8743], FAnd); ([94], FAnd); ([42], FAnd);
    ([124], FOr); ([8744], FOr); ([43], FOr);
    ([126], FNot); ([33], FNot); ([172], FNot);
    ([40], FLParen); ([41], FRParen) ].

(* the keyword p, up to case folding, stands at the beginning of s and ends there *)
Definition kw_at (p s : list N) : option (list N) :=
  match strip_ci p s with
  | Some rest => if boundary rest then Some rest else None
  | None => None
  end.

Fixpoint find_kw (kws : list (list N * ftoken)) (s : list N) : option (ftoken * list N) :=
  match kws with
  | [] => None
  | (p, t) :: kws' => match kw_at p s with
                      | Some rest => Some (t, rest)
                      | None => find_kw kws' s
                      end
  end.

Fixpoint strip_exact (p s : list N) : option (list N) :=
  match p with
  | [] => Some s
  | pc :: p' => match s with
                | c :: s' => if N.eqb c pc then strip_exact p' s' else None
                | [] => None
                end
  end.

Fixpoint find_sym (syms : list (list N * ftoken)) (s : list N) : option (ftoken * list N) :=
  match syms with
  | [] => None
  | (p, t) :: syms' => match strip_exact p s with
                       | Some rest => Some (t, rest)
                       | None => find_sym syms' s
                       end
  end.

(* the lexeme at the start of s (s starts with a non-whitespace character) and the rest *)
Definition ref_next (s : list N) : option (ftoken * list N) :=
  match find_kw keywords s with
  | Some r => Some r
  | None =>
      match span_ident s with
      | (c :: run, rest) => Some (FName (c :: run), rest)
      | ([], _) =>
          match s with
          | [] => None
          | c :: s' =>
              if N.eqb c 123 then
                match until_brace s' with
                | Some (d :: nm, rest) => Some (FName (d :: nm), rest)
                | _ => None
                end
              else find_sym symbols s
          end
      end
  end.

(* s reads as the lexemes ts, leaving r unread *)
Inductive lexes_to : list N -> list ftoken -> list N -> Prop :=
| lexes_nil s : lexes_to s [] s
| lexes_cons s t s' ts r :
    ref_next (trim_ws s) = Some (t, s') -> lexes_to s' ts r -> lexes_to s (t :: ts) r.

(* the whole of s reads as ts *)
Definition lexes (s : list N) (ts : list ftoken) : Prop :=
  exists r, lexes_to s ts r /\ trim_ws r = [].

(* executable form (fuel = an upper bound of the number of lexemes, e.g. length s) *)
Fixpoint ref_lex (fuel : nat) (s : list N) : option (list ftoken) :=
  match trim_ws s with
  | [] => Some []
  | c :: s' =>
      match fuel with
      | O => None
      | S f => match ref_next (c :: s') with
               | None => None
               | Some (t, rest) => match ref_lex f rest with
                                   | Some ts => Some (t :: ts)
                                   | None => None
                                   end
               end
      end
  end.

(* ---------- (b) nesting ---------- *)
Definition ftoken_of (t : token) : ftoken :=
  match t with
  | TAnd => FAnd | TOr => FOr | TNot => FNot | TTrue => FTrue | TFalse => FFalse
  | TLit x => FName x
  | TParens _ => FLParen      (* not used: flatten treats groups itself *)
  end.

Fixpoint flatten_tok (t : token) : list ftoken :=
  match t with
  | TParens l => FLParen :: concat (map flatten_tok l) ++ [FRParen]
  | t => [ftoken_of t]
  end.
Definition flatten (l : list token) : list ftoken := concat (map flatten_tok l).

(* the inverse, by a stack of open groups (each in reverse); None = brackets do not nest *)
Fixpoint group (ts : list ftoken) (cur : list token) (stack : list (list token)) : option (list token) :=
  match ts with
  | [] => match stack with [] => Some (rev cur) | _ => None end
  | FLParen :: ts' => group ts' [] (cur :: stack)
  | FRParen :: ts' => match stack with
                      | [] => None
                      | parent :: stack' => group ts' (TParens (rev cur) :: parent) stack'
                      end
  | FAnd :: ts' => group ts' (TAnd :: cur) stack
  | FOr :: ts' => group ts' (TOr :: cur) stack
  | FNot :: ts' => group ts' (TNot :: cur) stack
  | FTrue :: ts' => group ts' (TTrue :: cur) stack
  | FFalse :: ts' => group ts' (TFalse :: cur) stack
  | FName x :: ts' => group ts' (TLit x :: cur) stack
  end.

Definition ref_forest (s : list N) : option (list token) :=
  match ref_lex (length s) s with
  | Some ts => group ts [] []
  | None => None
  end.

(* ---------- (c) grammar and denotation ---------- *)
Definition fold1 (mk : list expr -> expr) (es : list expr) : expr :=
  match es with
  | [e] => e
  | _ => mk es
  end.

Inductive G_or : list token -> expr -> Prop :=
| G_or_intro ts es : G_ors ts es -> G_or ts (fold1 Or es)
with G_ors : list token -> list expr -> Prop :=            (* and (OR and)* *)
| G_ors_one ts e : G_and ts e -> G_ors ts [e]
| G_ors_cons ts1 e ts2 es : G_and ts1 e -> G_ors ts2 es -> G_ors (ts1 ++ TOr :: ts2) (e :: es)
with G_and : list token -> expr -> Prop :=
| G_and_intro ts es : G_ands ts es -> G_and ts (fold1 And es)
with G_ands : list token -> list expr -> Prop :=           (* un (AND un)* *)
| G_ands_one ts e : G_un ts e -> G_ands ts [e]
| G_ands_cons ts1 e ts2 es : G_un ts1 e -> G_ands ts2 es -> G_ands (ts1 ++ TAnd :: ts2) (e :: es)
with G_un : list token -> expr -> Prop :=
| G_un_not ts e : G_un ts e -> G_un (TNot :: ts) (Not e)
| G_un_atom t e : G_atom t e -> G_un [t] e
with G_atom : token -> expr -> Prop :=
| G_true : G_atom TTrue (Const true)
| G_false : G_atom TFalse (Const false)
| G_name x : G_atom (TLit x) (Lit x)
| G_group inner e : G_or inner e -> G_atom (TParens inner) e.

Scheme G_or_mut := Minimality for G_or Sort Prop
  with G_ors_mut := Minimality for G_ors Sort Prop
  with G_and_mut := Minimality for G_and Sort Prop
  with G_ands_mut := Minimality for G_ands Sort Prop
  with G_un_mut := Minimality for G_un Sort Prop
  with G_atom_mut := Minimality for G_atom Sort Prop.
Combined Scheme G_mutind from G_or_mut, G_ors_mut, G_and_mut, G_ands_mut, G_un_mut, G_atom_mut.

(* the text s denotes the expression e *)
Definition denotes (s : list N) (e : expr) : Prop :=
  exists forest, lexes s (flatten forest) /\ G_or forest e.

(* ---------- the same lexical rules with the plain ASCII class in the keyword test ---------- *)
Definition boundary_plain (rest : list N) : bool :=
  match rest with [] => true | c :: _ => negb (is_ident c) end.

Definition kw_at_with (bd : list N -> bool) (p s : list N) : option (list N) :=
  match strip_ci p s with
  | Some rest => if bd rest then Some rest else None
  | None => None
  end.

Fixpoint find_kw_with (bd : list N -> bool) (kws : list (list N * ftoken)) (s : list N) : option (ftoken * list N) :=
  match kws with
  | [] => None
  | (p, t) :: kws' => match kw_at_with bd p s with
                      | Some rest => Some (t, rest)
                      | None => find_kw_with bd kws' s
                      end
  end.

Definition ref_next_with (bd : list N -> bool) (s : list N) : option (ftoken * list N) :=
  match find_kw_with bd keywords s with
  | Some r => Some r
  | None =>
      match span_ident s with
      | (c :: run, rest) => Some (FName (c :: run), rest)
      | ([], _) =>
          match s with
          | [] => None
          | c :: s' =>
              if N.eqb c 123 then
                match until_brace s' with
                | Some (d :: nm, rest) => Some (FName (d :: nm), rest)
                | _ => None
                end
              else find_sym symbols s
          end
      end
  end.

Definition ref_next_plain : list N -> option (ftoken * list N) := ref_next_with boundary_plain.

Inductive lexes_to_plain : list N -> list ftoken -> list N -> Prop :=
| lexes_plain_nil s : lexes_to_plain s [] s
| lexes_plain_cons s t s' ts r :
    ref_next_plain (trim_ws s) = Some (t, s') -> lexes_to_plain s' ts r -> lexes_to_plain s (t :: ts) r.

Definition lexes_plain (s : list N) (ts : list ftoken) : Prop :=
  exists r, lexes_to_plain s ts r /\ trim_ws r = [].
