(* Specification layer: a Boolean function is a predicate on environments together with a
   declared (sorted) input set.  No code artefacts here. *)
From BBF Require Import Base.Prelude Base.Names Base.Bits.

Record bf : Type := { ins : list name; fn : env -> bool }.

Definition env_of (vars : list name) (p : list bool) : env := complete false (combine vars p).

(* truth vector over the declared inputs, in domain order *)
Definition bf_tv (f : bf) : list bool := map (fun p => fn f (env_of (ins f) p)) (points (length (ins f))).

Definition spec_const (b : bool) : bf := {| ins := []; fn := fun _ => b |}.
Definition spec_var (x : name) : bf := {| ins := [x]; fn := fun v => v x |}.
Definition spec_not (f : bf) : bf := {| ins := ins f; fn := fun v => negb (fn f v) |}.
Definition spec_bin (op : bool -> bool -> bool) (f g : bf) : bf :=
  {| ins := set_union (ins f) (ins g); fn := fun v => op (fn f v) (fn g v) |}.

Definition spec_restrict (f : bf) (rho : list (name * bool)) : bf :=
  {| ins := set_diff (ins f) (keys rho); fn := fun v => fn f (override v rho) |}.

(* eliminating the variables one at a time, in the order given *)
Fixpoint elim_fn (op : bool -> bool -> bool) (vars : list name) (f : env -> bool) : env -> bool :=
  match vars with
  | [] => f
  | x :: r => elim_fn op r (fun v => op (f (upd v x false)) (f (upd v x true)))
  end.
Definition spec_elim (op : bool -> bool -> bool) (f : bf) (vars : list name) : bf :=
  {| ins := set_diff (ins f) vars; fn := elim_fn op vars (fn f) |}.

(* the other reading of the same thing: combine the values at ALL assignments of the variables *)
Fixpoint fold_assignments (op : bool -> bool -> bool) (vars : list name) (f : env -> bool) (v : env) : bool :=
  match vars with
  | [] => f v
  | x :: r => op (fold_assignments op r f (upd v x false)) (fold_assignments op r f (upd v x true))
  end.

(* simultaneous composition *)
Definition subst_env (m : list (name * bf)) (v : env) : env :=
  fun k => match get m k with Some g => fn g v | None => v k end.
Definition spec_subst (f : bf) (m : list (name * bf)) : bf :=
  {| ins := set_union (set_diff (ins f) (keys m)) (set_of_list (concat (map (fun kg => ins (snd kg)) m)));
     fn := fun v => fn f (subst_env m v) |}.

Definition depends_on (f : env -> bool) (x : name) : Prop :=
  exists v, f (upd v x false) <> f (upd v x true).

(* computable over the declared inputs *)
Definition spec_essential (f : bf) : list name :=
  filter (fun x => existsb (fun p => negb (Bool.eqb (fn f (upd (env_of (ins f) p) x false))
                                                    (fn f (upd (env_of (ins f) p) x true))))
                           (points (length (ins f))))
         (ins f).
Definition spec_support (f : bf) : list (list bool) :=
  filter (fun p => fn f (env_of (ins f) p)) (points (length (ins f))).
Definition spec_equiv (f g : bf) : bool :=
  let u := set_union (ins f) (ins g) in
  forallb (fun p => Bool.eqb (fn f (env_of u p)) (fn g (env_of u p))) (points (length u)).
Definition spec_implies (g f : bf) : bool :=   (* g -> f *)
  let u := set_union (ins f) (ins g) in
  forallb (fun p => implb (fn g (env_of u p)) (fn f (env_of u p))) (points (length u)).
