(* exact_cardinality on the tree model counts the satisfying points: weight = |support| for diagrams. *)
From BBF Require Import Base.Prelude Base.Names Base.Bits Model.Expr Model.Table Model.LibBdd Model.Bdd Proofs.ExprProofs Proofs.TableProofs Proofs.DdProofs.

Definition sat_count (f : list bool -> bool) (n : nat) : nat := length (filter f (points n)).

Lemma points_app a : forall b, points (a + b) = concat (map (fun x => map (fun y => x ++ y) (points b)) (points a)).
Proof.
  induction a as [|a IH]; intros b; simpl.
  - rewrite app_nil_r. rewrite map_id. reflexivity.
  - rewrite IH. rewrite !map_app, !concat_app, !map_map. f_equal.
    + rewrite concat_map, map_map. f_equal. apply map_ext. intros x. rewrite !map_map. reflexivity.
    + rewrite concat_map, map_map. f_equal. apply map_ext. intros x. rewrite !map_map. reflexivity.
Qed.

Lemma filter_concat_length {A B} (f : B -> bool) (g : A -> list B) (l : list A) c :
  (forall x, In x l -> length (filter f (g x)) = c) -> length (filter f (concat (map g l))) = length l * c.
Proof.
  induction l as [|x l IH]; intros H; simpl; [reflexivity|].
  rewrite filter_app, app_length, H by (left; reflexivity). rewrite IH; [reflexivity|]. intros y Hy. apply H. right. exact Hy.
Qed.

Lemma filter_map_length {A B} (f : B -> bool) (g : A -> B) l : length (filter f (map g l)) = length (filter (fun x => f (g x)) l).
Proof. induction l as [|x l IH]; simpl; [reflexivity|]. destruct (f (g x)); simpl; rewrite IH; reflexivity. Qed.

(* the environment that reads variable i at position i - k of the point *)
Definition penv (k : nat) (q : list bool) : nat -> bool := fun i => nth (i - k) q false.

Lemma N_of_nat_pow2 n : N.of_nat (2 ^ n) = (2 ^ N.of_nat n)%N.
Proof. rewrite <- (N2Nat.id (2 ^ N.of_nat n)), pow2_N_nat. reflexivity. Qed.

Theorem count_from_spec nv t : forall k, inv k nv t -> k <= nv ->
  dd_count_from k nv t = N.of_nat (sat_count (fun q => dd_eval t (penv k q)) (nv - k)).
Proof.
  induction t as [c|v lo IHlo hi IHhi]; intros k Hinv Hk.
  - simpl. unfold sat_count. destruct c.
    + rewrite filter_true by reflexivity. rewrite points_length. symmetry. apply N_of_nat_pow2.
    + rewrite (filter_false (fun _ => false)) by reflexivity. reflexivity.
  - apply inv_node in Hinv. destruct Hinv as (Hkv & Hv & _ & Hl & Hh).
    cbn [dd_count_from]. rewrite (IHlo (S v) Hl) by lia. rewrite (IHhi (S v) Hh) by lia.
    set (m := nv - S v). set (a := v - k).
    assert (Hsplit : nv - k = a + S m) by (unfold a, m; lia).
    unfold sat_count at 3. rewrite Hsplit, points_app.
    rewrite (filter_concat_length _ _ _ (sat_count (fun q => dd_eval lo (penv (S v) q)) m + sat_count (fun q => dd_eval hi (penv (S v) q)) m)).
    + rewrite points_length. rewrite Nat2N.inj_mul, N_of_nat_pow2, Nat2N.inj_add. reflexivity.
    + intros x Hx. apply points_In in Hx.
      rewrite filter_map_length. cbn [points]. rewrite filter_app, app_length, !filter_map_length. unfold sat_count. f_equal.
      * f_equal. apply filter_ext. intros r. cbn [dd_eval]. unfold penv at 1.
        replace (v - k) with (length x + 0) by (unfold a in Hx; lia). rewrite app_nth2_plus. cbn [nth].
        apply (eval_indep (S v)); [apply Hl|]. intros i Hi. unfold penv.
        replace (i - k) with (length x + S (i - S v)) by (unfold a in Hx; lia). rewrite app_nth2_plus. reflexivity.
      * f_equal. apply filter_ext. intros r. cbn [dd_eval]. unfold penv at 1.
        replace (v - k) with (length x + 0) by (unfold a in Hx; lia). rewrite app_nth2_plus. cbn [nth].
        apply (eval_indep (S v)); [apply Hh|]. intros i Hi. unfold penv.
        replace (i - k) with (length x + S (i - S v)) by (unfold a in Hx; lia). rewrite app_nth2_plus. reflexivity.
Qed.

Theorem b_weight_is_support_size b : wf_bdd b -> b_weight b = N.of_nat (length (b_support b)).
Proof.
  intros (_ & _ & Hinv). unfold b_weight, dd_count, b_support. rewrite (count_from_spec _ _ 0 Hinv) by lia.
  unfold sat_count. rewrite Nat.sub_0_r. f_equal. f_equal. apply filter_ext. intros q.
  apply eval_ext. intros i. unfold penv. rewrite Nat.sub_0_r. reflexivity.
Qed.
