(* C04 at the level of objects of any representation: the comparisons decide semantic equality / entailment,
   hence their answer depends only on the two functions denoted. *)
From BBF Require Import Base.Prelude Base.Names Base.Bits Spec.Sem
     Model.Expr Model.Table Model.LibBdd Model.Bdd Model.Lexer Model.Parser Model.Display Model.Render Model.Csv Model.Prog
     Proofs.ExprProofs Proofs.TableProofs Proofs.QuantProofs Proofs.DdProofs Proofs.BddProofs Proofs.BddOps Proofs.ProgProofs.

Lemma obj_equiv_spec x y : owf x -> owf y -> obj_kind x = obj_kind y ->
  exists r, obj_equiv x y = Ok r /\ (r = true <-> forall v, osem x v = osem y v).
Proof.
  intros Wx Wy Hk. destruct x as [a|a|a], y as [b|b|b]; simpl in *; try discriminate.
  - eexists. split; [reflexivity|]. apply e_equiv_spec.
  - eexists. split; [reflexivity|]. apply t_equiv_spec.
  - apply b_equiv_spec; assumption.
Qed.

Lemma obj_implied_by_spec x y : owf x -> owf y -> obj_kind x = obj_kind y ->
  exists r, obj_implied_by x y = Ok r /\ (r = true <-> forall v, osem y v = true -> osem x v = true).
Proof.
  intros Wx Wy Hk. destruct x as [a|a|a], y as [b|b|b]; simpl in *; try discriminate.
  - eexists. split; [reflexivity|]. apply e_implied_by_spec.
  - eexists. split; [reflexivity|]. apply t_implied_by_spec.
  - apply b_implied_by_spec; assumption.
Qed.

Lemma bool_iff_eq (a b : bool) : (a = true <-> b = true) -> a = b.
Proof. destruct a, b; intros [H1 H2]; try reflexivity; [symmetry; apply H1; reflexivity|apply H2; reflexivity]. Qed.

(* two pairs of objects -- of whatever representations, built in whatever way, declaring whatever extra
   variables -- that denote the same two functions get the same answers *)
Theorem compare_depends_only_on_functions x y x' y' :
  owf x -> owf y -> owf x' -> owf y' -> obj_kind x = obj_kind y -> obj_kind x' = obj_kind y' ->
  (forall v, osem x v = osem x' v) -> (forall v, osem y v = osem y' v) ->
  obj_equiv x y = obj_equiv x' y' /\ obj_implied_by x y = obj_implied_by x' y'.
Proof.
  intros Wx Wy Wx' Wy' K K' Hx Hy.
  destruct (obj_equiv_spec x y Wx Wy K) as (r & Er & Hr). destruct (obj_equiv_spec x' y' Wx' Wy' K') as (r' & Er' & Hr').
  destruct (obj_implied_by_spec x y Wx Wy K) as (s & Es & Hs). destruct (obj_implied_by_spec x' y' Wx' Wy' K') as (s' & Es' & Hs').
  rewrite Er, Er', Es, Es'. split; f_equal; apply bool_iff_eq.
  - rewrite Hr, Hr'. split; intros H v; [rewrite <- Hx, <- Hy|rewrite Hx, Hy]; apply H.
  - rewrite Hs, Hs'. split; intros H v; [rewrite <- Hx, <- Hy|rewrite Hx, Hy]; apply H.
Qed.

(* equivalence is implication both ways *)
Theorem equiv_is_mutual_implication x y : owf x -> owf y -> obj_kind x = obj_kind y ->
  exists r s t, obj_equiv x y = Ok r /\ obj_implied_by x y = Ok s /\ obj_implied_by y x = Ok t /\ r = s && t.
Proof.
  intros Wx Wy K. destruct (obj_equiv_spec x y Wx Wy K) as (r & Er & Hr).
  destruct (obj_implied_by_spec x y Wx Wy K) as (s & Es & Hs). destruct (obj_implied_by_spec y x Wy Wx (eq_sym K)) as (t & Et & Ht).
  exists r, s, t. repeat split; try assumption. apply bool_iff_eq. rewrite Bool.andb_true_iff, Hr, Hs, Ht. split.
  - intros H. split; intros v Hv; [rewrite H|rewrite <- H]; exact Hv.
  - intros (H1 & H2) v. destruct (osem x v) eqn:Ex, (osem y v) eqn:Ey; try reflexivity.
    + rewrite (H2 v Ex) in Ey. discriminate.
    + rewrite (H1 v Ey) in Ex. discriminate.
Qed.
