(* T5 / C14: printing an expression and parsing the text back. *)
From BBF Require Import Base.Prelude Base.Names Model.Expr Model.Lexer Model.Parser Model.Display
     Spec.Grammar Proofs.ExprProofs Proofs.LexerProofs Proofs.ParserProofs.
Local Open Scope N_scope.

(* ---------- the hypotheses of the round trip ---------- *)
(* x is, up to case folding, one of the keywords *)
Definition is_keyword (x : name) : bool :=
  existsb (fun kw : list N * ftoken => match strip_ci (fst kw) x with Some [] => true | _ => false end) keywords.

(* a name that the printer can emit bare: non-empty, identifier characters only, not a keyword *)
Definition plain_name (x : name) : bool :=
  match x with [] => false | _ => forallb is_ident x && negb (is_keyword x) end.

(* every name is plain and no And / Or node is empty *)
Fixpoint printable (e : expr) : bool :=
  match e with
  | Lit x => plain_name x
  | Const _ => true
  | Not e => printable e
  | And es | Or es => match es with [] => false | _ => forallb printable es end
  end.

(* every And / Or node has at least two operands *)
Fixpoint proper (e : expr) : bool :=
  match e with
  | Lit _ | Const _ => true
  | Not e => proper e
  | And es | Or es => match es with _ :: _ :: _ => forallb proper es | _ => false end
  end.

(* what comes back: one-operand And / Or nodes are replaced by their operand *)
Fixpoint norm (e : expr) : expr :=
  match e with
  | Lit x => Lit x
  | Const b => Const b
  | Not e => Not (norm e)
  | And es => fold1 And (map norm es)
  | Or es => fold1 Or (map norm es)
  end.

(* the token forest of the printed text *)
Fixpoint tjoin (sep : token) (gs : list (list token)) : list token :=
  match gs with
  | [] => []
  | [g] => g
  | g :: gs' => g ++ sep :: tjoin sep gs'
  end.

Fixpoint toks (e : expr) : list token :=
  match e with
  | Lit x => [TLit x]
  | Const true => [TTrue]
  | Const false => [TFalse]
  | Not e => [TNot; TParens (toks e)]
  | And es => [TParens (tjoin TAnd (map toks es))]
  | Or es => [TParens (tjoin TOr (map toks es))]
  end.

(* ---------- characters ---------- *)
Lemma is_ident_range c : is_ident c = true -> 45 <= c <= 122.
Proof.
  unfold is_ident, is_lower, is_upper, is_digit, in_range.
  rewrite !orb_true_iff, !andb_true_iff, !N.eqb_eq, !N.leb_le. lia.
Qed.

Lemma is_ident_not_ws c : is_ident c = true -> is_ws c = false.
Proof.
  intros H. apply is_ident_range in H. unfold is_ws, in_range.
  assert (N.leb c 13 = false) as -> by (apply N.leb_gt; lia).
  assert (N.leb 8192 c = false) as -> by (apply N.leb_gt; lia).
  repeat match goal with |- context [N.eqb c ?k] =>
    let E := fresh in assert (E : N.eqb c k = false) by (apply N.eqb_neq; lia); rewrite E; clear E end.
  rewrite andb_false_r. reflexivity.
Qed.

Lemma boundary_not_ident c r : boundary (c :: r) = true -> is_ident c = false.
Proof.
  simpl. intros H. apply negb_true_iff in H. destruct (is_ident c) eqn:E; [|reflexivity].
  rewrite (is_ident_ci_of_ident _ E) in H. discriminate.
Qed.

(* ---------- a plain name reads as itself ---------- *)
Lemma kw_at_exact p : forall x rest r,
  forallb is_ident p = true -> forallb is_ident x = true -> boundary rest = true ->
  kw_at p (x ++ rest) = Some r -> strip_ci p x = Some [].
Proof.
  unfold kw_at. induction p as [|pc p IH]; intros x rest r Hp Hx Hb H.
  - simpl in H. destruct x as [|c x]; [reflexivity|].
    simpl in Hx. apply andb_true_iff in Hx. destruct Hx as [Hc _].
    simpl in H. rewrite (is_ident_ci_of_ident _ Hc) in H. discriminate.
  - simpl in Hp. apply andb_true_iff in Hp. destruct Hp as [Hpc Hp].
    destruct x as [|c x].
    + simpl in H. destruct rest as [|c rest]; [discriminate|].
      destruct (ci_eq pc c) eqn:E; [|discriminate].
      simpl in Hb. rewrite (ci_eq_ident _ _ Hpc E) in Hb. discriminate.
    + simpl in H |- *. destruct (ci_eq pc c); [|discriminate].
      simpl in Hx. apply andb_true_iff in Hx. destruct Hx as [_ Hx]. eapply IH; eauto.
Qed.

Lemma find_kw_plain kws x rest :
  forallb (fun kw : list N * ftoken => forallb is_ident (fst kw)) kws = true ->
  forallb is_ident x = true -> boundary rest = true ->
  existsb (fun kw : list N * ftoken => match strip_ci (fst kw) x with Some [] => true | _ => false end) kws = false ->
  find_kw kws (x ++ rest) = None.
Proof.
  induction kws as [|[p t] kws IH]; simpl; intros Hk Hx Hb Hn; [reflexivity|].
  apply andb_true_iff in Hk. destruct Hk as [Hp Hk]. apply orb_false_iff in Hn. destruct Hn as [Hn1 Hn2].
  destruct (kw_at p (x ++ rest)) as [r|] eqn:E.
  - rewrite (kw_at_exact _ _ _ _ Hp Hx Hb E) in Hn1. discriminate.
  - apply IH; assumption.
Qed.

Lemma ref_next_plain x rest : plain_name x = true -> boundary rest = true ->
  ref_next (trim_ws (x ++ rest)) = Some (FName x, rest).
Proof.
  unfold plain_name. destruct x as [|c x]; [discriminate|]. intros H Hb.
  apply andb_true_iff in H. destruct H as [Hid Hkw]. apply negb_true_iff in Hkw.
  assert (Hc : is_ident c = true) by (simpl in Hid; apply andb_true_iff in Hid; tauto).
  change ((c :: x) ++ rest) with (c :: (x ++ rest)). rewrite (trim_ws_nonws _ _ (is_ident_not_ws _ Hc)).
  change (c :: (x ++ rest)) with ((c :: x) ++ rest).
  unfold ref_next. rewrite (find_kw_plain keywords (c :: x) rest eq_refl Hid Hb Hkw).
  rewrite (span_ident_intro (c :: x) rest Hid).
  - reflexivity.
  - destruct rest as [|d rest]; [exact I|]. exact (boundary_not_ident _ _ Hb).
Qed.

(* ---------- the fixed pieces of the printed text ---------- *)
Lemma next_lpar s : ref_next (trim_ws (c_lpar :: s)) = Some (FLParen, s).
Proof. reflexivity. Qed.
Lemma next_rpar s : ref_next (trim_ws (c_rpar :: s)) = Some (FRParen, s).
Proof. reflexivity. Qed.
Lemma next_bang s : ref_next (trim_ws (c_bang :: s)) = Some (FNot, s).
Proof. reflexivity. Qed.
Lemma next_and_sep s : ref_next (trim_ws (s_and_sep ++ s)) = Some (FAnd, 32 :: s).
Proof. reflexivity. Qed.
Lemma next_or_sep s : ref_next (trim_ws (s_or_sep ++ s)) = Some (FOr, 32 :: s).
Proof. reflexivity. Qed.
Lemma trim_space s : trim_ws (32 :: s) = trim_ws s.
Proof. reflexivity. Qed.

Lemma next_true rest : boundary rest = true -> ref_next (trim_ws (s_true ++ rest)) = Some (FTrue, rest).
Proof.
  intros Hb. change (trim_ws (s_true ++ rest)) with (s_true ++ rest).
  unfold ref_next, keywords, find_kw.
  change (kw_at [102; 97; 108; 115; 101] (s_true ++ rest)) with (@None (list N)).
  change (kw_at [116; 114; 117; 101] (s_true ++ rest)) with (if boundary rest then Some rest else None).
  rewrite Hb. reflexivity.
Qed.

Lemma next_false rest : boundary rest = true -> ref_next (trim_ws (s_false ++ rest)) = Some (FFalse, rest).
Proof.
  intros Hb. change (trim_ws (s_false ++ rest)) with (s_false ++ rest).
  unfold ref_next, keywords, find_kw.
  change (kw_at [102; 97; 108; 115; 101] (s_false ++ rest)) with (if boundary rest then Some rest else None).
  rewrite Hb. reflexivity.
Qed.

(* ---------- the printed text reads as the forest `toks e` ---------- *)
Lemma flatten_tjoin_cons sep g g2 gs : is_simple sep = true ->
  flatten (tjoin sep (g :: g2 :: gs)) = flatten g ++ ftoken_of sep :: flatten (tjoin sep (g2 :: gs)).
Proof.
  intros Hs. change (tjoin sep (g :: g2 :: gs)) with (g ++ sep :: tjoin sep (g2 :: gs)).
  rewrite flatten_app, flatten_cons, (flatten_simple _ Hs). reflexivity.
Qed.

Lemma lexes_to_skip_space s ts r : lexes_to s ts r -> ts <> [] -> lexes_to (32 :: s) ts r.
Proof.
  intros H Hne. destruct H as [s|s t s' ts r Hn Hr]; [contradiction|].
  econstructor; [rewrite trim_space; exact Hn|exact Hr].
Qed.

Lemma flatten_tok_nonempty t : flatten_tok t <> [].
Proof. destruct t; discriminate. Qed.

Lemma toks_nonempty e : exists t l, toks e = t :: l.
Proof. destruct e as [x|[|]|e|es|es]; simpl; eauto. Qed.

Lemma flatten_tjoin_nonempty sep e es : flatten (tjoin sep (map toks (e :: es))) <> [].
Proof.
  destruct (toks_nonempty e) as (t & l & Ht).
  destruct es as [|e2 es]; simpl; rewrite Ht; simpl; rewrite flatten_cons;
    destruct (flatten_tok t) eqn:E; try discriminate; exfalso; exact (flatten_tok_nonempty t E).
Qed.

Lemma lex_join (sep_s : list N) (sep_t : token) es :
  is_simple sep_t = true ->
  (forall s, ref_next (trim_ws (sep_s ++ s)) = Some (ftoken_of sep_t, 32 :: s)) ->
  (forall s, boundary (sep_s ++ s) = true) ->
  es <> [] ->
  Forall (fun e => forall rest, boundary rest = true ->
                     lexes_to (display e ++ rest) (flatten (toks e)) rest) es ->
  forall rest, boundary rest = true ->
    lexes_to (join sep_s (map display es) ++ rest) (flatten (tjoin sep_t (map toks es))) rest.
Proof.
  intros Hsimple Hsep Hsepb Hne HF. induction HF as [|e es He HF IH]; [contradiction|].
  intros rest Hb. destruct es as [|e2 es].
  - simpl. apply He. exact Hb.
  - change (join sep_s (map display (e :: e2 :: es)))
      with (display e ++ sep_s ++ join sep_s (map display (e2 :: es))).
    change (map toks (e :: e2 :: es)) with (toks e :: toks e2 :: map toks es).
    rewrite (flatten_tjoin_cons _ _ _ _ Hsimple). rewrite <- !app_assoc.
    eapply lexes_to_app; [apply He; apply Hsepb|].
    econstructor; [apply Hsep|].
    (* the space after the operator is skipped by the next step *)
    apply lexes_to_skip_space; [apply IH; [discriminate|exact Hb]|apply flatten_tjoin_nonempty].
Qed.

Lemma flatten_group l : flatten [TParens l] = FLParen :: flatten l ++ [FRParen].
Proof. unfold flatten. simpl. rewrite app_nil_r. reflexivity. Qed.
Lemma flatten_not_group l : flatten [TNot; TParens l] = FNot :: FLParen :: flatten l ++ [FRParen].
Proof. unfold flatten. simpl. rewrite app_nil_r. reflexivity. Qed.

Lemma lex_display e : printable e = true ->
  forall rest, boundary rest = true -> lexes_to (display e ++ rest) (flatten (toks e)) rest.
Proof.
  induction e as [x|b|e IH|es IH|es IH] using expr_ind'; intros Hp rest Hb.
  - simpl in Hp. simpl. econstructor; [apply ref_next_plain; assumption|constructor].
  - destruct b; simpl display; simpl toks.
    + econstructor; [apply next_true; exact Hb|constructor].
    + econstructor; [apply next_false; exact Hb|constructor].
  - simpl in Hp. simpl display. simpl toks.
    rewrite flatten_not_group.
    simpl app. econstructor; [apply next_bang|]. econstructor; [apply next_lpar|].
    rewrite <- app_assoc. eapply lexes_to_app; [apply IH; [exact Hp|reflexivity]|].
    simpl. econstructor; [apply next_rpar|constructor].
  - simpl in Hp. destruct es as [|e0 es0] eqn:Ees; [discriminate|]. rewrite <- Ees in *.
    simpl display. simpl toks.
    rewrite flatten_group.
    simpl app. econstructor; [apply next_lpar|].
    rewrite <- app_assoc. eapply lexes_to_app.
    + apply (lex_join s_and_sep TAnd es eq_refl next_and_sep (fun _ => eq_refl)); [subst es; discriminate| |reflexivity].
      rewrite Forall_forall in IH |- *. intros e He. apply IH; [exact He|].
      rewrite forallb_forall in Hp. apply Hp. exact He.
    + simpl. econstructor; [apply next_rpar|constructor].
  - simpl in Hp. destruct es as [|e0 es0] eqn:Ees; [discriminate|]. rewrite <- Ees in *.
    simpl display. simpl toks.
    rewrite flatten_group.
    simpl app. econstructor; [apply next_lpar|].
    rewrite <- app_assoc. eapply lexes_to_app.
    + apply (lex_join s_or_sep TOr es eq_refl next_or_sep (fun _ => eq_refl)); [subst es; discriminate| |reflexivity].
      rewrite Forall_forall in IH |- *. intros e He. apply IH; [exact He|].
      rewrite forallb_forall in Hp. apply Hp. exact He.
    + simpl. econstructor; [apply next_rpar|constructor].
Qed.

(* ---------- the forest `toks e` is derived by the grammar, with value `norm e` ---------- *)
Lemma G_or_of_un ts e : G_un ts e -> G_or ts e.
Proof.
  intros H. change e with (fold1 Or [fold1 And [e]]). constructor. constructor.
  change (fold1 And [e]) with (fold1 And [e]). constructor. constructor. exact H.
Qed.

Lemma G_and_of_un ts e : G_un ts e -> G_and ts e.
Proof. intros H. change e with (fold1 And [e]). constructor. constructor. exact H. Qed.

Lemma G_ands_tjoin es : es <> [] -> Forall (fun e => G_un (toks e) (norm e)) es ->
  G_ands (tjoin TAnd (map toks es)) (map norm es).
Proof.
  intros Hne HF. induction HF as [|e es He HF IH]; [contradiction|].
  destruct es as [|e2 es].
  - simpl. constructor. exact He.
  - change (tjoin TAnd (map toks (e :: e2 :: es))) with (toks e ++ TAnd :: tjoin TAnd (map toks (e2 :: es))).
    change (map norm (e :: e2 :: es)) with (norm e :: map norm (e2 :: es)).
    constructor; [exact He|]. apply IH. discriminate.
Qed.

Lemma G_ors_tjoin es : es <> [] -> Forall (fun e => G_un (toks e) (norm e)) es ->
  G_ors (tjoin TOr (map toks es)) (map norm es).
Proof.
  intros Hne HF. induction HF as [|e es He HF IH]; [contradiction|].
  destruct es as [|e2 es].
  - simpl. constructor. apply G_and_of_un. exact He.
  - change (tjoin TOr (map toks (e :: e2 :: es))) with (toks e ++ TOr :: tjoin TOr (map toks (e2 :: es))).
    change (map norm (e :: e2 :: es)) with (norm e :: map norm (e2 :: es)).
    constructor; [apply G_and_of_un; exact He|]. apply IH. discriminate.
Qed.

Lemma G_toks e : printable e = true -> G_un (toks e) (norm e).
Proof.
  induction e as [x|b|e IH|es IH|es IH] using expr_ind'; intros Hp.
  - simpl. constructor. constructor.
  - destruct b; simpl; constructor; constructor.
  - simpl in Hp. simpl. constructor. constructor. constructor. apply G_or_of_un. apply IH. exact Hp.
  - simpl in Hp. destruct es as [|e0 es0] eqn:Ees; [discriminate|]. rewrite <- Ees in *.
    simpl. constructor. constructor.
    change (fold1 And (map norm es)) with (fold1 Or [fold1 And (map norm es)]).
    constructor. constructor. constructor.
    apply G_ands_tjoin; [subst es; discriminate|].
    rewrite Forall_forall in IH |- *. intros e He. apply IH; [exact He|].
    rewrite forallb_forall in Hp. apply Hp. exact He.
  - simpl in Hp. destruct es as [|e0 es0] eqn:Ees; [discriminate|]. rewrite <- Ees in *.
    simpl. constructor. constructor. constructor.
    apply G_ors_tjoin; [subst es; discriminate|].
    rewrite Forall_forall in IH |- *. intros e He. apply IH; [exact He|].
    rewrite forallb_forall in Hp. apply Hp. exact He.
Qed.

(* ---------- T5 ---------- *)
Theorem display_tokenize e : printable e = true -> tokenize (display e) = TokOk (toks e).
Proof.
  intros Hp. apply tokenize_complete. exists []. split; [|reflexivity].
  pose proof (lex_display e Hp [] eq_refl) as H. rewrite app_nil_r in H. exact H.
Qed.

Theorem round_trip e : printable e = true -> from_str (display e) = Ok (norm e).
Proof.
  intros Hp. apply from_str_ok_iff. exists (toks e). split; [apply display_tokenize; exact Hp|].
  apply parse_tokens_complete. apply G_or_of_un. apply G_toks. exact Hp.
Qed.

Lemma norm_sem v e : sem v (norm e) = sem v e.
Proof.
  induction e as [x|b|e IH|es IH|es IH] using expr_ind'; simpl; try reflexivity.
  - rewrite IH. reflexivity.
  - assert (H : forallb (sem v) (map norm es) = forallb (sem v) es).
    { rewrite forallb_map. apply forallb_ext_in. rewrite Forall_forall in IH. exact IH. }
    destruct es as [|e1 [|e2 es]]; try exact H.
    simpl in H |- *. rewrite ?andb_true_r in H. rewrite ?andb_true_r. exact H.
  - assert (H : existsb (sem v) (map norm es) = existsb (sem v) es).
    { rewrite existsb_map. apply existsb_ext_in. rewrite Forall_forall in IH. exact IH. }
    destruct es as [|e1 [|e2 es]]; try exact H.
    simpl in H |- *. rewrite ?orb_false_r in H. rewrite ?orb_false_r. exact H.
Qed.

Lemma norm_occurrences e : occurrences (norm e) = occurrences e.
Proof.
  induction e as [x|b|e IH|es IH|es IH] using expr_ind'; simpl; try reflexivity; try exact IH.
  - assert (H : concat (map occurrences (map norm es)) = concat (map occurrences es)).
    { rewrite map_map. f_equal. apply Forall_map_ext. exact IH. }
    destruct es as [|e1 [|e2 es]]; try exact H.
    simpl in H |- *. rewrite ?app_nil_r in H. rewrite ?app_nil_r. exact H.
  - assert (H : concat (map occurrences (map norm es)) = concat (map occurrences es)).
    { rewrite map_map. f_equal. apply Forall_map_ext. exact IH. }
    destruct es as [|e1 [|e2 es]]; try exact H.
    simpl in H |- *. rewrite ?app_nil_r in H. rewrite ?app_nil_r. exact H.
Qed.

Lemma norm_literals e : literals (norm e) = literals e.
Proof. unfold literals. rewrite norm_occurrences. reflexivity. Qed.

Lemma norm_proper e : proper e = true -> norm e = e.
Proof.
  induction e as [x|b|e IH|es IH|es IH] using expr_ind'; simpl; intros Hp; try reflexivity.
  - f_equal. apply IH. exact Hp.
  - destruct es as [|e1 [|e2 es]]; try discriminate.
    assert (H : map norm (e1 :: e2 :: es) = e1 :: e2 :: es).
    { rewrite <- (map_id (e1 :: e2 :: es)) at 2. apply Forall_map_ext.
      rewrite Forall_forall in IH |- *. intros e He. apply IH; [exact He|].
      rewrite forallb_forall in Hp. apply Hp. exact He. }
    rewrite H. reflexivity.
  - destruct es as [|e1 [|e2 es]]; try discriminate.
    assert (H : map norm (e1 :: e2 :: es) = e1 :: e2 :: es).
    { rewrite <- (map_id (e1 :: e2 :: es)) at 2. apply Forall_map_ext.
      rewrite Forall_forall in IH |- *. intros e He. apply IH; [exact He|].
      rewrite forallb_forall in Hp. apply Hp. exact He. }
    rewrite H. reflexivity.
Qed.

(* the round trip, as asked: same meaning and same literals; the same tree for proper trees *)
Theorem round_trip_sem e : printable e = true ->
  exists e', from_str (display e) = Ok e' /\ (forall v, sem v e' = sem v e) /\ literals e' = literals e.
Proof.
  intros Hp. exists (norm e). split; [apply round_trip; exact Hp|].
  split; [intros v; apply norm_sem|apply norm_literals].
Qed.

Theorem round_trip_exact e : printable e = true -> proper e = true -> from_str (display e) = Ok e.
Proof. intros Hp Hq. rewrite (round_trip e Hp), (norm_proper e Hq). reflexivity. Qed.
