(* Proofs about the tokenizer model: it never runs out of its canonical fuel, and it agrees
   with the reference lexer of Spec/Grammar.v on every string. *)
From BBF Require Import Base.Prelude Base.Names Model.Expr Model.Lexer Spec.Grammar.
Local Open Scope N_scope.

(* ---------- scanning helpers ---------- *)
Lemma trim_ws_length s : (length (trim_ws s) <= length s)%nat.
Proof. induction s as [|c r IH]; simpl; [lia|]. destruct (is_ws c); simpl; lia. Qed.

Lemma trim_ws_suffix s : exists ws, s = ws ++ trim_ws s /\ forallb is_ws ws = true.
Proof.
  induction s as [|c r IH]; simpl.
  - exists []. auto.
  - destruct (is_ws c) eqn:E.
    + destruct IH as (ws & H1 & H2). exists (c :: ws). simpl. rewrite E, H2. split; [f_equal; exact H1|reflexivity].
    + exists []. auto.
Qed.

Lemma trim_ws_head s c r : trim_ws s = c :: r -> is_ws c = false.
Proof.
  induction s as [|d s IH]; simpl; [discriminate|].
  destruct (is_ws d) eqn:E; [exact IH|]. intros [= <- _]. exact E.
Qed.

Lemma trim_ws_idem s : trim_ws (trim_ws s) = trim_ws s.
Proof.
  destruct (trim_ws s) as [|c r] eqn:E; [reflexivity|].
  simpl. rewrite (trim_ws_head _ _ _ E). reflexivity.
Qed.

Lemma trim_ws_nonws c r : is_ws c = false -> trim_ws (c :: r) = c :: r.
Proof. intros H. simpl. rewrite H. reflexivity. Qed.

Lemma span_ident_app s : forall a b, span_ident s = (a, b) -> s = a ++ b /\ forallb is_ident a = true.
Proof.
  induction s as [|c r IH]; simpl; intros a b.
  - intros [= <- <-]. auto.
  - destruct (is_ident c) eqn:E.
    + destruct (span_ident r) as [a' b'] eqn:E'. intros [= <- <-].
      destruct (IH _ _ eq_refl) as [H1 H2]. simpl. rewrite E, H2. split; [f_equal; exact H1|reflexivity].
    + intros [= <- <-]. auto.
Qed.

Lemma span_ident_rest s a b : span_ident s = (a, b) -> match b with [] => True | c :: _ => is_ident c = false end.
Proof.
  revert a b. induction s as [|c r IH]; simpl; intros a b.
  - intros [= <- <-]. exact I.
  - destruct (is_ident c) eqn:E.
    + destruct (span_ident r) as [a' b'] eqn:E'. intros [= <- <-]. exact (IH _ _ eq_refl).
    + intros [= <- <-]. exact E.
Qed.

Lemma span_ident_intro a : forall b, forallb is_ident a = true ->
  match b with [] => True | c :: _ => is_ident c = false end -> span_ident (a ++ b) = (a, b).
Proof.
  induction a as [|c a IH]; simpl; intros b Ha Hb.
  - destruct b as [|c b]; simpl; [reflexivity|]. rewrite Hb. reflexivity.
  - apply andb_true_iff in Ha. destruct Ha as [Hc Ha]. rewrite Hc, (IH b Ha Hb). reflexivity.
Qed.

Lemma until_brace_app s : forall a b, until_brace s = Some (a, b) ->
  s = a ++ 125 :: b /\ forallb (fun c => negb (N.eqb c 125)) a = true.
Proof.
  induction s as [|c r IH]; simpl; intros a b; [discriminate|].
  destruct (N.eqb_spec c 125) as [->|Hne].
  - intros [= <- <-]. auto.
  - destruct (until_brace r) as [[a' b']|] eqn:E; [|discriminate].
    intros [= <- <-]. destruct (IH _ _ eq_refl) as [H1 H2]. simpl.
    rewrite H2. destruct (N.eqb_spec c 125); [contradiction|]. split; [f_equal; exact H1|reflexivity].
Qed.

Lemma until_brace_intro a : forall b, forallb (fun c => negb (N.eqb c 125)) a = true ->
  until_brace (a ++ 125 :: b) = Some (a, b).
Proof.
  induction a as [|c a IH]; simpl; intros b Ha.
  - reflexivity.
  - apply andb_true_iff in Ha. destruct Ha as [Hc Ha]. apply negb_true_iff in Hc. rewrite Hc, (IH b Ha). reflexivity.
Qed.

Lemma until_brace_none s : until_brace s = None <-> forallb (fun c => negb (N.eqb c 125)) s = true.
Proof.
  induction s as [|c r IH]; simpl; [tauto|].
  destruct (N.eqb c 125); simpl; [split; discriminate|].
  destruct (until_brace r) as [[a b]|]; [split; [discriminate|]|tauto].
  intros H. apply IH in H. discriminate.
Qed.

(* ---------- the pattern set ---------- *)
Lemma first_match_some ps w k n : first_match ps w = Some (k, n) ->
  exists p word, In (p, word, k) ps /\ n = length p /\ pat_matches p word w = true.
Proof.
  induction ps as [|[[p word] k'] ps IH]; simpl; [discriminate|].
  destruct (pat_matches p word w) eqn:E.
  - intros [= <- <-]. exists p, word. auto.
  - intros H. destruct (IH H) as (p' & w' & Hin & Hn & Hm). exists p', w'. auto.
Qed.

Lemma patterns_len : Forall (fun x => (1 <= length (fst (fst x)) <= 5)%nat) patterns.
Proof. repeat constructor. Qed.

Lemma classify_len s k n : classify s = Some (k, n) -> (1 <= n <= 5)%nat.
Proof.
  unfold classify. intros H. destruct (first_match_some _ _ _ _ H) as (p & word & Hin & -> & _).
  pose proof patterns_len as HF. rewrite Forall_forall in HF. exact (HF _ Hin).
Qed.

(* one step of the tokenizer, as an equation (to rewrite with instead of `simpl`) *)
Lemma lex_level_S f top s acc :
  lex_level (S f) top s acc =
  match trim_ws s with
  | [] => if top then LOk (rev acc) [] else LErr EMissingParen []
  | c :: s' =>
      match classify (c :: s') with
      | None =>
          match span_ident (c :: s') with
          | ([], _) => LErr EUnknown (c :: s')
          | (nm, rest) => lex_level f top rest (TLit nm :: acc)
          end
      | Some (KTok t, n) => lex_level f top (skipn n (c :: s')) (t :: acc)
      | Some (KLParen, _) =>
          match lex_level f false s' [] with
          | LOk inner rest => lex_level f top rest (TParens inner :: acc)
          | r => r
          end
      | Some (KRParen, _) => if top then LErr EUnexpParen (c :: s') else LOk (rev acc) s'
      | Some (KLBrace, _) =>
          match until_brace s' with
          | None => LErr EMissingBrace []
          | Some ([], rest) => LErr EEmptyName rest
          | Some (nm, rest) => lex_level f top rest (TLit nm :: acc)
          end
      | Some (KRBrace, _) => LErr EUnexpBrace (c :: s')
      end
  end.
Proof. reflexivity. Qed.

(* ---------- T1 for the tokenizer: the canonical fuel is enough ---------- *)
Definition lexr_bound (r : lexr) (n : nat) : Prop :=
  match r with
  | LOk _ rest | LErr _ rest => (length rest <= n)%nat
  | LFuel => False
  end.

Lemma lexr_bound_mono r n m : lexr_bound r n -> (n <= m)%nat -> lexr_bound r m.
Proof. destruct r; simpl; intros; try lia; auto. Qed.

Lemma lex_level_total fuel : forall top s acc, (length s < fuel)%nat -> lexr_bound (lex_level fuel top s acc) (length s).
Proof.
  induction fuel as [|f IH]; intros top s acc Hlen; [lia|].
  rewrite lex_level_S. pose proof (trim_ws_length s) as Htrim.
  destruct (trim_ws s) as [|c s'] eqn:Es.
  { destruct top; simpl; lia. }
  simpl in Htrim.
  destruct (classify (c :: s')) as [[k n]|] eqn:Ec.
  - pose proof (classify_len _ _ _ Ec) as Hn.
    destruct k as [t| | | |].
    + eapply lexr_bound_mono; [apply IH|].
      * destruct n as [|n]; [lia|]. simpl. pose proof (skipn_length n s'). lia.
      * destruct n as [|n]; [lia|]. simpl. pose proof (skipn_length n s'). lia.
    + pose proof (IH false s' [] ltac:(lia)) as Hin.
      destruct (lex_level f false s' []) as [inner rest|k rest|] eqn:Ei; simpl in Hin.
      * eapply lexr_bound_mono; [apply IH; lia|lia].
      * simpl. lia.
      * contradiction.
    + destruct top; simpl; lia.
    + destruct (until_brace s') as [[nm rest]|] eqn:Eb.
      * destruct (until_brace_app _ _ _ Eb) as [Hs' _].
        assert (length rest < length s')%nat by (rewrite Hs', app_length; simpl; lia).
        destruct nm; [simpl; lia|]. eapply lexr_bound_mono; [apply IH; lia|lia].
      * simpl. lia.
    + simpl. lia.
  - destruct (span_ident (c :: s')) as [nm rest] eqn:Esp.
    destruct (span_ident_app _ _ _ Esp) as [Happ _].
    destruct nm as [|d nm]; [simpl; lia|].
    assert (length rest < length (c :: s'))%nat by (rewrite Happ, app_length; simpl; lia).
    simpl in H. eapply lexr_bound_mono; [apply IH; lia|lia].
Qed.

Theorem tokenize_no_fuel s : tokenize s <> TokFuel.
Proof.
  unfold tokenize, tokenize_fuel.
  pose proof (lex_level_total (S (length s)) true s [] ltac:(lia)) as H.
  destruct (lex_level (S (length s)) true s []); simpl in H; [discriminate|discriminate|contradiction].
Qed.

(* more fuel does not change a result *)
Lemma lex_level_mono fuel : forall top s acc r, lex_level fuel top s acc = r -> r <> LFuel ->
  forall fuel', (fuel <= fuel')%nat -> lex_level fuel' top s acc = r.
Proof.
  induction fuel as [|f IH]; intros top s acc r Hr Hnf fuel' Hle.
  { simpl in Hr. congruence. }
  destruct fuel' as [|f']; [lia|]. assert (Hle' : (f <= f')%nat) by lia.
  rewrite lex_level_S in Hr |- *.
  destruct (trim_ws s) as [|c s']; [exact Hr|].
  destruct (classify (c :: s')) as [[k n]|].
  - destruct k as [t| | | |].
    + eapply IH; eauto.
    + destruct (lex_level f false s' []) as [inner rest|k rest|] eqn:Ei.
      * rewrite (IH _ _ _ _ Ei ltac:(discriminate) f' Hle'). eapply IH; eauto.
      * rewrite (IH _ _ _ _ Ei ltac:(discriminate) f' Hle'). exact Hr.
      * congruence.
    + exact Hr.
    + destruct (until_brace s') as [[nm rest]|]; [|exact Hr].
      destruct nm; [exact Hr|]. eapply IH; eauto.
    + exact Hr.
  - destruct (span_ident (c :: s')) as [nm rest]. destruct nm; [exact Hr|]. eapply IH; eauto.
Qed.

(* ====================================================================================
   T4: the tokenizer and the reference lexer
   ==================================================================================== *)

(* ---------- the 6-character window is not observable ---------- *)
Lemma strip_ci_firstn p : forall s n, (length p <= n)%nat ->
  strip_ci p (firstn n s) = option_map (firstn (n - length p)) (strip_ci p s).
Proof.
  induction p as [|pc p IH]; intros s n Hn; simpl.
  - rewrite Nat.sub_0_r. reflexivity.
  - simpl in Hn. destruct n as [|n]; [lia|]. destruct s as [|c s]; simpl; [reflexivity|].
    destruct (ci_eq pc c); [|reflexivity]. apply IH. lia.
Qed.

Lemma boundary_firstn k rest : (1 <= k)%nat -> boundary (firstn k rest) = boundary rest.
Proof. destruct k; [lia|]. destruct rest; reflexivity. Qed.

Lemma pat_matches_firstn p word s n : (length p < n)%nat ->
  pat_matches p word (firstn n s) = pat_matches p word s.
Proof.
  intros Hn. unfold pat_matches. rewrite strip_ci_firstn by lia.
  destruct (strip_ci p s) as [rest|]; simpl; [|reflexivity].
  destruct word; [|reflexivity]. apply boundary_firstn. lia.
Qed.

Lemma first_match_firstn ps s n : Forall (fun x => (length (fst (fst x)) < n)%nat) ps ->
  first_match ps (firstn n s) = first_match ps s.
Proof.
  induction 1 as [|[[p word] k] ps Hp _ IH]; simpl; [reflexivity|].
  simpl in Hp. rewrite pat_matches_firstn by exact Hp. rewrite IH. reflexivity.
Qed.

Lemma classify_no_window s : classify s = first_match patterns s.
Proof.
  unfold classify. apply first_match_firstn.
  eapply Forall_impl; [|exact patterns_len]. unfold window. intros x Hx. lia.
Qed.

(* ---------- patterns that cannot match may be dropped ---------- *)
Lemma first_match_filter (keep : list N * bool * kind -> bool) ps w :
  (forall x, In x ps -> keep x = false -> pat_matches (fst (fst x)) (snd (fst x)) w = false) ->
  first_match ps w = first_match (filter keep ps) w.
Proof.
  induction ps as [|[[p word] k] ps IH]; intros H; simpl; [reflexivity|].
  destruct (keep (p, word, k)) eqn:Ek; simpl.
  - rewrite IH; [reflexivity|]. intros x Hx. apply H. right; exact Hx.
  - pose proof (H (p, word, k) (or_introl eq_refl) Ek) as H0. simpl in H0. rewrite H0.
    apply IH. intros x Hx. apply H. right; exact Hx.
Qed.

(* ---------- characters ---------- *)
Lemma is_ident_ci_of_ident c : is_ident c = true -> is_ident_ci c = true.
Proof. unfold is_ident_ci. intros ->. reflexivity. Qed.

Lemma ci_eq_ident p c : is_ident p = true -> ci_eq p c = true -> is_ident_ci c = true.
Proof.
  intros Hp. unfold ci_eq. rewrite !orb_true_iff, !andb_true_iff.
  intros [[[H|[Hl H]]|[_ H]]|[_ H]].
  - apply N.eqb_eq in H. subst c. apply is_ident_ci_of_ident. exact Hp.
  - apply N.eqb_eq in H. unfold is_lower, in_range in Hl. apply andb_true_iff in Hl.
    destruct Hl as [H1 H2]. apply N.leb_le in H1, H2.
    apply is_ident_ci_of_ident. unfold is_ident, is_upper, in_range.
    assert (N.leb 65 c = true) as -> by (apply N.leb_le; lia).
    assert (N.leb c 90 = true) as -> by (apply N.leb_le; lia).
    simpl. rewrite !orb_true_r. reflexivity.
  - unfold is_ident_ci. rewrite H. rewrite orb_true_r. reflexivity.
  - unfold is_ident_ci. rewrite H. rewrite orb_true_r. reflexivity.
Qed.

Definition exact_char (pc : N) : bool := negb (is_lower pc) && negb (N.eqb pc 115) && negb (N.eqb pc 107).

Lemma ci_eq_exact pc c : exact_char pc = true -> ci_eq pc c = N.eqb c pc.
Proof.
  unfold exact_char. rewrite !andb_true_iff, !negb_true_iff. intros [[H1 H2] H3].
  unfold ci_eq. rewrite H1, H2, H3. simpl. rewrite !orb_false_r. reflexivity.
Qed.

Lemma strip_ci_exact p : forall s, forallb exact_char p = true -> strip_ci p s = strip_exact p s.
Proof.
  induction p as [|pc p IH]; intros s H; simpl; [reflexivity|].
  simpl in H. apply andb_true_iff in H. destruct H as [H1 H2].
  destruct s as [|c s]; [reflexivity|]. rewrite (ci_eq_exact _ _ H1).
  destruct (N.eqb c pc); [apply IH; exact H2|reflexivity].
Qed.

Lemma strip_ci_skipn p : forall s rest, strip_ci p s = Some rest -> rest = skipn (length p) s.
Proof.
  induction p as [|pc p IH]; intros s rest; simpl.
  - intros [= <-]. reflexivity.
  - destruct s as [|c s]; [discriminate|]. destruct (ci_eq pc c); [|discriminate]. apply IH.
Qed.

(* a spelling whose first character is an identifier character needs an identifier-like
   first character in the text; one whose first character is not, needs exactly it *)
Lemma strip_ci_head_ident p0 p c s : is_ident p0 = true -> is_ident_ci c = false -> strip_ci (p0 :: p) (c :: s) = None.
Proof.
  intros Hp Hc. simpl. destruct (ci_eq p0 c) eqn:E; [|reflexivity].
  rewrite (ci_eq_ident _ _ Hp E) in Hc. discriminate.
Qed.

Lemma strip_ci_head_exact p0 p c s : exact_char p0 = true -> is_ident_ci p0 = false -> is_ident_ci c = true ->
  strip_ci (p0 :: p) (c :: s) = None.
Proof.
  intros He Hp Hc. simpl. rewrite (ci_eq_exact _ _ He).
  destruct (N.eqb_spec c p0); [subst; congruence|reflexivity].
Qed.

(* ---------- the word patterns are the keyword table, the others the symbol table ---------- *)
Definition tok_of (t : ftoken) : token :=
  match t with
  | FAnd => TAnd | FOr => TOr | FNot => TNot | FTrue => TTrue | FFalse => TFalse
  | FName x => TLit x
  | FLParen | FRParen => TParens []
  end.

Definition sym_kind (t : ftoken) : kind :=
  match t with
  | FLParen => KLParen
  | FRParen => KRParen
  | t => KTok (tok_of t)
  end.

Definition is_word (x : list N * bool * kind) : bool := snd (fst x).
Definition head_is (c : N) (x : list N * bool * kind) : bool :=
  match fst (fst x) with p0 :: _ => N.eqb p0 c | [] => false end.

Lemma word_patterns_eq :
  filter is_word patterns = map (fun x : list N * ftoken => (fst x, true, KTok (tok_of (snd x)))) keywords.
Proof. reflexivity. Qed.

Lemma symbol_patterns_eq :
  filter (fun x => negb (is_word x) && negb (head_is 123 x) && negb (head_is 125 x)) patterns
  = map (fun x : list N * ftoken => (fst x, false, sym_kind (snd x))) symbols.
Proof. reflexivity. Qed.

Lemma first_match_kws kws s :
  match first_match (map (fun x : list N * ftoken => (fst x, true, KTok (tok_of (snd x)))) kws) s with
  | Some (k, n) => exists t, k = KTok (tok_of t) /\ find_kw kws s = Some (t, skipn n s)
  | None => find_kw kws s = None
  end.
Proof.
  induction kws as [|[p t] kws IH]; simpl; [reflexivity|].
  unfold pat_matches, kw_at. destruct (strip_ci p s) as [rest|] eqn:E.
  - destruct (boundary rest).
    + exists t. split; [reflexivity|]. rewrite (strip_ci_skipn _ _ _ E). reflexivity.
    + exact IH.
  - exact IH.
Qed.

Lemma first_match_syms syms s :
  forallb (fun x : list N * ftoken => forallb exact_char (fst x)) syms = true ->
  match first_match (map (fun x : list N * ftoken => (fst x, false, sym_kind (snd x))) syms) s with
  | Some (k, n) => exists p t, In (p, t) syms /\ n = length p /\ k = sym_kind t /\ find_sym syms s = Some (t, skipn n s)
  | None => find_sym syms s = None
  end.
Proof.
  induction syms as [|[p t] syms IH]; simpl; [reflexivity|].
  intros H. apply andb_true_iff in H. destruct H as [Hp Hs].
  unfold pat_matches. rewrite <- (strip_ci_exact p s Hp). destruct (strip_ci p s) as [rest|] eqn:E.
  - exists p, t. split; [auto|]. split; [reflexivity|]. split; [reflexivity|].
    rewrite (strip_ci_skipn _ _ _ E). reflexivity.
  - specialize (IH Hs). destruct (first_match _ s) as [[k n]|]; [|exact IH].
    destruct IH as (p' & t' & H1 & H2). exists p', t'. split; [auto|exact H2].
Qed.

Lemma find_kw_nonident kws c s :
  forallb (fun x : list N * ftoken => match fst x with p0 :: _ => is_ident p0 | [] => false end) kws = true ->
  is_ident_ci c = false -> find_kw kws (c :: s) = None.
Proof.
  induction kws as [|[p t] kws IH]; simpl; [reflexivity|].
  intros H Hc. apply andb_true_iff in H. destruct H as [Hp Hk].
  destruct p as [|p0 p]; [discriminate|]. unfold kw_at.
  rewrite (strip_ci_head_ident _ _ _ _ Hp Hc). apply IH; assumption.
Qed.

(* ---------- one step: the pattern set against the reference lexeme rule ---------- *)
Definition step_rel (s : list N) : Prop :=
  match classify s with
  | Some (KTok t, n) => ref_next s = Some (ftoken_of t, skipn n s)
  | Some (KLParen, _) => ref_next s = Some (FLParen, tl s)
  | Some (KRParen, _) => ref_next s = Some (FRParen, tl s)
  | Some (KLBrace, _) =>
      ref_next s = match until_brace (tl s) with
                   | Some (d :: nm, rest) => Some (FName (d :: nm), rest)
                   | _ => None
                   end
  | Some (KRBrace, _) => ref_next s = None
  | None =>
      ref_next s = match span_ident s with
                   | (d :: nm, rest) => Some (FName (d :: nm), rest)
                   | ([], _) => None
                   end
  end.

Lemma keywords_tok : Forall (fun x : list N * ftoken => ftoken_of (tok_of (snd x)) = snd x) keywords.
Proof. repeat constructor. Qed.

Lemma find_kw_in kws s t rest : find_kw kws s = Some (t, rest) -> exists p, In (p, t) kws.
Proof.
  induction kws as [|[p t'] kws IH]; simpl; [discriminate|].
  destruct (kw_at p s).
  - intros [= <- _]. exists p. auto.
  - intros H. destruct (IH H) as (p' & Hp'). exists p'. auto.
Qed.

Lemma find_sym_in syms s t rest : find_sym syms s = Some (t, rest) -> exists p, In (p, t) syms.
Proof.
  induction syms as [|[p t'] syms IH]; simpl; [discriminate|].
  destruct (strip_exact p s).
  - intros [= <- _]. exists p. auto.
  - intros H. destruct (IH H) as (p' & Hp'). exists p'. auto.
Qed.

Lemma symbols_tok : Forall (fun x : list N * ftoken =>
   match snd x with
   | FLParen | FRParen => length (fst x) = 1%nat
   | t => ftoken_of (tok_of t) = t
   end) symbols.
Proof. repeat constructor. Qed.

Lemma step_agree s : step_rel s.
Proof.
  unfold step_rel. rewrite classify_no_window.
  destruct s as [|c s']; [reflexivity|].
  destruct (is_ident_ci c) eqn:Hci.
  - (* an identifier-like first character: only the word patterns can match *)
    rewrite (first_match_filter is_word).
    2:{ intros [[p word] k] Hin Hk. unfold is_word in Hk. simpl in Hk. subst word. simpl.
        unfold pat_matches.
        assert (Hx : forallb (fun x : list N * bool * kind =>
                      is_word x || match fst (fst x) with
                                   | p0 :: _ => exact_char p0 && negb (is_ident_ci p0)
                                   | [] => false end) patterns = true) by reflexivity.
        rewrite forallb_forall in Hx. specialize (Hx _ Hin). simpl in Hx.
        destruct p as [|p0 p]; [discriminate|]. apply andb_true_iff in Hx. destruct Hx as [H1 H2].
        apply negb_true_iff in H2. rewrite (strip_ci_head_exact _ _ _ _ H1 H2 Hci). reflexivity. }
    rewrite word_patterns_eq.
    pose proof (first_match_kws keywords (c :: s')) as Hk.
    destruct (first_match _ (c :: s')) as [[k n]|].
    + destruct Hk as (t & -> & Hf). unfold ref_next. rewrite Hf.
      destruct (find_kw_in _ _ _ _ Hf) as (p & Hin).
      pose proof keywords_tok as HT. rewrite Forall_forall in HT. specialize (HT _ Hin). simpl in HT.
      rewrite HT. reflexivity.
    + unfold ref_next. rewrite Hk.
      destruct (span_ident (c :: s')) as [[|d nm] rest] eqn:Esp; [|reflexivity].
      (* no identifier run: c is U+017F or U+212A, which starts nothing *)
      assert (Hid : is_ident c = false).
      { simpl in Esp. destruct (is_ident c); [|reflexivity]. destruct (span_ident s'); discriminate. }
      unfold is_ident_ci in Hci. rewrite Hid in Hci. simpl in Hci.
      apply orb_true_iff in Hci. destruct Hci as [H|H]; apply N.eqb_eq in H; subst c; reflexivity.
  - (* any other first character: only the symbol patterns can match *)
    assert (Hid : is_ident c = false).
    { destruct (is_ident c) eqn:E; [|reflexivity]. rewrite (is_ident_ci_of_ident _ E) in Hci. discriminate. }
    assert (Hkw : find_kw keywords (c :: s') = None) by (apply find_kw_nonident; [reflexivity|exact Hci]).
    assert (Hsp : span_ident (c :: s') = ([], c :: s')) by (simpl; rewrite Hid; reflexivity).
    unfold ref_next. rewrite Hkw, Hsp.
    destruct (N.eqb_spec c 123) as [->|Hn123]; [reflexivity|].
    destruct (N.eqb_spec c 125) as [->|Hn125]; [reflexivity|].
    rewrite (first_match_filter (fun x => negb (is_word x) && negb (head_is 123 x) && negb (head_is 125 x))).
    2:{ intros [[p word] k] Hin Hk. simpl. unfold pat_matches.
        assert (Hx : forallb (fun x : list N * bool * kind =>
                      match fst (fst x) with
                      | p0 :: _ => if is_word x then is_ident p0 else exact_char p0
                      | [] => false end) patterns = true) by reflexivity.
        rewrite forallb_forall in Hx. specialize (Hx _ Hin). unfold is_word in Hx, Hk. unfold head_is in Hk. simpl in Hx, Hk.
        destruct p as [|p0 p]; [discriminate|].
        destruct word; simpl in Hk.
        - rewrite (strip_ci_head_ident _ _ _ _ Hx Hci). reflexivity.
        - simpl. rewrite (ci_eq_exact _ _ Hx).
          destruct (N.eqb_spec c p0) as [->|]; [|reflexivity].
          destruct (N.eqb_spec p0 123); [contradiction|]. destruct (N.eqb_spec p0 125); [contradiction|]. discriminate. }
    rewrite symbol_patterns_eq.
    pose proof (first_match_syms symbols (c :: s') eq_refl) as Hs.
    destruct (first_match _ (c :: s')) as [[k n]|].
    + destruct Hs as (p & t & Hin & -> & -> & Hf). rewrite Hf.
      pose proof symbols_tok as HT. rewrite Forall_forall in HT. specialize (HT _ Hin). simpl in HT.
      destruct t; simpl; try reflexivity; rewrite HT; reflexivity.
    + exact Hs.
Qed.

(* ---------- one step of the tokenizer, told by the reference lexeme ---------- *)
Definition is_simple (t : token) : bool := match t with TParens _ => false | _ => true end.

Lemma patterns_simple : Forall (fun x : list N * bool * kind =>
  match snd x with KTok t => is_simple t = true | _ => True end) patterns.
Proof. repeat constructor. Qed.

Lemma classify_simple s t n : classify s = Some (KTok t, n) -> is_simple t = true.
Proof.
  unfold classify. intros H. destruct (first_match_some _ _ _ _ H) as (p & word & Hin & _ & _).
  pose proof patterns_simple as HF. rewrite Forall_forall in HF. exact (HF _ Hin).
Qed.

Lemma ref_next_nil : ref_next [] = None.
Proof. reflexivity. Qed.

Lemma lex_level_step f top s acc ft s2 :
  ref_next (trim_ws s) = Some (ft, s2) ->
  lex_level (S f) top s acc =
  match ft with
  | FLParen => match lex_level f false s2 [] with
               | LOk inner rest => lex_level f top rest (TParens inner :: acc)
               | r => r
               end
  | FRParen => if top then LErr EUnexpParen (trim_ws s) else LOk (rev acc) s2
  | ft => lex_level f top s2 (tok_of ft :: acc)
  end.
Proof.
  intros Hr. rewrite lex_level_S. destruct (trim_ws s) as [|c s']; [discriminate|].
  pose proof (step_agree (c :: s')) as Hs. unfold step_rel in Hs.
  destruct (classify (c :: s')) as [[[t| | | |] n]|] eqn:Ec.
  - rewrite Hr in Hs. injection Hs as -> ->.
    pose proof (classify_simple _ _ _ Ec) as Ht. destruct t; try discriminate; reflexivity.
  - rewrite Hr in Hs. injection Hs as -> ->. reflexivity.
  - rewrite Hr in Hs. injection Hs as -> ->. reflexivity.
  - rewrite Hr in Hs. simpl in Hs. destruct (until_brace s') as [[[|d nm] rest]|]; try discriminate.
    injection Hs as -> ->. reflexivity.
  - rewrite Hr in Hs. discriminate.
  - rewrite Hr in Hs. destruct (span_ident (c :: s')) as [[|d nm] rest]; [discriminate|].
    injection Hs as -> ->. reflexivity.
Qed.

Lemma lex_level_step_none f top s acc :
  trim_ws s <> [] -> ref_next (trim_ws s) = None ->
  exists k rest, lex_level (S f) top s acc = LErr k rest.
Proof.
  intros Hne Hr. rewrite lex_level_S. destruct (trim_ws s) as [|c s']; [contradiction|].
  pose proof (step_agree (c :: s')) as Hs. unfold step_rel in Hs.
  destruct (classify (c :: s')) as [[[t| | | |] n]|] eqn:Ec; try (rewrite Hr in Hs; discriminate).
  - rewrite Hr in Hs. simpl in Hs. destruct (until_brace s') as [[[|d nm] rest]|]; try discriminate; eauto.
  - eauto.
  - rewrite Hr in Hs. destruct (span_ident (c :: s')) as [[|d nm] rest]; [eauto|discriminate].
Qed.

Lemma lex_level_end f top s acc : trim_ws s = [] ->
  lex_level (S f) top s acc = if top then LOk (rev acc) [] else LErr EMissingParen [].
Proof. intros H. rewrite lex_level_S, H. reflexivity. Qed.

(* ---------- forests ---------- *)
Section ForestInd.
  Variable P : list token -> Prop.
  Hypotheses (H0 : P [])
             (Hs : forall t l, is_simple t = true -> P l -> P (t :: l))
             (Hp : forall inner l, P inner -> P l -> P (TParens inner :: l)).
  Fixpoint forest_tok (t : token) : forall r, P r -> P (t :: r) :=
    match t with
    | TParens inner => fun r Hr =>
        Hp inner r ((fix go (l : list token) : P l :=
                       match l with [] => H0 | x :: l' => forest_tok x l' (go l') end) inner) Hr
    | TAnd => fun r Hr => Hs TAnd r eq_refl Hr
    | TOr => fun r Hr => Hs TOr r eq_refl Hr
    | TNot => fun r Hr => Hs TNot r eq_refl Hr
    | TTrue => fun r Hr => Hs TTrue r eq_refl Hr
    | TFalse => fun r Hr => Hs TFalse r eq_refl Hr
    | TLit x => fun r Hr => Hs (TLit x) r eq_refl Hr
    end.
  Fixpoint forest_ind (l : list token) : P l :=
    match l with [] => H0 | x :: l' => forest_tok x l' (forest_ind l') end.
End ForestInd.

Lemma flatten_cons t l : flatten (t :: l) = flatten_tok t ++ flatten l.
Proof. reflexivity. Qed.
Lemma flatten_app a b : flatten (a ++ b) = flatten a ++ flatten b.
Proof. unfold flatten. rewrite map_app, concat_app. reflexivity. Qed.
Lemma flatten_simple t : is_simple t = true -> flatten_tok t = [ftoken_of t].
Proof. destruct t; simpl; try reflexivity; discriminate. Qed.
Lemma flatten_parens inner : flatten_tok (TParens inner) = FLParen :: flatten inner ++ [FRParen].
Proof. reflexivity. Qed.

(* ---------- the reference relation ---------- *)
Lemma lexes_to_app s ts1 m : lexes_to s ts1 m -> forall ts2 r, lexes_to m ts2 r -> lexes_to s (ts1 ++ ts2) r.
Proof.
  induction 1 as [s|s t s' ts m Hn _ IH]; intros ts2 r H2; simpl; [exact H2|].
  econstructor; [exact Hn|]. apply IH. exact H2.
Qed.

Lemma lexes_to_nil_inv s m : lexes_to s [] m -> m = s.
Proof. intros H. inversion H. reflexivity. Qed.
Lemma lexes_to_cons_inv s t ts m : lexes_to s (t :: ts) m ->
  exists s2, ref_next (trim_ws s) = Some (t, s2) /\ lexes_to s2 ts m.
Proof. intros H. inversion H as [|s0 t0 s2 ts0 r0 Hn Hrest]; subst. eauto. Qed.

Lemma lexes_to_split ts1 : forall s ts2 r, lexes_to s (ts1 ++ ts2) r ->
  exists m, lexes_to s ts1 m /\ lexes_to m ts2 r.
Proof.
  induction ts1 as [|t ts1 IH]; intros s ts2 r H; simpl in H.
  - exists s. split; [constructor|exact H].
  - inversion H as [|s0 t0 s' ts0 r0 Hn Hrest]; subst.
    destruct (IH _ _ _ Hrest) as (m & H1 & H2). exists m. split; [econstructor; eauto|exact H2].
Qed.

Lemma lexes_to_det s ts1 r1 : lexes_to s ts1 r1 -> forall ts2 r2, lexes_to s ts2 r2 ->
  length ts1 = length ts2 -> ts1 = ts2 /\ r1 = r2.
Proof.
  induction 1 as [s|s t s' ts r Hn _ IH]; intros ts2 r2 H2 Hl.
  - destruct ts2; [|discriminate]. inversion H2; subst. auto.
  - destruct ts2 as [|t2 ts2]; [discriminate|].
    inversion H2 as [|s0 t0 s2 ts0 r0 Hn2 Hr2]; subst.
    rewrite Hn in Hn2. injection Hn2 as <- <-. simpl in Hl.
    destruct (IH _ _ Hr2 ltac:(lia)) as [-> ->]. auto.
Qed.

(* the whole text has at most one reading *)
Lemma lexes_det s ts1 ts2 : lexes s ts1 -> lexes s ts2 -> ts1 = ts2.
Proof.
  intros (r1 & H1 & E1). revert ts2. induction H1 as [s|s t s' ts r Hn _ IH]; intros ts2 (r2 & H2 & E2).
  - inversion H2 as [|s0 t0 s2 ts0 r0 Hn2 Hr2]; subst; [reflexivity|]. rewrite E1 in Hn2. discriminate.
  - inversion H2 as [|s0 t0 s2 ts0 r0 Hn2 Hr2]; subst.
    + rewrite E2 in Hn. discriminate.
    + rewrite Hn in Hn2. injection Hn2 as <- <-. f_equal. apply IH; [exact E1|]. exists r2. auto.
Qed.

(* ---------- soundness: what the tokenizer returns is the reference reading ---------- *)
Definition lex_goal (top : bool) (s : list N) (fts : list ftoken) (rest : list N) : Prop :=
  if top then lexes s fts else lexes_to s (fts ++ [FRParen]) rest.

Lemma lex_goal_app top s ts1 m ts2 rest :
  lexes_to s ts1 m -> lex_goal top m ts2 rest -> lex_goal top s (ts1 ++ ts2) rest.
Proof.
  intros H1. destruct top; simpl.
  - intros (r & H2 & E). exists r. split; [eapply lexes_to_app; eauto|exact E].
  - intros H2. rewrite <- app_assoc. eapply lexes_to_app; eauto.
Qed.

Lemma lex_level_sound fuel : forall top s acc toks rest,
  lex_level fuel top s acc = LOk toks rest ->
  exists new, toks = rev acc ++ new /\ lex_goal top s (flatten new) rest.
Proof.
  induction fuel as [|f IH]; intros top s acc toks rest H; [discriminate|].
  destruct (trim_ws s) as [|c s'] eqn:Es.
  { rewrite lex_level_end in H by exact Es. destruct top; [|discriminate].
    injection H as <- <-. exists []. rewrite app_nil_r. split; [reflexivity|].
    exists s. split; [constructor|exact Es]. }
  destruct (ref_next (trim_ws s)) as [[ft s2]|] eqn:En.
  2:{ destruct (lex_level_step_none f top s acc) as (k & r & E); [rewrite Es; discriminate|exact En|]. congruence. }
  rewrite (lex_level_step _ _ _ _ _ _ En) in H.
  assert (Hone : forall t, lex_level f top s2 (t :: acc) = LOk toks rest -> flatten_tok t = [ft] ->
            exists new, toks = rev acc ++ new /\ lex_goal top s (flatten new) rest).
  { intros t Ht Hfl. destruct (IH _ _ _ _ _ Ht) as (new & -> & Hg).
    exists (t :: new). split; [simpl; rewrite <- app_assoc; reflexivity|].
    rewrite flatten_cons, Hfl. apply (lex_goal_app top s [ft] s2); [|exact Hg].
    econstructor; [exact En|constructor]. }
  destruct ft; try (eapply Hone; [exact H|reflexivity]).
  - (* ( *)
    destruct (lex_level f false s2 []) as [inner r1|k r1|] eqn:Ei; try discriminate.
    destruct (IH _ _ _ _ _ Ei) as (newi & Hi & Hgi). simpl in Hi, Hgi. subst newi.
    destruct (IH _ _ _ _ _ H) as (new & -> & Hg).
    exists (TParens inner :: new). split; [simpl; rewrite <- app_assoc; reflexivity|].
    rewrite flatten_cons, flatten_parens.
    apply (lex_goal_app top s (FLParen :: flatten inner ++ [FRParen]) r1); [|exact Hg].
    econstructor; [exact En|exact Hgi].
  - (* ) *)
    destruct top; [discriminate|]. injection H as <- <-. exists []. rewrite app_nil_r. split; [reflexivity|].
    simpl. econstructor; [exact En|constructor].
Qed.

(* ---------- completeness: the tokenizer follows the reference reading ---------- *)
Lemma ftoken_of_simple_inj t ft : is_simple t = true -> ftoken_of t = ft ->
  match ft with FLParen | FRParen => False | _ => tok_of ft = t end.
Proof. destruct t; simpl; try discriminate; intros _ <-; reflexivity. Qed.

Lemma lex_level_complete : forall new s m, lexes_to s (flatten new) m ->
  forall top acc f r, lex_level f top m (rev new ++ acc) = r -> r <> LFuel ->
  exists f', lex_level f' top s acc = r.
Proof.
  intros new. induction new as [|t l Ht IHl|inner l IHi IHl] using forest_ind;
    intros s m H top acc f r Hr Hnf.
  - apply lexes_to_nil_inv in H. subst m. exists f. exact Hr.
  - rewrite flatten_cons, (flatten_simple _ Ht) in H. simpl in H.
    apply lexes_to_cons_inv in H. destruct H as (s2 & Hn & Hrest).
    simpl in Hr. rewrite <- app_assoc in Hr. simpl in Hr.
    destruct (IHl _ _ Hrest top (t :: acc) f r Hr Hnf) as (f' & Hf').
    exists (S f'). rewrite (lex_level_step _ _ _ _ _ _ Hn).
    pose proof (ftoken_of_simple_inj t _ Ht eq_refl) as Hinj.
    destruct (ftoken_of t); try contradiction; rewrite Hinj; exact Hf'.
  - rewrite flatten_cons, flatten_parens in H. simpl in H.
    apply lexes_to_cons_inv in H. destruct H as (s2 & Hn & Hrest).
    rewrite <- app_assoc in Hrest. destruct (lexes_to_split _ _ _ _ Hrest) as (m1 & Hin & Hclose).
    simpl in Hclose. apply lexes_to_cons_inv in Hclose. destruct Hclose as (m2 & Hn2 & Hrest2).
    simpl in Hr. rewrite <- app_assoc in Hr. simpl in Hr.
    destruct (IHl _ _ Hrest2 top (TParens inner :: acc) f r Hr Hnf) as (f2 & Hf2).
    assert (Hclose1 : lex_level 1 false m1 (rev inner ++ []) = LOk inner m2).
    { rewrite (lex_level_step _ _ _ _ _ _ Hn2). rewrite app_nil_r, rev_involutive. reflexivity. }
    destruct (IHi _ _ Hin false [] 1%nat _ Hclose1 ltac:(discriminate)) as (f1 & Hf1).
    exists (S (Nat.max f1 f2)). rewrite (lex_level_step _ _ _ _ _ _ Hn).
    rewrite (lex_level_mono _ _ _ _ _ Hf1 ltac:(discriminate) (Nat.max f1 f2) ltac:(lia)).
    apply (lex_level_mono _ _ _ _ _ Hf2 Hnf). lia.
Qed.

(* ---------- T4 ---------- *)
Definition tokens_of_result (r : tokenize_result) : option (list token) :=
  match r with TokOk toks => Some toks | _ => None end.

Theorem tokenize_sound s forest : tokenize s = TokOk forest -> lexes s (flatten forest).
Proof.
  unfold tokenize, tokenize_fuel. destruct (lex_level (S (length s)) true s []) as [toks rest|k rest|] eqn:E; try discriminate.
  intros [= <-]. destruct (lex_level_sound _ _ _ _ _ _ E) as (new & -> & Hg). exact Hg.
Qed.

Theorem tokenize_complete s forest : lexes s (flatten forest) -> tokenize s = TokOk forest.
Proof.
  intros (r & H & Er).
  assert (Hend : lex_level 1 true r (rev forest ++ []) = LOk forest []).
  { rewrite lex_level_end by exact Er. rewrite app_nil_r, rev_involutive. reflexivity. }
  destruct (lex_level_complete _ _ _ H true [] 1%nat _ Hend ltac:(discriminate)) as (f' & Hf').
  unfold tokenize, tokenize_fuel.
  pose proof (lex_level_total (S (length s)) true s [] ltac:(lia)) as Hb.
  destruct (lex_level (S (length s)) true s []) as [toks rest|k rest|] eqn:E; simpl in Hb; [| |contradiction].
  - pose proof (lex_level_mono _ _ _ _ _ E ltac:(discriminate) (Nat.max f' (S (length s))) ltac:(lia)) as E1.
    pose proof (lex_level_mono _ _ _ _ _ Hf' ltac:(discriminate) (Nat.max f' (S (length s))) ltac:(lia)) as E2.
    congruence.
  - pose proof (lex_level_mono _ _ _ _ _ E ltac:(discriminate) (Nat.max f' (S (length s))) ltac:(lia)) as E1.
    pose proof (lex_level_mono _ _ _ _ _ Hf' ltac:(discriminate) (Nat.max f' (S (length s))) ltac:(lia)) as E2.
    congruence.
Qed.
