(* Enumerations (domain, image, relation, support, weight, sat point) and essential inputs of tables. *)
From BBF Require Import Base.Prelude Base.Names Base.Bits Spec.Sem Model.Expr Model.Table Model.LibBdd Model.Bdd
     Proofs.ExprProofs Proofs.TableProofs Proofs.QuantProofs Proofs.DdProofs Proofs.BddProofs Proofs.BddOps Proofs.ConvProofs Proofs.RenderProofs.

(* ---------- the domain: all points, each once, in the order of their binary value ---------- *)
Lemma nth_points_value n : forall i, i < 2 ^ n -> point_index (nth i (points n) []) = N.of_nat i.
Proof.
  induction n as [|n IH]; intros i Hi.
  - simpl in Hi. assert (i = 0) by lia. subst. reflexivity.
  - cbn [points]. simpl in Hi. destruct (Nat.lt_ge_cases i (2 ^ n)) as [L|G].
    + rewrite app_nth1 by (rewrite map_length, points_length; auto).
      rewrite (nth_indep _ [] (false :: [])) by (rewrite map_length, points_length; auto).
      rewrite (map_nth (cons false)). rewrite point_index_cons. cbn [b2n]. rewrite IH by auto. lia.
    + rewrite app_nth2 by (rewrite map_length, points_length; auto).
      rewrite map_length, points_length.
      rewrite (nth_indep _ [] (true :: [])) by (rewrite map_length, points_length; lia).
      rewrite (map_nth (cons true)). rewrite point_index_cons. cbn [b2n].
      assert (Hl : length (nth (i - 2 ^ n) (points n) []) = n).
      { apply points_In. apply nth_In. rewrite points_length. lia. }
      rewrite Hl, IH by lia. rewrite N.mul_1_l.
      replace (2 ^ N.of_nat n)%N with (N.of_nat (2 ^ n)).
      * lia.
      * rewrite <- (N2Nat.id (2 ^ N.of_nat n)), pow2_N_nat. reflexivity.
Qed.

(* the order of the domain is strictly increasing in the binary value, i.e. lexicographic *)
Theorem points_increasing n i j : i < j < 2 ^ n ->
  (point_index (nth i (points n) []) < point_index (nth j (points n) []))%N.
Proof. intros H. rewrite !nth_points_value by lia. lia. Qed.

Lemma env_of_map inputs : sset inputs -> forall p, length p = length inputs -> map (env_of inputs p) inputs = p.
Proof.
  intros Hs p Hl. unfold env_of.
  assert (Hnd : NoDup inputs) by (apply sset_NoDup; auto). clear Hs.
  revert p Hl. induction inputs as [|x r IH]; intros [|b q] Hl; simpl in *; try discriminate; [reflexivity|].
  inversion Hnd as [|? ? Hx Hr]; subst. f_equal.
  - unfold complete. simpl. rewrite name_eqb_refl. reflexivity.
  - rewrite <- (IH Hr q) at 2 by lia. apply map_ext_in. intros y Hy. unfold complete. simpl.
    destruct (name_eqb_spec y x); [subst; contradiction|reflexivity].
Qed.

Lemma hd_error_some_in {A} (l : list A) p : hd_error l = Some p -> In p l.
Proof. destruct l; simpl; [discriminate|]. intros [= <-]. auto. Qed.
Lemma hd_error_none {A} (l : list A) : hd_error l = None <-> l = [].
Proof. destruct l; simpl; split; intros; try reflexivity; discriminate. Qed.

(* ---------- expressions ---------- *)
Theorem e_enum_spec e :
  let ins := literals e in
  e_domain e = points (length ins) /\
  e_image e = map (fun p => sem (env_of ins p) e) (e_domain e) /\
  e_relation e = combine (e_domain e) (e_image e) /\
  e_support e = filter (fun p => sem (env_of ins p) e) (e_domain e) /\
  e_weight e = N.of_nat (length (e_support e)) /\
  (forall p, e_sat_point e = Some p -> In p (e_support e)) /\
  (e_sat_point e = None <-> e_support e = []).
Proof.
  intros ins.
  assert (Hs : e_support e = filter (fun p => sem (env_of ins p) e) (e_domain e)).
  { unfold e_support, val_of_point, env_of. apply filter_ext. intros p. apply evaluate_sem. }
  split; [reflexivity|].
  split; [unfold e_image, val_of_point, env_of; apply map_ext; intros p; apply evaluate_sem|].
  split; [unfold e_relation, e_image; rewrite combine_map_r; reflexivity|].
  split; [exact Hs|]. split; [reflexivity|]. split.
  - intros p H. apply hd_error_some_in. exact H.
  - apply hd_error_none.
Qed.

(* ---------- tables ---------- *)
Lemma tsem_env_of t p : wf_table t -> length p = length (t_inputs t) ->
  tsem t (env_of (t_inputs t) p) = lookup false (t_outputs t) p.
Proof. intros [Hs _] Hl. unfold tsem. rewrite env_of_map; auto. Qed.

Theorem t_enum_spec t : wf_table t ->
  let ins := t_inputs t in
  t_domain t = points (length ins) /\
  t_image t = map (fun p => tsem t (env_of ins p)) (t_domain t) /\
  t_relation t = combine (t_domain t) (t_image t) /\
  t_support t = filter (fun p => tsem t (env_of ins p)) (t_domain t) /\
  t_weight t = N.of_nat (length (t_support t)) /\
  (forall p, t_sat_point t = Some p -> In p (t_support t)) /\
  (t_sat_point t = None <-> t_support t = []).
Proof.
  intros Hwf ins. pose proof Hwf as [Hs Hl].
  assert (Hd : t_domain t = points (length ins)) by (unfold t_domain; rewrite (t_literals_wf t Hwf); reflexivity).
  assert (Hi : t_image t = map (fun p => tsem t (env_of ins p)) (points (length ins))).
  { unfold t_image. rewrite <- (tabulate_lookup false (length ins) (t_outputs t) Hl) at 1.
    apply map_ext_in. intros p Hp. apply points_In in Hp. symmetry. apply tsem_env_of; auto. }
  assert (Hr : t_relation t = combine (points (length ins)) (t_image t)) by (rewrite (t_relation_wf t Hwf); reflexivity).
  split; [exact Hd|]. rewrite Hd. split; [exact Hi|]. split; [exact Hr|].
  assert (Hsup : t_support t = filter (fun p => tsem t (env_of ins p)) (points (length ins))).
  { unfold t_support. rewrite Hr, Hi, combine_map_r.
    generalize (points (length ins)). intros l. induction l as [|p l IH]; simpl; [reflexivity|].
    destruct (tsem t (env_of ins p)); simpl; rewrite IH; reflexivity. }
  split; [exact Hsup|]. split; [reflexivity|]. unfold t_sat_point. split.
  - intros p H. apply hd_error_some_in. exact H.
  - apply hd_error_none.
Qed.

(* ---------- diagrams ---------- *)
Lemma bsem_env_of b p : wf_bdd b -> length p = length (b_inputs b) ->
  bsem b (env_of (b_inputs b) p) = dd_eval (b_root b) (fun i => nth i p false).
Proof.
  intros (Hs & _) Hl. unfold bsem. apply eval_ext. intros i.
  transitivity (nth i (map (env_of (b_inputs b) p) (b_inputs b)) false).
  - rewrite nth_map_error. reflexivity.
  - rewrite (env_of_map (b_inputs b) Hs p Hl). reflexivity.
Qed.

Theorem b_enum_spec b : wf_bdd b ->
  let ins := b_inputs b in
  b_domain b = points (length ins) /\
  b_image b = map (fun p => bsem b (env_of ins p)) (b_domain b) /\
  b_relation b = combine (b_domain b) (b_image b) /\
  b_support b = filter (fun p => bsem b (env_of ins p)) (b_domain b) /\
  (forall p, b_sat_point b = Some p -> In p (b_support b)) /\
  (b_sat_point b = None <-> b_support b = []).
Proof.
  intros Hwf ins. pose proof Hwf as (Hs & Hnv & _).
  assert (Hsup : b_support b = filter (fun p => bsem b (env_of ins p)) (b_domain b)).
  { unfold b_support, b_domain. rewrite Hnv. fold ins.
    apply filter_ext_in; intros p Hp; apply points_In in Hp; symmetry; apply bsem_env_of; auto. }
  split; [reflexivity|].
  split; [unfold b_image, b_domain; fold ins; apply map_ext_in; intros p Hp; apply points_In in Hp; symmetry; apply bsem_env_of; auto|].
  split; [reflexivity|]. split; [exact Hsup|]. unfold b_sat_point. split.
  - intros p H. apply hd_error_some_in. exact H.
  - apply hd_error_none.
Qed.

(* ---------- essential inputs of a table ---------- *)
Fixpoint set_nth (j : nat) (b : bool) (p : list bool) : list bool :=
  match p, j with
  | [], _ => []
  | _ :: q, O => b :: q
  | c :: q, S k => c :: set_nth k b q
  end.

Lemma flip_at_false j : forall p, nth j p false = false -> j < length p -> flip_at j p = set_nth j true p /\ p = set_nth j false p.
Proof.
  induction j as [|j IH]; intros [|c q] Hn Hl; simpl in *; try lia.
  - subst c. auto.
  - destruct (IH q Hn ltac:(lia)) as [A B]. rewrite A, <- B. auto.
Qed.

Lemma map_upd_set_nth inputs (v : env) x b : NoDup inputs -> forall j, nth_error inputs j = Some x ->
  map (upd v x b) inputs = set_nth j b (map v inputs).
Proof.
  induction 1 as [|y r Hy Hnd IH]; intros j Hj; [destruct j; discriminate|].
  destruct j as [|j]; simpl in *.
  - injection Hj as ->. f_equal; [unfold upd; rewrite name_eqb_refl; reflexivity|].
    apply map_ext_in. intros z Hz. unfold upd. destruct (name_eqb_spec z x); [subst; contradiction|reflexivity].
  - f_equal; [|apply IH; auto]. unfold upd. destruct (name_eqb_spec y x); [|reflexivity].
    subst. exfalso. apply Hy. eapply nth_error_In; eauto.
Qed.

Lemma nth_set_nth j b : forall p, j < length p -> nth j (set_nth j b p) false = b.
Proof. induction j as [|j IH]; intros [|c q] H; simpl in *; try lia; auto. apply IH. lia. Qed.

Lemma set_nth_length j b : forall p, length (set_nth j b p) = length p.
Proof. induction j as [|j IH]; intros [|c q]; simpl; auto. Qed.

Lemma set_nth_twice j b c : forall p, set_nth j b (set_nth j c p) = set_nth j b p.
Proof. induction j as [|j IH]; intros [|d q]; simpl; auto. f_equal. apply IH. Qed.

Theorem t_essential_at_spec t j x : wf_table t -> nth_error (t_inputs t) j = Some x ->
  (t_essential_at t j = true <-> exists v, tsem t (upd v x false) <> tsem t (upd v x true)).
Proof.
  intros Hwf Hj. pose proof Hwf as [Hs Hl]. assert (Hnd : NoDup (t_inputs t)) by (apply sset_NoDup; auto).
  assert (Hjl : j < length (t_inputs t)) by (apply nth_error_Some; congruence).
  unfold t_essential_at, t_nvars. rewrite existsb_exists. split.
  - intros (p & Hp & Hc). apply points_In in Hp. apply andb_prop in Hc. destruct Hc as [Hn Hd].
    apply negb_true_iff in Hn, Hd. destruct (flip_at_false j p Hn ltac:(lia)) as [Hf Hp0].
    exists (env_of (t_inputs t) p). unfold tsem.
    rewrite (map_upd_set_nth _ _ x false Hnd j Hj), (map_upd_set_nth _ _ x true Hnd j Hj).
    rewrite (env_of_map _ Hs p Hp). rewrite <- Hp0, <- Hf. intros E. rewrite E in Hd.
    rewrite eqb_reflx in Hd. discriminate.
  - intros (v & Hv). exists (set_nth j false (map v (t_inputs t))). split.
    + apply points_In. rewrite set_nth_length, map_length. reflexivity.
    + assert (Hlen : j < length (map v (t_inputs t))) by (rewrite map_length; auto).
      rewrite nth_set_nth by auto. cbn [negb andb]. apply negb_true_iff.
      destruct (flip_at_false j (set_nth j false (map v (t_inputs t)))) as [Hf _];
        [apply nth_set_nth; auto|rewrite set_nth_length; auto|].
      rewrite Hf, set_nth_twice. unfold tsem in Hv.
      rewrite (map_upd_set_nth _ _ x false Hnd j Hj), (map_upd_set_nth _ _ x true Hnd j Hj) in Hv.
      destruct (Bool.eqb _ _) eqn:E; [|reflexivity]. apply eqb_prop in E. contradiction.
Qed.

Lemma combine_seq_In {A} (l : list A) j x s : In (j, x) (combine (seq s (length l)) l) <-> (s <= j /\ nth_error l (j - s) = Some x).
Proof.
  revert s. induction l as [|y r IH]; intros s; simpl.
  - split; [tauto|]. intros [_ H]. destruct (j - s); discriminate.
  - rewrite IH. split.
    + intros [[= <- <-]|[Hs Hn]]; [rewrite Nat.sub_diag; auto|].
      split; [lia|]. replace (j - s) with (S (j - S s)) by lia. exact Hn.
    + intros [Hs Hn]. destruct (Nat.eq_dec s j) as [->|N].
      * rewrite Nat.sub_diag in Hn. injection Hn as ->. auto.
      * right. split; [lia|]. replace (j - s) with (S (j - S s)) in Hn by lia. exact Hn.
Qed.

Theorem t_essential_spec t x : wf_table t ->
  (In x (t_essential t) <-> In x (t_inputs t) /\ exists v, tsem t (upd v x false) <> tsem t (upd v x true)).
Proof.
  intros Hwf. unfold t_essential, t_nvars. rewrite set_of_list_In, in_map_iff. split.
  - intros ([j y] & Ey & Hin). simpl in Ey. subst y. apply filter_In in Hin. destruct Hin as [Hin He]. simpl in He.
    apply combine_seq_In in Hin. destruct Hin as [_ Hn]. rewrite Nat.sub_0_r in Hn.
    split; [eapply nth_error_In; eauto|]. apply (t_essential_at_spec t j x Hwf Hn). exact He.
  - intros [Hx Hv]. apply In_nth_error in Hx. destruct Hx as (j & Hj). exists (j, x). split; [reflexivity|].
    apply filter_In. split.
    + apply combine_seq_In. rewrite Nat.sub_0_r. split; [lia|exact Hj].
    + simpl. apply (t_essential_at_spec t j x Hwf Hj). exact Hv.
Qed.

Theorem t_essential_sset t : sset (t_essential t).
Proof. apply set_of_list_sset. Qed.

(* a well-formed table is determined by its inputs and its function *)
Theorem table_determined a b : wf_table a -> wf_table b -> t_inputs a = t_inputs b ->
  (forall v, tsem a v = tsem b v) -> a = b.
Proof.
  intros Wa Wb Hi Hs. pose proof Wa as [Sa La]. pose proof Wb as [Sb Lb].
  destruct a as [ia oa], b as [ib ob]. simpl in *. subst ib. f_equal.
  rewrite <- (tabulate_lookup false (length ia) oa La), <- (tabulate_lookup false (length ia) ob Lb).
  apply map_ext_in. intros p Hp. apply points_In in Hp.
  pose proof (tsem_env_of {| t_inputs := ia; t_outputs := oa |} p Wa Hp) as E1.
  pose proof (tsem_env_of {| t_inputs := ia; t_outputs := ob |} p Wb Hp) as E2.
  simpl in E1, E2. rewrite <- E1, <- E2. apply Hs.
Qed.
