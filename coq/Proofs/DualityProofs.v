(* Corollaries relating the three eliminations (C06 / C07). *)
From BBF Require Import Base.Prelude Base.Names Base.Bits Spec.Sem Proofs.QuantProofs.

(* universal quantification is the dual of existential quantification *)
Theorem forall_is_dual_of_exists vars : forall f v,
  elim_fn andb vars f v = negb (elim_fn orb vars (fun w => negb (f w)) v).
Proof.
  induction vars as [|x r IH]; intros f v; simpl.
  - rewrite Bool.negb_involutive. reflexivity.
  - rewrite IH. f_equal. apply elim_fn_ext. intros w. rewrite Bool.negb_andb. reflexivity.
Qed.

Theorem exists_is_dual_of_forall vars : forall f v,
  elim_fn orb vars f v = negb (elim_fn andb vars (fun w => negb (f w)) v).
Proof.
  induction vars as [|x r IH]; intros f v; simpl.
  - rewrite Bool.negb_involutive. reflexivity.
  - rewrite IH. f_equal. apply elim_fn_ext. intros w. rewrite Bool.negb_orb. reflexivity.
Qed.

(* the derivative does not see a negation of the function, as soon as one variable is differentiated *)
Theorem derivative_of_negation x r f v :
  elim_fn xorb (x :: r) (fun w => negb (f w)) v = elim_fn xorb (x :: r) f v.
Proof.
  simpl. apply elim_fn_ext. intros w. destruct (f (upd w x false)), (f (upd w x true)); reflexivity.
Qed.

