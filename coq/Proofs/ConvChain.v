(* C01, the "any chain of conversions" clause: induction over the conversion path. *)
From BBF Require Import Base.Prelude Base.Names Base.Bits Spec.Sem
     Model.Expr Model.Table Model.LibBdd Model.Bdd Model.Lexer Model.Parser Model.Display Model.Render Model.Csv Model.Prog
     Proofs.ExprProofs Proofs.TableProofs Proofs.DdProofs Proofs.BddProofs Proofs.ConvProofs Proofs.ProgProofs.

(* declared inputs of an object *)
Definition decl (o : obj) : list name :=
  match o with OE e => literals e | OT t => t_inputs t | OB b => b_inputs b end.

Fixpoint conv_chain (ks : list okind) (o : obj) : Res obj :=
  match ks with
  | [] => Ok o
  | k :: ks' => match exec_conv k o with Ok o' => conv_chain ks' o' | Err c => Err c | Panic c => Panic c end
  end.

(* the path never takes the table -> diagram step (known finding D1), starting from kind k0 *)
Fixpoint avoids_D1 (k0 : okind) (ks : list okind) : bool :=
  match ks with
  | [] => true
  | k :: ks' => negb (match k0, k with KT, KB => true | _, _ => false end) && avoids_D1 k ks'
  end.

Lemma exec_conv_kind k o o' : exec_conv k o = Ok o' -> obj_kind o' = k.
Proof.
  destruct k, o as [e|t|b]; simpl; intros H; try (injection H as <-; reflexivity).
  - destruct (expr_of_bdd b); simpl in H; try discriminate. injection H as <-. reflexivity.
  - destruct (bdd_of_expr e); simpl in H; try discriminate. injection H as <-. reflexivity.
  - destruct (bdd_of_table t); simpl in H; try discriminate. injection H as <-. reflexivity.
Qed.

Lemma is_D1_kind k o : is_D1 k o = match obj_kind o, k with KT, KB => true | _, _ => false end.
Proof. destruct k, o; reflexivity. Qed.

Lemma conv_step k o o' : owf o -> is_D1 k o = false -> exec_conv k o = Ok o' ->
  owf o' /\ (forall v, osem o' v = osem o v) /\ incl (decl o') (decl o) /\
  (k <> KE -> decl o' = decl o).
Proof.
  intros Hw Hd He.
  pose (x := {| e_obj := o; e_spec := {| ins := decl o; fn := osem o |}; e_opaque := false |}).
  assert (Hrel : Rel x).
  { unfold Rel, x; simpl. split; [exact Hw|]. split; [reflexivity|]. destruct o; simpl; try reflexivity. apply incl_refl. }
  pose proof (rel_conv k x o' Hrel Hd He) as (W & S & I). simpl in W, S, I.
  split; [exact W|]. split; [exact S|].
  pose proof (exec_conv_kind _ _ _ He) as Hkind. clear He.
  destruct k, o as [e|t|b]; simpl in *; destruct o' as [e'|t'|b']; simpl in *; try discriminate.
  all: try (split; [try exact I; try (rewrite I; apply incl_refl)|intros Hk; try (exfalso; apply Hk; reflexivity); try exact I]).
Qed.

Lemma conv_step_fail k o : owf o -> is_D1 k o = false ->
  (forall c, exec_conv k o <> Panic c) /\
  (forall c, exec_conv k o = Err c -> c = 1 /\ exists e, o = OE e /\ k = KB /\ too_many (length (literals e)) = true).
Proof.
  intros Hw Hd. destruct k, o as [e|t|b]; simpl in *; try discriminate;
    try (split; [intros c; discriminate|intros c; discriminate]).
  - destruct (expr_of_bdd_spec b Hw) as (e & Hr & _). rewrite Hr. simpl. split; intros c; discriminate.
  - destruct (bdd_of_expr_spec e) as (Hbad & Hok). destruct (too_many (length (literals e))) eqn:Et.
    + rewrite (Hbad eq_refl). simpl. split; [intros c; discriminate|]. intros c [= <-]. split; [reflexivity|]. exists e. auto.
    + destruct (Hok eq_refl) as (r & Hr & _). rewrite Hr. simpl. split; intros c; discriminate.
Qed.

Theorem conv_chain_spec ks : forall o, owf o -> avoids_D1 (obj_kind o) ks = true ->
  (forall o', conv_chain ks o = Ok o' ->
     owf o' /\ (forall v, osem o' v = osem o v) /\ incl (decl o') (decl o)) /\
  (forall c, conv_chain ks o <> Panic c) /\
  (forall c, conv_chain ks o = Err c -> c = 1).
Proof.
  induction ks as [|k ks IH]; intros o Hw Ha; simpl.
  - split; [intros o' [= <-]; split; [exact Hw|split; [reflexivity|apply incl_refl]]|]. split; intros c; discriminate.
  - simpl in Ha. apply Bool.andb_true_iff in Ha. destruct Ha as (Hd & Ha). apply Bool.negb_true_iff in Hd.
    rewrite <- is_D1_kind in Hd.
    destruct (conv_step_fail k o Hw Hd) as (Hnp & Herr).
    destruct (exec_conv k o) as [o1|c1|c1] eqn:E.
    + destruct (conv_step k o o1 Hw Hd E) as (W1 & S1 & I1 & _).
      rewrite <- (exec_conv_kind _ _ _ E) in Ha.
      destruct (IH o1 W1 Ha) as (Hok & Hp & He).
      split; [|split; [exact Hp|exact He]].
      intros o' Ho'. destruct (Hok o' Ho') as (W & S & I). split; [exact W|]. split.
      * intros v. rewrite S. apply S1.
      * intros u Hu. apply I1. apply I. exact Hu.
    + split; [intros o'; discriminate|]. split; [intros c; discriminate|]. intros c [= <-]. exact (proj1 (Herr c1 eq_refl)).
    + exfalso. exact (Hnp c1 eq_refl).
Qed.

(* into a table or a diagram the declared inputs are kept exactly, step by step *)
Theorem conv_step_inputs k o o' : owf o -> is_D1 k o = false -> k <> KE -> exec_conv k o = Ok o' -> decl o' = decl o.
Proof. intros Hw Hd Hk He. exact (proj2 (proj2 (proj2 (conv_step k o o' Hw Hd He))) Hk). Qed.
