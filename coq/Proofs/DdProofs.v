(* The decision-tree model of lib-bdd is a sound and canonical stand-in:
   semantics and invariants of every operation, and canonicity of ordered reduced trees. *)
From BBF Require Import Base.Prelude Model.LibBdd.

Lemma dd_eqb_spec a b : reflect (a = b) (dd_eqb a b).
Proof.
  revert b; induction a as [x|v l IHl h IHh]; intros [y|v' l' h']; simpl;
    try (constructor; congruence).
  - destruct (Bool.eqb_spec x y); constructor; congruence.
  - destruct (Nat.eqb_spec v v'); simpl; [|constructor; congruence].
    destruct (IHl l'); simpl; [|constructor; congruence].
    destruct (IHh h'); constructor; congruence.
Qed.

Lemma dd_eqb_refl a : dd_eqb a a = true.
Proof. destruct (dd_eqb_spec a a); congruence. Qed.

Lemma eval_mk v lo hi p : dd_eval (mk v lo hi) p = if p v then dd_eval hi p else dd_eval lo p.
Proof. unfold mk. destruct (dd_eqb_spec lo hi); subst; simpl; destruct (p v); reflexivity. Qed.

Lemma ordered_from_le k k' t : k' <= k -> ordered_from k t -> ordered_from k' t.
Proof. destruct t; simpl; intuition lia. Qed.

Lemma mk_ordered k v lo hi :
  k <= v -> ordered_from (S v) lo -> ordered_from (S v) hi -> ordered_from k (mk v lo hi).
Proof.
  intros Hk Hl Hh. unfold mk. destruct (dd_eqb lo hi).
  - eapply ordered_from_le; [|exact Hl]. lia.
  - simpl. auto.
Qed.
Lemma mk_reduced v lo hi : reduced lo -> reduced hi -> reduced (mk v lo hi).
Proof.
  intros Hl Hh. unfold mk. destruct (dd_eqb_spec lo hi); [exact Hl|]. simpl. auto.
Qed.
Lemma mk_bounded nv v lo hi : v < nv -> bounded nv lo -> bounded nv hi -> bounded nv (mk v lo hi).
Proof. intros Hv Hl Hh. unfold mk. destruct (dd_eqb lo hi); [exact Hl|]. simpl. auto. Qed.

(* the value of a tree ordered from k does not depend on variables below k *)
Lemma eval_indep k t p q : ordered_from k t -> (forall i, k <= i -> p i = q i) -> dd_eval t p = dd_eval t q.
Proof.
  revert k; induction t as [b|v lo IHlo hi IHhi]; simpl; intros k Ho Hpq; [reflexivity|].
  destruct Ho as (Hk & Hlo & Hhi). rewrite (Hpq v Hk).
  destruct (q v); [eapply IHhi|eapply IHlo]; eauto; intros; apply Hpq; lia.
Qed.

Definition updn (p : nat -> bool) (v : nat) (b : bool) : nat -> bool := fun i => if Nat.eqb i v then b else p i.

Lemma eval_upd_above t v b p : ordered_from (S v) t -> dd_eval t (updn p v b) = dd_eval t p.
Proof.
  intros H. apply (eval_indep (S v)); auto. intros i Hi. unfold updn.
  destruct (Nat.eqb_spec i v); [lia|reflexivity].
Qed.

(* ---------------- apply ---------------- *)
Section ApplyProofs.
  Variable op : bool -> bool -> bool.

  Theorem apply_sem a : forall b k p, ordered_from k a -> ordered_from k b ->
    dd_eval (dd_apply op a b) p = op (dd_eval a p) (dd_eval b p).
  Proof.
    induction a as [x|v al IHal ah IHah]; intros b.
    - induction b as [y|w bl IHbl bh IHbh]; intros k p Ha Hb; simpl; [reflexivity|].
      rewrite eval_mk. simpl in Hb. destruct Hb as (_ & Hl & Hh).
      destruct (p w); [rewrite (IHbh (S w))|rewrite (IHbl (S w))]; simpl; auto.
    - induction b as [y|w bl IHbl bh IHbh]; intros k p Ha Hb.
      + cbn [dd_apply]. rewrite eval_mk. simpl in Ha. destruct Ha as (_ & Hl & Hh).
        cbn [dd_eval].
        destruct (p v); [rewrite (IHah (Leaf y) (S v))|rewrite (IHal (Leaf y) (S v))]; simpl; auto.
      + simpl in Ha, Hb. destruct Ha as (Hkv & Hal & Hah). destruct Hb as (Hkw & Hbl & Hbh).
        cbn [dd_apply]. destruct (Nat.compare_spec v w) as [E|L|G].
        * subst w. rewrite eval_mk. simpl.
          destruct (p v); [rewrite (IHah bh (S v))|rewrite (IHal bl (S v))]; auto.
        * rewrite eval_mk. cbn [dd_eval].
          destruct (p v); [rewrite (IHah _ (S v))|rewrite (IHal _ (S v))]; auto;
            simpl; try (split; [lia|split; eapply ordered_from_le; eauto; lia]).
        * rewrite eval_mk.
          assert (Hn : ordered_from (S w) (Node v al ah))
            by (simpl; split; [lia|split; auto]).
          change (dd_eval (Node v al ah) p) with (if p v then dd_eval ah p else dd_eval al p).
          cbn [dd_eval].
          destruct (p w); [rewrite (IHbh (S w))|rewrite (IHbl (S w))]; auto.
  Qed.

  (* invariants, in one statement so that a single induction serves *)
  Definition inv (k nv : nat) (t : dd) : Prop := ordered_from k t /\ reduced t /\ bounded nv t.

  Lemma inv_le k k' nv t : k' <= k -> inv k nv t -> inv k' nv t.
  Proof. intros Hk (Ho & Hr & Hb). repeat split; auto. eapply ordered_from_le; eauto. Qed.

  Lemma inv_mk k nv v lo hi : k <= v -> v < nv -> inv (S v) nv lo -> inv (S v) nv hi -> inv k nv (mk v lo hi).
  Proof.
    intros Hk Hv (Ol & Rl & Bl) (Oh & Rh & Bh). repeat split.
    - apply mk_ordered; auto.
    - apply mk_reduced; auto.
    - apply mk_bounded; auto.
  Qed.

  Lemma inv_node k nv v lo hi : inv k nv (Node v lo hi) ->
    k <= v /\ v < nv /\ lo <> hi /\ inv (S v) nv lo /\ inv (S v) nv hi.
  Proof. intros (Ho & Hr & Hb). simpl in *. unfold inv. intuition. Qed.

  Lemma inv_node_lift k k' nv w lo hi : inv k nv (Node w lo hi) -> k' <= w -> inv k' nv (Node w lo hi).
  Proof. intros (Ho & Hr & Hb) Hk. simpl in *. repeat split; intuition. Qed.

  Theorem apply_inv nv a : forall b k, inv k nv a -> inv k nv b -> inv k nv (dd_apply op a b).
  Proof.
    induction a as [x|v al IHal ah IHah]; intros b.
    - induction b as [y|w bl IHbl bh IHbh]; intros k Ha Hb; simpl.
      + repeat split; simpl; auto.
      + apply inv_node in Hb. destruct Hb as (Hk & Hw & _ & Hl & Hh).
        assert (HL : inv (S w) nv (Leaf x)) by (repeat split; simpl; auto).
        apply inv_mk; auto.
    - induction b as [y|w bl IHbl bh IHbh]; intros k Ha Hb.
      + cbn [dd_apply]. apply inv_node in Ha. destruct Ha as (Hk & Hv & _ & Hl & Hh).
        assert (HL : inv (S v) nv (Leaf y)) by (repeat split; simpl; auto).
        apply inv_mk; auto.
      + pose proof Ha as Ha'. pose proof Hb as Hb'.
        apply inv_node in Ha. destruct Ha as (Hkv & Hv & _ & Hal & Hah).
        apply inv_node in Hb. destruct Hb as (Hkw & Hw & _ & Hbl & Hbh).
        cbn [dd_apply]. destruct (Nat.compare_spec v w) as [E|L|G].
        * subst w. apply inv_mk; auto.
        * apply inv_mk; auto.
          -- apply IHal; auto. eapply inv_node_lift; [exact Hb'|]. lia.
          -- apply IHah; auto. eapply inv_node_lift; [exact Hb'|]. lia.
        * assert (Hn : inv (S w) nv (Node v al ah)) by (eapply inv_node_lift; [exact Ha'|]; lia).
          apply inv_mk; auto.
  Qed.
End ApplyProofs.

(* ---------------- negation ---------------- *)
Lemma dd_not_sem t p : dd_eval (dd_not t) p = negb (dd_eval t p).
Proof. induction t as [b|v lo IHlo hi IHhi]; simpl; [reflexivity|]. destruct (p v); auto. Qed.

Lemma dd_not_inj a : forall b, dd_not a = dd_not b -> a = b.
Proof.
  induction a as [x|v l IHl h IHh]; intros [y|w l' h']; simpl; try discriminate.
  - intros [= H]. f_equal. destruct x, y; simpl in H; congruence.
  - intros [= -> Hl Hh]. f_equal; auto.
Qed.

Lemma dd_not_inv k nv t : inv k nv t -> inv k nv (dd_not t).
Proof.
  revert k. induction t as [b|v lo IHlo hi IHhi]; intros k H.
  - repeat split; simpl; auto.
  - apply inv_node in H. destruct H as (Hk & Hv & Hne & Hl & Hh).
    destruct (IHlo _ Hl) as (Ol & Rl & Bl). destruct (IHhi _ Hh) as (Oh & Rh & Bh).
    repeat split; simpl; auto. intros E. apply Hne. apply dd_not_inj; auto.
Qed.

(* ---------------- restriction of one variable ---------------- *)
Lemma restrict1_sem x b t : forall k p, ordered_from k t ->
  dd_eval (dd_restrict1 x b t) p = dd_eval t (updn p x b).
Proof.
  induction t as [c|v lo IHlo hi IHhi]; intros k p Ho; simpl; [reflexivity|].
  destruct Ho as (Hk & Ol & Oh).
  destruct (Nat.eqb_spec v x).
  - subst v. unfold updn at 1. rewrite Nat.eqb_refl.
    destruct b; symmetry; apply eval_upd_above; auto.
  - rewrite eval_mk. unfold updn at 1. destruct (Nat.eqb_spec v x); [contradiction|].
    destruct (p v); [apply (IHhi (S v))|apply (IHlo (S v))]; auto.
Qed.

Lemma restrict1_inv x b nv t : forall k, inv k nv t -> inv k nv (dd_restrict1 x b t).
Proof.
  induction t as [c|v lo IHlo hi IHhi]; intros k H; simpl; [exact H|].
  apply inv_node in H. destruct H as (Hk & Hv & Hne & Hl & Hh).
  destruct (Nat.eqb_spec v x).
  - destruct b; [eapply inv_le; [|exact Hh]|eapply inv_le; [|exact Hl]]; lia.
  - apply inv_mk; auto.
Qed.

(* ---------------- occurrence of variables, support ---------------- *)
Fixpoint occurs (x : nat) (t : dd) : Prop :=
  match t with Leaf _ => False | Node v lo hi => v = x \/ occurs x lo \/ occurs x hi end.

Lemma nat_insert_In x y l : In y (nat_insert x l) <-> y = x \/ In y l.
Proof.
  induction l as [|z r IH]; simpl; [intuition|].
  destruct (Nat.compare_spec x z); simpl; [subst; intuition| intuition |rewrite IH; intuition].
Qed.
Lemma nat_union_In y a b : In y (nat_union a b) <-> In y a \/ In y b.
Proof. induction a as [|x r IH]; simpl; [tauto|]. rewrite nat_insert_In, IH. intuition. Qed.

Lemma dd_support_In x t : In x (dd_support t) <-> occurs x t.
Proof.
  induction t as [b|v lo IHlo hi IHhi]; simpl; [tauto|].
  rewrite nat_insert_In, nat_union_In, IHlo, IHhi. intuition.
Qed.

Definition nat_sorted (l : list nat) : Prop := increasing l = true.

Lemma nat_insert_sorted x l : increasing l = true -> increasing (nat_insert x l) = true.
Proof.
  induction l as [|y r IH]; simpl; intros H; [reflexivity|].
  destruct (Nat.compare_spec x y) as [E|L|G].
  - exact H.
  - change (increasing (x :: y :: r) = true). cbn [increasing].
    apply andb_true_intro. split; [apply Nat.ltb_lt; auto|exact H].
  - assert (Hr : increasing r = true).
    { destruct r as [|z r']; [reflexivity|]. cbn [increasing] in H. apply andb_prop in H. tauto. }
    specialize (IH Hr). destruct r as [|z r'].
    + simpl. rewrite (proj2 (Nat.ltb_lt y x)) by auto. reflexivity.
    + cbn [increasing] in H. apply andb_prop in H. destruct H as [Hyz Hr'].
      cbn [nat_insert] in *. destruct (Nat.compare_spec x z) as [E2|L2|G2].
      * cbn [increasing]. rewrite Hyz. exact Hr'.
      * cbn [increasing]. rewrite (proj2 (Nat.ltb_lt y x)) by auto. exact IH.
      * cbn [increasing]. rewrite Hyz. exact IH.
Qed.
Lemma nat_union_sorted a b : increasing b = true -> increasing (nat_union a b) = true.
Proof. induction a as [|x r IH]; simpl; intros H; [exact H|]. apply nat_insert_sorted. auto. Qed.
Lemma dd_support_sorted t : increasing (dd_support t) = true.
Proof.
  destruct t as [b|v lo hi]; simpl; [reflexivity|].
  apply nat_insert_sorted. apply nat_union_sorted.
  clear. induction hi as [b|v lo IHlo hi' IHhi]; simpl; [reflexivity|].
  apply nat_insert_sorted. apply nat_union_sorted. exact IHhi.
Qed.

Lemma occurs_bounds x k nv t : inv k nv t -> occurs x t -> k <= x < nv.
Proof.
  revert k. induction t as [b|v lo IHlo hi IHhi]; intros k H Hx; simpl in Hx; [contradiction|].
  apply inv_node in H. destruct H as (Hk & Hv & _ & Hl & Hh).
  destruct Hx as [->|[Hx|Hx]]; [lia| |].
  - specialize (IHlo _ Hl Hx). lia.
  - specialize (IHhi _ Hh Hx). lia.
Qed.

Lemma eval_not_occurs x t p b : ~ occurs x t -> dd_eval t (updn p x b) = dd_eval t p.
Proof.
  induction t as [c|v lo IHlo hi IHhi]; simpl; intros Hn; [reflexivity|].
  unfold updn at 1. destruct (Nat.eqb_spec v x); [exfalso; auto|].
  destruct (p v); [apply IHhi|apply IHlo]; tauto.
Qed.

Lemma restrict1_not_occurs x b t : forall k, ordered_from k t -> ~ occurs x (dd_restrict1 x b t).
Proof.
  induction t as [c|v lo IHlo hi IHhi]; intros k Ho; simpl; [tauto|].
  destruct Ho as (Hk & Ol & Oh).
  destruct (Nat.eqb_spec v x).
  - subst v. intros Hocc.
    assert (forall s, ordered_from (S x) s -> occurs x s -> False).
    { clear. induction s as [c|w l IHl h IHh]; simpl; [tauto|].
      intros (Hw & Hl & Hh) [->|[H|H]]; [lia| |].
      - apply IHl; auto. eapply ordered_from_le; [|exact Hl]. lia.
      - apply IHh; auto. eapply ordered_from_le; [|exact Hh]. lia. }
    destruct b; eauto.
  - unfold mk. destruct (dd_eqb _ _).
    + apply (IHlo (S v)); auto.
    + simpl. intros [E|[H|H]]; [auto|apply (IHlo (S v)) in H; auto|apply (IHhi (S v)) in H; auto].
Qed.

Lemma occurs_restrict1 y x b t : occurs y (dd_restrict1 x b t) -> occurs y t.
Proof.
  induction t as [c|v lo IHlo hi IHhi]; simpl; [tauto|].
  destruct (Nat.eqb v x).
  - destruct b; tauto.
  - unfold mk. destruct (dd_eqb _ _); simpl; tauto.
Qed.

(* ---------------- canonicity ---------------- *)
Fixpoint tsize (t : dd) : nat := match t with Leaf _ => 1 | Node _ l h => S (tsize l + tsize h) end.

Lemma eval_node_upd v lo hi p b :
  dd_eval (Node v lo hi) (updn p v b) = if b then dd_eval hi (updn p v b) else dd_eval lo (updn p v b).
Proof. simpl. unfold updn at 1. rewrite Nat.eqb_refl. reflexivity. Qed.

Lemma neq_bool_cases (x y z : bool) : x <> y -> x <> z \/ y <> z.
Proof. destruct x, y, z; intuition congruence. Qed.

(* two different ordered reduced trees are told apart by some assignment (constructively) *)
Theorem distinguish : forall n a b k,
  tsize a + tsize b <= n ->
  ordered_from k a -> reduced a -> ordered_from k b -> reduced b ->
  a <> b -> exists p, dd_eval a p <> dd_eval b p.
Proof.
  induction n as [|n IH]; intros a b k Hn Oa Ra Ob Rb Hne.
  - destruct a; simpl in Hn; lia.
  - (* a node against a tree that does not test the node's variable *)
    assert (Hnode : forall v lo hi (t : dd),
               tsize (Node v lo hi) + tsize t <= S n ->
               ordered_from k (Node v lo hi) -> reduced (Node v lo hi) ->
               ordered_from (S v) t ->
               exists p, dd_eval (Node v lo hi) p <> dd_eval t p).
    { intros v lo hi t Hs Oo Rr Ot. simpl in Oo, Rr.
      destruct Oo as (_ & Ol & Oh). destruct Rr as (Hd & Rl & Rh).
      destruct (IH lo hi (S v)) as (p & Hp); auto; [simpl in Hs; lia|].
      destruct (neq_bool_cases _ _ (dd_eval t p) Hp) as [H|H].
      - exists (updn p v false). rewrite eval_node_upd. rewrite !eval_upd_above; auto.
      - exists (updn p v true). rewrite eval_node_upd. rewrite !eval_upd_above; auto. }
    destruct a as [x|v al ah], b as [y|w bl bh].
    + exists (fun _ => false). simpl. congruence.
    + destruct (Hnode w bl bh (Leaf x)) as (p & Hp); simpl; auto; [simpl in Hn; lia|].
      exists p. intros E. apply Hp. symmetry. exact E.
    + apply (Hnode v al ah (Leaf y)); simpl; auto.
    + destruct (Nat.compare_spec v w) as [E|L|G].
      * subst w. simpl in Oa, Ob, Ra, Rb.
        destruct Oa as (_ & Oal & Oah), Ob as (_ & Obl & Obh).
        destruct Ra as (_ & Ral & Rah), Rb as (_ & Rbl & Rbh).
        destruct (dd_eqb_spec al bl) as [El|Nl].
        -- subst bl. assert (Nh : ah <> bh) by congruence.
           destruct (IH ah bh (S v)) as (p & Hp); auto; [simpl in Hn; lia|].
           exists (updn p v true). rewrite !eval_node_upd, !eval_upd_above; auto.
        -- destruct (IH al bl (S v)) as (p & Hp); auto; [simpl in Hn; lia|].
           exists (updn p v false). rewrite !eval_node_upd, !eval_upd_above; auto.
      * apply (Hnode v al ah (Node w bl bh)); auto.
        simpl in Ob |- *. destruct Ob as (_ & ? & ?). repeat split; auto; lia.
      * assert (Ov : ordered_from (S w) (Node v al ah)).
        { simpl in Oa |- *. destruct Oa as (_ & ? & ?). repeat split; auto; lia. }
        destruct (Hnode w bl bh (Node v al ah)) as (p & Hp); auto; [simpl in Hn |- *; lia|].
        exists p. intros E. apply Hp. symmetry. exact E.
Qed.

Theorem canonical a b k :
  ordered_from k a -> reduced a -> ordered_from k b -> reduced b ->
  (forall p, dd_eval a p = dd_eval b p) -> a = b.
Proof.
  intros Oa Ra Ob Rb Heq. destruct (dd_eqb_spec a b) as [E|N]; [exact E|].
  destruct (distinguish _ a b k (le_n _) Oa Ra Ob Rb N) as (p & Hp). exfalso. apply Hp. apply Heq.
Qed.

Corollary tautology_is_leaf t k : ordered_from k t -> reduced t -> (forall p, dd_eval t p = true) -> t = Leaf true.
Proof. intros O R H. apply (canonical t (Leaf true) k); simpl; auto. Qed.
Corollary contradiction_is_leaf t k : ordered_from k t -> reduced t -> (forall p, dd_eval t p = false) -> t = Leaf false.
Proof. intros O R H. apply (canonical t (Leaf false) k); simpl; auto. Qed.

(* ---------------- the support is the set of variables the function depends on ---------------- *)
Lemma updn_comm p x y a b : x <> y -> forall i, updn (updn p x a) y b i = updn (updn p y b) x a i.
Proof.
  intros H i. unfold updn. destruct (Nat.eqb_spec i y), (Nat.eqb_spec i x); try reflexivity. congruence.
Qed.

Lemma eval_ext t p q : (forall i, p i = q i) -> dd_eval t p = dd_eval t q.
Proof.
  intros H. induction t as [c|v lo IHlo hi IHhi]; simpl; [reflexivity|].
  rewrite H. destruct (q v); auto.
Qed.

Lemma eval_node_other v lo hi p x c b :
  v <> x -> ordered_from (S v) lo -> ordered_from (S v) hi ->
  dd_eval (Node v lo hi) (updn (updn p v b) x c) = dd_eval (if b then hi else lo) (updn p x c).
Proof.
  intros N Ol Oh. simpl. unfold updn at 1. destruct (Nat.eqb_spec v x); [contradiction|].
  unfold updn at 1. rewrite Nat.eqb_refl.
  destruct b; apply (eval_indep (S v)); auto; intros i Hi; unfold updn;
    destruct (Nat.eqb_spec i x); auto; destruct (Nat.eqb_spec i v); auto; lia.
Qed.

Theorem occurs_depends x t k : ordered_from k t -> reduced t ->
  occurs x t -> exists p, dd_eval t (updn p x false) <> dd_eval t (updn p x true).
Proof.
  revert k. induction t as [c|v lo IHlo hi IHhi]; intros k Ho Hr Hx; simpl in Hx; [contradiction|].
  simpl in Ho, Hr. destruct Ho as (Hk & Ol & Oh). destruct Hr as (Hd & Rl & Rh).
  destruct (Nat.eq_dec v x) as [E|N].
  - subst v. destruct (distinguish _ lo hi (S x) (le_n _) Ol Rl Oh Rh Hd) as (p & Hp).
    exists p. rewrite !eval_node_upd, !eval_upd_above; auto.
  - destruct Hx as [E|[Hx|Hx]]; [contradiction| |].
    + destruct (IHlo (S v) Ol Rl Hx) as (p & Hp). exists (updn p v false).
      rewrite !eval_node_other; auto.
    + destruct (IHhi (S v) Oh Rh Hx) as (p & Hp). exists (updn p v true).
      rewrite !eval_node_other; auto.
Qed.

Theorem support_iff_depends x t k : ordered_from k t -> reduced t ->
  (In x (dd_support t) <-> exists p, dd_eval t (updn p x false) <> dd_eval t (updn p x true)).
Proof.
  intros Ho Hr. rewrite dd_support_In. split.
  - apply (occurs_depends x t k); auto.
  - intros (p & Hp).
    assert (Hdec : occurs x t \/ ~ occurs x t).
    { clear. induction t as [c|v lo IHlo hi IHhi]; simpl; [tauto|].
      destruct (Nat.eq_dec v x); tauto. }
    destruct Hdec as [H|H]; [exact H|]. exfalso. apply Hp. rewrite !eval_not_occurs; auto.
Qed.

(* ---------------- renaming variables ---------------- *)
Lemma map_vars_sem f t p : dd_eval (dd_map_vars f t) p = dd_eval t (fun v => p (f v)).
Proof. induction t as [c|v lo IHlo hi IHhi]; simpl; [reflexivity|]. destruct (p (f v)); auto. Qed.

Lemma occurs_above k t x : ordered_from k t -> occurs x t -> k <= x.
Proof.
  revert k. induction t as [c|v lo IHlo hi IHhi]; simpl; intros k Ho Hx; [contradiction|].
  destruct Ho as (Hk & Ol & Oh). destruct Hx as [->|[H|H]]; [auto| |].
  - specialize (IHlo _ Ol H). lia.
  - specialize (IHhi _ Oh H). lia.
Qed.

Lemma map_vars_ordered f t : forall k k',
  (forall x y, occurs x t -> occurs y t -> x < y -> f x < f y) ->
  (forall x, occurs x t -> k' <= f x) ->
  ordered_from k t -> ordered_from k' (dd_map_vars f t).
Proof.
  induction t as [c|v lo IHlo hi IHhi]; intros k k' Hmono Hlow Ho; simpl; [exact I|].
  simpl in Ho. destruct Ho as (Hk & Ol & Oh). split; [apply Hlow; simpl; auto|]. split.
  - apply (IHlo (S v)); auto.
    + intros x y Hx Hy. apply Hmono; simpl; auto.
    + intros x Hx. apply Hmono; simpl; auto. apply (occurs_above (S v) lo x Ol Hx).
  - apply (IHhi (S v)); auto.
    + intros x y Hx Hy. apply Hmono; simpl; auto.
    + intros x Hx. apply Hmono; simpl; auto. apply (occurs_above (S v) hi x Oh Hx).
Qed.

Lemma map_vars_inj f a : forall b,
  (forall x y, (occurs x a \/ occurs x b) -> (occurs y a \/ occurs y b) -> f x = f y -> x = y) ->
  dd_map_vars f a = dd_map_vars f b -> a = b.
Proof.
  induction a as [c|v lo IHlo hi IHhi]; intros [d|w lo' hi'] Hinj; simpl; try discriminate.
  - auto.
  - intros [= Hv Hl Hh]. f_equal.
    + apply Hinj; simpl; auto.
    + apply IHlo; auto. intros x y Hx Hy. apply Hinj; simpl; tauto.
    + apply IHhi; auto. intros x y Hx Hy. apply Hinj; simpl; tauto.
Qed.

Lemma map_vars_reduced f t :
  (forall x y, occurs x t -> occurs y t -> f x = f y -> x = y) ->
  reduced t -> reduced (dd_map_vars f t).
Proof.
  induction t as [c|v lo IHlo hi IHhi]; simpl; intros Hinj Hr; [exact I|].
  destruct Hr as (Hd & Rl & Rh). split; [|split].
  - intros E. apply Hd. apply (map_vars_inj f lo hi); auto;
      try (intros x y Hx Hy; apply Hinj; tauto).
  - apply IHlo; auto.
  - apply IHhi; auto.
Qed.

Lemma map_vars_bounded f nv t :
  (forall x, occurs x t -> f x < nv) -> bounded nv (dd_map_vars f t).
Proof.
  induction t as [c|v lo IHlo hi IHhi]; simpl; intros H; [exact I|].
  split; [apply H; auto|]. split; [apply IHlo|apply IHhi]; auto.
Qed.

Lemma increasing_spec l : increasing l = true <-> (forall i j, i < j < length l -> nth i l 0 < nth j l 0).
Proof.
  induction l as [|x r IH].
  - simpl. split; [intros _ i j H; lia|reflexivity].
  - destruct r as [|y r'].
    + simpl. split; [intros _ i j H; lia|reflexivity].
    + cbn [increasing]. rewrite andb_true_iff, Nat.ltb_lt, IH. split.
      * intros [Hxy Hr] i j Hij. destruct i as [|i], j as [|j]; try lia.
        -- cbn [nth]. destruct j as [|j]; [exact Hxy|].
           assert (nth 0 (y :: r') 0 < nth (S j) (y :: r') 0) by (apply Hr; simpl in *; lia).
           simpl in *. lia.
        -- apply (Hr i j). simpl in *. lia.
      * intros H. split.
        -- apply (H 0 1). simpl. lia.
        -- intros i j Hij. apply (H (S i) (S j)). simpl in *. lia.
Qed.

Lemma increasing_map_mono f l :
  increasing l = true -> (forall x y, In x l -> In y l -> x < y -> f x < f y) -> increasing (map f l) = true.
Proof.
  intros Hl Hm. apply increasing_spec. intros i j Hij. rewrite map_length in Hij.
  rewrite (nth_indep _ 0 (f 0)) by (rewrite map_length; lia).
  rewrite (nth_indep _ 0 (f 0) (n:=j)) by (rewrite map_length; lia).
  rewrite !map_nth. apply Hm; try (apply nth_In; lia).
  apply (proj1 (increasing_spec l) Hl). lia.
Qed.
