(* Lemmas about the truth-table model. *)
From BBF Require Import Base.Prelude Base.Names Base.Bits Spec.Sem Model.Expr Model.Table Proofs.ExprProofs.

Lemma combine_app {A B} (a b : list A) (c d : list B) :
  length a = length c -> combine (a ++ b) (c ++ d) = combine a c ++ combine b d.
Proof.
  revert c. induction a as [|x a IH]; intros [|y c] H; simpl in *; try discriminate; [reflexivity|].
  f_equal. apply IH. lia.
Qed.
Lemma combine_map_l {A A' B} (f : A -> A') (a : list A) (c : list B) :
  combine (map f a) c = map (fun pc => (f (fst pc), snd pc)) (combine a c).
Proof. revert c. induction a as [|x a IH]; intros [|y c]; simpl; auto. f_equal. apply IH. Qed.
Lemma filter_map {A B} (f : B -> bool) (g : A -> B) l :
  filter f (map g l) = map g (filter (fun x => f (g x)) l).
Proof. induction l as [|x l IH]; simpl; [reflexivity|]. destruct (f (g x)); simpl; congruence. Qed.
Lemma filter_false {A} (f : A -> bool) l : (forall x, In x l -> f x = false) -> filter f l = [].
Proof. induction l as [|x l IH]; simpl; intros H; [reflexivity|]. rewrite H by auto. apply IH. auto. Qed.

(* ---------- evaluation ---------- *)
Lemma point_of_map order rho d : point_of order rho d = map (complete d rho) order.
Proof. reflexivity. Qed.

Lemma t_eval_default_sem t rho d : t_eval_default t rho d = tsem t (complete d rho).
Proof. reflexivity. Qed.

Lemma has_mem_keys {X} (m : list (name * X)) x : has m x = mem x (keys m).
Proof.
  destruct (has m x) eqn:E.
  - symmetry. apply mem_In. apply has_keys; auto.
  - symmetry. apply mem_false_In. rewrite <- has_keys. congruence.
Qed.

Lemma kept_is_diff {X} (inputs : list name) (m : list (name * X)) :
  filter (fun x => negb (has m x)) inputs = set_diff inputs (keys m).
Proof. unfold set_diff. apply filter_ext. intros x. rewrite has_mem_keys. reflexivity. Qed.

Lemma t_eval_checked_spec t rho :
  match t_eval_checked t rho with
  | inl b => (forall x, In x (t_inputs t) -> get rho x <> None) /\ forall d, b = tsem t (complete d rho)
  | inr errs => errs <> [] /\ forall x, In x errs <-> In x (t_inputs t) /\ get rho x = None
  end.
Proof.
  unfold t_eval_checked. fold (missing rho (t_inputs t)).
  destruct (rev (missing rho (t_inputs t))) as [|e errs] eqn:E.
  - assert (Hm : missing rho (t_inputs t) = []).
    { destruct (missing rho (t_inputs t)); [reflexivity|]. simpl in E. destruct (rev l); discriminate. }
    split; [apply missing_nil_iff; exact Hm|].
    intros d. unfold t_evaluate, t_eval_default, tsem. f_equal. unfold point_of.
    apply map_ext_in. intros x Hx. unfold complete.
    destruct (get rho x) eqn:G; [reflexivity|].
    exfalso. exact (proj1 (missing_nil_iff _ _) Hm x Hx G).
  - split; [discriminate|]. intros x. rewrite <- E, <- in_rev. apply missing_In.
Qed.

(* ---------- tabulation ---------- *)
Lemma tsem_tabulate inputs f v :
  tsem (tabulate inputs f) v = f (combine inputs (map v inputs)).
Proof.
  unfold tsem, tabulate. simpl.
  rewrite <- (map_length v inputs) at 1.
  apply (lookup_tabulate false (fun p => f (combine inputs p))).
Qed.

Lemma tabulate_wf inputs f : sset inputs -> wf_table (tabulate inputs f).
Proof. intros H. split; [exact H|]. simpl. rewrite map_length, points_length. reflexivity. Qed.

Lemma get_combine_map (inputs : list name) (v : env) x :
  get (combine inputs (map v inputs)) x = if mem x inputs then Some (v x) else None.
Proof.
  induction inputs as [|y r IH]; simpl; [reflexivity|].
  destruct (name_eqb_spec x y); [subst; reflexivity|]. simpl. exact IH.
Qed.

Lemma complete_combine_agrees inputs (v : env) d x :
  In x inputs -> complete d (combine inputs (map v inputs)) x = v x.
Proof.
  intros H. unfold complete. rewrite get_combine_map. apply mem_In in H. rewrite H. reflexivity.
Qed.

(* a table's value depends only on the values of its inputs *)
Lemma tsem_coincidence t v v' : (forall x, In x (t_inputs t) -> v x = v' x) -> tsem t v = tsem t v'.
Proof. intros H. unfold tsem. f_equal. apply map_ext_in. exact H. Qed.

(* ---------- restriction ---------- *)
Fixpoint merge (inputs : list name) (rho : valuation) (q : list bool) : list bool :=
  match inputs with
  | [] => []
  | x :: r =>
      match get rho x with
      | Some c => c :: merge r rho q
      | None => match q with b :: q' => b :: merge r rho q' | [] => false :: merge r rho [] end
      end
  end.

Lemma merge_length inputs rho q : length (merge inputs rho q) = length inputs.
Proof.
  revert q. induction inputs as [|x r IH]; intros q; simpl; [reflexivity|].
  destruct (get rho x); [simpl; f_equal; apply IH|]. destruct q; simpl; f_equal; apply IH.
Qed.

Definition kept (rho : valuation) (inputs : list name) : list name :=
  filter (fun x => negb (has rho x)) inputs.

Lemma kept_cons rho x r :
  kept rho (x :: r) = match get rho x with Some _ => kept rho r | None => x :: kept rho r end.
Proof. unfold kept. cbn [filter]. unfold has. destruct (get rho x); reflexivity. Qed.

Lemma restrict_rows rho : forall inputs outs, length outs = 2 ^ length inputs ->
  map snd (filter (fun po => row_compatible inputs rho (fst po)) (combine (points (length inputs)) outs))
  = map (fun q => lookup false outs (merge inputs rho q)) (points (length (kept rho inputs))).
Proof.
  induction inputs as [|x r IH]; intros outs Hlen.
  - destruct outs as [|o [|]]; try discriminate. reflexivity.
  - destruct (halves outs (length r) Hlen) as (lo & hi & -> & Hlo & Hhi).
    cbn [length points].
    rewrite combine_app by (rewrite map_length, points_length; auto).
    rewrite filter_app, map_app, !combine_map_l, !filter_map, !map_map. cbn [fst snd row_compatible].
    rewrite kept_cons. destruct (get rho x) as [c|] eqn:G.
    + (* x is fixed to c: only the half with first coordinate c survives *)
      assert (Hlk : forall q, lookup false (lo ++ hi) (merge (x :: r) rho q)
                              = lookup false (if c then hi else lo) (merge r rho q)).
      { intros q. cbn [merge]. rewrite G. rewrite lookup_cons by (rewrite merge_length; auto).
        destruct c; reflexivity. }
      rewrite (map_ext _ _ Hlk).
      destruct c; cbn [Bool.eqb andb].
      * rewrite (filter_false (fun _ => false)) by reflexivity. cbn [map app]. apply IH; auto.
      * rewrite (filter_false (fun _ => false) (combine (points (length r)) hi)) by reflexivity.
        cbn [map]. rewrite app_nil_r. apply IH; auto.
    + cbn [andb length points].
      rewrite map_app, !map_map. f_equal.
      * rewrite IH by auto. apply map_ext. intros q. cbn [merge]. rewrite G.
        rewrite lookup_cons by (rewrite merge_length; auto). reflexivity.
      * rewrite IH by auto. apply map_ext. intros q. cbn [merge]. rewrite G.
        rewrite lookup_cons by (rewrite merge_length; auto). reflexivity.
Qed.

Lemma merge_override inputs rho (v : env) :
  merge inputs rho (map v (kept rho inputs)) = map (override v rho) inputs.
Proof.
  induction inputs as [|x r IH]; [reflexivity|].
  rewrite kept_cons. cbn [merge map]. unfold override at 1.
  destruct (get rho x) eqn:G; cbn [map]; f_equal; exact IH.
Qed.

Lemma t_restrict_wf t rho : wf_table t -> wf_table (t_restrict t rho).
Proof.
  intros [Hs Hl]. split.
  - apply filter_sset. exact Hs.
  - unfold t_restrict, t_nvars. cbn [t_outputs t_inputs].
    rewrite (restrict_rows rho _ _ Hl). rewrite map_length, points_length. reflexivity.
Qed.

Lemma t_restrict_inputs t rho : t_inputs (t_restrict t rho) = set_diff (t_inputs t) (keys rho).
Proof. apply kept_is_diff. Qed.

Lemma t_restrict_sem t rho v : wf_table t -> tsem (t_restrict t rho) v = tsem t (override v rho).
Proof.
  intros [Hs Hl]. unfold tsem at 1, t_restrict, t_nvars. cbn [t_outputs t_inputs].
  rewrite (restrict_rows rho _ _ Hl). fold (kept rho (t_inputs t)).
  rewrite <- (map_length v (kept rho (t_inputs t))).
  rewrite (lookup_tabulate false (fun q => lookup false (t_outputs t) (merge (t_inputs t) rho q))).
  rewrite merge_override. reflexivity.
Qed.

Lemma row_compatible_nil inputs p : row_compatible inputs [] p = true.
Proof. revert p. induction inputs as [|x r IH]; intros [|b q]; simpl; auto. Qed.

Lemma map_snd_combine {A B} (a : list A) (b : list B) : length a = length b -> map snd (combine a b) = b.
Proof. revert b. induction a as [|x a IH]; intros [|y b] H; simpl in *; try discriminate; auto. f_equal. apply IH. lia. Qed.

Lemma filter_true {A} (f : A -> bool) l : (forall x, In x l -> f x = true) -> filter f l = l.
Proof. induction l as [|x l IH]; simpl; intros H; [reflexivity|]. rewrite H by auto. f_equal. apply IH. auto. Qed.

Lemma t_restrict_nil t : wf_table t -> t_restrict t [] = t.
Proof.
  intros [Hs Hl]. destruct t as [inputs outs]. unfold t_restrict, t_nvars. cbn [t_inputs t_outputs] in *. f_equal.
  - apply filter_true. reflexivity.
  - rewrite filter_true by (intros; apply row_compatible_nil).
    apply map_snd_combine. rewrite points_length. auto.
Qed.
