(* C10, last clause: the three representations of one function enumerate the same things. *)
From BBF Require Import Base.Prelude Base.Names Base.Bits Spec.Sem
     Model.Expr Model.Table Model.LibBdd Model.Bdd
     Proofs.ExprProofs Proofs.TableProofs Proofs.QuantProofs Proofs.NfProofs Proofs.DdProofs Proofs.BddProofs Proofs.BddOps
     Proofs.ConvProofs Proofs.RenderProofs Proofs.EnumProofs Proofs.CountProofs.

Theorem enumerations_agree e b : bdd_of_expr e = Ok b ->
  let t := table_of_expr e in
  e_domain e = t_domain t /\ t_domain t = b_domain b /\
  e_image e = t_image t /\ t_image t = b_image b /\
  e_relation e = t_relation t /\ t_relation t = b_relation b /\
  e_support e = t_support t /\ t_support t = b_support b /\
  e_weight e = t_weight t /\ t_weight t = b_weight b.
Proof.
  intros Hb t.
  destruct (table_of_expr_spec e) as (Wt & It & St). fold t in Wt, It, St.
  destruct (bdd_of_expr_spec e) as (Hbad & Hok).
  destruct (too_many (length (literals e))) eqn:Et; [rewrite (Hbad eq_refl) in Hb; discriminate|].
  destruct (Hok eq_refl) as (b' & Hb' & Wb & Ib & Sb). rewrite Hb in Hb'. injection Hb' as <-.
  destruct (e_enum_spec e) as (De & Ie & Re & Se & We & _).
  destruct (t_enum_spec t Wt) as (Dt & Imt & Rt & Sut & Wet & _).
  destruct (b_enum_spec b Wb) as (Db & Imb & Rb & Sub & _).
  pose proof (b_weight_is_support_size b Wb) as Wb'.
  assert (D1 : e_domain e = t_domain t) by (rewrite De, Dt, It; reflexivity).
  assert (D2 : t_domain t = b_domain b) by (rewrite Dt, Db, It, Ib; reflexivity).
  assert (I1 : e_image e = t_image t).
  { rewrite Ie, Imt, <- D1, It. apply map_ext. intros p. symmetry. apply St. }
  assert (I2 : t_image t = b_image b).
  { rewrite Imt, Imb, <- D2, It, Ib. apply map_ext. intros p. rewrite St, Sb. reflexivity. }
  assert (S1 : e_support e = t_support t).
  { rewrite Se, Sut, <- D1, It. apply filter_ext. intros p. symmetry. apply St. }
  assert (S2 : t_support t = b_support b).
  { rewrite Sut, Sub, <- D2, It, Ib. apply filter_ext. intros p. rewrite St, Sb. reflexivity. }
  repeat split; try assumption.
  - rewrite Re, Rt, D1, I1. reflexivity.
  - rewrite Rt, Rb, D2, I2. reflexivity.
  - rewrite We, Wet, S1. reflexivity.
  - rewrite Wet, Wb', S2. reflexivity.
Qed.
