(* Proofs about Model/Csv.v: the importer on the records the reader delivers (C16),
   the export / import round trip (C17). *)
From BBF Require Import Base.Prelude Base.Names Base.Bits Model.Expr Model.Table Model.Render Model.Csv
     Proofs.TableProofs Proofs.RenderProofs.
From Coq Require Import Sorting.Permutation Sorting.Sorted.

(* ---------- no panic ---------- *)

Definition no_panic {A} (r : Res A) : Prop := match r with Panic _ => False | _ => True end.

Lemma no_panic_bind {A B} (r : Res A) (f : A -> Res B) :
  no_panic r -> (forall a, no_panic (f a)) -> no_panic (bind r f).
Proof. destruct r; simpl; auto. Qed.

Lemma no_panic_rmap {A B} (f : A -> B) (r : Res A) : no_panic r -> no_panic (rmap f r).
Proof. destruct r; simpl; auto. Qed.

Lemma parse_cells_no_panic r cols vars : no_panic (parse_cells r cols vars).
Proof.
  induction vars as [|x vs IH]; cbn [parse_cells]; [exact I|].
  destruct (nth_error r (column_of x cols)); [|exact I].
  destruct (string_to_bool t); [|exact I]. apply no_panic_rmap, IH.
Qed.

Lemma parse_record_no_panic w cols vars r : no_panic (parse_record w cols vars r).
Proof.
  unfold parse_record. destruct (negb (Nat.eqb (length r) w)); [exact I|].
  apply no_panic_bind; [apply parse_cells_no_panic|]. intros p.
  destruct (last_cell r); [|exact I]. destruct (string_to_bool t); exact I.
Qed.

Lemma parse_records_no_panic w cols vars rs : no_panic (parse_records w cols vars rs).
Proof.
  induction rs as [|r rs IH]; cbn [parse_records]; [exact I|].
  apply no_panic_bind; [apply parse_record_no_panic|]. intros po. apply no_panic_rmap, IH.
Qed.

Lemma import_records_no_panic rs : no_panic (import_records rs).
Proof.
  unfold import_records. apply no_panic_bind.
  - unfold header_and_data. destruct rs as [|first rest]; [exact I|]. destruct (last_cell first); exact I.
  - intros [[is_header first] rest]. apply no_panic_bind.
    + destruct is_header; [|exact I]. destruct (first_dup [] (removelast first)); exact I.
    + intros cols. apply no_panic_bind; [apply parse_records_no_panic|]. intros rows.
      destruct (Nat.leb usize_bits (length (set_of_list cols))); [exact I|].
      destruct (negb (N.of_nat (length rows) =? 2 ^ N.of_nat (length (set_of_list cols)))%N); [exact I|].
      destruct (has_dup (map fst rows)); exact I.
Qed.

Lemma from_csv_string_no_panic s : no_panic (from_csv_string s).
Proof. destruct s; [exact I|apply import_records_no_panic]. Qed.

(* the two entry points agree on every text *)
Lemma from_csv_file_string s : from_csv_file s = from_csv_string s.
Proof. destruct s; reflexivity. Qed.

(* ---------- Boolean lists ---------- *)

Lemma bools_eqb_spec a : forall b, bools_eqb a b = true <-> a = b.
Proof.
  induction a as [|x a IH]; intros [|y b]; cbn [bools_eqb]; try (split; [discriminate|congruence]); [tauto|].
  rewrite andb_true_iff, IH, eqb_true_iff. split; [intros [-> ->]; reflexivity|intros [= -> ->]; auto].
Qed.

Lemma has_dup_false l : has_dup l = false <-> NoDup l.
Proof.
  induction l as [|p r IH]; cbn [has_dup]; [split; [constructor|reflexivity]|].
  rewrite orb_false_iff, IH. split.
  - intros [Hex Hr]. constructor; [|exact Hr]. intros Hin.
    assert (existsb (bools_eqb p) r = true) as E by (apply existsb_exists; exists p; split; [exact Hin|apply bools_eqb_spec; reflexivity]).
    congruence.
  - intros H. inversion H as [|? ? Hnin Hr]; subst. split; [|exact Hr].
    destruct (existsb (bools_eqb p) r) eqn:E; [|reflexivity].
    apply existsb_exists in E. destruct E as (q & Hq & Heq). apply bools_eqb_spec in Heq. subst. contradiction.
Qed.

(* the stored output: without repeated points it is the output of the record of that point *)
Lemma output_at_notin p rows : forall d, ~ In p (map fst rows) -> output_at p rows d = d.
Proof.
  induction rows as [|[q o] r IH]; intros d Hn; cbn [output_at]; [reflexivity|].
  destruct (bools_eqb p q) eqn:E.
  - apply bools_eqb_spec in E. subst. exfalso. apply Hn. left. reflexivity.
  - apply IH. intros H. apply Hn. right. exact H.
Qed.

Lemma output_at_nodup p o rows : forall d, NoDup (map fst rows) -> In (p, o) rows -> output_at p rows d = o.
Proof.
  induction rows as [|[q o'] r IH]; intros d Hnd Hin; [destruct Hin|].
  cbn [map fst] in Hnd. inversion Hnd as [|? ? Hnin Hr]; subst. cbn [output_at].
  destruct Hin as [[= -> ->]|Hin].
  - assert (bools_eqb p p = true) as -> by (apply bools_eqb_spec; reflexivity).
    apply output_at_notin. exact Hnin.
  - destruct (bools_eqb p q) eqn:E.
    + apply bools_eqb_spec in E. subst. exfalso. apply Hnin. apply in_map_iff. exists (q, o). auto.
    + apply IH; auto.
Qed.

(* ---------- x_i names: decimal digits are injective ---------- *)

Definition dec_step (a c : N) : N := (10 * a + (c - 48))%N.

(* the canonical fuel of digits suffices: any fuel f with n < 2^f gives the same digits *)
Lemma digits_fuel_value f : forall n acc, (n < 2 ^ N.of_nat f)%N ->
  fold_left dec_step (digits_fuel f n acc) 0%N = fold_left dec_step acc n.
Proof.
  induction f as [|f IH]; intros n acc Hn.
  - change (2 ^ N.of_nat 0)%N with 1%N in Hn. assert (n = 0%N) by lia. subst. reflexivity.
  - cbn [digits_fuel]. destruct (N.ltb_spec n 10) as [Hlt|Hge].
    + cbn [fold_left]. unfold dec_step at 2. rewrite N.mod_small by exact Hlt. f_equal. lia.
    + rewrite IH.
      * cbn [fold_left]. unfold dec_step at 2. f_equal.
        pose proof (N.div_mod' n 10) as Hdm. revert Hdm.
        generalize (n / 10)%N (n mod 10)%N. intros q m Hdm. lia.
      * rewrite Nat2N.inj_succ, N.pow_succ_r' in Hn. apply N.div_lt_upper_bound; lia.
Qed.

Lemma digits_fuel_indep f1 : forall f2 n acc, (n < 2 ^ N.of_nat (S f1))%N -> (n < 2 ^ N.of_nat (S f2))%N ->
  digits_fuel (S f1) n acc = digits_fuel (S f2) n acc.
Proof.
  induction f1 as [|f1 IH]; intros f2 n acc H1 H2.
  - change (2 ^ N.of_nat 1)%N with 2%N in H1. cbn [digits_fuel].
    destruct (N.ltb_spec n 10); [reflexivity|lia].
  - destruct f2 as [|f2].
    + change (2 ^ N.of_nat 1)%N with 2%N in H2. cbn [digits_fuel].
      destruct (N.ltb_spec n 10); [reflexivity|lia].
    + change (digits_fuel (S (S f1)) n acc) with
        (let acc' := (48 + n mod 10)%N :: acc in if (n <? 10)%N then acc' else digits_fuel (S f1) (n / 10)%N acc').
      change (digits_fuel (S (S f2)) n acc) with
        (let acc' := (48 + n mod 10)%N :: acc in if (n <? 10)%N then acc' else digits_fuel (S f2) (n / 10)%N acc').
      cbv zeta. destruct (N.ltb_spec n 10); [reflexivity|].
      rewrite (Nat2N.inj_succ (S f1)), N.pow_succ_r' in H1.
      rewrite (Nat2N.inj_succ (S f2)), N.pow_succ_r' in H2.
      apply IH; apply N.div_lt_upper_bound; lia.
Qed.

Lemma digits_value n : fold_left dec_step (digits n) 0%N = n.
Proof. unfold digits. rewrite digits_fuel_value by apply canonical_fuel. reflexivity. Qed.

Lemma x_name_inj i j : x_name i = x_name j -> i = j.
Proof.
  unfold x_name. intros H. apply app_inv_head in H.
  apply (f_equal (fun s => fold_left dec_step s 0%N)) in H. rewrite !digits_value in H. lia.
Qed.

Lemma x_names_NoDup k : NoDup (map x_name (seq 0 k)).
Proof. apply FinFun.Injective_map_NoDup; [exact x_name_inj|apply seq_NoDup]. Qed.

Lemma parse_cells_ok r cols : forall vars p, parse_cells r cols vars = Ok p ->
  Forall (fun x => exists b, string_to_bool (cell_of cols r x) = Some b) vars /\ p = record_point cols vars r.
Proof.
  induction vars as [|x vs IH]; intros p H; cbn [parse_cells] in H.
  - inversion H. split; [constructor|reflexivity].
  - destruct (nth_error r (column_of x cols)) as [c|] eqn:En; [|discriminate].
    destruct (string_to_bool c) as [b|] eqn:Eb; [|discriminate].
    destruct (parse_cells r cols vs) as [q| |] eqn:Eq; cbn [rmap] in H; try discriminate.
    inversion H; subst p. destruct (IH q eq_refl) as [Hall Hq].
    assert (Hc : cell_of cols r x = c) by (unfold cell_of; apply nth_error_nth; exact En).
    split.
    + constructor; [exists b; rewrite Hc; exact Eb|exact Hall].
    + unfold record_point. cbn [map]. unfold record_env at 1. rewrite Hc, Eb. f_equal. exact Hq.
Qed.

(* what a successfully parsed record is *)
Definition record_ok (w : nat) (cols vars : list name) (r : list text) (po : list bool * bool) : Prop :=
  length r = w /\
  Forall (fun x => exists b, string_to_bool (cell_of cols r x) = Some b) vars /\
  fst po = record_point cols vars r /\
  record_output r = Some (snd po).

Lemma parse_record_ok w cols vars r po : parse_record w cols vars r = Ok po -> record_ok w cols vars r po.
Proof.
  unfold parse_record. destruct (Nat.eqb_spec (length r) w) as [Hw|]; cbn [negb]; [|discriminate].
  destruct (parse_cells r cols vars) as [p| |] eqn:Ep; cbn [bind]; try discriminate.
  destruct (last_cell r) as [c|] eqn:El; [|discriminate].
  destruct (string_to_bool c) as [o|] eqn:Eo; [|discriminate].
  intros [= <-]. destruct (parse_cells_ok _ _ _ _ Ep) as [Hall Hp].
  repeat split; auto. unfold record_output. rewrite El. exact Eo.
Qed.

Lemma parse_records_ok w cols vars : forall rs rows, parse_records w cols vars rs = Ok rows ->
  Forall2 (record_ok w cols vars) rs rows.
Proof.
  induction rs as [|r rs IH]; intros rows H; cbn [parse_records] in H.
  - inversion H. constructor.
  - destruct (parse_record w cols vars r) as [po| |] eqn:Er; cbn [bind] in H; try discriminate.
    destruct (parse_records w cols vars rs) as [rows'| |] eqn:Ers; cbn [rmap] in H; try discriminate.
    inversion H. constructor; [apply parse_record_ok; exact Er|apply IH; reflexivity].
Qed.

Lemma Forall2_In_l {A B} (R : A -> B -> Prop) l l' a : Forall2 R l l' -> In a l -> exists b, In b l' /\ R a b.
Proof.
  induction 1 as [|x y l l' Hxy _ IH]; intros Hin; [destruct Hin|].
  destruct Hin as [->|Hin]; [exists y; split; [left; reflexivity|exact Hxy]|].
  destruct (IH Hin) as (b & Hb & Hr). exists b. split; [right; exact Hb|exact Hr].
Qed.

Lemma Forall2_map_fst {A B C} (R : A -> B * C -> Prop) (f : A -> B) l l' :
  Forall2 R l l' -> (forall a bc, R a bc -> fst bc = f a) -> map fst l' = map f l.
Proof. induction 1; intros Hf; cbn [map]; [reflexivity|]. f_equal; auto. Qed.

Lemma first_dup_None l : forall seen, first_dup seen l = None -> NoDup l.
Proof.
  induction l as [|x r IH]; intros seen H; [constructor|].
  cbn [first_dup] in H. destruct (mem x seen) eqn:E; [discriminate|].
  assert (G : forall l seen, first_dup seen l = None -> forall y, In y seen -> ~ In y l).
  { clear. induction l as [|x r IH]; intros seen H y Hy Hin; [destruct Hin|].
    cbn [first_dup] in H. destruct (mem x seen) eqn:E; [discriminate|].
    destruct Hin as [->|Hin].
    - apply mem_false_In in E. contradiction.
    - apply (IH _ H y); [right; exact Hy|exact Hin]. }
  constructor; [apply (G r (x :: seen) H x); left; reflexivity|apply (IH _ H)].
Qed.

Lemma first_dup_NoDup l : forall seen, NoDup l -> (forall y, In y seen -> ~ In y l) -> first_dup seen l = None.
Proof.
  induction l as [|x r IH]; intros seen Hnd Hd; [reflexivity|].
  cbn [first_dup]. inversion Hnd as [|? ? Hnin Hr]; subst.
  destruct (mem x seen) eqn:E.
  - apply mem_In in E. exfalso. apply (Hd x E). left. reflexivity.
  - apply IH; [exact Hr|]. intros y [->|Hy]; [exact Hnin|]. intros Hin. apply (Hd y Hy). right. exact Hin.
Qed.

(* the points of the records are all points, each once *)
Lemma complete_points (ps : list (list bool)) n :
  NoDup ps -> length ps = 2 ^ n -> Forall (fun p => length p = n) ps -> Permutation ps (points n).
Proof.
  intros Hnd Hlen Hall. apply NoDup_Permutation; [exact Hnd|apply points_NoDup|].
  assert (Hincl : incl ps (points n)).
  { intros p Hp. apply points_In. rewrite Forall_forall in Hall. auto. }
  intros p. split; [apply Hincl|].
  apply (NoDup_length_incl Hnd); [rewrite points_length; lia|exact Hincl].
Qed.

(* C16, on the records: what a successful import guarantees *)
Theorem import_records_sound rs t : import_records rs = Ok t ->
  let cols := csv_columns rs in
  wf_table t /\
  NoDup cols /\
  t_inputs t = set_of_list cols /\
  (forall r, In r (csv_data rs) ->
     length r = csv_width rs /\
     Forall (fun x => exists b, string_to_bool (cell_of cols r x) = Some b) (t_inputs t) /\
     record_output r = Some (tsem t (record_env cols r))) /\
  Permutation (map (record_point cols (t_inputs t)) (csv_data rs)) (points (length (t_inputs t))).
Proof.
  unfold import_records. destruct rs as [|first rest]; [discriminate|].
  cbn [header_and_data]. destruct (last_cell first) as [lc|] eqn:El; [|discriminate].
  cbn [bind].
  assert (Hh : csv_has_header (first :: rest) = negb (is_bool_string lc)) by (cbn [csv_has_header]; rewrite El; reflexivity).
  set (hdr := negb (is_bool_string lc)) in *.
  set (colsr := if hdr then match first_dup [] (removelast first) with Some _ => Err E_DuplicateVariableName | None => Ok (removelast first) end
                else Ok (map x_name (seq 0 (length first - 1)))).
  destruct colsr as [cols| |] eqn:Ec; cbn [bind]; try discriminate.
  assert (Hcols : csv_columns (first :: rest) = cols /\ NoDup cols).
  { unfold csv_columns. rewrite Hh. unfold colsr in Ec. destruct hdr.
    - destruct (first_dup [] (removelast first)) eqn:Ed; [discriminate|]. inversion Ec; subst.
      split; [reflexivity|apply (first_dup_None _ _ Ed)].
    - inversion Ec; subst. split; [reflexivity|apply x_names_NoDup]. }
  destruct Hcols as [Hcols Hnd].
  assert (Hdata : csv_data (first :: rest) = if hdr then rest else first :: rest) by (unfold csv_data; rewrite Hh; reflexivity).
  set (vars := set_of_list cols).
  destruct (parse_records (length first) cols vars (if hdr then rest else first :: rest)) as [rows| |] eqn:Ep;
    cbn [bind]; try discriminate.
  destruct (Nat.leb usize_bits (length vars)); [discriminate|].
  destruct (N.eqb_spec (N.of_nat (length rows)) (2 ^ N.of_nat (length vars))) as [Hcount|]; cbn [negb]; [|discriminate].
  destruct (has_dup (map fst rows)) eqn:Edup; [discriminate|].
  intros [= <-]. cbn zeta. rewrite Hcols, Hdata. cbn [t_inputs t_outputs].
  apply has_dup_false in Edup.
  assert (Hlen : length rows = 2 ^ length vars).
  { apply (f_equal N.to_nat) in Hcount. rewrite Nat2N.id, pow2_N_nat in Hcount. exact Hcount. }
  pose proof (parse_records_ok _ _ _ _ _ Ep) as HF.
  assert (Hfst : map fst rows = map (record_point cols vars) (if hdr then rest else first :: rest)).
  { apply (Forall2_map_fst _ _ _ _ HF). intros a bc Hr. apply Hr. }
  split; [|split; [|split; [|split]]].
  - split; [apply set_of_list_sset|]. cbn [t_inputs t_outputs]. rewrite map_length, points_length. reflexivity.
  - exact Hnd.
  - reflexivity.
  - intros r Hr. destruct (Forall2_In_l _ _ _ _ HF Hr) as (po & Hpo & Hw & Hcells & Hp & Ho).
    split; [exact Hw|]. split; [exact Hcells|].
    rewrite Ho. f_equal. unfold tsem. cbn [t_inputs t_outputs].
    change (map (record_env cols r) vars) with (record_point cols vars r).
    assert (Hpl : length (record_point cols vars r) = length vars) by (unfold record_point; apply map_length).
    rewrite <- Hpl at 1. rewrite lookup_tabulate.
    symmetry. apply output_at_nodup; [exact Edup|]. rewrite <- Hp. destruct po; exact Hpo.
  - rewrite <- Hfst. apply complete_points; [exact Edup|rewrite map_length; exact Hlen|].
    rewrite Hfst. apply Forall_forall. intros p Hp. apply in_map_iff in Hp. destruct Hp as (r & <- & _).
    unfold record_point. apply map_length.
Qed.

(* ---------- the acceptance criterion ---------- *)

Lemma import_records_describes rs t : import_records rs = Ok t -> describes_table rs.
Proof.
  intros H. destruct (import_records_sound rs t H) as (_ & Hnd & Hin & Hrec & Hperm).
  unfold describes_table. rewrite <- Hin. split; [exact Hnd|]. split; [|exact Hperm].
  intros r Hr. destruct (Hrec r Hr) as (Hw & Hc & Ho). repeat split; auto. rewrite Ho. discriminate.
Qed.

(* every text that does not describe a table is rejected with an error *)
Theorem import_records_rejects rs : ~ describes_table rs -> exists c, import_records rs = Err c.
Proof.
  intros Hn. pose proof (import_records_no_panic rs) as Hp.
  destruct (import_records rs) as [t|c|c] eqn:E.
  - exfalso. apply Hn. apply (import_records_describes rs t E).
  - exists c. reflexivity.
  - destruct Hp.
Qed.

(* the fault classes of C16 *)
Corollary reject_duplicate_names rs : ~ NoDup (csv_columns rs) -> exists c, import_records rs = Err c.
Proof. intros H. apply import_records_rejects. intros (Hnd & _). auto. Qed.

Corollary reject_ragged rs r : In r (csv_data rs) -> length r <> csv_width rs -> exists c, import_records rs = Err c.
Proof. intros Hr Hl. apply import_records_rejects. intros (_ & Hrec & _). destruct (Hrec r Hr) as (Hw & _). auto. Qed.

Corollary reject_non_boolean_input rs r x :
  In r (csv_data rs) -> In x (csv_columns rs) -> string_to_bool (cell_of (csv_columns rs) r x) = None ->
  exists c, import_records rs = Err c.
Proof.
  intros Hr Hx Hc. apply import_records_rejects. intros (_ & Hrec & _). destruct (Hrec r Hr) as (_ & Hall & _).
  rewrite Forall_forall in Hall. destruct (Hall x) as (b & Hb); [apply set_of_list_In; exact Hx|congruence].
Qed.

Corollary reject_non_boolean_output rs r :
  In r (csv_data rs) -> record_output r = None -> exists c, import_records rs = Err c.
Proof. intros Hr Ho. apply import_records_rejects. intros (_ & Hrec & _). destruct (Hrec r Hr) as (_ & _ & Hn). auto. Qed.

Corollary reject_missing_combination rs p :
  let cols := csv_columns rs in let vars := set_of_list cols in
  length p = length vars -> ~ In p (map (record_point cols vars) (csv_data rs)) ->
  exists c, import_records rs = Err c.
Proof.
  intros cols vars Hl Hn. apply import_records_rejects. intros (_ & _ & Hperm).
  apply Hn. apply (Permutation_in p (Permutation_sym Hperm)). apply points_In. exact Hl.
Qed.

Corollary reject_repeated_combination rs :
  let cols := csv_columns rs in let vars := set_of_list cols in
  ~ NoDup (map (record_point cols vars) (csv_data rs)) -> exists c, import_records rs = Err c.
Proof.
  intros cols vars Hn. apply import_records_rejects. intros (_ & _ & Hperm).
  apply Hn. apply (Permutation_NoDup (Permutation_sym Hperm)). apply points_NoDup.
Qed.

Corollary reject_no_record : import_records [] = Err E_UnexpectedEof.
Proof. reflexivity. Qed.

(* ---------- the converse: every description of a table (of fewer than 64 inputs) is accepted ---------- *)

Lemma column_of_lt x cols : In x cols -> column_of x cols < length cols.
Proof.
  induction cols as [|y r IH]; intros H; [destruct H|]. cbn [column_of length].
  destruct (name_eqb_spec x y); [lia|]. destruct H as [->|H]; [congruence|]. apply IH in H. lia.
Qed.

Lemma parse_cells_complete r cols : forall vars,
  (forall x, In x vars -> column_of x cols < length r) ->
  Forall (fun x => exists b, string_to_bool (cell_of cols r x) = Some b) vars ->
  parse_cells r cols vars = Ok (record_point cols vars r).
Proof.
  induction vars as [|x vs IH]; intros Hlt Hall; [reflexivity|].
  inversion Hall as [|? ? (b & Hb) Hvs]; subst. cbn [parse_cells].
  destruct (nth_error r (column_of x cols)) as [c|] eqn:En.
  - assert (Hc : cell_of cols r x = c) by (unfold cell_of; apply nth_error_nth; exact En).
    rewrite <- Hc, Hb. rewrite IH; [|intros y Hy; apply Hlt; right; exact Hy|exact Hvs].
    cbn [rmap]. unfold record_point. cbn [map]. unfold record_env at 2. rewrite Hb. reflexivity.
  - apply nth_error_None in En. specialize (Hlt x (or_introl eq_refl)). lia.
Qed.

Lemma last_cell_Some (r : list text) : r <> [] -> exists c, last_cell r = Some c.
Proof.
  intros H. unfold last_cell. destruct (rev r) eqn:E; [|eauto].
  apply (f_equal (@rev text)) in E. rewrite rev_involutive in E. contradiction.
Qed.

Lemma last_cell_app (r : list text) c : last_cell (r ++ [c]) = Some c.
Proof. unfold last_cell. rewrite rev_app_distr. reflexivity. Qed.

Lemma removelast_len {A} (l : list A) : length (removelast l) = length l - 1.
Proof.
  destruct l as [|a l] using rev_ind; [reflexivity|].
  rewrite removelast_last, app_length. cbn. lia.
Qed.

Lemma csv_columns_length rs : rs <> [] -> length (csv_columns rs) = csv_width rs - 1.
Proof.
  destruct rs as [|first rest]; [congruence|]. intros _. unfold csv_columns, csv_width. cbn [hd].
  destruct (csv_has_header (first :: rest)); [apply removelast_len|rewrite map_length, seq_length; reflexivity].
Qed.

Theorem import_records_complete rs :
  rs <> [] -> hd [] rs <> [] -> describes_table rs ->
  length (set_of_list (csv_columns rs)) < usize_bits ->
  exists t, import_records rs = Ok t.
Proof.
  intros Hne Hfirst (Hnd & Hrec & Hperm) Hbits.
  destruct rs as [|first rest]; [congruence|]. cbn [hd] in Hfirst.
  destruct (last_cell_Some first Hfirst) as (lc & El).
  assert (Hfl : length first > 0) by (destruct first; [congruence|cbn; lia]).
  unfold import_records. cbn [header_and_data]. rewrite El. cbn [bind].
  assert (Hh : csv_has_header (first :: rest) = negb (is_bool_string lc)) by (cbn [csv_has_header]; rewrite El; reflexivity).
  pose proof (csv_columns_length (first :: rest) Hne) as Hcl.
  unfold csv_columns in Hnd, Hrec, Hperm, Hbits, Hcl. unfold csv_data in Hrec, Hperm.
  unfold csv_width in Hrec, Hcl. cbn [hd] in Hrec, Hcl. rewrite Hh in *.
  set (hdr := negb (is_bool_string lc)) in *.
  set (cols := if hdr then removelast first else map x_name (seq 0 (length first - 1))).
  change (NoDup cols) in Hnd. change (length cols = length first - 1) in Hcl.
  change (length (set_of_list cols) < usize_bits) in Hbits.
  set (vars := set_of_list cols) in *.
  set (data := if hdr then rest else first :: rest) in *.
  change (forall r, In r data -> length r = length first /\
            Forall (fun x => exists b, string_to_bool (cell_of cols r x) = Some b) vars /\ record_output r <> None) in Hrec.
  change (Permutation (map (record_point cols vars) data) (points (length vars))) in Hperm.
  assert (Ec : (if hdr then match first_dup [] (removelast first) with Some _ => Err E_DuplicateVariableName | None => Ok (removelast first) end
                else Ok (map x_name (seq 0 (length first - 1)))) = Ok cols).
  { unfold cols. destruct hdr; [|reflexivity]. rewrite first_dup_NoDup; [reflexivity|exact Hnd|intros y []]. }
  rewrite Ec. cbn [bind]. fold vars. fold data.
  assert (Hp : parse_records (length first) cols vars data
               = Ok (map (fun r => (record_point cols vars r, match record_output r with Some o => o | None => false end)) data)).
  { assert (G : forall l, (forall r, In r l -> In r data) ->
              parse_records (length first) cols vars l
              = Ok (map (fun r => (record_point cols vars r, match record_output r with Some o => o | None => false end)) l)).
    { induction l as [|r l IH]; intros Hin; [reflexivity|]. cbn [parse_records map].
      destruct (Hrec r (Hin r (or_introl eq_refl))) as (Hw & Hcells & Ho).
      unfold parse_record. rewrite Hw, Nat.eqb_refl. cbn [negb].
      assert (Hlt : forall x, In x vars -> column_of x cols < length r).
      { intros x Hx. apply (proj1 (set_of_list_In x cols)) in Hx. apply column_of_lt in Hx. pose proof Hcl as Hcl2. change (@length name cols = length first - 1) in Hcl2. lia. }
      rewrite (parse_cells_complete r cols vars Hlt Hcells).
      cbn [bind]. unfold record_output in Ho |- *. destruct (last_cell r) as [c|]; [|congruence].
      destruct (string_to_bool c); [|congruence]. cbn [bind].
      rewrite IH by (intros r' Hr'; apply Hin; right; exact Hr'). reflexivity. }
    apply G. auto. }
  rewrite Hp. cbn [bind].
  destruct (Nat.leb_spec usize_bits (length vars)); [lia|].
  rewrite map_length.
  assert (Hlen : length data = 2 ^ length vars).
  { rewrite <- (map_length (record_point cols vars)), (Permutation_length Hperm). apply points_length. }
  assert (Hc : (N.of_nat (length data) =? 2 ^ N.of_nat (length vars))%N = true).
  { apply N.eqb_eq. rewrite Hlen. rewrite <- (N2Nat.id (2 ^ N.of_nat (length vars))), pow2_N_nat. reflexivity. }
  rewrite Hc. cbn [negb]. rewrite map_map. cbn [fst].
  assert (Hd : has_dup (map (record_point cols vars) data) = false).
  { apply has_dup_false. apply (Permutation_NoDup (Permutation_sym Hperm)). apply points_NoDup. }
  change (map (fun x : list text => record_point cols vars x) data) with (map (record_point cols vars) data).
  rewrite Hd. eexists. reflexivity.
Qed.

(* a table is determined by its inputs and its values on the domain *)
Lemma table_ext t t' : wf_table t -> wf_table t' -> t_inputs t = t_inputs t' ->
  (forall p, length p = length (t_inputs t) -> lookup false (t_outputs t) p = lookup false (t_outputs t') p) ->
  t = t'.
Proof.
  intros [_ Hl] [_ Hl'] Hin Hsem. destruct t as [ins outs], t' as [ins' outs']. cbn [t_inputs t_outputs] in *. subst ins'.
  f_equal. rewrite <- (tabulate_lookup false (length ins) outs Hl), <- (tabulate_lookup false (length ins) outs' Hl').
  apply map_ext_in. intros p Hp. apply Hsem. apply points_In. exact Hp.
Qed.

(* C16 invariance: two accepted texts that give the same output to the same input combinations
   (whatever the column order, the row order, the presence of a header and the spellings) are the same table *)
Theorem import_records_invariant rs rs' t t' :
  import_records rs = Ok t -> import_records rs' = Ok t' ->
  set_of_list (csv_columns rs) = set_of_list (csv_columns rs') ->
  (forall r r', In r (csv_data rs) -> In r' (csv_data rs') ->
     record_point (csv_columns rs) (t_inputs t) r = record_point (csv_columns rs') (t_inputs t) r' ->
     record_output r = record_output r') ->
  t = t'.
Proof.
  intros H H' Hcols Hsame.
  destruct (import_records_sound rs t H) as (Hwf & _ & Hin & Hrec & Hperm).
  destruct (import_records_sound rs' t' H') as (Hwf' & _ & Hin' & Hrec' & Hperm').
  cbn zeta in *.
  assert (Hins : t_inputs t = t_inputs t') by congruence.
  apply table_ext; auto. intros p Hp.
  assert (Hpin : In p (points (length (t_inputs t)))) by (apply points_In; exact Hp).
  pose proof (Permutation_in p (Permutation_sym Hperm) Hpin) as Hr. apply in_map_iff in Hr. destruct Hr as (r & Hrp & Hr).
  rewrite <- Hins in Hperm'.
  pose proof (Permutation_in p (Permutation_sym Hperm') Hpin) as Hr'. apply in_map_iff in Hr'. destruct Hr' as (r' & Hrp' & Hr').
  destruct (Hrec r Hr) as (_ & _ & Ho). destruct (Hrec' r' Hr') as (_ & _ & Ho').
  specialize (Hsame r r' Hr Hr' (eq_trans Hrp (eq_sym Hrp'))). rewrite Ho, Ho' in Hsame. inversion Hsame as [Hs].
  unfold tsem in Hs. rewrite <- Hins in Hs.
  change (map (record_env (csv_columns rs) r) (t_inputs t)) with (record_point (csv_columns rs) (t_inputs t) r) in Hs.
  change (map (record_env (csv_columns rs') r') (t_inputs t)) with (record_point (csv_columns rs') (t_inputs t) r') in Hs.
  rewrite Hrp, Hrp' in Hs. exact Hs.
Qed.

(* ---------- the record splitter ---------- *)

(* every record has at least one field, so NoOutputColumn cannot arise from a text *)
Lemma sstep_out_nonempty st c :
  Forall (fun r => r <> []) (s_out st) -> Forall (fun r => r <> []) (s_out (sstep st c)).
Proof.
  intros H.
  assert (He : Forall (fun r => r <> []) (s_out (end_record st))).
  { cbn [end_record s_out]. constructor; [|exact H]. cbn [rev]. apply not_eq_sym, app_cons_not_nil. }
  assert (Hi : Forall (fun r => r <> []) (s_out (in_field st c))).
  { unfold in_field. destruct (c =? c_comma)%N; [exact H|]. destruct (is_term c); [exact He|exact H]. }
  assert (Hs : Forall (fun r => r <> []) (s_out (start_field st c))).
  { unfold start_field. destruct (c =? c_quote)%N; [exact H|exact Hi]. }
  unfold sstep. destruct (s_mode st); auto.
  - destruct (is_term c); auto.
  - destruct (c =? c_quote)%N; exact H.
  - destruct (c =? c_quote)%N; [exact H|exact Hi].
Qed.

Lemma fold_sstep_out_nonempty s : forall st,
  Forall (fun r => r <> []) (s_out st) -> Forall (fun r => r <> []) (s_out (fold_left sstep s st)).
Proof. induction s as [|c s IH]; intros st H; cbn [fold_left]; [exact H|]. apply IH, sstep_out_nonempty, H. Qed.

Lemma split_records_nonempty s : Forall (fun r => r <> []) (split_records s).
Proof.
  unfold split_records, sfinish.
  pose proof (fold_sstep_out_nonempty (strip_bom s) s_init (Forall_nil _)) as H.
  set (st := fold_left sstep (strip_bom s) s_init) in *.
  assert (He : Forall (fun r => r <> []) (s_out (end_record st))).
  { cbn [end_record s_out]. constructor; [|exact H]. cbn [rev]. apply not_eq_sym, app_cons_not_nil. }
  destruct (s_mode st); apply Forall_rev; assumption.
Qed.

(* a record is in progress *)
Definition open_state (st : sstate) : Prop := s_mode st = MField \/ s_mode st = MIn.
(* the record that ends if the input or the line ends here *)
Definition pending (st : sstate) : list text := rev (rev (s_fld st) :: s_rec st).

Lemma sstep_plain st x : open_state st -> plainb x = true -> sstep st x = push st MIn x.
Proof.
  unfold plainb. rewrite !andb_true_iff, !negb_true_iff. intros Ho [[Hc Hq] Ht].
  unfold sstep, start_field, in_field. destruct Ho as [-> | ->]; rewrite ?Hq, Hc, Ht; reflexivity.
Qed.

Lemma sstep_comma st : open_state st -> sstep st c_comma = end_field st.
Proof. unfold sstep, start_field, in_field. intros [-> | ->]; reflexivity. Qed.

Lemma sstep_lf st : open_state st -> sstep st c_lf = end_record st.
Proof. unfold sstep, start_field, in_field. intros [-> | ->]; reflexivity. Qed.

(* at the start of a record a character that is not a terminator is handled as at the start of a field *)
Lemma sstep_rec_as_field st c : s_mode st = MRec -> is_term c = false -> sstep st c = sstep (set_mode st MField) c.
Proof. intros Hm Ht. unfold sstep. rewrite Hm, Ht. reflexivity. Qed.

Lemma fold_cell c : forall st, open_state st -> plain_cell c ->
  let st' := fold_left sstep c st in
  open_state st' /\ s_fld st' = rev c ++ s_fld st /\ s_rec st' = s_rec st /\ s_out st' = s_out st.
Proof.
  induction c as [|x c IH]; intros st Ho Hp; cbn [fold_left]; [repeat split; auto|].
  unfold plain_cell in Hp. cbn [forallb] in Hp. apply andb_true_iff in Hp. destruct Hp as [Hx Hc].
  rewrite (sstep_plain st x Ho Hx).
  destruct (IH (push st MIn x)) as (Ho' & Hf & Hr & Hout); [right; reflexivity|exact Hc|].
  cbv zeta. split; [exact Ho'|]. rewrite Hf, Hr, Hout. cbn [push s_fld s_rec s_out rev].
  rewrite <- app_assoc. auto.
Qed.

Lemma fold_tail_cells cs : forall st, open_state st -> Forall plain_cell cs ->
  let st' := fold_left sstep (concat (map (cons c_comma) cs)) st in
  open_state st' /\ pending st' = pending st ++ cs /\ s_out st' = s_out st.
Proof.
  induction cs as [|c cs IH]; intros st Ho Hall; cbn [map concat fold_left].
  - rewrite app_nil_r. auto.
  - inversion Hall as [|? ? Hc Hcs]; subst.
    change ((c_comma :: c) ++ concat (map (cons c_comma) cs)) with (c_comma :: (c ++ concat (map (cons c_comma) cs))).
    cbn [fold_left]. rewrite (sstep_comma st Ho), fold_left_app.
    destruct (fold_cell c (end_field st)) as (Ho1 & Hf1 & Hr1 & Hout1); [left; reflexivity|exact Hc|].
    set (st1 := fold_left sstep c (end_field st)) in *.
    destruct (IH st1 Ho1 Hcs) as (Ho2 & Hp2 & Hout2). cbv zeta.
    split; [exact Ho2|]. rewrite Hp2, Hout2, Hout1. split; [|reflexivity].
    unfold pending. rewrite Hf1, Hr1. cbn [end_field s_fld s_rec]. rewrite app_nil_r, rev_involutive.
    cbn [rev]. rewrite <- app_assoc. reflexivity.
Qed.

Lemma join_comma_cons c cs : tjoin [c_comma] (c :: cs) = c ++ concat (map (cons c_comma) cs).
Proof.
  revert c. induction cs as [|d cs IH]; intros c; [cbn; rewrite app_nil_r; reflexivity|].
  rewrite join_cons, IH. reflexivity.
Qed.

(* a row of plain cells that is not an empty line *)
Definition plain_row (r : list text) : Prop := r <> [] /\ r <> [[]] /\ Forall plain_cell r.

Lemma row_first_not_term r : plain_row r ->
  exists x rest, tjoin [c_comma] r = x :: rest /\ is_term x = false.
Proof.
  intros (Hne & Hne1 & Hall). destruct r as [|c cs]; [congruence|]. rewrite join_comma_cons.
  inversion Hall as [|? ? Hc _]; subst.
  destruct c as [|x c].
  - destruct cs as [|d cs]; [exfalso; apply Hne1; reflexivity|]. cbn. eexists _, _. split; reflexivity.
  - unfold plain_cell in Hc. cbn [forallb] in Hc. apply andb_true_iff in Hc. destruct Hc as [Hx _].
    unfold plainb in Hx. rewrite !andb_true_iff, !negb_true_iff in Hx.
    cbn [app]. eexists _, _. split; [reflexivity|tauto].
Qed.

Lemma fold_row r st : s_mode st = MRec -> s_fld st = [] -> s_rec st = [] -> plain_row r ->
  let st' := fold_left sstep (tjoin [c_comma] r) st in
  open_state st' /\ pending st' = r /\ s_out st' = s_out st.
Proof.
  intros Hm Hf Hr Hrow.
  destruct (row_first_not_term r Hrow) as (x & rest & Hjoin & Hx).
  assert (E : fold_left sstep (tjoin [c_comma] r) st = fold_left sstep (tjoin [c_comma] r) (set_mode st MField)).
  { rewrite Hjoin. cbn [fold_left]. rewrite (sstep_rec_as_field st x Hm Hx). reflexivity. }
  cbv zeta. rewrite E. clear E Hjoin Hx.
  destruct Hrow as (Hne & _ & Hall). destruct r as [|c cs]; [congruence|].
  inversion Hall as [|? ? Hc Hcs]; subst.
  rewrite join_comma_cons, fold_left_app.
  destruct (fold_cell c (set_mode st MField)) as (Ho1 & Hf1 & Hr1 & Hout1); [left; reflexivity|exact Hc|].
  set (st1 := fold_left sstep c (set_mode st MField)) in *.
  destruct (fold_tail_cells cs st1 Ho1 Hcs) as (Ho2 & Hp2 & Hout2).
  split; [exact Ho2|]. rewrite Hp2, Hout2, Hout1. split; [|reflexivity].
  unfold pending. rewrite Hf1, Hr1. cbn [set_mode s_fld s_rec]. rewrite Hf, Hr, app_nil_r, rev_involutive. reflexivity.
Qed.

Lemma sfinish_open st : open_state st -> sfinish st = rev (s_out st) ++ [pending st].
Proof. unfold sfinish. intros [-> | ->]; reflexivity. Qed.

Lemma fold_rows rows : forall st, rows <> [] -> Forall plain_row rows ->
  s_mode st = MRec -> s_fld st = [] -> s_rec st = [] ->
  sfinish (fold_left sstep (tjoin [c_lf] (map (tjoin [c_comma]) rows)) st) = rev (s_out st) ++ rows.
Proof.
  induction rows as [|r [|r' rest] IH]; intros st Hne Hall Hm Hf Hr; [congruence| |].
  - cbn [map tjoin]. inversion Hall as [|? ? Hrow _]; subst.
    destruct (fold_row r st Hm Hf Hr Hrow) as (Ho & Hp & Hout).
    rewrite (sfinish_open _ Ho), Hp, Hout. reflexivity.
  - inversion Hall as [|? ? Hrow Hrest]; subst.
    change (map (tjoin [c_comma]) (r :: r' :: rest)) with (tjoin [c_comma] r :: map (tjoin [c_comma]) (r' :: rest)).
    change (map (tjoin [c_comma]) (r' :: rest)) with (tjoin [c_comma] r' :: map (tjoin [c_comma]) rest) at 1.
    rewrite join_cons.
    change (tjoin [c_comma] r' :: map (tjoin [c_comma]) rest) with (map (tjoin [c_comma]) (r' :: rest)).
    rewrite fold_left_app.
    destruct (fold_row r st Hm Hf Hr Hrow) as (Ho & Hp & Hout).
    set (st1 := fold_left sstep (tjoin [c_comma] r) st) in *.
    change ([c_lf] ++ tjoin [c_lf] (map (tjoin [c_comma]) (r' :: rest))) with (c_lf :: tjoin [c_lf] (map (tjoin [c_comma]) (r' :: rest))).
    cbn [fold_left]. rewrite (sstep_lf st1 Ho).
    rewrite IH; [|discriminate|exact Hrest|reflexivity|reflexivity|reflexivity].
    cbn [end_record s_out]. fold (pending st1). rewrite Hp, Hout. cbn [rev]. rewrite <- app_assoc. reflexivity.
Qed.

(* a text of lines of plain cells is cut into exactly these rows *)
Theorem split_records_plain rows :
  rows <> [] -> Forall plain_row rows ->
  hd_error (tjoin [c_lf] (map (tjoin [c_comma]) rows)) <> Some c_bom ->
  split_records (tjoin [c_lf] (map (tjoin [c_comma]) rows)) = rows.
Proof.
  intros Hne Hall Hbom. unfold split_records.
  assert (Hs : strip_bom (tjoin [c_lf] (map (tjoin [c_comma]) rows)) = tjoin [c_lf] (map (tjoin [c_comma]) rows)).
  { destruct (tjoin [c_lf] (map (tjoin [c_comma]) rows)) as [|c s]; [reflexivity|]. cbn [strip_bom].
    destruct (N.eqb_spec c c_bom) as [->|]; [exfalso; apply Hbom; reflexivity|reflexivity]. }
  rewrite Hs. rewrite (fold_rows rows s_init Hne Hall eq_refl eq_refl eq_refl). reflexivity.
Qed.

(* ---------- text level statements of C16 ---------- *)

Lemma from_csv_string_nonempty s : s <> [] -> from_csv_string s = import_records (split_records s).
Proof. destruct s; [congruence|reflexivity]. Qed.

Theorem from_csv_string_sound s t : s <> [] -> from_csv_string s = Ok t ->
  let rs := split_records s in
  let cols := csv_columns rs in
  wf_table t /\
  NoDup cols /\
  t_inputs t = set_of_list cols /\
  (forall r, In r (csv_data rs) ->
     length r = csv_width rs /\
     Forall (fun x => exists b, string_to_bool (cell_of cols r x) = Some b) (t_inputs t) /\
     record_output r = Some (tsem t (record_env cols r))) /\
  Permutation (map (record_point cols (t_inputs t)) (csv_data rs)) (points (length (t_inputs t))).
Proof. intros Hne H. rewrite (from_csv_string_nonempty s Hne) in H. apply import_records_sound. exact H. Qed.

Theorem from_csv_string_rejects s : s <> [] -> ~ describes_table (split_records s) -> exists c, from_csv_string s = Err c.
Proof. intros Hne H. rewrite (from_csv_string_nonempty s Hne). apply import_records_rejects. exact H. Qed.

Theorem from_csv_string_empty : from_csv_string [] = Ok empty_table.
Proof. reflexivity. Qed.

(* ---------- C17: export, then import ---------- *)

Lemma string_to_bool_format f b : string_to_bool (format_bool f b) = Some b.
Proof. destruct f, b; reflexivity. Qed.

Lemma format_bool_plain f b : plain_cell (format_bool f b).
Proof. destruct f, b; reflexivity. Qed.

Lemma format_bool_nonempty f b : format_bool f b <> [].
Proof. destruct f, b; discriminate. Qed.

Lemma wf_outputs_nonempty t : wf_table t -> t_outputs t <> [].
Proof.
  intros [_ H] E. rewrite E in H. cbn [length] in H.
  pose proof (Nat.pow_nonzero 2 (length (t_inputs t))). lia.
Qed.

Lemma to_csv_formatted_wf d fi fo t : wf_table t ->
  to_csv_formatted d fi fo t = tjoin [c_lf] (map (tjoin [d]) (table_rows fi fo t)).
Proof.
  intros Hwf. unfold to_csv_formatted, table_rows.
  pose proof (wf_outputs_nonempty t Hwf) as Hne.
  assert (He : t_is_empty t = false).
  { unfold t_is_empty. destruct (t_inputs t); [|reflexivity]. destruct (t_outputs t); [congruence|reflexivity]. }
  rewrite He. rewrite <- (map_map (record_row fi fo) (tjoin [d])).
  pose proof (t_relation_length t) as Hl.
  destruct (t_relation t) as [|po rel]; [destruct (t_outputs t); [congruence|discriminate]|].
  cbn [map]. rewrite join_cons. reflexivity.
Qed.

Lemma plain_cell_no_lf c : plain_cell c -> ~ In c_lf c.
Proof.
  unfold plain_cell. rewrite forallb_forall. intros H Hin. specialize (H _ Hin). discriminate.
Qed.

Lemma plain_row_no_lf r : Forall plain_cell r -> ~ In c_lf (tjoin [c_comma] r).
Proof.
  induction r as [|c [|d r] IH]; intros Hall; [intros []| |].
  - cbn [tjoin]. inversion Hall; subst. apply plain_cell_no_lf. assumption.
  - inversion Hall as [|? ? Hc Hr]; subst. rewrite join_cons. rewrite !in_app_iff.
    intros [H|[H|H]].
    + exact (plain_cell_no_lf c Hc H).
    + destruct H as [H|[]]. discriminate.
    + exact (IH Hr H).
Qed.

Lemma table_rows_plain fi fo t : wf_table t -> Forall plain_cell (t_inputs t) ->
  Forall plain_row (table_rows fi fo t).
Proof.
  intros Hwf Hsafe. unfold table_rows. constructor.
  - unfold header_row, plain_row. split; [apply not_eq_sym, app_cons_not_nil|]. split.
    + destruct (t_inputs t) as [|x [|y l]]; cbn; discriminate.
    + apply Forall_app. split; [exact Hsafe|]. constructor; [reflexivity|constructor].
  - apply Forall_forall. intros r Hr. apply in_map_iff in Hr. destruct Hr as ([p o] & <- & _).
    unfold record_row, plain_row. cbn [fst snd]. split; [apply not_eq_sym, app_cons_not_nil|]. split.
    + destruct p as [|b [|b' p]]; cbn [map app]; try discriminate.
      intros [= E]. exact (format_bool_nonempty fo o E).
    + apply Forall_app. split; [|constructor; [apply format_bool_plain|constructor]].
      apply Forall_forall. intros c Hc. apply in_map_iff in Hc. destruct Hc as (b & <- & _). apply format_bool_plain.
Qed.

(* C17: the lines of the export are the rows: header, then one line per domain point in order *)
Theorem to_csv_lines fi fo t : wf_table t -> Forall plain_cell (t_inputs t) ->
  cut_at c_lf (to_csv_formatted c_comma fi fo t) = map (tjoin [c_comma]) (table_rows fi fo t).
Proof.
  intros Hwf Hsafe. rewrite (to_csv_formatted_wf _ _ _ _ Hwf). apply split_on_join.
  - unfold table_rows. discriminate.
  - apply Forall_forall. intros l Hl. apply in_map_iff in Hl. destruct Hl as (r & <- & Hr).
    apply plain_row_no_lf. pose proof (table_rows_plain fi fo t Hwf Hsafe) as H. rewrite Forall_forall in H. apply (H r Hr).
Qed.

Lemma map_fst_combine {A B} (a : list A) (b : list B) : length a = length b -> map fst (combine a b) = a.
Proof. revert b. induction a as [|x a IH]; intros [|y b] H; cbn in *; try discriminate; [reflexivity|]. f_equal. apply IH. lia. Qed.

Lemma column_of_self cols : NoDup cols -> forall (p : list bool),
  length p = length cols -> map (fun x => nth (column_of x cols) p false) cols = p.
Proof.
  induction cols as [|y cols IH]; intros Hnd p Hl; destruct p as [|b p]; cbn in Hl; try discriminate; [reflexivity|].
  inversion Hnd as [|? ? Hnin Hnd']; subst. cbn [map column_of]. rewrite name_eqb_refl. cbn [nth]. f_equal.
  transitivity (map (fun x => nth (column_of x cols) p false) cols); [|apply (IH Hnd' p); lia].
  apply map_ext_in. intros x Hx.
  destruct (name_eqb_spec x y) as [->|]; [contradiction|]. reflexivity.
Qed.

Lemma parse_cells_row fi cols tail : forall (p : list bool) vars,
  length p = length cols -> (forall x, In x vars -> In x cols) ->
  parse_cells (map (format_bool fi) p ++ tail) cols vars = Ok (map (fun x => nth (column_of x cols) p false) vars).
Proof.
  intros p vars Hl. induction vars as [|x vs IH]; intros Hin; [reflexivity|].
  cbn [parse_cells map].
  assert (Hk : column_of x cols < length p) by (rewrite Hl; apply column_of_lt, Hin; left; reflexivity).
  rewrite nth_error_app1 by (rewrite map_length; exact Hk).
  rewrite (map_nth_error (format_bool fi) _ p (nth_error_nth' p false Hk)).
  rewrite string_to_bool_format. rewrite IH by (intros y Hy; apply Hin; right; exact Hy). reflexivity.
Qed.

Lemma parse_records_rows fi fo cols : NoDup cols -> forall l : list (list bool * bool),
  Forall (fun po => length (fst po) = length cols) l ->
  parse_records (S (length cols)) cols cols (map (record_row fi fo) l) = Ok l.
Proof.
  intros Hnd. induction l as [|[p o] l IH]; intros Hall; [reflexivity|].
  inversion Hall as [|? ? Hp Hl]; subst. cbn [fst] in Hp. cbn [map parse_records].
  unfold parse_record, record_row at 1 2 3. cbn [fst snd].
  rewrite app_length, map_length, Hp. cbn [length]. rewrite Nat.add_1_r, Nat.eqb_refl. cbn [negb].
  rewrite parse_cells_row by auto. cbn [bind]. rewrite (column_of_self cols Hnd p Hp).
  rewrite last_cell_app, string_to_bool_format. cbn [bind]. rewrite (IH Hl). reflexivity.
Qed.

Lemma output_at_combine ps : forall (os : list bool) d, NoDup ps -> length ps = length os ->
  map (fun p => output_at p (combine ps os) d) ps = os.
Proof.
  intros os d Hnd Hl.
  assert (Hf : map fst (combine ps os) = ps) by (apply map_fst_combine; exact Hl).
  transitivity (map (fun p => output_at p (combine ps os) d) (map fst (combine ps os))); [rewrite Hf; reflexivity|].
  rewrite map_map. transitivity (map snd (combine ps os)); [|apply map_snd_combine; exact Hl].
  apply map_ext_in. intros [p o] Hpo. cbn [fst snd]. apply output_at_nodup; [rewrite Hf; exact Hnd|exact Hpo].
Qed.

Theorem import_table_rows fi fo t : wf_table t -> length (t_inputs t) < usize_bits ->
  import_records (table_rows fi fo t) = Ok t.
Proof.
  intros Hwf Hbits. rewrite (table_rows_wf fi fo t Hwf). destruct Hwf as [Hs Hl].
  pose proof (sset_NoDup _ Hs) as Hnd.
  unfold import_records. cbn [header_and_data]. rewrite last_cell_app. cbn [bind].
  change (negb (is_bool_string w_result)) with true. cbv iota.
  rewrite removelast_last. rewrite (first_dup_NoDup _ [] Hnd) by (intros y []). cbn [bind].
  rewrite (set_of_list_id _ Hs).
  rewrite app_length. cbn [length]. rewrite Nat.add_1_r.
  change (map (fun po : list bool * bool => map (format_bool fi) (fst po) ++ [format_bool fo (snd po)]))
    with (map (record_row fi fo)).
  rewrite parse_records_rows; [|exact Hnd|].
  - cbn [bind]. destruct (Nat.leb_spec usize_bits (length (t_inputs t))); [lia|].
    rewrite combine_length, points_length, Hl, Nat.min_id.
    assert (Hc : (N.of_nat (2 ^ length (t_inputs t)) =? 2 ^ N.of_nat (length (t_inputs t)))%N = true).
    { apply N.eqb_eq. rewrite <- (N2Nat.id (2 ^ N.of_nat _)), pow2_N_nat. reflexivity. }
    rewrite Hc. cbn [negb].
    rewrite map_fst_combine by (rewrite points_length; auto).
    assert (Hd : has_dup (points (length (t_inputs t))) = false) by (apply has_dup_false, points_NoDup).
    rewrite Hd. rewrite output_at_combine; [|apply points_NoDup|rewrite points_length; auto].
    destruct t; reflexivity.
  - apply Forall_forall. intros [p o] Hpo. apply in_combine_l in Hpo. apply points_In in Hpo. exact Hpo.
Qed.

Lemma csv_safe_spec t : csv_safe t = true ->
  Forall plain_cell (t_inputs t) /\ match t_inputs t with (c :: _) :: _ => c <> c_bom | _ => True end.
Proof.
  unfold csv_safe. rewrite andb_true_iff. intros [H1 H2]. split.
  - apply Forall_forall. intros c Hc. rewrite forallb_forall in H1. apply H1. exact Hc.
  - destruct (t_inputs t) as [|[|c ?] ?]; auto. apply negb_true_iff in H2. apply N.eqb_neq. exact H2.
Qed.

(* C17: exporting and importing again gives the table back, for every formatting of the cells *)
Theorem csv_round_trip fi fo t : wf_table t -> csv_safe t = true -> length (t_inputs t) < usize_bits ->
  from_csv_string (to_csv_formatted c_comma fi fo t) = Ok t.
Proof.
  intros Hwf Hsafe Hbits. destruct (csv_safe_spec t Hsafe) as [Hplain Hbom].
  rewrite (to_csv_formatted_wf _ _ _ _ Hwf).
  assert (Hne : tjoin [c_lf] (map (tjoin [c_comma]) (table_rows fi fo t)) <> []).
  { unfold table_rows. pose proof (t_relation_length t) as Hl. pose proof (wf_outputs_nonempty t Hwf).
    destruct (t_relation t) as [|po rel]; [destruct (t_outputs t); [congruence|discriminate]|].
    cbn [map]. rewrite join_cons. intros E. apply app_eq_nil in E. destruct E as [_ E]. discriminate. }
  rewrite (from_csv_string_nonempty _ Hne).
  rewrite split_records_plain.
  - apply import_table_rows; assumption.
  - unfold table_rows. discriminate.
  - apply table_rows_plain; assumption.
  - unfold table_rows. pose proof (t_relation_length t) as Hl. pose proof (wf_outputs_nonempty t Hwf).
    destruct (t_relation t) as [|po rel]; [destruct (t_outputs t); [congruence|discriminate]|].
    cbn [map]. rewrite join_cons. unfold header_row.
    destruct (t_inputs t) as [|[|c x] l].
    + cbn. discriminate.
    + destruct l; cbn; discriminate.
    + destruct l; cbn; intros [= E]; contradiction.
Qed.

Corollary csv_round_trip_default t : wf_table t -> csv_safe t = true -> length (t_inputs t) < usize_bits ->
  from_csv_string (to_csv t) = Ok t.
Proof. apply csv_round_trip. Qed.

Lemma to_csv_empty d fi fo : to_csv_formatted d fi fo empty_table = [].
Proof. reflexivity. Qed.

(* ---------- no text makes an entry point panic ---------- *)

Theorem from_csv_never_panics s c : from_csv_string s <> Panic c /\ from_csv_file s <> Panic c.
Proof.
  rewrite from_csv_file_string. pose proof (from_csv_string_no_panic s) as H.
  split; intros E; rewrite E in H; exact H.
Qed.

(* ---------- C18: the cells of a rendering, read as Booleans, are the relation ---------- *)

Lemma read_record_row fi fo po :
  map string_to_bool (record_row fi fo po) = map Some (fst po ++ [snd po]).
Proof.
  unfold record_row. rewrite !map_app, !map_map. cbn [map]. rewrite string_to_bool_format. f_equal.
  apply map_ext. intros b. apply string_to_bool_format.
Qed.

Theorem rendered_relation width st fi fo t :
  wf_table t -> forallb (clean_cellb st) (t_inputs t) = true ->
  map (map string_to_bool) (tl (cells st (to_string_formatted width st fi fo t)))
  = map (fun po => map Some (fst po ++ [snd po])) (t_relation t).
Proof.
  intros Hwf Hn. rewrite (cells_to_string_formatted width st fi fo t Hwf Hn). unfold table_rows. cbn [tl].
  rewrite map_map. apply map_ext. intros po. apply read_record_row.
Qed.
