(* The reference lexer tests the end of a keyword with the case-folded identifier class
   (U+017F and U+212A count as identifier characters there), as the code's regex does.
   Here: reading the same rules with the plain ASCII class [-_a-zA-Z0-9] in that test accepts
   exactly the same texts, with the same lexemes.  (Wherever the two tests differ, the next
   lexeme would have to start with U+017F or U+212A, which start nothing.) *)
From BBF Require Import Base.Prelude Base.Names Model.Expr Model.Lexer Model.Parser Spec.Grammar
     Proofs.LexerProofs Proofs.ParserProofs.
Local Open Scope N_scope.

Definition special (c : N) : bool := N.eqb c long_s || N.eqb c kelvin.

Lemma special_cases c : special c = true -> c = long_s \/ c = kelvin.
Proof. unfold special. rewrite orb_true_iff, !N.eqb_eq. tauto. Qed.

Lemma is_ident_ci_split c : is_ident_ci c = is_ident c || special c.
Proof. unfold is_ident_ci, special. rewrite orb_assoc. reflexivity. Qed.

Lemma special_not_ident c : special c = true -> is_ident c = false.
Proof. intros H. destruct (special_cases _ H); subst; reflexivity. Qed.

Lemma ref_next_is_with s : ref_next s = ref_next_with boundary s.
Proof. reflexivity. Qed.

(* the two admissible "end of keyword" tests *)
Definition mode (bd : list N -> bool) : Prop := bd = boundary \/ bd = boundary_plain.

Lemma mode_cons bd c r : mode bd -> bd (c :: r) = true -> is_ident c = false.
Proof.
  intros [->| ->]; simpl; intros H; apply negb_true_iff in H; [|exact H].
  rewrite is_ident_ci_split in H. apply orb_false_iff in H. tauto.
Qed.

(* ---------- a text that starts with a special character cannot be read ---------- *)
Definition doomed (s : list N) : Prop := exists c x, s = c :: x /\ special c = true.

Lemma doomed_next bd s : doomed s -> ref_next_with bd (trim_ws s) = None /\ trim_ws s <> [].
Proof.
  intros (c & x & -> & Hc). destruct (special_cases _ Hc); subst c; split; try reflexivity; discriminate.
Qed.

Lemma doomed_no_lexes s ts : doomed s -> ~ lexes s ts.
Proof.
  intros Hd (r & H & Er). destruct (doomed_next boundary s Hd) as [Hn Hne].
  destruct H as [s|s t s' ts r Hn' _]; [contradiction|].
  rewrite ref_next_is_with in Hn'. congruence.
Qed.

Lemma doomed_no_lexes_plain s ts : doomed s -> ~ lexes_plain s ts.
Proof.
  intros Hd (r & H & Er). destruct (doomed_next boundary_plain s Hd) as [Hn Hne].
  destruct H as [s|s t s' ts r Hn' _]; [contradiction|].
  unfold ref_next_plain in Hn'. congruence.
Qed.

(* ---------- pattern characters ---------- *)
Definition pat_char (a : N) : bool := is_lower a || is_digit a.

Lemma pat_char_ident a : pat_char a = true -> is_ident a = true.
Proof.
  unfold pat_char, is_ident. intros H. apply orb_true_iff in H. destruct H as [-> | ->];
    rewrite ?orb_true_r; reflexivity.
Qed.

Lemma keywords_pat : forallb (fun kw : list N * ftoken => forallb pat_char (fst kw)) keywords = true.
Proof. reflexivity. Qed.

(* two pattern characters matched by the same text character are equal *)
Lemma ci_eq_inj a b c : pat_char a = true -> pat_char b = true -> ci_eq a c = true -> ci_eq b c = true -> a = b.
Proof.
  unfold pat_char, ci_eq, is_lower, is_digit, in_range, long_s, kelvin.
  rewrite !orb_true_iff, !andb_true_iff, !N.eqb_eq, !N.leb_le. lia.
Qed.

(* a special character is matched only by `s` or `k` *)
Lemma ci_eq_special a d : pat_char a = true -> special d = true -> ci_eq a d = true -> a = 115 \/ a = 107.
Proof.
  intros Ha Hd. destruct (special_cases _ Hd); subst d;
  unfold pat_char, ci_eq, is_lower, is_digit, in_range, long_s, kelvin in *;
  rewrite !orb_true_iff, !andb_true_iff, !N.eqb_eq, !N.leb_le in *; lia.
Qed.

(* ---------- two keywords at the same place ---------- *)
Lemma strip_two p : forall q s rp rq,
  forallb pat_char p = true -> forallb pat_char q = true ->
  strip_ci p s = Some rp -> strip_ci q s = Some rq ->
  (length q = length p /\ rq = rp) \/
  ((length q < length p)%nat /\ q = firstn (length q) p /\
     exists c r', rq = c :: r' /\ ci_eq (nth (length q) p 0) c = true) \/
  ((length p < length q)%nat /\ p = firstn (length p) q /\
     exists c r', rp = c :: r' /\ ci_eq (nth (length p) q 0) c = true).
Proof.
  induction p as [|a p IH]; intros q s rp rq Hp Hq H1 H2.
  - simpl in H1. injection H1 as <-. destruct q as [|b q].
    + simpl in H2. injection H2 as <-. left. auto.
    + right. right. simpl in H2. destruct s as [|c s]; [discriminate|].
      destruct (ci_eq b c) eqn:E; [|discriminate].
      split; [simpl; lia|]. split; [reflexivity|]. exists c, s. auto.
  - destruct q as [|b q].
    + simpl in H2. injection H2 as <-. right. left. simpl in H1.
      destruct s as [|c s]; [discriminate|]. destruct (ci_eq a c) eqn:E; [|discriminate].
      split; [simpl; lia|]. split; [reflexivity|]. exists c, s. auto.
    + simpl in H1, H2. destruct s as [|c s]; [discriminate|].
      destruct (ci_eq a c) eqn:Ea; [|discriminate]. destruct (ci_eq b c) eqn:Eb; [|discriminate].
      simpl in Hp, Hq. apply andb_true_iff in Hp, Hq. destruct Hp as [Ha Hp], Hq as [Hb Hq].
      assert (a = b) by (eapply ci_eq_inj; eauto). subst b.
      destruct (IH q s rp rq Hp Hq H1 H2) as [[Hl ->]|[(Hl & Hpre & c' & r' & -> & Hc)|(Hl & Hpre & c' & r' & -> & Hc)]].
      * left. simpl. auto.
      * right. left. split; [simpl; lia|]. split; [simpl; f_equal; exact Hpre|]. exists c', r'. auto.
      * right. right. split; [simpl; lia|]. split; [simpl; f_equal; exact Hpre|]. exists c', r'. auto.
Qed.

(* no keyword extends another keyword by an `s` or a `k` *)
Lemma keywords_no_sk_extension :
  forallb (fun kp : list N * ftoken =>
    forallb (fun kq : list N * ftoken =>
      let p := fst kp in let q := fst kq in
      negb (Nat.ltb (length p) (length q) &&
            (if list_eq_dec N.eq_dec p (firstn (length p) q) then true else false) &&
            (N.eqb (nth (length p) q 0) 115 || N.eqb (nth (length p) q 0) 107)))
      keywords) keywords = true.
Proof. vm_compute. reflexivity. Qed.

(* ---------- the situation in which the two tests differ ---------- *)
(* some keyword, spelled up to case folding, is directly followed by a special character *)
Definition conflict (s : list N) : bool :=
  existsb (fun kw : list N * ftoken =>
             match strip_ci (fst kw) s with Some (d :: _) => special d | _ => false end) keywords.

Lemma first_nonident p : forall s d r,
  forallb pat_char p = true -> strip_ci p s = Some (d :: r) -> special d = true ->
  exists run c r', span_ident s = (run, c :: r') /\ special c = true.
Proof.
  induction p as [|a p IH]; intros s d r Hp H Hd.
  - simpl in H. injection H as ->. exists [], d, r. simpl. rewrite (special_not_ident _ Hd). auto.
  - simpl in H. destruct s as [|c s]; [discriminate|]. destruct (ci_eq a c) eqn:E; [|discriminate].
    simpl in Hp. apply andb_true_iff in Hp. destruct Hp as [Ha Hp].
    destruct (is_ident c) eqn:Ec.
    + destruct (IH _ _ _ Hp H Hd) as (run & c' & r' & Hs & Hc'). exists (c :: run), c', r'.
      simpl. rewrite Ec, Hs. auto.
    + exists [], c, s. simpl. rewrite Ec. split; [reflexivity|].
      pose proof (ci_eq_ident _ _ (pat_char_ident _ Ha) E) as Hci. rewrite is_ident_ci_split, Ec in Hci. exact Hci.
Qed.

Lemma find_kw_with_some bd kws s t rest : find_kw_with bd kws s = Some (t, rest) ->
  exists q, In (q, t) kws /\ strip_ci q s = Some rest /\ bd rest = true.
Proof.
  induction kws as [|[q t'] kws IH]; simpl; [discriminate|].
  unfold kw_at_with. destruct (strip_ci q s) as [r|] eqn:E.
  - destruct (bd r) eqn:Eb.
    + intros [= <- <-]. exists q. auto.
    + intros H. destruct (IH H) as (q' & H1 & H2). exists q'. auto.
  - intros H. destruct (IH H) as (q' & H1 & H2). exists q'. auto.
Qed.

Lemma conflict_doomed bd s : mode bd -> conflict s = true ->
  ref_next_with bd s = None \/ exists t rest, ref_next_with bd s = Some (t, rest) /\ doomed rest.
Proof.
  intros Hm Hc. unfold conflict in Hc. apply existsb_exists in Hc. destruct Hc as ([p tp] & Hin & Hc).
  simpl in Hc. destruct (strip_ci p s) as [[|d r]|] eqn:Ep; try discriminate.
  pose proof keywords_pat as HP. rewrite forallb_forall in HP.
  pose proof (HP _ Hin) as Hpp. simpl in Hpp.
  unfold ref_next_with. destruct (find_kw_with bd keywords s) as [[t rest]|] eqn:Ek.
  - (* some keyword is taken: what follows it starts with a special character *)
    right. exists t, rest. split; [reflexivity|].
    destruct (find_kw_with_some _ _ _ _ _ Ek) as (q & Hq & Hsq & Hbd).
    pose proof (HP _ Hq) as Hqp. simpl in Hqp.
    destruct (strip_two p q s _ _ Hpp Hqp Ep Hsq) as [[_ ->]|[(Hl & _ & c & r' & -> & Hci)|(Hl & Hpre & c & r' & Heq & Hci)]].
    + exists d, r. auto.
    + exists c, r'. split; [reflexivity|].
      pose proof (mode_cons _ _ _ Hm Hbd) as Hni.
      assert (Hpc : pat_char (nth (length q) p 0) = true).
      { rewrite forallb_forall in Hpp. apply Hpp. apply nth_In. exact Hl. }
      pose proof (ci_eq_ident _ _ (pat_char_ident _ Hpc) Hci) as H. rewrite is_ident_ci_split, Hni in H. exact H.
    + exfalso. injection Heq as <- <-.
      assert (Hqc : pat_char (nth (length p) q 0) = true).
      { rewrite forallb_forall in Hqp. apply Hqp. apply nth_In. exact Hl. }
      pose proof (ci_eq_special _ _ Hqc Hc Hci) as Hsk.
      pose proof keywords_no_sk_extension as HT. rewrite forallb_forall in HT.
      specialize (HT _ Hin). rewrite forallb_forall in HT. specialize (HT _ Hq). simpl in HT.
      apply negb_true_iff in HT.
      assert (Hlt : Nat.ltb (length p) (length q) = true) by (apply Nat.ltb_lt; exact Hl).
      rewrite Hlt in HT. destruct (list_eq_dec N.eq_dec p (firstn (length p) q)); [|contradiction].
      simpl in HT. destruct Hsk as [E|E]; rewrite E in HT; discriminate.
  - (* no keyword: the identifier run stops at a special character *)
    destruct (first_nonident _ _ _ _ Hpp Ep Hc) as (run & c & r' & Hs & Hsc). rewrite Hs.
    destruct run as [|c0 run].
    + left. apply span_ident_app in Hs. destruct Hs as [-> _]. simpl.
      destruct (special_cases _ Hsc); subst c; reflexivity.
    + right. exists (FName (c0 :: run)), (c :: r'). split; [reflexivity|]. exists c, r'. auto.
Qed.

Lemma no_conflict_same s : conflict s = false -> ref_next_with boundary_plain s = ref_next_with boundary s.
Proof.
  intros Hc. unfold ref_next_with.
  assert (Hk : find_kw_with boundary_plain keywords s = find_kw_with boundary keywords s).
  { unfold conflict in Hc. revert Hc. generalize keywords. intros kws. induction kws as [|[p t] kws IH]; simpl; [reflexivity|].
    intros H. apply orb_false_iff in H. destruct H as [H1 H2]. rewrite (IH H2).
    unfold kw_at_with. destruct (strip_ci p s) as [[|d r]|]; try reflexivity.
    simpl. rewrite is_ident_ci_split, H1, orb_false_r. reflexivity. }
  rewrite Hk. reflexivity.
Qed.

(* ---------- the two readings coincide ---------- *)
Theorem plain_boundary_same_language s ts : lexes_plain s ts <-> lexes s ts.
Proof.
  split.
  - intros (r & H & Er). induction H as [s|s t s' ts r Hn Hr IH].
    + exists s. split; [constructor|exact Er].
    + unfold ref_next_plain in Hn. destruct (conflict (trim_ws s)) eqn:Ec.
      * exfalso. destruct (conflict_doomed boundary_plain _ (or_intror eq_refl) Ec) as [Hx|(t' & rest & Hx & Hd)]; [congruence|].
        rewrite Hn in Hx. injection Hx as <- <-. apply (doomed_no_lexes_plain s' ts Hd). exists r. auto.
      * rewrite (no_conflict_same _ Ec), <- ref_next_is_with in Hn.
        destruct (IH Er) as (r' & Hr' & Er'). exists r'. split; [econstructor; eauto|exact Er'].
  - intros (r & H & Er). induction H as [s|s t s' ts r Hn Hr IH].
    + exists s. split; [constructor|exact Er].
    + rewrite ref_next_is_with in Hn. destruct (conflict (trim_ws s)) eqn:Ec.
      * exfalso. destruct (conflict_doomed boundary _ (or_introl eq_refl) Ec) as [Hx|(t' & rest & Hx & Hd)]; [congruence|].
        rewrite Hn in Hx. injection Hx as <- <-. apply (doomed_no_lexes s' ts Hd). exists r. auto.
      * rewrite <- (no_conflict_same _ Ec) in Hn.
        destruct (IH Er) as (r' & Hr' & Er'). exists r'. split; [econstructor; eauto|exact Er'].
Qed.

(* from_str against the reading with the plain class *)
Definition denotes_plain (s : list N) (e : expr) : Prop :=
  exists forest, lexes_plain s (flatten forest) /\ G_or forest e.

Theorem from_str_denotes_plain s e : from_str s = Ok e <-> denotes_plain s e.
Proof.
  rewrite from_str_denotes. unfold denotes, denotes_plain. split; intros (forest & Hl & Hg); exists forest;
    (split; [apply plain_boundary_same_language; exact Hl|exact Hg]).
Qed.
