(* Refinement of the iterator machines (Model/Iter.v) to the enumeration lists of the model:
   the i-th call of next() on a fresh iterator returns the i-th item of the list, and None from the end of
   the list on, for ever (the iterators are fused); nth / count / last / collect follow. *)
From BBF Require Import Base.Prelude Base.Names Base.Bits Spec.Sem Model.Expr Model.Table Model.LibBdd Model.Bdd Model.Prog Model.Iter
     Proofs.ExprProofs Proofs.TableProofs Proofs.ConvProofs Proofs.RenderProofs Proofs.EnumProofs.

(* what a list-like iterator answers to k calls *)
Definition answers {A} (L : list A) (k : nat) : list (option A) := map (nth_error L) (seq 0 k).

Lemma answers_nil {A} k : answers (@nil A) k = repeat None k.
Proof.
  unfold answers. generalize 0. induction k as [|k IH]; intros s; cbn [seq map repeat]; [reflexivity|].
  rewrite IH. destruct s; reflexivity.
Qed.

Lemma answers_cons {A} (a : A) L k : answers (a :: L) (S k) = Some a :: answers L k.
Proof.
  unfold answers. cbn [seq map nth_error]. f_equal. rewrite <- seq_shift, map_map. reflexivity.
Qed.

Section Refine.
  Context {St A : Type} (next : St -> option A * St).
  (* R s L: the machine in state s still has exactly the items L to give *)
  Variable R : St -> list A -> Prop.
  Hypothesis R_nil : forall s, R s [] -> fst (next s) = None /\ R (snd (next s)) [].
  Hypothesis R_cons : forall s a L, R s (a :: L) -> fst (next s) = Some a /\ R (snd (next s)) L.

  Lemma steps_refine : forall k s L, R s L -> steps next k s = answers L k.
  Proof.
    induction k as [|k IH]; intros s L HR; [reflexivity|].
    cbn [steps]. destruct (next s) as [o s'] eqn:E.
    destruct L as [|a L].
    - destruct (R_nil s HR) as [Ho Hs]. rewrite E in Ho, Hs. cbn in Ho, Hs. subst o.
      rewrite (IH s' [] Hs), !answers_nil. reflexivity.
    - destruct (R_cons s a L HR) as [Ho Hs]. rewrite E in Ho, Hs. cbn in Ho, Hs. subst o.
      rewrite (IH s' L Hs), answers_cons. reflexivity.
  Qed.

  Lemma drain_refine : forall fuel s L, R s L -> length L < fuel -> drain next fuel s = L.
  Proof.
    induction fuel as [|f IH]; intros s L HR Hf; [lia|].
    cbn [drain]. destruct (next s) as [o s'] eqn:E. destruct L as [|a L].
    - destruct (R_nil s HR) as [Ho _]. rewrite E in Ho. cbn in Ho. subst o. reflexivity.
    - destruct (R_cons s a L HR) as [Ho Hs]. rewrite E in Ho, Hs. cbn in Ho, Hs. subst o.
      f_equal. apply IH; [assumption|cbn [length] in Hf; lia].
  Qed.

  Lemma it_nth_refine : forall n s L, R s L ->
    fst (it_nth next n s) = nth_error L n /\ R (snd (it_nth next n s)) (skipn (S n) L).
  Proof.
    induction n as [|n IH]; intros s L HR; cbn [it_nth].
    - destruct L as [|a L].
      + destruct (R_nil s HR) as [Ho Hs]. split; [exact Ho|exact Hs].
      + destruct (R_cons s a L HR) as [Ho Hs]. split; [exact Ho|exact Hs].
    - destruct (next s) as [o s'] eqn:E. destruct L as [|a L].
      + destruct (R_nil s HR) as [Ho Hs]. rewrite E in Ho, Hs. cbn in Ho, Hs. subst o. split; [reflexivity|exact Hs].
      + destruct (R_cons s a L HR) as [Ho Hs]. rewrite E in Ho, Hs. cbn in Ho, Hs. subst o.
        destruct (IH s' L Hs) as [H1 H2]. split; [exact H1|exact H2].
  Qed.
End Refine.

(* the list-like behaviour implies fusedness: once None, always None *)
Lemma answers_fused {A} (L : list A) i j : i <= j -> nth_error L i = None -> nth_error L j = None.
Proof. intros Hij Hi. apply nth_error_None in Hi. apply nth_error_None. lia. Qed.

(* ---------- the domain ---------- *)
Definition dom_R (it : dom_it) (L : list (list bool)) : Prop :=
  exists done, points (di_vc it) = done ++ L /\ di_idx it = N.of_nat (length done).

Lemma pow2_of_nat n : (2 ^ N.of_nat n)%N = N.of_nat (2 ^ n).
Proof. rewrite <- (N2Nat.id (2 ^ N.of_nat n)), pow2_N_nat. reflexivity. Qed.

Lemma dom_R_nil it : dom_R it [] -> fst (dom_next it) = None /\ dom_R (snd (dom_next it)) [].
Proof.
  intros (done & Hp & Hi). unfold dom_next.
  assert (Hl : length done = 2 ^ di_vc it) by (rewrite <- (points_length (di_vc it)), Hp, app_nil_r; reflexivity).
  destruct (N.leb_spec (2 ^ N.of_nat (di_vc it)) (di_idx it)) as [_|H].
  - cbn. split; [reflexivity|]. exists done; auto.
  - exfalso. rewrite pow2_of_nat, Hi, Hl in H. lia.
Qed.

Lemma dom_R_cons it a L : dom_R it (a :: L) -> fst (dom_next it) = Some a /\ dom_R (snd (dom_next it)) L.
Proof.
  intros (done & Hp & Hi). unfold dom_next.
  assert (Hl : length done < 2 ^ di_vc it).
  { rewrite <- (points_length (di_vc it)), Hp, app_length. cbn [length]. lia. }
  destruct (N.leb_spec (2 ^ N.of_nat (di_vc it)) (di_idx it)) as [H|H].
  - exfalso. rewrite pow2_of_nat, Hi in H. lia.
  - cbn [fst snd di_vc di_idx]. split.
    + f_equal. rewrite index_point_spec by exact H. rewrite Hp, Hi, Nat2N.id.
      rewrite app_nth2 by lia. rewrite Nat.sub_diag. reflexivity.
    + unfold dom_R. cbn [di_vc di_idx]. exists (done ++ [a]). rewrite <- app_assoc. split; [exact Hp|].
      rewrite app_length. cbn [length]. rewrite Hi. lia.
Qed.

Lemma dom_new_R n : dom_R (dom_new n) (points n).
Proof. exists []. split; reflexivity. Qed.

Theorem dom_steps_spec n k : steps dom_next k (dom_new n) = answers (points n) k.
Proof. apply (steps_refine dom_next dom_R dom_R_nil dom_R_cons). apply dom_new_R. Qed.

(* ---------- machines that are a map over another machine ---------- *)
Lemma answers_map {A B} (f : A -> B) L k : answers (map f L) k = map (option_map f) (answers L k).
Proof.
  unfold answers. rewrite map_map. apply map_ext. intros i. rewrite nth_error_map. reflexivity.
Qed.

(* ---------- expression iterators ---------- *)
Definition e_pt (it : e_it) (p : list bool) : bool := evaluate (ei_expr it) (val_of_point (ei_vars it) p).

(* the items left, as points *)
Definition e_R {B} (g : e_it -> list (list bool) -> list B) (it : e_it) (L : list B) : Prop :=
  exists done rest, points (length (ei_vars it)) = done ++ rest /\ ei_idx it = N.of_nat (length done) /\ L = g it rest.

Lemma e_it_done_false it done p rest :
  points (length (ei_vars it)) = done ++ p :: rest -> ei_idx it = N.of_nat (length done) ->
  e_it_done it = false /\ index_point (ei_idx it) (length (ei_vars it)) = p /\ length p = length (ei_vars it).
Proof.
  intros Hp Hi.
  assert (Hl : length done < 2 ^ length (ei_vars it)).
  { rewrite <- (points_length (length (ei_vars it))), Hp, app_length. cbn [length]. lia. }
  assert (Hlt : (ei_idx it < 2 ^ N.of_nat (length (ei_vars it)))%N) by (rewrite pow2_of_nat, Hi; lia).
  split; [|split].
  - unfold e_it_done. apply N.leb_gt. exact Hlt.
  - rewrite index_point_spec by exact Hlt. rewrite Hp, Hi, Nat2N.id, app_nth2 by lia.
    rewrite Nat.sub_diag. reflexivity.
  - apply points_In. rewrite Hp. apply in_or_app. right. left. reflexivity.
Qed.

Lemma e_it_done_true it done :
  points (length (ei_vars it)) = done ++ [] -> ei_idx it = N.of_nat (length done) -> e_it_done it = true.
Proof.
  intros Hp Hi. unfold e_it_done. apply N.leb_le.
  assert (Hl : length done = 2 ^ length (ei_vars it)).
  { rewrite <- (points_length (length (ei_vars it))), Hp, app_nil_r. reflexivity. }
  rewrite pow2_of_nat, Hi, Hl. lia.
Qed.

Lemma point_valuation_ok vars p : length p = length vars -> point_valuation vars p = Some (val_of_point vars p).
Proof. intros H. unfold point_valuation. rewrite H, Nat.eqb_refl. reflexivity. Qed.

Lemma e_bump_R {B} (g : e_it -> list (list bool) -> list B) it done p rest :
  (forall r, g (e_it_bump it) r = g it r) ->
  points (length (ei_vars it)) = done ++ p :: rest -> ei_idx it = N.of_nat (length done) ->
  e_R g (e_it_bump it) (g it rest).
Proof.
  intros Hg Hp Hi. exists (done ++ [p]), rest. cbn [e_it_bump ei_vars ei_idx].
  rewrite <- app_assoc. split; [exact Hp|]. split.
  - rewrite app_length. cbn [length]. rewrite Hi. lia.
  - symmetry. apply Hg.
Qed.

Definition g_img (it : e_it) (r : list (list bool)) : list bool := map (e_pt it) r.
Definition g_rel (it : e_it) (r : list (list bool)) : list (list bool * bool) := map (fun p => (p, e_pt it p)) r.
Definition g_sup (it : e_it) (r : list (list bool)) : list (list bool) := filter (e_pt it) r.

Lemma e_img_nil it : e_R g_img it [] -> fst (e_img_next it) = None /\ e_R g_img (snd (e_img_next it)) [].
Proof.
  intros (done & rest & Hp & Hi & HL). unfold g_img in HL. symmetry in HL. apply map_eq_nil in HL. subst rest.
  unfold e_img_next. rewrite (e_it_done_true it done Hp Hi). cbn. split; [reflexivity|].
  exists done, []. auto.
Qed.
Lemma e_img_cons it a L : e_R g_img it (a :: L) -> fst (e_img_next it) = Some a /\ e_R g_img (snd (e_img_next it)) L.
Proof.
  intros (done & rest & Hp & Hi & HL). destruct rest as [|p rest]; [discriminate|].
  cbn [g_img map] in HL. injection HL as Ha HL. subst a L.
  destruct (e_it_done_false it done p rest Hp Hi) as (Hd & Hx & Hlen).
  unfold e_img_next. rewrite Hd, Hx, (point_valuation_ok _ _ Hlen). cbn [fst snd]. split; [reflexivity|].
  apply (e_bump_R g_img it done p rest); auto.
Qed.

Lemma e_rel_nil it : e_R g_rel it [] -> fst (e_rel_next it) = None /\ e_R g_rel (snd (e_rel_next it)) [].
Proof.
  intros (done & rest & Hp & Hi & HL). unfold g_rel in HL. symmetry in HL. apply map_eq_nil in HL. subst rest.
  unfold e_rel_next. rewrite (e_it_done_true it done Hp Hi). cbn. split; [reflexivity|].
  exists done, []. auto.
Qed.
Lemma e_rel_cons it a L : e_R g_rel it (a :: L) -> fst (e_rel_next it) = Some a /\ e_R g_rel (snd (e_rel_next it)) L.
Proof.
  intros (done & rest & Hp & Hi & HL). destruct rest as [|p rest]; [discriminate|].
  cbn [g_rel map] in HL. injection HL as Ha HL. subst a L.
  destruct (e_it_done_false it done p rest Hp Hi) as (Hd & Hx & Hlen).
  unfold e_rel_next. rewrite Hd. cbv zeta. rewrite Hx, (point_valuation_ok _ _ Hlen). cbn [fst snd]. split; [reflexivity|].
  apply (e_bump_R g_rel it done p rest); auto.
Qed.

(* the support loop: skips the points where the function is false *)
Lemma e_sup_loop_spec : forall rest fuel it done,
  points (length (ei_vars it)) = done ++ rest -> ei_idx it = N.of_nat (length done) -> length rest < fuel ->
  match filter (e_pt it) rest with
  | [] => fst (e_sup_loop fuel it) = None /\ e_R g_sup (snd (e_sup_loop fuel it)) []
  | a :: L => fst (e_sup_loop fuel it) = Some a /\ e_R g_sup (snd (e_sup_loop fuel it)) L
  end.
Proof.
  induction rest as [|p rest IH]; intros fuel it done Hp Hi Hf.
  - destruct fuel as [|f]; [cbn [length] in Hf; lia|]. cbn [filter e_sup_loop].
    rewrite (e_it_done_true it done Hp Hi). cbn. split; [reflexivity|]. exists done, []. auto.
  - destruct fuel as [|f]; [cbn [length] in Hf; lia|]. cbn [e_sup_loop].
    destruct (e_it_done_false it done p rest Hp Hi) as (Hd & Hx & Hlen).
    rewrite Hd. cbv zeta. rewrite Hx, (point_valuation_ok _ _ Hlen). cbn [filter].
    change (evaluate (ei_expr it) (val_of_point (ei_vars it) p)) with (e_pt it p).
    destruct (e_pt it p) eqn:Ev.
    + cbn [fst snd]. split; [reflexivity|]. apply (e_bump_R g_sup it done p rest); auto.
    + specialize (IH f (e_it_bump it) (done ++ [p])).
      change (e_pt (e_it_bump it)) with (e_pt it) in IH.
      apply IH.
      * cbn [e_it_bump ei_vars]. rewrite <- app_assoc. exact Hp.
      * cbn [e_it_bump ei_idx]. rewrite app_length. cbn [length]. rewrite Hi. lia.
      * cbn [length] in Hf. lia.
Qed.

Lemma e_sup_fuel it done rest :
  points (length (ei_vars it)) = done ++ rest -> ei_idx it = N.of_nat (length done) ->
  length rest < S (N.to_nat (2 ^ N.of_nat (length (ei_vars it)) - ei_idx it)).
Proof.
  intros Hp Hi.
  assert (Hl : length done + length rest = 2 ^ length (ei_vars it)).
  { rewrite <- (points_length (length (ei_vars it))), Hp, app_length. reflexivity. }
  rewrite pow2_of_nat, Hi. lia.
Qed.

Lemma e_sup_nil it : e_R g_sup it [] -> fst (e_sup_next it) = None /\ e_R g_sup (snd (e_sup_next it)) [].
Proof.
  intros (done & rest & Hp & Hi & HL). unfold e_sup_next.
  pose proof (e_sup_loop_spec rest _ it done Hp Hi (e_sup_fuel it done rest Hp Hi)) as H.
  unfold g_sup in HL. rewrite <- HL in H. exact H.
Qed.
Lemma e_sup_cons it a L : e_R g_sup it (a :: L) -> fst (e_sup_next it) = Some a /\ e_R g_sup (snd (e_sup_next it)) L.
Proof.
  intros (done & rest & Hp & Hi & HL). unfold e_sup_next.
  pose proof (e_sup_loop_spec rest _ it done Hp Hi (e_sup_fuel it done rest Hp Hi)) as H.
  unfold g_sup in HL. rewrite <- HL in H. exact H.
Qed.

Lemma e_new_R {B} (g : e_it -> list (list bool) -> list B) e : e_R g (e_it_new e) (g (e_it_new e) (points (length (literals e)))).
Proof. exists [], (points (length (literals e))). cbn. auto. Qed.

Theorem e_img_steps_spec e k : steps e_img_next k (e_it_new e) = answers (e_image e) k.
Proof. apply (steps_refine e_img_next (e_R g_img) e_img_nil e_img_cons). apply (e_new_R g_img). Qed.
Theorem e_rel_steps_spec e k : steps e_rel_next k (e_it_new e) = answers (e_relation e) k.
Proof. apply (steps_refine e_rel_next (e_R g_rel) e_rel_nil e_rel_cons). apply (e_new_R g_rel). Qed.
Theorem e_sup_steps_spec e k : steps e_sup_next k (e_it_new e) = answers (e_support e) k.
Proof. apply (steps_refine e_sup_next (e_R g_sup) e_sup_nil e_sup_cons). apply (e_new_R g_sup). Qed.

(* ---------- table iterators ---------- *)
Definition vec_R {A} (s L : list A) : Prop := s = L.
Lemma vec_nil {A} (s : list A) : vec_R s [] -> fst (vec_next s) = None /\ vec_R (snd (vec_next s)) [].
Proof. unfold vec_R. intros ->. cbn. auto. Qed.
Lemma vec_cons {A} (s : list A) a L : vec_R s (a :: L) -> fst (vec_next s) = Some a /\ vec_R (snd (vec_next s)) L.
Proof. unfold vec_R. intros ->. cbn. auto. Qed.

Theorem t_img_steps_spec t k : steps t_img_next k (t_img_new t) = answers (t_image t) k.
Proof. apply (steps_refine t_img_next vec_R vec_nil vec_cons). reflexivity. Qed.

Definition rel_from (vc : nat) (pos : nat) (outs : list bool) : list (list bool * bool) :=
  combine (map (fun i => index_point (N.of_nat i) vc) (seq pos (length outs))) outs.
Definition t_rel_R (it : t_rel_it) (L : list (list bool * bool)) : Prop :=
  exists pos, tr_pos it = N.of_nat pos /\ L = rel_from (tr_vc it) pos (tr_rest it).
Lemma t_rel_nil it : t_rel_R it [] -> fst (t_rel_next it) = None /\ t_rel_R (snd (t_rel_next it)) [].
Proof.
  intros (pos & Hpos & HL). unfold t_rel_next. destruct (tr_rest it) as [|b r] eqn:E.
  - cbn. split; [reflexivity|]. exists pos. rewrite E. auto.
  - discriminate.
Qed.
Lemma t_rel_cons it a L : t_rel_R it (a :: L) -> fst (t_rel_next it) = Some a /\ t_rel_R (snd (t_rel_next it)) L.
Proof.
  intros (pos & Hpos & HL). unfold t_rel_next. destruct (tr_rest it) as [|b r] eqn:E; [discriminate|].
  unfold rel_from in HL. cbn [length seq map combine] in HL. injection HL as Ha HL. subst a L.
  cbn [fst snd]. split; [rewrite Hpos; reflexivity|].
  exists (S pos). cbn [tr_pos tr_vc tr_rest]. split; [lia|reflexivity].
Qed.
Theorem t_rel_steps_spec t k : steps t_rel_next k (t_rel_new t) = answers (t_relation t) k.
Proof.
  apply (steps_refine t_rel_next t_rel_R t_rel_nil t_rel_cons). exists 0. split; reflexivity.
Qed.

Lemma true_rows_spec vc : forall outs pos,
  map (fun i => index_point i vc) (true_rows (N.of_nat pos) outs)
  = map fst (filter (fun po : list bool * bool => snd po) (rel_from vc pos outs)).
Proof.
  induction outs as [|b r IH]; intros pos; [reflexivity|].
  unfold rel_from. cbn [true_rows length seq map combine filter snd].
  replace (N.of_nat pos + 1)%N with (N.of_nat (S pos)) by lia.
  destruct b; cbn [map fst]; rewrite IH; reflexivity.
Qed.
Definition t_sup_R (it : t_sup_it) (L : list (list bool)) : Prop := L = map (fun i => index_point i (ts_vc it)) (ts_rows it).
Lemma t_sup_nil it : t_sup_R it [] -> fst (t_sup_next it) = None /\ t_sup_R (snd (t_sup_next it)) [].
Proof.
  unfold t_sup_R, t_sup_next. intros HL. destruct (ts_rows it) as [|i r] eqn:E; [|discriminate].
  cbn. split; [reflexivity|]. rewrite E. reflexivity.
Qed.
Lemma t_sup_cons it a L : t_sup_R it (a :: L) -> fst (t_sup_next it) = Some a /\ t_sup_R (snd (t_sup_next it)) L.
Proof.
  unfold t_sup_R, t_sup_next. intros HL. destruct (ts_rows it) as [|i r] eqn:E; [discriminate|].
  cbn [map] in HL. injection HL as Ha HL. subst a L. cbn. auto.
Qed.
Theorem t_sup_steps_spec t k : steps t_sup_next k (t_sup_new t) = answers (t_support t) k.
Proof.
  apply (steps_refine t_sup_next t_sup_R t_sup_nil t_sup_cons).
  unfold t_sup_R, t_sup_new. cbn [ts_vc ts_rows]. unfold t_support, t_relation.
  symmetry. apply (true_rows_spec (t_nvars t) (t_outputs t) 0).
Qed.

(* ---------- diagram iterators ---------- *)
Definition b_pt (root : dd) (p : list bool) : bool := dd_eval root (fun i => nth i p false).
Definition b_img_R (it : b_img_it) (L : list bool) : Prop :=
  exists Lp, dom_R (bi_dom it) Lp /\ L = map (b_pt (bi_root it)) Lp.
Lemma b_img_nil it : b_img_R it [] -> fst (b_img_next it) = None /\ b_img_R (snd (b_img_next it)) [].
Proof.
  intros (Lp & HR & HL). symmetry in HL. apply map_eq_nil in HL. subst Lp.
  destruct (dom_R_nil _ HR) as [Ho Hs]. unfold b_img_next. destruct (dom_next (bi_dom it)) as [o d].
  cbn in Ho, Hs. subst o. cbn. split; [reflexivity|]. exists []. auto.
Qed.
Lemma b_img_cons it a L : b_img_R it (a :: L) -> fst (b_img_next it) = Some a /\ b_img_R (snd (b_img_next it)) L.
Proof.
  intros (Lp & HR & HL). destruct Lp as [|p Lp]; [discriminate|]. cbn [map] in HL. injection HL as Ha HL. subst a L.
  destruct (dom_R_cons _ _ _ HR) as [Ho Hs]. unfold b_img_next. destruct (dom_next (bi_dom it)) as [o d].
  cbn in Ho, Hs. subst o. cbn. split; [reflexivity|]. exists Lp. auto.
Qed.
Theorem b_img_steps_spec b k : steps b_img_next k (b_img_new b) = answers (b_image b) k.
Proof.
  apply (steps_refine b_img_next b_img_R b_img_nil b_img_cons).
  exists (points (length (b_inputs b))). split; [apply dom_new_R|reflexivity].
Qed.

(* Zip of two list-like machines of equal length *)
Section Zip.
  Context {S1 S2 A B : Type} (n1 : S1 -> option A * S1) (n2 : S2 -> option B * S2).
  Variables (R1 : S1 -> list A -> Prop) (R2 : S2 -> list B -> Prop).
  Hypothesis R1_nil : forall s, R1 s [] -> fst (n1 s) = None /\ R1 (snd (n1 s)) [].
  Hypothesis R1_cons : forall s a L, R1 s (a :: L) -> fst (n1 s) = Some a /\ R1 (snd (n1 s)) L.
  Hypothesis R2_nil : forall s, R2 s [] -> fst (n2 s) = None /\ R2 (snd (n2 s)) [].
  Hypothesis R2_cons : forall s a L, R2 s (a :: L) -> fst (n2 s) = Some a /\ R2 (snd (n2 s)) L.
  Definition zip_R (s : S1 * S2) (L : list (A * B)) : Prop :=
    exists L1 L2, R1 (fst s) L1 /\ R2 (snd s) L2 /\ length L1 = length L2 /\ L = combine L1 L2.
  Lemma zip_nil s : zip_R s [] -> fst (zip_next n1 n2 s) = None /\ zip_R (snd (zip_next n1 n2 s)) [].
  Proof.
    intros (L1 & L2 & H1 & H2 & Hl & HL). destruct L1 as [|a L1], L2 as [|b L2]; try discriminate.
    unfold zip_next. destruct (R1_nil _ H1) as [Ho Hs]. destruct (n1 (fst s)) as [o s1]. cbn in Ho, Hs. subst o.
    cbn. split; [reflexivity|]. exists [], []. auto.
  Qed.
  Lemma zip_cons s x L : zip_R s (x :: L) -> fst (zip_next n1 n2 s) = Some x /\ zip_R (snd (zip_next n1 n2 s)) L.
  Proof.
    intros (L1 & L2 & H1 & H2 & Hl & HL). destruct L1 as [|a L1], L2 as [|b L2]; try discriminate.
    cbn [combine] in HL. injection HL as Hx HL. subst x L. cbn [length] in Hl.
    unfold zip_next. destruct (R1_cons _ _ _ H1) as [Ho Hs]. destruct (n1 (fst s)) as [o s1]. cbn in Ho, Hs. subst o.
    destruct (R2_cons _ _ _ H2) as [Ho2 Hs2]. destruct (n2 (snd s)) as [o2 s2]. cbn in Ho2, Hs2. subst o2.
    cbn. split; [reflexivity|]. exists L1, L2. auto.
  Qed.
End Zip.

Theorem b_rel_steps_spec b k : steps b_rel_next k (b_rel_new b) = answers (b_relation b) k.
Proof.
  apply (steps_refine b_rel_next (zip_R dom_R b_img_R)
           (zip_nil dom_next b_img_next dom_R b_img_R dom_R_nil) (zip_cons dom_next b_img_next dom_R b_img_R dom_R_cons b_img_cons)).
  exists (points (length (b_inputs b))), (b_image b). cbn [fst snd b_rel_new]. split; [apply dom_new_R|]. split.
  - exists (points (length (b_inputs b))). split; [apply dom_new_R|reflexivity].
  - split; [|reflexivity]. unfold b_image, b_domain. rewrite map_length. reflexivity.
Qed.

(* ---------- nth, collect, count, last ---------- *)
Lemma nth_error_skipn_0 {A} : forall n (L : list A), match skipn n L with [] => None | a :: _ => Some a end = nth_error L n.
Proof. induction n as [|n IH]; intros [|a L]; cbn; auto. Qed.

Section Derived.
  Context {St A : Type} (next : St -> option A * St).
  Variable R : St -> list A -> Prop.
  Hypothesis R_nil : forall s, R s [] -> fst (next s) = None /\ R (snd (next s)) [].
  Hypothesis R_cons : forall s a L, R s (a :: L) -> fst (next s) = Some a /\ R (snd (next s)) L.

  Lemma it_nth_then_next n s L : R s L ->
    fst (it_nth next n s) = nth_error L n /\ fst (next (snd (it_nth next n s))) = nth_error L (S n).
  Proof.
    intros HR. destruct (it_nth_refine next R R_nil R_cons n s L HR) as [H1 H2]. split; [exact H1|].
    rewrite <- nth_error_skipn_0. destruct (skipn (S n) L) as [|a r].
    - apply (R_nil _ H2).
    - apply (R_cons _ _ _ H2).
  Qed.

  Lemma it_count_refine fuel s L : R s L -> length L < fuel -> it_count next fuel s = length L.
  Proof. intros HR Hf. unfold it_count. rewrite (drain_refine next R R_nil R_cons fuel s L HR Hf). reflexivity. Qed.

  Lemma it_last_refine fuel s L : R s L -> length L < fuel -> it_last next fuel s = last (map Some L) None.
  Proof. intros HR Hf. unfold it_last. rewrite (drain_refine next R R_nil R_cons fuel s L HR Hf). reflexivity. Qed.
End Derived.

Theorem dom_collect n fuel : 2 ^ n < fuel -> drain dom_next fuel (dom_new n) = points n.
Proof. intros H. apply (drain_refine dom_next dom_R dom_R_nil dom_R_cons); [apply dom_new_R|rewrite points_length; exact H]. Qed.

Theorem e_sup_collect e fuel : 2 ^ length (literals e) < fuel -> drain e_sup_next fuel (e_it_new e) = e_support e.
Proof.
  intros H. apply (drain_refine e_sup_next (e_R g_sup) e_sup_nil e_sup_cons); [apply (e_new_R g_sup)|].
  unfold e_support, e_domain. eapply Nat.le_lt_trans; [apply filter_length_le'|]. rewrite points_length. exact H.
Qed.

(* ---------- per object ---------- *)
Theorem obj_iter_spec o k :
  obj_dom_steps o k = answers (obj_domain o) k /\
  obj_img_steps o k = answers (obj_image o) k /\
  obj_rel_steps o k = answers (obj_relation o) k /\
  (forall l, obj_sup_steps o k = Some l -> l = answers (obj_support o) k).
Proof.
  split; [|split; [|split]].
  - unfold obj_dom_steps. rewrite dom_steps_spec. destruct o; reflexivity.
  - destruct o; cbn [obj_img_steps obj_image]; [apply e_img_steps_spec|apply t_img_steps_spec|apply b_img_steps_spec].
  - destruct o; cbn [obj_rel_steps obj_relation]; [apply e_rel_steps_spec|apply t_rel_steps_spec|apply b_rel_steps_spec].
  - destruct o; cbn [obj_sup_steps obj_support]; intros l [=]; subst l; [apply e_sup_steps_spec|apply t_sup_steps_spec].
Qed.

Lemma obj_domain_points o : obj_domain o = points (obj_dom_count o).
Proof. destruct o; reflexivity. Qed.

Theorem obj_dom_nth_spec o n : obj_dom_nth o n = (nth_error (obj_domain o) n, nth_error (obj_domain o) (S n)).
Proof.
  unfold obj_dom_nth. rewrite obj_domain_points.
  destruct (it_nth_then_next dom_next dom_R dom_R_nil dom_R_cons n _ _ (dom_new_R (obj_dom_count o))) as [H1 H2].
  destruct (it_nth dom_next n (dom_new (obj_dom_count o))) as [a s]. cbn [fst snd] in H1, H2. rewrite H1, H2. reflexivity.
Qed.

Theorem obj_rel_nth_spec o n : obj_rel_nth o n = (nth_error (obj_relation o) n, nth_error (obj_relation o) (S n)).
Proof.
  destruct o as [e|t|b]; cbn [obj_rel_nth obj_relation].
  - destruct (it_nth_then_next e_rel_next (e_R g_rel) e_rel_nil e_rel_cons n _ _ (e_new_R g_rel e)) as [H1 H2].
    destruct (it_nth e_rel_next n (e_it_new e)) as [a s]. cbn [fst snd] in H1, H2. rewrite H1, H2. reflexivity.
  - assert (HR : t_rel_R (t_rel_new t) (t_relation t)) by (exists 0; split; reflexivity).
    destruct (it_nth_then_next t_rel_next t_rel_R t_rel_nil t_rel_cons n _ _ HR) as [H1 H2].
    destruct (it_nth t_rel_next n (t_rel_new t)) as [a s]. cbn [fst snd] in H1, H2. rewrite H1, H2. reflexivity.
  - assert (HR : zip_R dom_R b_img_R (b_rel_new b) (b_relation b)).
    { exists (points (length (b_inputs b))), (b_image b). cbn [fst snd b_rel_new]. split; [apply dom_new_R|]. split.
      - exists (points (length (b_inputs b))). split; [apply dom_new_R|reflexivity].
      - split; [|reflexivity]. unfold b_image, b_domain. rewrite map_length. reflexivity. }
    destruct (it_nth_then_next b_rel_next (zip_R dom_R b_img_R)
               (zip_nil dom_next b_img_next dom_R b_img_R dom_R_nil)
               (zip_cons dom_next b_img_next dom_R b_img_R dom_R_cons b_img_cons) n _ _ HR) as [H1 H2].
    destruct (it_nth b_rel_next n (b_rel_new b)) as [a s]. cbn [fst snd] in H1, H2. rewrite H1, H2. reflexivity.
Qed.

Theorem obj_img_count_spec o : obj_img_count o = length (obj_image o).
Proof.
  destruct o as [e|t|b]; cbn [obj_img_count obj_image].
  - apply (it_count_refine e_img_next (e_R g_img) e_img_nil e_img_cons); [apply (e_new_R g_img)|].
    unfold e_image, e_domain, obj_fuel. cbn [obj_dom_count]. rewrite map_length, points_length. lia.
  - apply (it_count_refine t_img_next vec_R vec_nil vec_cons); [reflexivity|]. unfold t_image. lia.
  - apply (it_count_refine b_img_next b_img_R b_img_nil b_img_cons).
    + exists (points (length (b_inputs b))). split; [apply dom_new_R|reflexivity].
    + unfold b_image, b_domain, obj_fuel. cbn [obj_dom_count]. rewrite map_length, points_length. lia.
Qed.

Theorem obj_dom_last_spec o : obj_dom_last o = last (map Some (obj_domain o)) None.
Proof.
  unfold obj_dom_last. rewrite obj_domain_points.
  apply (it_last_refine dom_next dom_R dom_R_nil dom_R_cons); [apply dom_new_R|]. rewrite points_length. unfold obj_fuel. lia.
Qed.

(* ---------- partly consumed iterators ---------- *)
Lemma skipn_S_tl {A} : forall k (L : list A), skipn (S k) L = tl (skipn k L).
Proof. induction k as [|k IH]; intros [|a L]; try reflexivity. cbn [skipn] in *. apply IH. Qed.

Lemma skipn_length_le {A} k (L : list A) : length (skipn k L) <= length L.
Proof. rewrite skipn_length. lia. Qed.

Section Rest.
  Context {St A : Type} (next : St -> option A * St).
  Variable R : St -> list A -> Prop.
  Hypothesis R_nil : forall s, R s [] -> fst (next s) = None /\ R (snd (next s)) [].
  Hypothesis R_cons : forall s a L, R s (a :: L) -> fst (next s) = Some a /\ R (snd (next s)) L.

  Lemma rest_R n s L : R s L -> R (snd (next (snd (it_nth next n s)))) (skipn (S (S n)) L).
  Proof.
    intros HR. destruct (it_nth_refine next R R_nil R_cons n s L HR) as [_ H2].
    rewrite (skipn_S_tl (S n)). destruct (skipn (S n) L) as [|a r].
    - apply (R_nil _ H2).
    - apply (R_cons _ _ _ H2).
  Qed.

  Lemma rest_count n s L fuel : R s L -> length L < fuel ->
    it_count next fuel (snd (next (snd (it_nth next n s)))) = length (skipn (S (S n)) L).
  Proof.
    intros HR Hf. apply (it_count_refine next R R_nil R_cons); [apply rest_R; exact HR|].
    pose proof (skipn_length_le (S (S n)) L). lia.
  Qed.

  Lemma rest_last n s L fuel : R s L -> length L < fuel ->
    it_last next fuel (snd (next (snd (it_nth next n s)))) = last (map Some (skipn (S (S n)) L)) None.
  Proof.
    intros HR Hf. apply (it_last_refine next R R_nil R_cons); [apply rest_R; exact HR|].
    pose proof (skipn_length_le (S (S n)) L). lia.
  Qed.
End Rest.

Theorem obj_dom_rest_spec o n :
  obj_dom_rest o n = (length (skipn (S (S n)) (obj_domain o)), last (map Some (skipn (S (S n)) (obj_domain o))) None).
Proof.
  unfold obj_dom_rest. rewrite obj_domain_points.
  assert (Hf : length (points (obj_dom_count o)) < obj_fuel o) by (rewrite points_length; unfold obj_fuel; lia).
  rewrite (rest_count dom_next dom_R dom_R_nil dom_R_cons n _ _ _ (dom_new_R _) Hf).
  rewrite (rest_last dom_next dom_R dom_R_nil dom_R_cons n _ _ _ (dom_new_R _) Hf). reflexivity.
Qed.

Theorem obj_img_rest_spec o n : obj_img_rest o n = length (skipn (S (S n)) (obj_image o)).
Proof.
  destruct o as [e|t|b]; cbn [obj_img_rest obj_image].
  - apply (rest_count e_img_next (e_R g_img) e_img_nil e_img_cons); [apply (e_new_R g_img)|].
    unfold e_image, e_domain, obj_fuel. cbn [obj_dom_count]. rewrite map_length, points_length. lia.
  - apply (rest_count t_img_next vec_R vec_nil vec_cons); [reflexivity|]. unfold t_image. lia.
  - apply (rest_count b_img_next b_img_R b_img_nil b_img_cons).
    + exists (points (length (b_inputs b))). split; [apply dom_new_R|reflexivity].
    + unfold b_image, b_domain, obj_fuel. cbn [obj_dom_count]. rewrite map_length, points_length. lia.
Qed.
