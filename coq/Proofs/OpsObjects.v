(* C05 / C06 / C07 / C03 for an object of ANY representation (the operations as the case language runs them). *)
From BBF Require Import Base.Prelude Base.Names Base.Bits Spec.Sem
     Model.Expr Model.Table Model.LibBdd Model.Bdd Model.Lexer Model.Parser Model.Display Model.Render Model.Csv Model.Prog
     Proofs.ExprProofs Proofs.TableProofs Proofs.QuantProofs Proofs.NfProofs Proofs.DdProofs Proofs.BddProofs Proofs.BddOps
     Proofs.ConvProofs Proofs.ProgProofs Proofs.ConvChain.

Definition self_entry (o : obj) : entry := {| e_obj := o; e_spec := {| ins := decl o; fn := osem o |}; e_opaque := false |}.

Lemma rel_self o : owf o -> Rel (self_entry o).
Proof.
  intros Hw. unfold Rel, self_entry; simpl. split; [exact Hw|]. split; [reflexivity|].
  destruct o; simpl; try reflexivity. apply incl_refl.
Qed.

(* restriction: value at x = value at x overridden by the assignment; the restricted variables leave the inputs, all
   others stay; no representation can fail or panic on a well-formed object *)
Theorem obj_restrict_spec o rho : owf o ->
  exists o', exec_restrict o rho = Ok o' /\ owf o' /\ obj_kind o' = obj_kind o /\
             (forall v, osem o' v = osem o (override v rho)) /\
             decl o' = set_diff (decl o) (keys rho).
Proof.
  intros Hw. pose proof (rel_self o Hw) as Hrel.
  destruct o as [e|t|b]; simpl.
  - eexists. split; [reflexivity|].
    pose proof (rel_restrict (self_entry (OE e)) rho _ Hrel eq_refl) as (W & S & _). simpl in *.
    exact (conj W (conj eq_refl (conj S (literals_restrict e rho)))).
  - eexists. split; [reflexivity|].
    pose proof (rel_restrict (self_entry (OT t)) rho _ Hrel eq_refl) as (W & S & I). simpl in *.
    exact (conj W (conj eq_refl (conj S I))).
  - destruct (b_restrict debug_build b rho) as [b'|c|c] eqn:E.
    + eexists. split; [reflexivity|].
      assert (He : exec_restrict (e_obj (self_entry (OB b))) rho = Ok (OB b')) by (simpl; rewrite E; reflexivity).
      pose proof (rel_restrict (self_entry (OB b)) rho _ Hrel He) as (W & S & I). simpl in *.
      exact (conj W (conj eq_refl (conj S I))).
    + exfalso. destruct (b_restrict_spec debug_build b rho Hw) as (r & Hr & _). rewrite Hr in E. discriminate.
    + exfalso. destruct (b_restrict_spec debug_build b rho Hw) as (r & Hr & _). rewrite Hr in E. discriminate.
Qed.

(* quantifiers and derivative: the result is the elimination of the variables one at a time with or / and / xor;
   none of the variables remains an input, all others stay; total on well-formed objects *)
Theorem obj_quant_spec q o vars : owf o ->
  exists o', exec_quant q o vars = Ok o' /\ owf o' /\ obj_kind o' = obj_kind o /\
             (forall v, osem o' v = elim_fn (quant_op q) vars (osem o) v) /\
             decl o' = set_diff (decl o) vars.
Proof.
  intros Hw. pose proof (rel_self o Hw) as Hrel.
  assert (Hex : exists o', exec_quant q o vars = Ok o' /\ obj_kind o' = obj_kind o /\ decl o' = set_diff (decl o) vars).
  { destruct o as [e|t|b]; simpl.
    - eexists. split; [reflexivity|]. split; [reflexivity|]. simpl.
      destruct q; [apply e_exists_literals|apply e_forall_literals|apply e_derivative_literals].
    - eexists. split; [reflexivity|]. split; [reflexivity|]. simpl.
      destruct q; [apply (t_elim_spec orb)|apply (t_elim_spec andb)|apply (t_elim_spec xorb)]; auto.
    - assert (Hq : exists r, (match q with QExists => b_exists debug_build b vars | QForall => b_forall debug_build b vars
                                      | QDeriv => b_derivative debug_build b vars end) = Ok r /\
                             b_inputs r = set_diff (b_inputs b) vars).
      { destruct q; [destruct (b_exists_spec debug_build b vars Hw) as (r & Hr & _ & I & _)
                    |destruct (b_forall_spec debug_build b vars Hw) as (r & Hr & _ & I & _)
                    |destruct (b_derivative_spec debug_build b vars Hw) as (r & Hr & _ & I & _)]; eauto. }
      destruct Hq as (r & Hr & I). rewrite Hr. simpl. eexists. split; [reflexivity|]. split; [reflexivity|exact I]. }
  destruct Hex as (o' & He & Hk & Hd). exists o'. split; [exact He|].
  pose proof (rel_quant q (self_entry o) vars o' Hrel He) as (W & S & _). simpl in W, S.
  exact (conj W (conj Hk (conj S Hd))).
Qed.

(* the five binary connectives on two objects of the same representation: pointwise, over the union of the inputs
   (for expressions: within the union) *)
Theorem obj_op2_spec op x y z : owf x -> owf y -> exec_op2 op x y = Ok z ->
  owf z /\ obj_kind z = obj_kind x /\
  (forall v, osem z v = bool_op op (osem x v) (osem y v)) /\
  match z with
  | OE e => incl (literals e) (set_union (decl x) (decl y))
  | _ => decl z = set_union (decl x) (decl y)
  end.
Proof.
  intros Wx Wy He.
  pose proof (rel_op2 op (self_entry x) (self_entry y) z (rel_self x Wx) (rel_self y Wy) He) as (W & S & I).
  simpl in W, S, I.
  assert (Hk : obj_kind z = obj_kind x).
  { destruct x as [a|a|a], y as [b|b|b]; simpl in He; try discriminate.
    - injection He as <-. reflexivity.
    - injection He as <-. reflexivity.
    - destruct (b_bit debug_build (dd_op op) a b); simpl in He; try discriminate. injection He as <-. reflexivity. }
  split; [exact W|]. split; [exact Hk|]. split; [exact S|].
  destruct z; exact I.
Qed.

(* and they cannot fail on well-formed operands of the same representation *)
Theorem obj_op2_total op x y : owf x -> owf y -> obj_kind x = obj_kind y -> exists z, exec_op2 op x y = Ok z.
Proof.
  intros Wx Wy Hk. destruct x as [a|a|a], y as [b|b|b]; simpl in *; try discriminate; try (eexists; reflexivity).
  destruct (b_bit_spec debug_build (bool_op op) a b Wx Wy) as (r & Hr & _).
  assert (Hop : dd_op op = dd_apply (bool_op op)) by (destruct op; reflexivity).
  rewrite Hop, Hr. simpl. eexists. reflexivity.
Qed.

(* negation *)
Theorem obj_not_spec x : owf x ->
  exists z, exec_op1 ONot x = Ok z /\ owf z /\ obj_kind z = obj_kind x /\ (forall v, osem z v = negb (osem x v)) /\
            match z with OE e => incl (literals e) (decl x) | _ => decl z = decl x end.
Proof.
  intros Wx. destruct x as [e|t|b]; simpl; eexists; (split; [reflexivity|]).
  - pose proof (rel_op1 ONot (self_entry (OE e)) _ (rel_self (OE e) Wx) eq_refl) as (W & S & I). simpl in *.
    exact (conj W (conj eq_refl (conj S I))).
  - pose proof (rel_op1 ONot (self_entry (OT t)) _ (rel_self (OT t) Wx) eq_refl) as (W & S & I). simpl in *.
    exact (conj W (conj eq_refl (conj S I))).
  - pose proof (rel_op1 ONot (self_entry (OB b)) _ (rel_self (OB b) Wx) eq_refl) as (W & S & I). simpl in *.
    exact (conj W (conj eq_refl (conj S I))).
Qed.

(* substitution: simultaneous composition, for a map of objects of any representation *)
Theorem obj_subst_spec o (m : list (name * obj)) o' : owf o -> (forall k g, In (k, g) m -> owf g) ->
  exec_subst o m = Ok o' ->
  owf o' /\
  forall v, osem o' v = osem o (fun k => match get m k with Some g => osem g v | None => v k end).
Proof.
  intros Hw Hm He.
  set (me := map (fun kg => (fst kg, self_entry (snd kg))) m).
  assert (Hobj : map (fun ke => (fst ke, e_obj (snd ke))) me = m).
  { unfold me. rewrite map_map. simpl. rewrite <- (map_id m) at 2. apply map_ext. intros (k, g). reflexivity. }
  assert (Hok : me_ok me).
  { intros k x Hin. unfold me in Hin. apply in_map_iff in Hin. destruct Hin as ((k0, g) & Heq & Hin). simpl in Heq.
    injection Heq as <- <-. apply rel_self. exact (Hm k0 g Hin). }
  assert (He' : exec_subst (e_obj (self_entry o)) (map (fun ke => (fst ke, e_obj (snd ke))) me) = Ok o')
    by (rewrite Hobj; exact He).
  pose proof (rel_subst (self_entry o) me o' (rel_self o Hw) Hok He') as (W & S & _). simpl in W, S.
  split; [exact W|]. intros v. rewrite S. unfold subst_env. apply osem_ext. intros k.
  rewrite get_me_spec. unfold me. rewrite (get_map_snd self_entry). destruct (get m k) as [g|]; reflexivity.
Qed.
