(* Every operation of the Bdd wrapper refines the specification and keeps the object well-formed. *)
From BBF Require Import Base.Prelude Base.Names Base.Bits Spec.Sem
     Model.Expr Model.Table Model.LibBdd Model.Bdd
     Proofs.ExprProofs Proofs.TableProofs Proofs.QuantProofs Proofs.DdProofs Proofs.BddProofs.

Lemma wf_inv b : wf_bdd b -> inv 0 (b_nv b) (b_root b).
Proof. intros (_ & _ & H). exact H. Qed.

(* ---------- evaluation ---------- *)
Lemma nth_map_error {A} (g : A -> bool) l i :
  nth i (map g l) false = match nth_error l i with Some x => g x | None => false end.
Proof. revert i. induction l as [|a l IH]; intros [|i]; simpl; auto. Qed.

Theorem b_eval_default_sem b rho d : b_eval_default b rho d = bsem b (complete d rho).
Proof.
  unfold b_eval_default, bsem. apply eval_ext. intros i. unfold point_of. apply nth_map_error.
Qed.

Theorem b_eval_checked_spec b rho :
  match b_eval_checked b rho with
  | inl r => (forall x, In x (b_inputs b) -> get rho x <> None) /\ forall d, r = bsem b (complete d rho)
  | inr errs => errs <> [] /\ errs = missing rho (b_inputs b)
  end.
Proof.
  unfold b_eval_checked. fold (missing rho (b_inputs b)).
  destruct (missing rho (b_inputs b)) as [|e errs] eqn:E.
  - split; [apply missing_nil_iff; exact E|]. intros d. unfold b_evaluate. rewrite b_eval_default_sem.
    unfold bsem. apply eval_ext. intros i. destruct (nth_error (b_inputs b) i) as [x|] eqn:Ex; [|reflexivity].
    unfold complete. destruct (get rho x) eqn:G; [reflexivity|].
    exfalso. apply (proj1 (missing_nil_iff _ _) E x); auto. eapply nth_error_In; eauto.
  - split; [discriminate|reflexivity].
Qed.

Lemma bsem_coincidence b v v' : (forall x, In x (b_inputs b) -> v x = v' x) -> bsem b v = bsem b v'.
Proof.
  intros H. unfold bsem. apply eval_ext. intros i. destruct (nth_error (b_inputs b) i) as [x|] eqn:E; [|reflexivity].
  apply H. eapply nth_error_In; eauto.
Qed.

(* ---------- connectives ---------- *)
Theorem b_bit_spec dbg op a b : wf_bdd a -> wf_bdd b ->
  exists r, b_bit dbg (dd_apply op) a b = Ok r /\ wf_bdd r /\
            b_inputs r = set_union (b_inputs a) (b_inputs b) /\
            forall v, bsem r v = op (bsem a v) (bsem b v).
Proof.
  intros Ha Hb. unfold b_bit. destruct (names_eqb_spec (b_inputs a) (b_inputs b)) as [E|NE].
  - destruct Ha as (Sa & Na & Ia), Hb as (Sb & Nb & Ib).
    assert (Env : b_nv a = b_nv b) by congruence.
    eexists. split; [reflexivity|]. split; [|split].
    + split; [exact Sa|]. split; [exact Na|]. cbn [b_nv b_root]. apply apply_inv; auto. rewrite Env. exact Ib.
    + cbn [b_inputs]. rewrite <- E. symmetry. apply set_union_idem. exact Sa.
    + intros v. unfold bsem. cbn [b_root b_inputs]. rewrite <- E.
      apply (apply_sem op _ _ 0); [apply Ia|apply Ib].
  - unfold common_inputs. fold (set_union (b_inputs a) (b_inputs b)).
    set (common := set_union (b_inputs a) (b_inputs b)).
    destruct (extend_ok dbg a common Ha (set_union_sset _ _)) as (a' & -> & Wa & Ia' & Sa' & _).
    { intros x Hx. apply set_union_In. auto. }
    destruct (extend_ok dbg b common Hb (set_union_sset _ _)) as (b' & -> & Wb & Ib' & Sb' & _).
    { intros x Hx. apply set_union_In. auto. }
    cbn [bind]. eexists. split; [reflexivity|]. split; [|split; [reflexivity|]].
    + destruct Wa as (_ & Na' & Inva), Wb as (_ & Nb' & Invb). rewrite Ia' in Na'. rewrite Ib' in Nb'.
      split; [apply set_union_sset|]. split; [reflexivity|]. cbn [b_nv b_root].
      apply apply_inv; [rewrite <- Na'|rewrite <- Nb']; auto.
    + intros v. unfold bsem at 1. cbn [b_root b_inputs]. rewrite <- Sa', <- Sb'. unfold bsem.
      rewrite Ia', Ib'. apply (apply_sem op _ _ 0); [apply Wa|apply Wb].
Qed.

Theorem b_not_spec a : wf_bdd a ->
  wf_bdd (b_not a) /\ b_inputs (b_not a) = b_inputs a /\ forall v, bsem (b_not a) v = negb (bsem a v).
Proof.
  intros (Sa & Na & Ia). split; [|split].
  - split; [exact Sa|]. split; [exact Na|]. cbn [b_not b_nv b_root]. apply dd_not_inv. exact Ia.
  - reflexivity.
  - intros v. unfold bsem. cbn [b_not b_root b_inputs]. apply dd_not_sem.
Qed.

(* ---------- inner variables and names ---------- *)
Section Inner.
  Variable inputs : list name.
  Hypothesis Hs : sset inputs.

  Lemma ienv_upd_some v x b i : index_of x inputs = Some i ->
    forall j, ienv inputs (upd v x b) j = updn (ienv inputs v) i b j.
  Proof.
    intros Hi j. unfold ienv, updn, upd. destruct (nth_error inputs j) as [y|] eqn:Ey.
    - destruct (Nat.eqb_spec j i) as [->|N].
      + apply index_of_nth in Hi. rewrite Hi in Ey. injection Ey as <-. rewrite name_eqb_refl. reflexivity.
      + destruct (name_eqb_spec y x) as [->|]; [|reflexivity].
        exfalso. apply N. pose proof (index_of_NoDup inputs (sset_NoDup _ Hs) j x Ey). congruence.
    - destruct (Nat.eqb_spec j i) as [->|N]; [|reflexivity].
      apply index_of_nth in Hi. congruence.
  Qed.

  Lemma ienv_upd_none v x b : index_of x inputs = None -> forall j, ienv inputs (upd v x b) j = ienv inputs v j.
  Proof.
    intros Hn j. unfold ienv, upd. destruct (nth_error inputs j) as [y|] eqn:Ey; [|reflexivity].
    destruct (name_eqb_spec y x) as [->|]; [|reflexivity].
    exfalso. apply index_of_None in Hn. apply Hn. eapply nth_error_In; eauto.
  Qed.

  (* one elimination step on the inner tree = one step of the specification *)
  Variable bop : bool -> bool -> bool.
  Variable foreign : dd -> dd.     (* what happens for a name that is not an input *)
  Hypothesis foreign_sem : forall t p k, ordered_from k t -> dd_eval (foreign t) p = bop (dd_eval t p) (dd_eval t p).
  Hypothesis foreign_inv : forall t k nv, inv k nv t -> inv k nv (foreign t).
  Hypothesis foreign_occ : forall t y, occurs y (foreign t) -> occurs y t.

  Definition step (acc : dd) (x : name) : dd :=
    match index_of x inputs with
    | Some i => dd_apply bop (dd_restrict1 i false acc) (dd_restrict1 i true acc)
    | None => foreign acc
    end.

  Lemma step_inv nv acc x : inv 0 nv acc -> inv 0 nv (step acc x).
  Proof.
    intros H. unfold step. destruct (index_of x inputs); [|apply foreign_inv; auto].
    apply apply_inv; apply restrict1_inv; auto.
  Qed.

  Lemma step_sem nv acc x v : inv 0 nv acc ->
    dd_eval (step acc x) (ienv inputs v) =
    bop (dd_eval acc (ienv inputs (upd v x false))) (dd_eval acc (ienv inputs (upd v x true))).
  Proof.
    intros Hinv. pose proof Hinv as (Ho & _). unfold step. destruct (index_of x inputs) as [i|] eqn:Ei.
    - rewrite (apply_sem bop _ _ 0);
        [|apply (restrict1_inv i false nv acc 0 Hinv)|apply (restrict1_inv i true nv acc 0 Hinv)].
      rewrite !(restrict1_sem _ _ _ 0) by auto.
      f_equal; apply eval_ext; intros j; symmetry; apply ienv_upd_some; auto.
    - rewrite (foreign_sem _ _ 0) by auto. f_equal; apply eval_ext; intros j; symmetry; apply ienv_upd_none; auto.
  Qed.

  Lemma fold_step_inv nv vars : forall acc, inv 0 nv acc -> inv 0 nv (fold_left step vars acc).
  Proof. induction vars as [|x r IH]; intros acc H; simpl; [exact H|]. apply IH. apply step_inv. exact H. Qed.

  Theorem fold_step_sem nv vars : forall acc v, inv 0 nv acc ->
    dd_eval (fold_left step vars acc) (ienv inputs v) = elim_fn bop vars (fun w => dd_eval acc (ienv inputs w)) v.
  Proof.
    induction vars as [|x r IH]; intros acc v H; simpl; [reflexivity|].
    rewrite IH by (apply step_inv; auto). apply elim_fn_ext. intros w. apply (step_sem nv). exact H.
  Qed.

  (* an eliminated input no longer occurs *)
  Lemma occurs_apply op y a : forall b, occurs y (dd_apply op a b) -> occurs y a \/ occurs y b.
  Proof.
    assert (Hmk : forall v lo hi, occurs y (mk v lo hi) -> v = y \/ occurs y lo \/ occurs y hi).
    { intros v lo hi. unfold mk. destruct (dd_eqb lo hi); simpl; tauto. }
    induction a as [c|v al IHal ah IHah]; intros b.
    - induction b as [d|w bl IHbl bh IHbh]; simpl; [tauto|].
      intros H. apply Hmk in H. destruct H as [->|[H|H]]; [simpl; tauto|apply IHbl in H|apply IHbh in H]; simpl in *; tauto.
    - induction b as [d|w bl IHbl bh IHbh].
      + cbn [dd_apply]. intros H. apply Hmk in H. destruct H as [->|[H|H]]; [simpl; tauto|apply IHal in H|apply IHah in H]; simpl in *; tauto.
      + cbn [dd_apply]. destruct (Nat.compare v w); intros H; apply Hmk in H.
        * destruct H as [->|[H|H]]; [simpl; tauto|apply IHal in H|apply IHah in H]; simpl in *; tauto.
        * destruct H as [->|[H|H]]; [simpl; tauto|apply IHal in H|apply IHah in H]; simpl in *; tauto.
        * destruct H as [->|[H|H]]; [simpl; tauto|apply IHbl in H|apply IHbh in H]; simpl in *; tauto.
  Qed.

  Lemma step_occurs acc x y : occurs y (step acc x) -> occurs y acc.
  Proof.
    unfold step. destruct (index_of x inputs); [|apply foreign_occ].
    intros H. apply occurs_apply in H. destruct H as [H|H]; eapply occurs_restrict1; eauto.
  Qed.

  Lemma fold_step_occurs vars : forall acc y, occurs y (fold_left step vars acc) -> occurs y acc.
  Proof.
    induction vars as [|x r IH]; intros acc y H; simpl in H; [exact H|].
    apply IH in H. eapply step_occurs; eauto.
  Qed.

  Lemma fold_step_removed nv vars : forall acc x i, inv 0 nv acc -> In x vars -> index_of x inputs = Some i ->
    ~ occurs i (fold_left step vars acc).
  Proof.
    induction vars as [|y r IH]; intros acc x i Hinv Hx Hi; [destruct Hx|]. simpl.
    destruct Hx as [->|Hx].
    - intros H. apply fold_step_occurs in H. unfold step in H. rewrite Hi in H.
      apply occurs_apply in H. destruct Hinv as (Ho & _).
      destruct H as [H|H]; eapply restrict1_not_occurs; eauto.
    - apply (IH _ x i); auto. apply step_inv. auto.
  Qed.
End Inner.

(* ---------- restriction ---------- *)
Definition updl (lib : list (nat * bool)) (p : nat -> bool) : nat -> bool :=
  fold_right (fun xb q => updn q (fst xb) (snd xb)) p lib.

Lemma dd_restrict_inv nv lib : forall t, inv 0 nv t -> inv 0 nv (dd_restrict lib t).
Proof.
  unfold dd_restrict. induction lib as [|[x b] r IH]; intros t H; simpl; [exact H|].
  apply IH. apply restrict1_inv. exact H.
Qed.

Lemma dd_restrict_sem nv lib : forall t p, inv 0 nv t -> dd_eval (dd_restrict lib t) p = dd_eval t (updl lib p).
Proof.
  unfold dd_restrict. induction lib as [|[x b] r IH]; intros t p H; simpl; [reflexivity|].
  rewrite IH by (apply restrict1_inv; auto). apply (restrict1_sem x b t 0). apply H.
Qed.

Lemma dd_restrict_occurs lib : forall t y, occurs y (dd_restrict lib t) -> occurs y t.
Proof.
  unfold dd_restrict. induction lib as [|[x b] r IH]; intros t y H; simpl in H; [exact H|].
  apply IH in H. eapply occurs_restrict1; eauto.
Qed.

Lemma dd_restrict_removed nv lib : forall t i b, inv 0 nv t -> In (i, b) lib -> ~ occurs i (dd_restrict lib t).
Proof.
  unfold dd_restrict. induction lib as [|[x c] r IH]; intros t i b H Hin; [destruct Hin|]. simpl.
  destruct Hin as [[= -> ->]|Hin].
  - intros Ho. apply (dd_restrict_occurs r) in Ho. destruct H as (Hord & _).
    eapply restrict1_not_occurs; eauto.
  - apply (IH _ i b); auto. apply restrict1_inv. auto.
Qed.

Definition lib_of (inputs : list name) (rho : valuation) : list (nat * bool) :=
  flat_map (fun kv => match index_of (fst kv) inputs with Some i => [(i, snd kv)] | None => [] end) rho.

Lemma updl_app a b p : forall j, updl (a ++ b) p j = updl a (updl b p) j.
Proof. intros j. unfold updl. rewrite fold_right_app. reflexivity. Qed.

Lemma updl_ext lib : forall p q, (forall j, p j = q j) -> forall j, updl lib p j = updl lib q j.
Proof.
  induction lib as [|[x b] r IH]; intros p q H j; simpl; [apply H|].
  unfold updn. destruct (Nat.eqb j x); [reflexivity|]. apply IH. exact H.
Qed.

Lemma override_cons v k b r y : override v ((k, b) :: r) y = upd (override v r) k b y.
Proof. unfold override, upd. simpl. destruct (name_eqb y k); reflexivity. Qed.

Lemma updl_lib_of inputs rho v : sset inputs ->
  forall j, updl (lib_of inputs rho) (ienv inputs v) j = ienv inputs (override v rho) j.
Proof.
  intros Hs. induction rho as [|[k b] r IH]; intros j; [reflexivity|].
  unfold lib_of. cbn [flat_map fst snd]. fold (lib_of inputs r). rewrite updl_app.
  transitivity (ienv inputs (upd (override v r) k b) j).
  - destruct (index_of k inputs) as [i|] eqn:Ei.
    + cbn [updl fold_right fst snd]. rewrite (ienv_upd_some inputs Hs _ k b i Ei).
      unfold updn. destruct (Nat.eqb j i); [reflexivity|]. apply IH.
    + cbn [updl fold_right]. rewrite (ienv_upd_none inputs _ k b Ei). apply IH.
  - unfold ienv. destruct (nth_error inputs j); [|reflexivity]. symmetry. apply override_cons.
Qed.

Lemma lib_of_In inputs rho x i : sset inputs -> index_of x inputs = Some i -> has rho x = true ->
  exists b, In (i, b) (lib_of inputs rho).
Proof.
  intros Hs Hi Hh. apply has_keys in Hh. unfold keys in Hh. apply in_map_iff in Hh.
  destruct Hh as ([k b] & Hk & Hin). simpl in Hk. subst k. exists b.
  unfold lib_of. apply in_flat_map. exists (x, b). split; auto. simpl. rewrite Hi. simpl. auto.
Qed.

Theorem b_restrict_spec dbg b rho : wf_bdd b ->
  exists r, b_restrict dbg b rho = Ok r /\ wf_bdd r /\
            b_inputs r = set_diff (b_inputs b) (keys rho) /\
            forall v, bsem r v = bsem b (override v rho).
Proof.
  intros Hwf. pose proof Hwf as (Hs & Hnv & Hinv). unfold b_restrict, outer_to_inner. fold (lib_of (b_inputs b) rho).
  set (b1 := {| b_inputs := b_inputs b; b_nv := b_nv b; b_root := dd_restrict (lib_of (b_inputs b) rho) (b_root b) |}).
  assert (W1 : wf_bdd b1) by (split; [exact Hs|split; [exact Hnv|apply dd_restrict_inv; exact Hinv]]).
  destruct (prune_ok dbg b1 (kept_inputs b rho) W1) as (r & Hr & Wr & Ir & Sr).
  - apply filter_sset. exact Hs.
  - intros x Hx. apply filter_In in Hx. apply Hx.
  - intros i x Ho Hx. cbn [b1 b_root b_inputs] in *. apply filter_In. split; [eapply nth_error_In; eauto|].
    destruct (has rho x) eqn:Hh; [|reflexivity]. exfalso.
    pose proof (index_of_NoDup _ (sset_NoDup _ Hs) i x Hx) as Hi.
    destruct (lib_of_In _ rho x i Hs Hi Hh) as (c & Hc).
    exact (dd_restrict_removed (b_nv b) _ _ i c Hinv Hc Ho).
  - exists r. split; [exact Hr|]. split; [exact Wr|]. split.
    + rewrite Ir. apply kept_is_diff.
    + intros v. rewrite Sr. unfold bsem. cbn [b1 b_root b_inputs].
      rewrite (dd_restrict_sem (b_nv b)) by exact Hinv. apply eval_ext. intros j.
      fold (ienv (b_inputs b) v). apply updl_lib_of. exact Hs.
Qed.

(* ---------- quantifiers and derivative ---------- *)
Lemma keys_set_valuation vars : keys (set_valuation vars) = vars.
Proof. unfold keys, set_valuation. rewrite map_map. simpl. apply map_id. Qed.

Lemma has_set_valuation vars x : has (set_valuation vars) x = mem x vars.
Proof. rewrite has_mem_keys, keys_set_valuation. reflexivity. Qed.

Lemma fold_flat_map (inputs : list name) (g : nat -> dd -> dd) vars : forall t,
  fold_left (fun acc i => g i acc)
            (flat_map (fun x => match index_of x inputs with Some i => [i] | None => [] end) vars) t
  = fold_left (fun acc x => match index_of x inputs with Some i => g i acc | None => acc end) vars t.
Proof.
  induction vars as [|x r IH]; intros t; simpl; [reflexivity|].
  rewrite fold_left_app. destruct (index_of x inputs); simpl; apply IH.
Qed.

Section Quant.
  Variable bop : bool -> bool -> bool.
  Variable foreign : dd -> dd.
  Hypothesis foreign_sem : forall t p k, ordered_from k t -> dd_eval (foreign t) p = bop (dd_eval t p) (dd_eval t p).
  Hypothesis foreign_inv : forall t k nv, inv k nv t -> inv k nv (foreign t).
  Hypothesis foreign_occ : forall t y, occurs y (foreign t) -> occurs y t.

  Theorem quant_core dbg b vars : wf_bdd b ->
    let root := fold_left (step (b_inputs b) bop foreign) vars (b_root b) in
    exists r, prune dbg {| b_inputs := b_inputs b; b_nv := b_nv b; b_root := root |}
                    (kept_inputs b (set_valuation vars)) = Ok r /\
              wf_bdd r /\ b_inputs r = set_diff (b_inputs b) vars /\
              forall v, bsem r v = elim_fn bop vars (bsem b) v.
  Proof.
    intros Hwf root. pose proof Hwf as (Hs & Hnv & Hinv).
    set (b1 := {| b_inputs := b_inputs b; b_nv := b_nv b; b_root := root |}).
    assert (Hroot : inv 0 (b_nv b) root) by (apply fold_step_inv; auto).
    assert (W1 : wf_bdd b1) by (split; [exact Hs|split; [exact Hnv|exact Hroot]]).
    destruct (prune_ok dbg b1 (kept_inputs b (set_valuation vars)) W1) as (r & Hr & Wr & Ir & Sr).
    - apply filter_sset. exact Hs.
    - intros x Hx. apply filter_In in Hx. apply Hx.
    - intros i x Ho Hx. cbn [b1 b_root b_inputs] in *. apply filter_In. split; [eapply nth_error_In; eauto|].
      rewrite has_set_valuation. destruct (mem x vars) eqn:Hm; [|reflexivity]. exfalso.
      apply mem_In in Hm.
      pose proof (index_of_NoDup _ (sset_NoDup _ Hs) i x Hx) as Hi.
      exact (fold_step_removed (b_inputs b) bop foreign foreign_inv foreign_occ (b_nv b) vars (b_root b) x i Hinv Hm Hi Ho).
    - exists r. split; [exact Hr|]. split; [exact Wr|]. split.
      + rewrite Ir. unfold kept_inputs. rewrite kept_is_diff, keys_set_valuation. reflexivity.
      + intros v. rewrite Sr. unfold bsem at 1. cbn [b1 b_root b_inputs]. fold (ienv (b_inputs b) v).
        unfold root. rewrite (fold_step_sem (b_inputs b) Hs bop foreign foreign_sem foreign_inv (b_nv b)) by exact Hinv.
        apply elim_fn_ext. intros w. reflexivity.
  Qed.
End Quant.

Lemma id_sem_orb t p k : ordered_from k t -> dd_eval t p = orb (dd_eval t p) (dd_eval t p).
Proof. intros _. destruct (dd_eval t p); reflexivity. Qed.
Lemma id_sem_andb t p k : ordered_from k t -> dd_eval t p = andb (dd_eval t p) (dd_eval t p).
Proof. intros _. destruct (dd_eval t p); reflexivity. Qed.

Theorem b_exists_spec dbg b vars : wf_bdd b ->
  exists r, b_exists dbg b vars = Ok r /\ wf_bdd r /\ b_inputs r = set_diff (b_inputs b) vars /\
            forall v, bsem r v = elim_fn orb vars (bsem b) v.
Proof.
  intros Hwf. unfold b_exists, b_quant, dd_exists, outer_to_inner. rewrite fold_flat_map.
  exact (quant_core orb (fun t => t) id_sem_orb (fun t k nv H => H) (fun t y H => H) dbg b vars Hwf).
Qed.

Theorem b_forall_spec dbg b vars : wf_bdd b ->
  exists r, b_forall dbg b vars = Ok r /\ wf_bdd r /\ b_inputs r = set_diff (b_inputs b) vars /\
            forall v, bsem r v = elim_fn andb vars (bsem b) v.
Proof.
  intros Hwf. unfold b_forall, b_quant, dd_forall, outer_to_inner. rewrite fold_flat_map.
  exact (quant_core andb (fun t => t) id_sem_andb (fun t k nv H => H) (fun t y H => H) dbg b vars Hwf).
Qed.

Theorem b_derivative_spec dbg b vars : wf_bdd b ->
  exists r, b_derivative dbg b vars = Ok r /\ wf_bdd r /\ b_inputs r = set_diff (b_inputs b) vars /\
            forall v, bsem r v = elim_fn xorb vars (bsem b) v.
Proof.
  intros Hwf. unfold b_derivative, outer_to_inner.
  refine (quant_core xorb (fun t => dd_xor t t) _ _ _ dbg b vars Hwf).
  - intros t p k Ho. apply (apply_sem xorb t t k); auto.
  - intros t k nv H. apply apply_inv; auto.
  - intros t y H. apply occurs_apply in H. tauto.
Qed.

(* ---------- equivalence and implication ---------- *)
(* every assignment of the inner variables is induced by some assignment of the names *)
Definition env_of_inner (inputs : list name) (p : nat -> bool) : env :=
  fun x => match index_of x inputs with Some i => p i | None => false end.

Lemma ienv_env_of_inner inputs p i : sset inputs -> i < length inputs -> ienv inputs (env_of_inner inputs p) i = p i.
Proof.
  intros Hs Hi. unfold ienv, env_of_inner. destruct (nth_error inputs i) as [x|] eqn:Ex.
  - rewrite (index_of_NoDup _ (sset_NoDup _ Hs) i x Ex). reflexivity.
  - apply nth_error_None in Ex. lia.
Qed.

Lemma eval_env_of_inner b p : wf_bdd b -> bsem b (env_of_inner (b_inputs b) p) = dd_eval (b_root b) p.
Proof.
  intros (Hs & Hnv & Hinv). unfold bsem. apply eval_agree. intros i Hi.
  fold (ienv (b_inputs b) (env_of_inner (b_inputs b) p) i). apply ienv_env_of_inner; auto.
  rewrite <- Hnv. apply (occurs_bounds i 0 (b_nv b) (b_root b)); auto.
Qed.

Lemma is_true_dd_spec t : is_true_dd t = true <-> t = Leaf true.
Proof. destruct t as [[|]|]; simpl; split; congruence. Qed.

Lemma extend_pair dbg a b : wf_bdd a -> wf_bdd b ->
  let common := common_inputs (b_inputs a) (b_inputs b) in
  exists a' b', extend dbg a common = Ok a' /\ extend dbg b common = Ok b' /\
                wf_bdd a' /\ wf_bdd b' /\ b_inputs a' = common /\ b_inputs b' = common /\
                (forall v, bsem a' v = bsem a v) /\ (forall v, bsem b' v = bsem b v).
Proof.
  intros Ha Hb common. unfold common, common_inputs. fold (set_union (b_inputs a) (b_inputs b)).
  destruct (extend_ok dbg a _ Ha (set_union_sset (b_inputs a) (b_inputs b))) as (a' & Ea & Wa & Ia & Sa & _).
  { intros x Hx. apply set_union_In. auto. }
  destruct (extend_ok dbg b _ Hb (set_union_sset (b_inputs a) (b_inputs b))) as (b' & Eb & Wb & Ib & Sb & _).
  { intros x Hx. apply set_union_In. auto. }
  exists a', b'. repeat split; auto; try apply Wa; try apply Wb.
Qed.

Theorem b_equiv_spec dbg a b : wf_bdd a -> wf_bdd b ->
  exists r, b_equiv dbg a b = Ok r /\ (r = true <-> forall v, bsem a v = bsem b v).
Proof.
  intros Ha Hb. unfold b_equiv.
  destruct (extend_pair dbg a b Ha Hb) as (a' & b' & -> & -> & Wa & Wb & Ia & Ib & Sa & Sb).
  cbn [bind]. eexists. split; [reflexivity|].
  pose proof Wa as (_ & Na & Inva). pose proof Wb as (_ & Nb & Invb).
  assert (Env : b_nv a' = b_nv b') by (rewrite Na, Nb, Ia, Ib; reflexivity).
  assert (Hiff : inv 0 (b_nv a') (dd_iff (b_root a') (b_root b'))).
  { apply apply_inv; auto. rewrite Env. auto. }
  rewrite is_true_dd_spec. split.
  - intros Ht v. rewrite <- Sa, <- Sb. unfold bsem. rewrite Ia, Ib.
    set (p := ienv (common_inputs (b_inputs a) (b_inputs b)) v).
    assert (dd_eval (dd_iff (b_root a') (b_root b')) p = true) by (rewrite Ht; reflexivity).
    unfold dd_iff in H. rewrite (apply_sem Bool.eqb _ _ 0) in H; [|apply Inva|apply Invb].
    apply eqb_prop. exact H.
  - intros Hall. apply (tautology_is_leaf _ 0); [apply Hiff|apply Hiff|].
    intros p. unfold dd_iff. rewrite (apply_sem Bool.eqb _ _ 0); [|apply Inva|apply Invb].
    rewrite <- (eval_env_of_inner a' p Wa). rewrite <- (eval_env_of_inner b' (p) Wb).
    rewrite Ia, Ib, Sa, Sb, Hall. apply eqb_reflx.
Qed.

Theorem b_implied_by_spec dbg a b : wf_bdd a -> wf_bdd b ->
  exists r, b_implied_by dbg a b = Ok r /\ (r = true <-> forall v, bsem b v = true -> bsem a v = true).
Proof.
  intros Ha Hb. unfold b_implied_by.
  destruct (extend_pair dbg a b Ha Hb) as (a' & b' & -> & -> & Wa & Wb & Ia & Ib & Sa & Sb).
  cbn [bind]. eexists. split; [reflexivity|].
  pose proof Wa as (_ & Na & Inva). pose proof Wb as (_ & Nb & Invb).
  assert (Env : b_nv b' = b_nv a') by (rewrite Na, Nb, Ia, Ib; reflexivity).
  assert (Himp : inv 0 (b_nv b') (dd_imp (b_root b') (b_root a'))).
  { apply apply_inv; auto. rewrite Env. auto. }
  rewrite is_true_dd_spec. split.
  - intros Ht v. rewrite <- Sa, <- Sb. unfold bsem. rewrite Ia, Ib.
    set (p := ienv (common_inputs (b_inputs a) (b_inputs b)) v).
    assert (dd_eval (dd_imp (b_root b') (b_root a')) p = true) by (rewrite Ht; reflexivity).
    unfold dd_imp in H. rewrite (apply_sem implb _ _ 0) in H; [|apply Invb|apply Inva].
    intros Hbv. unfold p, ienv in H. rewrite Hbv in H. exact H.
  - intros Hall. apply (tautology_is_leaf _ 0); [apply Himp|apply Himp|].
    intros p. unfold dd_imp. rewrite (apply_sem implb _ _ 0); [|apply Invb|apply Inva].
    rewrite <- (eval_env_of_inner a' p Wa). rewrite <- (eval_env_of_inner b' p Wb).
    rewrite Ia, Ib, Sa, Sb.
    destruct (bsem b _) eqn:Eb; [|reflexivity]. simpl. apply Hall. exact Eb.
Qed.

(* ---------- essential inputs ---------- *)
Theorem b_essential_spec b : wf_bdd b ->
  exists ess, b_essential b = Ok ess /\ sset ess /\
    forall x, In x ess <-> In x (b_inputs b) /\ exists v, bsem b (upd v x false) <> bsem b (upd v x true).
Proof.
  intros Hwf. pose proof Hwf as (Hs & Hnv & Ho & Hr & Hb).
  destruct (b_essential_ok b Hwf) as (ess & He & Hss & Hin). exists ess. split; [exact He|]. split; [exact Hss|].
  intros x. rewrite Hin. split.
  - intros (i & Hi & Ex). split; [eapply nth_error_In; eauto|].
    destruct (occurs_depends i (b_root b) 0 Ho Hr Hi) as (p & Hp).
    exists (env_of_inner (b_inputs b) p). unfold bsem.
    pose proof (index_of_NoDup _ (sset_NoDup _ Hs) i x Ex) as Hix.
    intros E. apply Hp.
    rewrite (eval_agree _ (updn p i false) (ienv (b_inputs b) (upd (env_of_inner (b_inputs b) p) x false))).
    rewrite (eval_agree _ (updn p i true) (ienv (b_inputs b) (upd (env_of_inner (b_inputs b) p) x true))).
    + exact E.
    + intros j Hj. rewrite (ienv_upd_some _ Hs _ x true i Hix). unfold updn. destruct (Nat.eqb j i); [reflexivity|].
      symmetry. apply ienv_env_of_inner; auto. rewrite <- Hnv. apply (occurs_bounds j 0 (b_nv b) (b_root b)); [repeat split; auto|auto].
    + intros j Hj. rewrite (ienv_upd_some _ Hs _ x false i Hix). unfold updn. destruct (Nat.eqb j i); [reflexivity|].
      symmetry. apply ienv_env_of_inner; auto. rewrite <- Hnv. apply (occurs_bounds j 0 (b_nv b) (b_root b)); [repeat split; auto|auto].
  - intros (Hx & v & Hv). destruct (index_of_In x _ Hx) as (i & Hi). exists i. split; [|apply index_of_nth; auto].
    apply dd_support_In. apply (support_iff_depends i (b_root b) 0 Ho Hr).
    exists (ienv (b_inputs b) v). intros E. apply Hv. unfold bsem.
    rewrite (eval_ext _ _ _ (ienv_upd_some _ Hs v x false i Hi)).
    rewrite (eval_ext _ _ _ (ienv_upd_some _ Hs v x true i Hi)). exact E.
Qed.

(* ---------- substitution ---------- *)
Lemma occurs_not y t : occurs y (dd_not t) <-> occurs y t.
Proof. induction t as [c|v lo IHlo hi IHhi]; simpl; [tauto|]. rewrite IHlo, IHhi. tauto. Qed.

Lemma ite_inv nv g a b : inv 0 nv g -> inv 0 nv a -> inv 0 nv b -> inv 0 nv (dd_ite g a b).
Proof. intros Hg Ha Hb. unfold dd_ite, dd_or, dd_and. repeat apply apply_inv; auto. apply dd_not_inv. auto. Qed.

Lemma ite_sem nv g a b p : inv 0 nv g -> inv 0 nv a -> inv 0 nv b ->
  dd_eval (dd_ite g a b) p = if dd_eval g p then dd_eval a p else dd_eval b p.
Proof.
  intros Hg Ha Hb. unfold dd_ite, dd_or, dd_and.
  assert (Hn : inv 0 nv (dd_not g)) by (apply dd_not_inv; auto).
  assert (H1 : inv 0 nv (dd_apply andb g a)) by (apply apply_inv; auto).
  assert (H2 : inv 0 nv (dd_apply andb (dd_not g) b)) by (apply apply_inv; auto).
  rewrite (apply_sem orb _ _ 0); [|apply H1|apply H2].
  rewrite (apply_sem andb g a 0); [|apply Hg|apply Ha].
  rewrite (apply_sem andb (dd_not g) b 0); [|apply Hn|apply Hb].
  rewrite dd_not_sem. destruct (dd_eval g p), (dd_eval a p), (dd_eval b p); reflexivity.
Qed.

Lemma occurs_ite y g a b : occurs y (dd_ite g a b) -> occurs y g \/ occurs y a \/ occurs y b.
Proof.
  unfold dd_ite, dd_or, dd_and. intros H. apply occurs_apply in H. destruct H as [H|H]; apply occurs_apply in H.
  - tauto.
  - rewrite occurs_not in H. tauto.
Qed.

Fixpoint item_get (items : list (nat * dd)) (i : nat) : option dd :=
  match items with [] => None | (x, g) :: r => if Nat.eqb x i then Some g else item_get r i end.

Definition subst_p (items : list (nat * dd)) (p : nat -> bool) : nat -> bool :=
  fun i => match item_get items i with Some g => dd_eval g p | None => p i end.

Lemma existsb_support x t : existsb (Nat.eqb x) (dd_support t) = true <-> occurs x t.
Proof.
  rewrite existsb_exists, <- dd_support_In. split.
  - intros (y & Hy & E). apply Nat.eqb_eq in E. subst. exact Hy.
  - intros H. exists x. split; auto. apply Nat.eqb_refl.
Qed.

Lemma subst_all_inv nv items : Forall (fun xg => inv 0 nv (snd xg)) items -> forall t, inv 0 nv t -> inv 0 nv (dd_subst_all items t).
Proof.
  induction 1 as [|[x g] r Hg _ IH]; intros t Ht; simpl; [exact Ht|].
  destruct (existsb (Nat.eqb x) (dd_support t)); simpl; [|apply IH; auto].
  apply ite_inv; auto; apply IH; apply restrict1_inv; auto.
Qed.

Lemma subst_all_sem nv items p : Forall (fun xg => inv 0 nv (snd xg)) items ->
  forall t, inv 0 nv t -> dd_eval (dd_subst_all items t) p = dd_eval t (subst_p items p).
Proof.
  induction 1 as [|[x g] r Hg Hr IH]; intros t Ht; simpl.
  - apply eval_ext. intros i. reflexivity.
  - simpl in Hg. destruct (existsb (Nat.eqb x) (dd_support t)) eqn:Ex; simpl.
    + rewrite (ite_sem nv); auto; try (apply subst_all_inv; auto; apply restrict1_inv; auto).
      rewrite !IH by (apply restrict1_inv; auto).
      rewrite !(restrict1_sem _ _ _ 0) by apply Ht.
      destruct (dd_eval g p) eqn:Eg; apply eval_ext; intros i; unfold updn, subst_p; cbn [item_get];
        rewrite (Nat.eqb_sym i x); destruct (Nat.eqb x i); auto.
    + rewrite IH by auto. apply eval_agree. intros i Hi. unfold subst_p. cbn [item_get].
      destruct (Nat.eqb_spec x i); [|reflexivity]. subst i.
      apply existsb_support in Hi. congruence.
Qed.

Lemma subst_all_occurs nv y items : Forall (fun xg => inv 0 nv (snd xg)) items ->
  forall t, inv 0 nv t -> occurs y (dd_subst_all items t) ->
  (occurs y t /\ item_get items y = None) \/ exists xg, In xg items /\ occurs y (snd xg).
Proof.
  induction 1 as [|[x g] r Hg Hr IH]; intros t Ht H; simpl in H; [left; auto|].
  destruct (existsb (Nat.eqb x) (dd_support t)) eqn:Ex; simpl in H.
  - apply occurs_ite in H. destruct H as [H|[H|H]].
    + right. exists (x, g). simpl. auto.
    + apply IH in H; [|apply restrict1_inv; auto].
      destruct H as [[H Hn]|(xg & Hin & Ho)]; [|right; exists xg; simpl; auto].
      left. split; [eapply occurs_restrict1; eauto|]. cbn [item_get].
      destruct (Nat.eqb_spec x y); [|exact Hn]. subst y. exfalso.
      destruct Ht as (Hord & _). eapply restrict1_not_occurs; eauto.
    + apply IH in H; [|apply restrict1_inv; auto].
      destruct H as [[H Hn]|(xg & Hin & Ho)]; [|right; exists xg; simpl; auto].
      left. split; [eapply occurs_restrict1; eauto|]. cbn [item_get].
      destruct (Nat.eqb_spec x y); [|exact Hn]. subst y. exfalso.
      destruct Ht as (Hord & _). eapply restrict1_not_occurs; eauto.
  - apply IH in H; auto. destruct H as [[H Hn]|(xg & Hin & Ho)]; [|right; exists xg; simpl; auto].
    left. split; auto. cbn [item_get]. destruct (Nat.eqb_spec x y); [|exact Hn]. subst y.
    exfalso. assert (existsb (Nat.eqb x) (dd_support t) = true) by (apply existsb_support; auto). congruence.
Qed.

Lemma Forall2_in_r {A B} (R : A -> B -> Prop) l l' (y : B) : Forall2 R l l' -> In y l' -> exists x, In x l /\ R x y.
Proof.
  induction 1 as [|a b l l' HR _ IH]; intros Hin; [destruct Hin|].
  destruct Hin as [<-|Hin]; [exists a; simpl; auto|]. destruct (IH Hin) as (x & Hx & HRx). exists x. simpl. auto.
Qed.

Definition ext_rel (common : list name) (kg kg' : name * bdd) : Prop :=
  fst kg = fst kg' /\ wf_bdd (snd kg') /\ b_inputs (snd kg') = common /\
  (forall v, bsem (snd kg') v = bsem (snd kg) v) /\
  (forall y, occurs y (b_root (snd kg')) -> exists x, nth_error common y = Some x /\ In x (b_inputs (snd kg))).

Lemma extend_all_ok dbg common : sset common -> forall m,
  (forall k g, In (k, g) m -> wf_bdd g /\ incl (b_inputs g) common) ->
  exists m2, extend_all dbg m common = Ok m2 /\ Forall2 (ext_rel common) m m2.
Proof.
  intros Hc. induction m as [|[k g] r IH]; intros H; simpl.
  - exists []. split; [reflexivity|constructor].
  - destruct (H k g (or_introl eq_refl)) as [Wg Ig].
    destruct (extend_ok dbg g common Wg Hc Ig) as (g' & -> & Wg' & Ig' & Sg' & Pg'). cbn [bind].
    destruct IH as (r2 & -> & HF); [intros k' g0 Hin; apply (H k' g0); right; auto|]. cbn [bind].
    exists ((k, g') :: r2). split; [reflexivity|]. constructor; [|exact HF].
    unfold ext_rel. simpl. auto.
Qed.

Lemma get_Forall2 common m m2 x : Forall2 (ext_rel common) m m2 ->
  match get m x, get m2 x with
  | Some g, Some g' => ext_rel common (x, g) (x, g')
  | None, None => True
  | _, _ => False
  end.
Proof.
  induction 1 as [|[k g] [k' g'] r r2 HR _ IH]; simpl; [exact I|].
  destruct HR as (Ek & HR). simpl in Ek. subst k'.
  destruct (name_eqb x k); [|exact IH]. unfold ext_rel. simpl. auto.
Qed.

Definition items_of (common : list name) (m2 : list (name * bdd)) : list (nat * dd) :=
  flat_map (fun kv => match index_of (fst kv) common with Some i => [(i, b_root (snd kv))] | None => [] end) m2.

Lemma item_get_items common m2 x i : sset common -> (forall kv, In kv m2 -> In (fst kv) common) ->
  index_of x common = Some i -> item_get (items_of common m2) i = option_map b_root (get m2 x).
Proof.
  intros Hc. induction m2 as [|[k g] r IH]; intros Hk Hi; simpl; [reflexivity|].
  destruct (index_of_In k common (Hk (k, g) (or_introl eq_refl))) as (j & Ej). rewrite Ej. cbn [app item_get].
  destruct (Nat.eqb_spec j i) as [->|N].
  - assert (k = x) by (apply index_of_nth in Ej, Hi; congruence). subst k. rewrite name_eqb_refl. reflexivity.
  - destruct (name_eqb_spec x k) as [->|]; [congruence|]. apply IH; auto. intros kv Hin. apply Hk. right. auto.
Qed.

Lemma get_filter_key {X} (P : name -> bool) (m : list (name * X)) x : P x = true ->
  get (filter (fun kv => P (fst kv)) m) x = get m x.
Proof.
  intros HP. induction m as [|[k g] r IH]; simpl; [reflexivity|].
  destruct (name_eqb_spec x k) as [->|N].
  - rewrite HP. simpl. rewrite name_eqb_refl. reflexivity.
  - destruct (P k); simpl; [|exact IH]. destruct (name_eqb_spec x k); [contradiction|exact IH].
Qed.

Definition subst_env_b (m : list (name * bdd)) (v : env) : env :=
  fun k => match get m k with Some g => bsem g v | None => v k end.

Definition b_subst_inputs (b : bdd) (m : list (name * bdd)) : list name :=
  let m1 := filter (fun kv => mem (fst kv) (b_inputs b)) m in
  let common := set_of_list (b_inputs b ++ concat (map (fun kv => b_inputs (snd kv)) m1)) in
  filter (fun x => negb (has m1 x) || mem x (concat (map (fun kv => b_inputs (snd kv)) m1))) common.

Theorem b_substitute_refuses dbg b m :
  (exists k g, In (k, g) m /\ In k (b_inputs g)) -> b_substitute dbg b m = Panic 30.
Proof.
  intros (k & g & Hin & Hk). unfold b_substitute.
  assert (existsb (fun kv => mem (fst kv) (b_inputs (snd kv))) m = true) as ->; [|reflexivity].
  apply existsb_exists. exists (k, g). split; auto. simpl. apply mem_In. auto.
Qed.

Theorem b_substitute_spec dbg b m : wf_bdd b ->
  (forall k g, In (k, g) m -> wf_bdd g) ->
  (forall k g, In (k, g) m -> ~ In k (b_inputs g)) ->
  exists r, b_substitute dbg b m = Ok r /\ wf_bdd r /\ b_inputs r = b_subst_inputs b m /\
            forall v, bsem r v = bsem b (subst_env_b m v).
Proof.
  intros Hwf Hm Hself. unfold b_substitute.
  assert (existsb (fun kv => mem (fst kv) (b_inputs (snd kv))) m = false) as ->.
  { destruct (existsb _ m) eqn:E; [|reflexivity]. apply existsb_exists in E. destruct E as ([k g] & Hin & Hk).
    simpl in Hk. apply mem_In in Hk. exfalso. exact (Hself k g Hin Hk). }
  set (m1 := filter (fun kv => mem (fst kv) (b_inputs b)) m).
  set (mentioned := concat (map (fun kv => b_inputs (snd kv)) m1)).
  set (common := set_of_list (b_inputs b ++ mentioned)).
  assert (Hc : sset common) by apply set_of_list_sset.
  assert (Hin1 : forall k g, In (k, g) m1 -> In (k, g) m /\ In k (b_inputs b)).
  { intros k g H. apply filter_In in H. simpl in H. rewrite mem_In in H. exact H. }
  destruct (extend_ok dbg b common Hwf Hc) as (b' & -> & Wb' & Ib' & Sb' & Pb').
  { intros x Hx. apply set_of_list_In. apply in_or_app. auto. }
  cbn [bind].
  destruct (extend_all_ok dbg common Hc m1) as (m2 & -> & HF).
  { intros k g H. destruct (Hin1 k g H) as [Hkm _]. split; [eapply Hm; eauto|].
    intros x Hx. apply set_of_list_In. apply in_or_app. right. unfold mentioned.
    apply In_concat_map. exists (k, g). auto. }
  cbn [bind]. fold (items_of common m2).
  pose proof Wb' as (_ & Nb' & Invb'). rewrite Ib' in Nb'.
  assert (Hitems : Forall (fun xg => inv 0 (length common) (snd xg)) (items_of common m2)).
  { apply Forall_forall. intros [i t] Hit. unfold items_of in Hit. apply in_flat_map in Hit.
    destruct Hit as ([k g'] & Hin2 & Hi). simpl in Hi. destruct (index_of k common); [|destruct Hi].
    destruct Hi as [[= <- <-]|[]]. simpl.
    destruct (Forall2_in_r _ _ _ (k, g') HF Hin2) as ([k0 g0] & _ & (_ & Wg' & Ig' & _)).
    simpl in *. destruct Wg' as (_ & Ng' & Invg'). rewrite <- Ig', <- Ng'. exact Invg'. }
  assert (Hkeys2 : forall kv, In kv m2 -> In (fst kv) common).
  { intros [k g'] Hin2. destruct (Forall2_in_r _ _ _ (k, g') HF Hin2) as ([k0 g0] & Hin0 & (Ek & _)).
    simpl in *. subst k0. destruct (Hin1 k g0 Hin0) as [_ Hk]. apply set_of_list_In. apply in_or_app. auto. }
  set (root := dd_subst_all (items_of common m2) (b_root b')).
  assert (Hroot : inv 0 (length common) root).
  { apply subst_all_inv; auto. rewrite <- Nb'. exact Invb'. }
  set (b1 := {| b_inputs := common; b_nv := length common; b_root := root |}).
  assert (W1 : wf_bdd b1) by (split; [exact Hc|split; [reflexivity|exact Hroot]]).
  set (final := filter (fun x => negb (has m1 x) || mem x mentioned) common).
  destruct (prune_ok dbg b1 final W1) as (r & Hr & Wr & Ir & Sr).
  - apply filter_sset. exact Hc.
  - intros x Hx. apply filter_In in Hx. apply Hx.
  - intros y x Ho Hx. cbn [b1 b_root b_inputs] in *. apply filter_In. split; [eapply nth_error_In; eauto|].
    destruct (has m1 x) eqn:Hh; [|reflexivity]. cbn [negb orb]. apply mem_In.
    pose proof (index_of_NoDup _ (sset_NoDup _ Hc) y x Hx) as Hy.
    destruct (subst_all_occurs (length common) y _ Hitems (b_root b')) as [[_ Hn]|([i t] & Hit & Hot)]; auto.
    { rewrite <- Nb'. exact Invb'. }
    + exfalso. rewrite (item_get_items common m2 x y Hc Hkeys2 Hy) in Hn.
      pose proof (get_Forall2 common m1 m2 x HF) as Hg. unfold has in Hh.
      destruct (get m1 x); [|discriminate]. destruct (get m2 x); [discriminate|contradiction].
    + unfold items_of in Hit. apply in_flat_map in Hit. destruct Hit as ([k g'] & Hin2 & Hi). simpl in Hi.
      destruct (index_of k common); [|destruct Hi]. destruct Hi as [[= <- <-]|[]]. simpl in Hot.
      destruct (Forall2_in_r _ _ _ (k, g') HF Hin2) as ([k0 g0] & Hin0 & (_ & _ & _ & _ & Prov)).
      simpl in Prov. destruct (Prov y Hot) as (x' & Ex' & Hx'). rewrite Hx in Ex'. injection Ex' as <-.
      unfold mentioned. apply In_concat_map. exists (k0, g0). auto.
  - exists r. split; [exact Hr|]. split; [exact Wr|]. split; [rewrite Ir; reflexivity|].
    intros v. rewrite Sr. unfold bsem at 1. cbn [b1 b_root b_inputs]. fold (ienv common v). unfold root.
    rewrite (subst_all_sem (length common)); auto; [|rewrite <- Nb'; exact Invb'].
    transitivity (bsem b' (subst_env_b m v)).
    + unfold bsem. rewrite Ib'. apply eval_agree. intros i Hi.
      assert (Hil : i < length common).
      { rewrite <- Nb'. apply (occurs_bounds i 0 _ (b_root b')); auto. }
      destruct (nth_error common i) as [x|] eqn:Ex; [|apply nth_error_None in Ex; lia].
      pose proof (index_of_NoDup _ (sset_NoDup _ Hc) i x Ex) as Hix.
      unfold subst_p. rewrite (item_get_items common m2 x i Hc Hkeys2 Hix).
      pose proof (get_Forall2 common m1 m2 x HF) as Hg.
      fold (ienv common (subst_env_b m v) i). rewrite (ienv_nth _ _ _ _ Ex). unfold subst_env_b.
      assert (Hxb : In x (b_inputs b)).
      { destruct (Pb' i Hi) as (x' & Ex' & Hx'). rewrite Ex in Ex'. injection Ex' as <-. exact Hx'. }
      assert (G : get m1 x = get m x).
      { unfold m1. apply (get_filter_key (fun k => mem k (b_inputs b))). apply mem_In. exact Hxb. }
      rewrite <- G.
      destruct (get m1 x) as [g|] eqn:G1; destruct (get m2 x) as [g'|] eqn:G2; try contradiction; cbn [option_map].
      * destruct Hg as (_ & _ & Ig' & Sg' & _). simpl in *.
        rewrite <- Sg'. unfold bsem. rewrite Ig'. reflexivity.
      * try (fold (ienv common v i); rewrite (ienv_nth _ _ _ _ Ex)); reflexivity.
    + rewrite Sb'. reflexivity.
Qed.
