(* Every operation of the Bdd wrapper refines the specification and keeps the object well-formed. *)
From BBF Require Import Base.Prelude Base.Names Base.Bits Spec.Sem
     Model.Expr Model.Table Model.LibBdd Model.Bdd
     Proofs.ExprProofs Proofs.TableProofs Proofs.QuantProofs Proofs.DdProofs Proofs.BddProofs.

Lemma wf_inv b : wf_bdd b -> inv 0 (b_nv b) (b_root b).
Proof. intros (_ & _ & H). exact H. Qed.

(* ---------- evaluation ---------- *)
Lemma nth_map_error {A} (g : A -> bool) l i :
  nth i (map g l) false = match nth_error l i with Some x => g x | None => false end.
Proof. revert i. induction l as [|a l IH]; intros [|i]; simpl; auto. Qed.

Theorem b_eval_default_sem b rho d : b_eval_default b rho d = bsem b (complete d rho).
Proof.
  unfold b_eval_default, bsem. apply eval_ext. intros i. unfold point_of. apply nth_map_error.
Qed.

Theorem b_eval_checked_spec b rho :
  match b_eval_checked b rho with
  | inl r => (forall x, In x (b_inputs b) -> get rho x <> None) /\ forall d, r = bsem b (complete d rho)
  | inr errs => errs <> [] /\ errs = missing rho (b_inputs b)
  end.
Proof.
  unfold b_eval_checked. fold (missing rho (b_inputs b)).
  destruct (missing rho (b_inputs b)) as [|e errs] eqn:E.
  - split; [apply missing_nil_iff; exact E|]. intros d. unfold b_evaluate. rewrite b_eval_default_sem.
    unfold bsem. apply eval_ext. intros i. destruct (nth_error (b_inputs b) i) as [x|] eqn:Ex; [|reflexivity].
    unfold complete. destruct (get rho x) eqn:G; [reflexivity|].
    exfalso. apply (proj1 (missing_nil_iff _ _) E x); auto. eapply nth_error_In; eauto.
  - split; [discriminate|reflexivity].
Qed.

Lemma bsem_coincidence b v v' : (forall x, In x (b_inputs b) -> v x = v' x) -> bsem b v = bsem b v'.
Proof.
  intros H. unfold bsem. apply eval_ext. intros i. destruct (nth_error (b_inputs b) i) as [x|] eqn:E; [|reflexivity].
  apply H. eapply nth_error_In; eauto.
Qed.

(* ---------- connectives ---------- *)
Theorem b_bit_spec dbg op a b : wf_bdd a -> wf_bdd b ->
  exists r, b_bit dbg (dd_apply op) a b = Ok r /\ wf_bdd r /\
            b_inputs r = set_union (b_inputs a) (b_inputs b) /\
            forall v, bsem r v = op (bsem a v) (bsem b v).
Proof.
  intros Ha Hb. unfold b_bit. destruct (names_eqb_spec (b_inputs a) (b_inputs b)) as [E|NE].
  - destruct Ha as (Sa & Na & Ia), Hb as (Sb & Nb & Ib).
    assert (Env : b_nv a = b_nv b) by congruence.
    eexists. split; [reflexivity|]. split; [|split].
    + split; [exact Sa|]. split; [exact Na|]. cbn [b_nv b_root]. apply apply_inv; auto. rewrite Env. exact Ib.
    + cbn [b_inputs]. rewrite <- E. symmetry. apply set_union_idem. exact Sa.
    + intros v. unfold bsem. cbn [b_root b_inputs]. rewrite <- E.
      apply (apply_sem op _ _ 0); [apply Ia|apply Ib].
  - unfold common_inputs. fold (set_union (b_inputs a) (b_inputs b)).
    set (common := set_union (b_inputs a) (b_inputs b)).
    destruct (extend_ok dbg a common Ha (set_union_sset _ _)) as (a' & -> & Wa & Ia' & Sa' & _).
    { intros x Hx. apply set_union_In. auto. }
    destruct (extend_ok dbg b common Hb (set_union_sset _ _)) as (b' & -> & Wb & Ib' & Sb' & _).
    { intros x Hx. apply set_union_In. auto. }
    cbn [bind]. eexists. split; [reflexivity|]. split; [|split; [reflexivity|]].
    + destruct Wa as (_ & Na' & Inva), Wb as (_ & Nb' & Invb). rewrite Ia' in Na'. rewrite Ib' in Nb'.
      split; [apply set_union_sset|]. split; [reflexivity|]. cbn [b_nv b_root].
      apply apply_inv; [rewrite <- Na'|rewrite <- Nb']; auto.
    + intros v. unfold bsem at 1. cbn [b_root b_inputs]. rewrite <- Sa', <- Sb'. unfold bsem.
      rewrite Ia', Ib'. apply (apply_sem op _ _ 0); [apply Wa|apply Wb].
Qed.

Theorem b_not_spec a : wf_bdd a ->
  wf_bdd (b_not a) /\ b_inputs (b_not a) = b_inputs a /\ forall v, bsem (b_not a) v = negb (bsem a v).
Proof.
  intros (Sa & Na & Ia). split; [|split].
  - split; [exact Sa|]. split; [exact Na|]. cbn [b_not b_nv b_root]. apply dd_not_inv. exact Ia.
  - reflexivity.
  - intros v. unfold bsem. cbn [b_not b_root b_inputs]. apply dd_not_sem.
Qed.

(* ---------- inner variables and names ---------- *)
Section Inner.
  Variable inputs : list name.
  Hypothesis Hs : sset inputs.

  Lemma ienv_upd_some v x b i : index_of x inputs = Some i ->
    forall j, ienv inputs (upd v x b) j = updn (ienv inputs v) i b j.
  Proof.
    intros Hi j. unfold ienv, updn, upd. destruct (nth_error inputs j) as [y|] eqn:Ey.
    - destruct (Nat.eqb_spec j i) as [->|N].
      + apply index_of_nth in Hi. rewrite Hi in Ey. injection Ey as <-. rewrite name_eqb_refl. reflexivity.
      + destruct (name_eqb_spec y x) as [->|]; [|reflexivity].
        exfalso. apply N. pose proof (index_of_NoDup inputs (sset_NoDup _ Hs) j x Ey). congruence.
    - destruct (Nat.eqb_spec j i) as [->|N]; [|reflexivity].
      apply index_of_nth in Hi. congruence.
  Qed.

  Lemma ienv_upd_none v x b : index_of x inputs = None -> forall j, ienv inputs (upd v x b) j = ienv inputs v j.
  Proof.
    intros Hn j. unfold ienv, upd. destruct (nth_error inputs j) as [y|] eqn:Ey; [|reflexivity].
    destruct (name_eqb_spec y x) as [->|]; [|reflexivity].
    exfalso. apply index_of_None in Hn. apply Hn. eapply nth_error_In; eauto.
  Qed.

  (* one elimination step on the inner tree = one step of the specification *)
  Variable bop : bool -> bool -> bool.
  Variable foreign : dd -> dd.     (* what happens for a name that is not an input *)
  Hypothesis foreign_sem : forall t p k, ordered_from k t -> dd_eval (foreign t) p = bop (dd_eval t p) (dd_eval t p).
  Hypothesis foreign_inv : forall t k nv, inv k nv t -> inv k nv (foreign t).
  Hypothesis foreign_occ : forall t y, occurs y (foreign t) -> occurs y t.

  Definition step (acc : dd) (x : name) : dd :=
    match index_of x inputs with
    | Some i => dd_apply bop (dd_restrict1 i false acc) (dd_restrict1 i true acc)
    | None => foreign acc
    end.

  Lemma step_inv nv acc x : inv 0 nv acc -> inv 0 nv (step acc x).
  Proof.
    intros H. unfold step. destruct (index_of x inputs); [|apply foreign_inv; auto].
    apply apply_inv; apply restrict1_inv; auto.
  Qed.

  Lemma step_sem nv acc x v : inv 0 nv acc ->
    dd_eval (step acc x) (ienv inputs v) =
    bop (dd_eval acc (ienv inputs (upd v x false))) (dd_eval acc (ienv inputs (upd v x true))).
  Proof.
    intros Hinv. pose proof Hinv as (Ho & _). unfold step. destruct (index_of x inputs) as [i|] eqn:Ei.
    - rewrite (apply_sem bop _ _ 0);
        [|apply (restrict1_inv i false nv acc 0 Hinv)|apply (restrict1_inv i true nv acc 0 Hinv)].
      rewrite !(restrict1_sem _ _ _ 0) by auto.
      f_equal; apply eval_ext; intros j; symmetry; apply ienv_upd_some; auto.
    - rewrite (foreign_sem _ _ 0) by auto. f_equal; apply eval_ext; intros j; symmetry; apply ienv_upd_none; auto.
  Qed.

  Lemma fold_step_inv nv vars : forall acc, inv 0 nv acc -> inv 0 nv (fold_left step vars acc).
  Proof. induction vars as [|x r IH]; intros acc H; simpl; [exact H|]. apply IH. apply step_inv. exact H. Qed.

  Theorem fold_step_sem nv vars : forall acc v, inv 0 nv acc ->
    dd_eval (fold_left step vars acc) (ienv inputs v) = elim_fn bop vars (fun w => dd_eval acc (ienv inputs w)) v.
  Proof.
    induction vars as [|x r IH]; intros acc v H; simpl; [reflexivity|].
    rewrite IH by (apply step_inv; auto). apply elim_fn_ext. intros w. apply (step_sem nv). exact H.
  Qed.

  (* an eliminated input no longer occurs *)
  Lemma occurs_apply op y a : forall b, occurs y (dd_apply op a b) -> occurs y a \/ occurs y b.
  Proof.
    assert (Hmk : forall v lo hi, occurs y (mk v lo hi) -> v = y \/ occurs y lo \/ occurs y hi).
    { intros v lo hi. unfold mk. destruct (dd_eqb lo hi); simpl; tauto. }
    induction a as [c|v al IHal ah IHah]; intros b.
    - induction b as [d|w bl IHbl bh IHbh]; simpl; [tauto|].
      intros H. apply Hmk in H. destruct H as [->|[H|H]]; [simpl; tauto|apply IHbl in H|apply IHbh in H]; simpl in *; tauto.
    - induction b as [d|w bl IHbl bh IHbh].
      + cbn [dd_apply]. intros H. apply Hmk in H. destruct H as [->|[H|H]]; [simpl; tauto|apply IHal in H|apply IHah in H]; simpl in *; tauto.
      + cbn [dd_apply]. destruct (Nat.compare v w); intros H; apply Hmk in H.
        * destruct H as [->|[H|H]]; [simpl; tauto|apply IHal in H|apply IHah in H]; simpl in *; tauto.
        * destruct H as [->|[H|H]]; [simpl; tauto|apply IHal in H|apply IHah in H]; simpl in *; tauto.
        * destruct H as [->|[H|H]]; [simpl; tauto|apply IHbl in H|apply IHbh in H]; simpl in *; tauto.
  Qed.

  Lemma step_occurs acc x y : occurs y (step acc x) -> occurs y acc.
  Proof.
    unfold step. destruct (index_of x inputs); [|apply foreign_occ].
    intros H. apply occurs_apply in H. destruct H as [H|H]; eapply occurs_restrict1; eauto.
  Qed.

  Lemma fold_step_occurs vars : forall acc y, occurs y (fold_left step vars acc) -> occurs y acc.
  Proof.
    induction vars as [|x r IH]; intros acc y H; simpl in H; [exact H|].
    apply IH in H. eapply step_occurs; eauto.
  Qed.

  Lemma fold_step_removed nv vars : forall acc x i, inv 0 nv acc -> In x vars -> index_of x inputs = Some i ->
    ~ occurs i (fold_left step vars acc).
  Proof.
    induction vars as [|y r IH]; intros acc x i Hinv Hx Hi; [destruct Hx|]. simpl.
    destruct Hx as [->|Hx].
    - intros H. apply fold_step_occurs in H. unfold step in H. rewrite Hi in H.
      apply occurs_apply in H. destruct Hinv as (Ho & _).
      destruct H as [H|H]; eapply restrict1_not_occurs; eauto.
    - apply (IH _ x i); auto. apply step_inv. auto.
  Qed.
End Inner.

(* ---------- restriction ---------- *)
Definition updl (lib : list (nat * bool)) (p : nat -> bool) : nat -> bool :=
  fold_right (fun xb q => updn q (fst xb) (snd xb)) p lib.

Lemma dd_restrict_inv nv lib : forall t, inv 0 nv t -> inv 0 nv (dd_restrict lib t).
Proof.
  unfold dd_restrict. induction lib as [|[x b] r IH]; intros t H; simpl; [exact H|].
  apply IH. apply restrict1_inv. exact H.
Qed.

Lemma dd_restrict_sem nv lib : forall t p, inv 0 nv t -> dd_eval (dd_restrict lib t) p = dd_eval t (updl lib p).
Proof.
  unfold dd_restrict. induction lib as [|[x b] r IH]; intros t p H; simpl; [reflexivity|].
  rewrite IH by (apply restrict1_inv; auto). apply (restrict1_sem x b t 0). apply H.
Qed.

Lemma dd_restrict_occurs lib : forall t y, occurs y (dd_restrict lib t) -> occurs y t.
Proof.
  unfold dd_restrict. induction lib as [|[x b] r IH]; intros t y H; simpl in H; [exact H|].
  apply IH in H. eapply occurs_restrict1; eauto.
Qed.

Lemma dd_restrict_removed nv lib : forall t i b, inv 0 nv t -> In (i, b) lib -> ~ occurs i (dd_restrict lib t).
Proof.
  unfold dd_restrict. induction lib as [|[x c] r IH]; intros t i b H Hin; [destruct Hin|]. simpl.
  destruct Hin as [[= -> ->]|Hin].
  - intros Ho. apply (dd_restrict_occurs r) in Ho. destruct H as (Hord & _).
    eapply restrict1_not_occurs; eauto.
  - apply (IH _ i b); auto. apply restrict1_inv. auto.
Qed.

Definition lib_of (inputs : list name) (rho : valuation) : list (nat * bool) :=
  flat_map (fun kv => match index_of (fst kv) inputs with Some i => [(i, snd kv)] | None => [] end) rho.

Lemma updl_app a b p : forall j, updl (a ++ b) p j = updl a (updl b p) j.
Proof. intros j. unfold updl. rewrite fold_right_app. reflexivity. Qed.

Lemma updl_ext lib : forall p q, (forall j, p j = q j) -> forall j, updl lib p j = updl lib q j.
Proof.
  induction lib as [|[x b] r IH]; intros p q H j; simpl; [apply H|].
  unfold updn. destruct (Nat.eqb j x); [reflexivity|]. apply IH. exact H.
Qed.

Lemma override_cons v k b r y : override v ((k, b) :: r) y = upd (override v r) k b y.
Proof. unfold override, upd. simpl. destruct (name_eqb y k); reflexivity. Qed.

Lemma updl_lib_of inputs rho v : sset inputs ->
  forall j, updl (lib_of inputs rho) (ienv inputs v) j = ienv inputs (override v rho) j.
Proof.
  intros Hs. induction rho as [|[k b] r IH]; intros j; [reflexivity|].
  unfold lib_of. cbn [flat_map fst snd]. fold (lib_of inputs r). rewrite updl_app.
  transitivity (ienv inputs (upd (override v r) k b) j).
  - destruct (index_of k inputs) as [i|] eqn:Ei.
    + cbn [updl fold_right fst snd]. rewrite (ienv_upd_some inputs Hs _ k b i Ei).
      unfold updn. destruct (Nat.eqb j i); [reflexivity|]. apply IH.
    + cbn [updl fold_right]. rewrite (ienv_upd_none inputs _ k b Ei). apply IH.
  - unfold ienv. destruct (nth_error inputs j); [|reflexivity]. symmetry. apply override_cons.
Qed.

Lemma lib_of_In inputs rho x i : sset inputs -> index_of x inputs = Some i -> has rho x = true ->
  exists b, In (i, b) (lib_of inputs rho).
Proof.
  intros Hs Hi Hh. apply has_keys in Hh. unfold keys in Hh. apply in_map_iff in Hh.
  destruct Hh as ([k b] & Hk & Hin). simpl in Hk. subst k. exists b.
  unfold lib_of. apply in_flat_map. exists (x, b). split; auto. simpl. rewrite Hi. simpl. auto.
Qed.

Theorem b_restrict_spec dbg b rho : wf_bdd b ->
  exists r, b_restrict dbg b rho = Ok r /\ wf_bdd r /\
            b_inputs r = set_diff (b_inputs b) (keys rho) /\
            forall v, bsem r v = bsem b (override v rho).
Proof.
  intros Hwf. pose proof Hwf as (Hs & Hnv & Hinv). unfold b_restrict, outer_to_inner. fold (lib_of (b_inputs b) rho).
  set (b1 := {| b_inputs := b_inputs b; b_nv := b_nv b; b_root := dd_restrict (lib_of (b_inputs b) rho) (b_root b) |}).
  assert (W1 : wf_bdd b1) by (split; [exact Hs|split; [exact Hnv|apply dd_restrict_inv; exact Hinv]]).
  destruct (prune_ok dbg b1 (kept_inputs b rho) W1) as (r & Hr & Wr & Ir & Sr).
  - apply filter_sset. exact Hs.
  - intros x Hx. apply filter_In in Hx. apply Hx.
  - intros i x Ho Hx. cbn [b1 b_root b_inputs] in *. apply filter_In. split; [eapply nth_error_In; eauto|].
    destruct (has rho x) eqn:Hh; [|reflexivity]. exfalso.
    pose proof (index_of_NoDup _ (sset_NoDup _ Hs) i x Hx) as Hi.
    destruct (lib_of_In _ rho x i Hs Hi Hh) as (c & Hc).
    exact (dd_restrict_removed (b_nv b) _ _ i c Hinv Hc Ho).
  - exists r. split; [exact Hr|]. split; [exact Wr|]. split.
    + rewrite Ir. apply kept_is_diff.
    + intros v. rewrite Sr. unfold bsem. cbn [b1 b_root b_inputs].
      rewrite (dd_restrict_sem (b_nv b)) by exact Hinv. apply eval_ext. intros j.
      fold (ienv (b_inputs b) v). apply updl_lib_of. exact Hs.
Qed.

(* ---------- quantifiers and derivative ---------- *)
Lemma keys_set_valuation vars : keys (set_valuation vars) = vars.
Proof. unfold keys, set_valuation. rewrite map_map. simpl. apply map_id. Qed.

Lemma has_set_valuation vars x : has (set_valuation vars) x = mem x vars.
Proof. rewrite has_mem_keys, keys_set_valuation. reflexivity. Qed.

Lemma fold_flat_map (inputs : list name) (g : nat -> dd -> dd) vars : forall t,
  fold_left (fun acc i => g i acc)
            (flat_map (fun x => match index_of x inputs with Some i => [i] | None => [] end) vars) t
  = fold_left (fun acc x => match index_of x inputs with Some i => g i acc | None => acc end) vars t.
Proof.
  induction vars as [|x r IH]; intros t; simpl; [reflexivity|].
  rewrite fold_left_app. destruct (index_of x inputs); simpl; apply IH.
Qed.

Section Quant.
  Variable bop : bool -> bool -> bool.
  Variable foreign : dd -> dd.
  Hypothesis foreign_sem : forall t p k, ordered_from k t -> dd_eval (foreign t) p = bop (dd_eval t p) (dd_eval t p).
  Hypothesis foreign_inv : forall t k nv, inv k nv t -> inv k nv (foreign t).
  Hypothesis foreign_occ : forall t y, occurs y (foreign t) -> occurs y t.

  Theorem quant_core dbg b vars : wf_bdd b ->
    let root := fold_left (step (b_inputs b) bop foreign) vars (b_root b) in
    exists r, prune dbg {| b_inputs := b_inputs b; b_nv := b_nv b; b_root := root |}
                    (kept_inputs b (set_valuation vars)) = Ok r /\
              wf_bdd r /\ b_inputs r = set_diff (b_inputs b) vars /\
              forall v, bsem r v = elim_fn bop vars (bsem b) v.
  Proof.
    intros Hwf root. pose proof Hwf as (Hs & Hnv & Hinv).
    set (b1 := {| b_inputs := b_inputs b; b_nv := b_nv b; b_root := root |}).
    assert (Hroot : inv 0 (b_nv b) root) by (apply fold_step_inv; auto).
    assert (W1 : wf_bdd b1) by (split; [exact Hs|split; [exact Hnv|exact Hroot]]).
    destruct (prune_ok dbg b1 (kept_inputs b (set_valuation vars)) W1) as (r & Hr & Wr & Ir & Sr).
    - apply filter_sset. exact Hs.
    - intros x Hx. apply filter_In in Hx. apply Hx.
    - intros i x Ho Hx. cbn [b1 b_root b_inputs] in *. apply filter_In. split; [eapply nth_error_In; eauto|].
      rewrite has_set_valuation. destruct (mem x vars) eqn:Hm; [|reflexivity]. exfalso.
      apply mem_In in Hm.
      pose proof (index_of_NoDup _ (sset_NoDup _ Hs) i x Hx) as Hi.
      exact (fold_step_removed (b_inputs b) bop foreign foreign_inv foreign_occ (b_nv b) vars (b_root b) x i Hinv Hm Hi Ho).
    - exists r. split; [exact Hr|]. split; [exact Wr|]. split.
      + rewrite Ir. unfold kept_inputs. rewrite kept_is_diff, keys_set_valuation. reflexivity.
      + intros v. rewrite Sr. unfold bsem at 1. cbn [b1 b_root b_inputs]. fold (ienv (b_inputs b) v).
        unfold root. rewrite (fold_step_sem (b_inputs b) Hs bop foreign foreign_sem foreign_inv (b_nv b)) by exact Hinv.
        apply elim_fn_ext. intros w. reflexivity.
  Qed.
End Quant.

Lemma id_sem_orb t p k : ordered_from k t -> dd_eval t p = orb (dd_eval t p) (dd_eval t p).
Proof. intros _. destruct (dd_eval t p); reflexivity. Qed.
Lemma id_sem_andb t p k : ordered_from k t -> dd_eval t p = andb (dd_eval t p) (dd_eval t p).
Proof. intros _. destruct (dd_eval t p); reflexivity. Qed.

Theorem b_exists_spec dbg b vars : wf_bdd b ->
  exists r, b_exists dbg b vars = Ok r /\ wf_bdd r /\ b_inputs r = set_diff (b_inputs b) vars /\
            forall v, bsem r v = elim_fn orb vars (bsem b) v.
Proof.
  intros Hwf. unfold b_exists, b_quant, dd_exists, outer_to_inner. rewrite fold_flat_map.
  exact (quant_core orb (fun t => t) id_sem_orb (fun t k nv H => H) (fun t y H => H) dbg b vars Hwf).
Qed.

Theorem b_forall_spec dbg b vars : wf_bdd b ->
  exists r, b_forall dbg b vars = Ok r /\ wf_bdd r /\ b_inputs r = set_diff (b_inputs b) vars /\
            forall v, bsem r v = elim_fn andb vars (bsem b) v.
Proof.
  intros Hwf. unfold b_forall, b_quant, dd_forall, outer_to_inner. rewrite fold_flat_map.
  exact (quant_core andb (fun t => t) id_sem_andb (fun t k nv H => H) (fun t y H => H) dbg b vars Hwf).
Qed.

Theorem b_derivative_spec dbg b vars : wf_bdd b ->
  exists r, b_derivative dbg b vars = Ok r /\ wf_bdd r /\ b_inputs r = set_diff (b_inputs b) vars /\
            forall v, bsem r v = elim_fn xorb vars (bsem b) v.
Proof.
  intros Hwf. unfold b_derivative, outer_to_inner.
  refine (quant_core xorb (fun t => dd_xor t t) _ _ _ dbg b vars Hwf).
  - intros t p k Ho. apply (apply_sem xorb t t k); auto.
  - intros t k nv H. apply apply_inv; auto.
  - intros t y H. apply occurs_apply in H. tauto.
Qed.
