(* Proofs about the parser model: totality (T1), agreement with the reference grammar (T2),
   the text-level characterisation of from_str and the rejected classes (T3, with T4 from
   Proofs/LexerProofs.v), and the print / parse round trip (T5). *)
From BBF Require Import Base.Prelude Base.Names Model.Expr Model.Lexer Model.Parser Model.Display
     Spec.Grammar Proofs.ExprProofs Proofs.LexerProofs.
Local Open Scope N_scope.

(* ====================================================================================
   the code's own recursive equations hold for the model
   ==================================================================================== *)
Lemma parse_tokens_eq ts : parse_tokens ts = parse_or (map item_of ts).
Proof. reflexivity. Qed.

Lemma terminal_parens inner : terminal (map item_of [TParens inner]) = parse_tokens inner.
Proof. reflexivity. Qed.

Lemma terminal_not ts : terminal (map item_of (TNot :: ts)) =
  match terminal (map item_of ts) with POk e => POk (Not e) | x => x end.
Proof. reflexivity. Qed.

(* ====================================================================================
   splitting
   ==================================================================================== *)
Section Split.
  Context {A : Type} (p : A -> bool).

  Definition sepfree (g : list A) : bool := forallb (fun x => negb (p x)) g.

  Lemma split_on_nonempty l : split_on p l <> [].
  Proof.
    destruct l as [|x r]; simpl; [discriminate|].
    destruct (p x); [discriminate|]. destruct (split_on p r); discriminate.
  Qed.

  Lemma split_on_sepfree g : sepfree g = true -> split_on p g = [g].
  Proof.
    induction g as [|x g IH]; simpl; [reflexivity|].
    intros H. apply andb_true_iff in H. destruct H as [Hx Hg]. apply negb_true_iff in Hx.
    rewrite Hx, (IH Hg). reflexivity.
  Qed.

  Lemma split_on_app_sep g x r : sepfree g = true -> p x = true -> split_on p (g ++ x :: r) = g :: split_on p r.
  Proof.
    induction g as [|y g IH]; simpl; intros Hg Hx.
    - rewrite Hx. reflexivity.
    - apply andb_true_iff in Hg. destruct Hg as [Hy Hg]. apply negb_true_iff in Hy.
      rewrite Hy, (IH Hg Hx). reflexivity.
  Qed.

  (* the groups, put back together with the separators that were between them *)
  Inductive rejoin : list (list A) -> list A -> Prop :=
  | rejoin_one g : rejoin [g] g
  | rejoin_cons g x gs l : p x = true -> rejoin gs l -> rejoin (g :: gs) (g ++ x :: l).

  Lemma split_on_rejoin l : rejoin (split_on p l) l /\ Forall (fun g => sepfree g = true) (split_on p l).
  Proof.
    induction l as [|x r [IH1 IH2]]; simpl.
    - split; [constructor|repeat constructor].
    - destruct (p x) eqn:E.
      + split; [apply (rejoin_cons [] x); assumption|constructor; [reflexivity|assumption]].
      + destruct (split_on p r) as [|g gs] eqn:Es; [exfalso; exact (split_on_nonempty r Es)|].
        inversion IH2 as [|g0 gs0 Hg Hgs]; subst. split.
        * inversion IH1 as [g0|g0 y gs0 l0 Hy Hr]; subst.
          -- constructor.
          -- apply (rejoin_cons (x :: g) y); assumption.
        * constructor; [simpl; rewrite E; exact Hg|exact Hgs].
  Qed.
End Split.

Lemma split_on_map {A B} (f : A -> B) (p : B -> bool) l :
  split_on p (map f l) = map (map f) (split_on (fun x => p (f x)) l).
Proof.
  induction l as [|x r IH]; simpl; [reflexivity|].
  destruct (p (f x)); [rewrite IH; reflexivity|].
  rewrite IH. destruct (split_on (fun x0 => p (f x0)) r); reflexivity.
Qed.

(* ====================================================================================
   collect / nary
   ==================================================================================== *)
Lemma collect_inl rs es : collect rs = inl es <-> rs = map POk es.
Proof.
  revert es. induction rs as [|r rs IH]; intros es; simpl.
  - split; [intros [= <-]; reflexivity|]. destruct es; [reflexivity|discriminate].
  - destruct r as [e|x|].
    + destruct (collect rs) as [es'|y] eqn:E.
      * split.
        -- intros [= <-]. simpl. f_equal. apply IH. reflexivity.
        -- destruct es as [|e0 es]; [discriminate|]. simpl. intros [= -> H]. apply IH in H. congruence.
      * split; [discriminate|]. destruct es as [|e0 es]; [discriminate|]. simpl. intros [= -> H].
        apply IH in H. discriminate.
    + split; [discriminate|]. destruct es; discriminate.
    + split; [discriminate|]. destruct es; discriminate.
Qed.

Lemma collect_inr rs x : collect rs = inr x -> In x rs /\ (forall e, x <> POk e).
Proof.
  induction rs as [|r rs IH]; simpl; [discriminate|].
  destruct r as [e|y|].
  - destruct (collect rs) as [es'|y]; [discriminate|]. intros [= ->]. destruct (IH eq_refl). auto.
  - intros [= <-]. split; [auto|discriminate].
  - intros [= <-]. split; [auto|discriminate].
Qed.

Lemma nary_ok mk es : es <> [] -> nary mk es = POk (fold1 mk es).
Proof. destruct es as [|e [|e' es]]; [contradiction|reflexivity|reflexivity]. Qed.

Lemma nary_ok_inv mk es e : nary mk es = POk e -> es <> [] /\ e = fold1 mk es.
Proof.
  destruct es as [|e1 [|e2 es]]; simpl; [discriminate| |]; intros [= <-]; split; try discriminate; reflexivity.
Qed.

(* ====================================================================================
   T2: parse_tokens and the reference grammar
   ==================================================================================== *)
Definition is_tor (t : token) : bool := is_ior (item_of t).
Definition is_tand (t : token) : bool := is_iand (item_of t).

Lemma is_tor_eq t : is_tor t = true -> t = TOr.
Proof. destruct t; simpl; try discriminate; reflexivity. Qed.
Lemma is_tand_eq t : is_tand t = true -> t = TAnd.
Proof. destruct t; simpl; try discriminate; reflexivity. Qed.

Definition no_or (ts : list token) : bool := sepfree is_tor ts.
Definition no_and (ts : list token) : bool := sepfree is_tand ts.

(* ---- grammar => parser ---- *)
Lemma G_complete :
  (forall ts e, G_or ts e -> parse_tokens ts = POk e) /\
  (forall ts es, G_ors ts es ->
     collect (map parse_and (split_on is_ior (map item_of ts))) = inl es /\ es <> []) /\
  (forall ts e, G_and ts e -> parse_and (map item_of ts) = POk e /\ no_or ts = true) /\
  (forall ts es, G_ands ts es ->
     collect (map terminal (split_on is_iand (map item_of ts))) = inl es /\ es <> [] /\ no_or ts = true) /\
  (forall ts e, G_un ts e -> terminal (map item_of ts) = POk e /\ no_or ts = true /\ no_and ts = true) /\
  (forall t e, G_atom t e -> item_of t = IAtom (POk e)).
Proof.
  apply G_mutind.
  - (* G_or_intro *)
    intros ts es _ [Hc Hne]. unfold parse_tokens, parse_or. rewrite Hc. apply nary_ok. exact Hne.
  - (* G_ors_one *)
    intros ts e _ [Hp Hno]. rewrite split_on_map. fold is_tor.
    rewrite (split_on_sepfree is_tor ts Hno). simpl. rewrite Hp. split; [reflexivity|discriminate].
  - (* G_ors_cons *)
    intros ts1 e ts2 es _ [Hp Hno] _ [Hc Hne]. rewrite split_on_map. fold is_tor.
    rewrite (split_on_app_sep is_tor ts1 TOr ts2 Hno eq_refl). simpl. rewrite Hp.
    rewrite split_on_map in Hc. fold is_tor in Hc. rewrite Hc. split; [reflexivity|discriminate].
  - (* G_and_intro *)
    intros ts es _ (Hc & Hne & Hno). split; [|exact Hno]. unfold parse_and. rewrite Hc. apply nary_ok. exact Hne.
  - (* G_ands_one *)
    intros ts e _ (Ht & Hno & Hna). rewrite split_on_map. fold is_tand.
    rewrite (split_on_sepfree is_tand ts Hna). simpl. rewrite Ht. repeat split; [discriminate|exact Hno].
  - (* G_ands_cons *)
    intros ts1 e ts2 es _ (Ht & Hno1 & Hna1) _ (Hc & Hne & Hno2). rewrite split_on_map. fold is_tand.
    rewrite (split_on_app_sep is_tand ts1 TAnd ts2 Hna1 eq_refl). simpl. rewrite Ht.
    rewrite split_on_map in Hc. fold is_tand in Hc. rewrite Hc. repeat split; [discriminate|].
    unfold no_or, sepfree in *. rewrite forallb_app. simpl. rewrite Hno1, Hno2. reflexivity.
  - (* G_un_not *)
    intros ts e _ (Ht & Hno & Hna). rewrite terminal_not, Ht. repeat split; assumption.
  - (* G_un_atom *)
    intros t e Ha Hi. simpl. rewrite Hi. destruct t; try discriminate; repeat split; reflexivity.
  - reflexivity.
  - reflexivity.
  - reflexivity.
  - intros inner e _ Hp. simpl. unfold parse_tokens in Hp. rewrite Hp. reflexivity.
Qed.

(* ---- parser => grammar ---- *)
Lemma collect_map_Forall2 {A} (f : A -> pres) gs es :
  collect (map f gs) = inl es -> Forall2 (fun g e => f g = POk e) gs es.
Proof.
  intros H. apply collect_inl in H. revert es H.
  induction gs as [|g gs IH]; intros [|e es] H; simpl in H; try discriminate; [constructor|].
  injection H as H1 H2. constructor; [exact H1|apply IH; exact H2].
Qed.

Lemma rejoin_G_ors gs : forall ts es, rejoin is_tor gs ts -> Forall2 G_and gs es -> G_ors ts es.
Proof.
  induction gs as [|g gs IH]; intros ts es Hr HF; [inversion Hr|].
  inversion HF as [|g0 e gs0 es0 Hg HF']; subst.
  inversion Hr as [g0|g0 x gs0 l Hx Hr']; subst.
  - inversion HF'; subst. constructor. exact Hg.
  - apply is_tor_eq in Hx. subst x. constructor; [exact Hg|]. apply IH; assumption.
Qed.

Lemma rejoin_G_ands gs : forall ts es, rejoin is_tand gs ts -> Forall2 G_un gs es -> G_ands ts es.
Proof.
  induction gs as [|g gs IH]; intros ts es Hr HF; [inversion Hr|].
  inversion HF as [|g0 e gs0 es0 Hg HF']; subst.
  inversion Hr as [g0|g0 x gs0 l Hx Hr']; subst.
  - inversion HF'; subst. constructor. exact Hg.
  - apply is_tand_eq in Hx. subst x. constructor; [exact Hg|]. apply IH; assumption.
Qed.

Definition atom_ok (t : token) : Prop := forall e, item_of t = IAtom (POk e) -> G_atom t e.

Lemma terminal_sound ts : Forall atom_ok ts -> forall e, terminal (map item_of ts) = POk e -> G_un ts e.
Proof.
  induction ts as [|t ts IH]; intros HF e H; [discriminate|].
  inversion HF as [|t0 ts0 Ht HF']; subst.
  destruct t; simpl in H.
  - destruct ts; discriminate.
  - destruct ts; discriminate.
  - fold (map item_of ts) in H. destruct (terminal (map item_of ts)) as [e'| |] eqn:E; try discriminate.
    injection H as <-. constructor. apply IH; [exact HF'|reflexivity].
  - destruct ts; simpl in H; [|discriminate]. constructor. apply Ht. simpl. congruence.
  - destruct ts; simpl in H; [|discriminate]. constructor. apply Ht. simpl. congruence.
  - destruct ts; simpl in H; [|discriminate]. constructor. apply Ht. simpl. congruence.
  - destruct ts; simpl in H; [|discriminate]. constructor. apply Ht. simpl. congruence.
Qed.

Lemma Forall_sub_rejoin {A} (p : A -> bool) (Q : A -> Prop) gs l :
  rejoin p gs l -> Forall Q l -> Forall (Forall Q) gs.
Proof.
  induction 1 as [g|g x gs l Hx _ IH]; intros HF.
  - constructor; [exact HF|constructor].
  - apply Forall_app in HF. destruct HF as [Hg HF]. inversion HF; subst. constructor; [exact Hg|apply IH; assumption].
Qed.

Lemma Forall2_weaken_in {A B} (R R' : A -> B -> Prop) (Q : A -> Prop) l l' :
  Forall Q l -> (forall a b, Q a -> R a b -> R' a b) -> Forall2 R l l' -> Forall2 R' l l'.
Proof.
  intros HQ Himp HF. induction HF as [|a b l l' Hab _ IH]; [constructor|].
  inversion HQ; subst. constructor; [apply Himp; assumption|apply IH; assumption].
Qed.

Lemma parse_and_sound ts : Forall atom_ok ts -> forall e, parse_and (map item_of ts) = POk e -> G_and ts e.
Proof.
  intros HF e H. unfold parse_and in H. rewrite split_on_map in H. fold is_tand in H.
  rewrite map_map in H.
  destruct (collect _) as [es|x] eqn:Ec; [|subst x; destruct (collect_inr _ _ Ec) as [_ Hx]; exfalso; exact (Hx e eq_refl)].
  apply nary_ok_inv in H. destruct H as [Hne ->]. constructor.
  destruct (split_on_rejoin is_tand ts) as [Hr _].
  apply (rejoin_G_ands (split_on is_tand ts)); [exact Hr|].
  apply collect_map_Forall2 in Ec.
  eapply Forall2_weaken_in; [exact (Forall_sub_rejoin _ _ _ _ Hr HF)| |exact Ec].
  intros g e' Hg Ht. apply terminal_sound; assumption.
Qed.

Lemma parse_or_sound ts : Forall atom_ok ts -> forall e, parse_or (map item_of ts) = POk e -> G_or ts e.
Proof.
  intros HF e H. unfold parse_or in H. rewrite split_on_map in H. fold is_tor in H.
  rewrite map_map in H.
  destruct (collect _) as [es|x] eqn:Ec; [|subst x; destruct (collect_inr _ _ Ec) as [_ Hx]; exfalso; exact (Hx e eq_refl)].
  apply nary_ok_inv in H. destruct H as [Hne ->]. constructor.
  destruct (split_on_rejoin is_tor ts) as [Hr _].
  apply (rejoin_G_ors (split_on is_tor ts)); [exact Hr|].
  apply collect_map_Forall2 in Ec.
  eapply Forall2_weaken_in; [exact (Forall_sub_rejoin _ _ _ _ Hr HF)| |exact Ec].
  intros g e' Hg Ht. apply parse_and_sound; assumption.
Qed.

Lemma atom_ok_all t : atom_ok t.
Proof.
  induction t as [| | | | |x|l IH] using token_ind'; intros e H; simpl in H; try discriminate.
  - injection H as <-. constructor.
  - injection H as <-. constructor.
  - injection H as <-. constructor.
  - injection H as H. constructor. apply parse_or_sound; assumption.
Qed.

Theorem parse_tokens_sound ts e : parse_tokens ts = POk e -> G_or ts e.
Proof. apply parse_or_sound. apply Forall_forall. intros t _. apply atom_ok_all. Qed.

Theorem parse_tokens_complete ts e : G_or ts e -> parse_tokens ts = POk e.
Proof. apply (proj1 G_complete). Qed.

(* T2 *)
Theorem parse_tokens_grammar ts e : parse_tokens ts = POk e <-> G_or ts e.
Proof. split; [apply parse_tokens_sound|apply parse_tokens_complete]. Qed.

(* ---- unreachable!() is unreachable ---- *)
Definition item_nopanic (i : item) : Prop := match i with IAtom PPanic => False | _ => True end.

Lemma terminal_nopanic d : Forall item_nopanic d -> sepfree is_iand d = true -> sepfree is_ior d = true ->
  terminal d <> PPanic.
Proof.
  induction d as [|i d IH]; intros HF Ha Ho; [discriminate|].
  inversion HF as [|i0 d0 Hi HF']; subst. simpl in Ha, Ho.
  apply andb_true_iff in Ha, Ho. destruct Ha as [Ha1 Ha2], Ho as [Ho1 Ho2].
  destruct i as [| | |r]; try discriminate.
  - simpl. specialize (IH HF' Ha2 Ho2). destruct (terminal d); congruence.
  - simpl. destruct d; [|discriminate]. destruct r; simpl in Hi; [discriminate|discriminate|contradiction].
Qed.

Lemma collect_nopanic rs : Forall (fun r => r <> PPanic) rs -> forall x, collect rs = inr x -> x <> PPanic.
Proof.
  intros HF x H. destruct (collect_inr _ _ H) as [Hin _]. rewrite Forall_forall in HF. apply HF. exact Hin.
Qed.

Lemma sepfree_sub {A} (p q : A -> bool) gs l : rejoin p gs l -> sepfree q l = true -> Forall (fun g => sepfree q g = true) gs.
Proof.
  induction 1 as [g|g x gs l Hx _ IH]; intros H.
  - constructor; [exact H|constructor].
  - unfold sepfree in H. rewrite forallb_app in H. apply andb_true_iff in H. destruct H as [H1 H2].
    simpl in H2. apply andb_true_iff in H2. destruct H2 as [_ H2]. constructor; [exact H1|apply IH; exact H2].
Qed.

Lemma parse_and_nopanic d : Forall item_nopanic d -> sepfree is_ior d = true -> parse_and d <> PPanic.
Proof.
  intros HF Ho. unfold parse_and.
  destruct (split_on_rejoin is_iand d) as [Hr Hs].
  destruct (collect _) as [es|x] eqn:Ec.
  - destruct es as [|e [|e' es]]; discriminate.
  - refine (collect_nopanic _ _ x Ec).
    apply Forall_forall. intros r Hin. apply in_map_iff in Hin. destruct Hin as (g & <- & Hg).
    pose proof (Forall_sub_rejoin _ _ _ _ Hr HF) as H1. pose proof (sepfree_sub _ _ _ _ Hr Ho) as H2.
    rewrite Forall_forall in H1, H2, Hs. apply terminal_nopanic; auto.
Qed.

Lemma parse_or_nopanic d : Forall item_nopanic d -> parse_or d <> PPanic.
Proof.
  intros HF. unfold parse_or.
  destruct (split_on_rejoin is_ior d) as [Hr Hs].
  destruct (collect _) as [es|x] eqn:Ec.
  - destruct es as [|e [|e' es]]; discriminate.
  - refine (collect_nopanic _ _ x Ec).
    apply Forall_forall. intros r Hin. apply in_map_iff in Hin. destruct Hin as (g & <- & Hg).
    pose proof (Forall_sub_rejoin _ _ _ _ Hr HF) as H1.
    rewrite Forall_forall in H1, Hs. apply parse_and_nopanic; auto.
Qed.

Lemma item_of_nopanic t : item_nopanic (item_of t).
Proof.
  induction t as [| | | | |x|l IH] using token_ind'; simpl; auto.
  pose proof (parse_or_nopanic (map item_of l)) as H.
  destruct (parse_or (map item_of l)); auto. apply H; [|reflexivity].
  apply Forall_forall. intros i Hi. apply in_map_iff in Hi. destruct Hi as (t & <- & Ht).
  rewrite Forall_forall in IH. auto.
Qed.

Theorem parse_tokens_no_panic ts : parse_tokens ts <> PPanic.
Proof.
  apply parse_or_nopanic. apply Forall_forall. intros i Hi. apply in_map_iff in Hi.
  destruct Hi as (t & <- & _). apply item_of_nopanic.
Qed.

(* reject = the grammar derives nothing *)
Corollary parse_tokens_reject ts : (exists x, parse_tokens ts = PErr x) <-> ~ exists e, G_or ts e.
Proof.
  split.
  - intros (x & Hx) (e & He). apply parse_tokens_complete in He. congruence.
  - intros Hn. destruct (parse_tokens ts) as [e|x|] eqn:E.
    + exfalso. apply Hn. exists e. apply parse_tokens_sound. exact E.
    + eauto.
    + exfalso. exact (parse_tokens_no_panic ts E).
Qed.

(* ====================================================================================
   T1: from_str is total: Ok or Err, never a panic and never out of fuel
   ==================================================================================== *)
Theorem from_str_full_total s : forall c, from_str_full s <> ParsePanic c.
Proof.
  intros c. unfold from_str_full, from_str_fuel. fold (tokenize s).
  pose proof (tokenize_no_fuel s) as Hf.
  destruct (tokenize s) as [toks|x|]; [|discriminate|contradiction].
  pose proof (parse_tokens_no_panic toks) as Hp.
  destruct (parse_tokens toks); [discriminate|discriminate|contradiction].
Qed.

Theorem from_str_total s : (exists e, from_str s = Ok e) \/ (exists c, from_str s = Err c).
Proof.
  unfold from_str. pose proof (from_str_full_total s) as H.
  destruct (from_str_full s) as [e|x|x|c]; simpl.
  - left. eauto.
  - right. eauto.
  - right. destruct x; eauto.
  - exfalso. exact (H c eq_refl).
Qed.

Lemma from_str_ok_iff s e : from_str s = Ok e <-> exists toks, tokenize s = TokOk toks /\ parse_tokens toks = POk e.
Proof.
  unfold from_str, from_str_full, from_str_fuel. fold (tokenize s). split.
  - destruct (tokenize s) as [toks|x|]; simpl; try discriminate.
    destruct (parse_tokens toks) as [e'|x|] eqn:E; simpl; try discriminate; [|destruct x; discriminate].
    intros [= ->]. eauto.
  - intros (toks & -> & ->). reflexivity.
Qed.

(* ====================================================================================
   from_str reads a text exactly as the reference does (T2 + T4 together)
   ==================================================================================== *)
Theorem from_str_denotes s e : from_str s = Ok e <-> denotes s e.
Proof.
  rewrite from_str_ok_iff. split.
  - intros (toks & Ht & Hp). exists toks. split; [apply tokenize_sound; exact Ht|apply parse_tokens_sound; exact Hp].
  - intros (forest & Hl & Hg). exists forest. split; [apply tokenize_complete; exact Hl|apply parse_tokens_complete; exact Hg].
Qed.

Theorem from_str_rejects s : (exists c, from_str s = Err c) <-> ~ exists e, denotes s e.
Proof.
  split.
  - intros (c & Hc) (e & He). apply from_str_denotes in He. congruence.
  - intros Hn. destruct (from_str_total s) as [(e & He)|Hc]; [|exact Hc].
    exfalso. apply Hn. exists e. apply from_str_denotes. exact He.
Qed.

(* the reading is unique: `group` undoes `flatten` *)
Lemma group_flatten : forall forest ts cur stack,
  group (flatten forest ++ ts) cur stack = group ts (rev forest ++ cur) stack.
Proof.
  intros forest. induction forest as [|t l Ht IHl|inner l IHi IHl] using forest_ind; intros ts cur stack.
  - reflexivity.
  - rewrite flatten_cons, (flatten_simple _ Ht). simpl rev.
    replace ((rev l ++ [t]) ++ cur) with (rev l ++ t :: cur) by (rewrite <- app_assoc; reflexivity).
    rewrite <- IHl. rewrite <- app_assoc. destruct t; try discriminate; reflexivity.
  - rewrite flatten_cons, flatten_parens. simpl rev.
    replace ((rev l ++ [TParens inner]) ++ cur) with (rev l ++ TParens inner :: cur) by (rewrite <- app_assoc; reflexivity).
    rewrite <- IHl. simpl. rewrite <- !app_assoc. rewrite IHi. simpl.
    rewrite app_nil_r, rev_involutive. reflexivity.
Qed.

Lemma group_flatten_id forest : group (flatten forest) [] [] = Some forest.
Proof.
  rewrite <- (app_nil_r (flatten forest)), group_flatten. simpl. rewrite app_nil_r, rev_involutive. reflexivity.
Qed.

Lemma flatten_inj a b : flatten a = flatten b -> a = b.
Proof. intros H. pose proof (group_flatten_id a) as Ha. rewrite H, group_flatten_id in Ha. congruence. Qed.

(* ====================================================================================
   T3: the malformed classes are rejected
   ==================================================================================== *)
Definition rejected (s : list N) : Prop := exists c, from_str s = Err c.

Lemma not_denotes_rejected s : (forall e, ~ denotes s e) -> rejected s.
Proof. intros H. apply from_str_rejects. intros (e & He). exact (H e He). Qed.

(* ---- lexical classes: the reference lexer gets stuck after a well-read prefix ---- *)
Lemma lexes_to_stuck s ts r : lexes_to s ts r -> trim_ws r <> [] -> ref_next (trim_ws r) = None ->
  forall ts', ~ lexes s ts'.
Proof.
  induction 1 as [s|s t s' ts r Hn _ IH]; intros Hne Hnone ts' (r' & H' & E').
  - destruct ts' as [|t' ts'].
    + apply lexes_to_nil_inv in H'. subst r'. contradiction.
    + apply lexes_to_cons_inv in H'. destruct H' as (s2 & Hn2 & _). congruence.
  - destruct ts' as [|t' ts'].
    + apply lexes_to_nil_inv in H'. subst r'. rewrite E' in Hn. discriminate.
    + apply lexes_to_cons_inv in H'. destruct H' as (s2 & Hn2 & Hr2).
      rewrite Hn in Hn2. injection Hn2 as <- <-. apply (IH Hne Hnone ts'). exists r'. auto.
Qed.

Theorem stuck_rejected s ts r : lexes_to s ts r -> trim_ws r <> [] -> ref_next (trim_ws r) = None -> rejected s.
Proof.
  intros H Hne Hnone. apply not_denotes_rejected. intros e (forest & Hl & _).
  exact (lexes_to_stuck _ _ _ H Hne Hnone _ Hl).
Qed.

(* which characters may start a lexeme *)
Definition starts_lexeme (c : N) : bool :=
  is_ident c || existsb (N.eqb c) [123; 38; 8743; 94; 42; 124; 8744; 43; 126; 33; 172; 40; 41].

Lemma ref_next_unknown c x : starts_lexeme c = false -> ref_next (c :: x) = None.
Proof.
  unfold starts_lexeme. intros H. apply orb_false_iff in H. destruct H as [Hid Hsym].
  destruct (is_ident_ci c) eqn:Hci.
  - unfold is_ident_ci in Hci. rewrite Hid in Hci. simpl in Hci.
    apply orb_true_iff in Hci. destruct Hci as [H|H]; apply N.eqb_eq in H; subst c; reflexivity.
  - unfold ref_next. rewrite (find_kw_nonident keywords c x eq_refl Hci).
    simpl span_ident. rewrite Hid. simpl in Hsym.
    repeat (apply orb_false_iff in Hsym; destruct Hsym as [? Hsym]).
    rewrite H. unfold symbols, find_sym, strip_exact.
    repeat match goal with Hx : N.eqb c _ = false |- _ => rewrite Hx; clear Hx end.
    reflexivity.
Qed.

(* unknown symbol *)
Corollary reject_unknown_symbol s ts r c x :
  lexes_to s ts r -> trim_ws r = c :: x -> starts_lexeme c = false -> rejected s.
Proof.
  intros H Hr Hc. apply (stuck_rejected s ts r H); rewrite Hr; [discriminate|apply ref_next_unknown; exact Hc].
Qed.

(* a closing brace that closes nothing *)
Corollary reject_closing_brace s ts r x : lexes_to s ts r -> trim_ws r = 125 :: x -> rejected s.
Proof. intros H Hr. apply (stuck_rejected s ts r H); rewrite Hr; [discriminate|reflexivity]. Qed.

(* the empty name {} *)
Corollary reject_empty_braces s ts r x : lexes_to s ts r -> trim_ws r = 123 :: 125 :: x -> rejected s.
Proof. intros H Hr. apply (stuck_rejected s ts r H); rewrite Hr; [discriminate|reflexivity]. Qed.

(* an opening brace that is never closed *)
Corollary reject_unclosed_brace s ts r x :
  lexes_to s ts r -> trim_ws r = 123 :: x -> forallb (fun c => negb (N.eqb c 125)) x = true -> rejected s.
Proof.
  intros H Hr Hx. apply (stuck_rejected s ts r H); rewrite Hr; [discriminate|].
  apply until_brace_none in Hx. unfold ref_next. simpl. rewrite Hx. reflexivity.
Qed.

(* ---- brackets that do not nest ---- *)
Fixpoint depth_ok (ts : list ftoken) (d : nat) : bool :=
  match ts with
  | [] => Nat.eqb d 0
  | FLParen :: r => depth_ok r (S d)
  | FRParen :: r => match d with O => false | S d' => depth_ok r d' end
  | _ :: r => depth_ok r d
  end.

Lemma depth_ok_flatten : forall forest ts d, depth_ok (flatten forest ++ ts) d = depth_ok ts d.
Proof.
  intros forest. induction forest as [|t l Ht IHl|inner l IHi IHl] using forest_ind; intros ts d.
  - reflexivity.
  - rewrite flatten_cons, (flatten_simple _ Ht), <- app_assoc. simpl. rewrite <- (IHl ts d).
    destruct t; try discriminate; reflexivity.
  - rewrite flatten_cons, flatten_parens, <- app_assoc. simpl. rewrite <- app_assoc. rewrite IHi. simpl. apply IHl.
Qed.

Theorem reject_unbalanced s ts : lexes s ts -> depth_ok ts 0 = false -> rejected s.
Proof.
  intros Hl Hd. apply not_denotes_rejected. intros e (forest & Hf & _).
  rewrite (lexes_det _ _ _ Hl Hf) in Hd.
  rewrite <- (app_nil_r (flatten forest)), depth_ok_flatten in Hd. discriminate.
Qed.

(* ---- empty input ---- *)
Lemma trim_ws_all s : forallb is_ws s = true -> trim_ws s = [].
Proof.
  induction s as [|c r IH]; simpl; [reflexivity|]. intros H. apply andb_true_iff in H. destruct H as [-> H]. auto.
Qed.

Theorem reject_blank s : forallb is_ws s = true -> from_str_full s = ParsingError EmptySideOfOperator.
Proof.
  intros H. assert (Ht : tokenize s = TokOk []).
  { apply tokenize_complete. exists s. split; [constructor|apply trim_ws_all; exact H]. }
  unfold from_str_full, from_str_fuel. fold (tokenize s). rewrite Ht. reflexivity.
Qed.

(* ---- operators and operands must alternate (at every nesting level) ---- *)
Fixpoint shape (want_operand : bool) (ts : list token) : bool :=
  match ts with
  | [] => negb want_operand
  | TNot :: r => want_operand && shape true r
  | TAnd :: r | TOr :: r => negb want_operand && shape true r
  | _ :: r => want_operand && shape false r
  end.

Fixpoint deep_shape (t : token) : bool :=
  match t with
  | TParens inner => shape true inner && forallb deep_shape inner
  | _ => true
  end.

Definition well_shaped (ts : list token) : bool := shape true ts && forallb deep_shape ts.

Lemma G_shape :
  (forall ts e, G_or ts e -> (forall r, shape true (ts ++ r) = shape false r) /\ forallb deep_shape ts = true) /\
  (forall ts es, G_ors ts es -> (forall r, shape true (ts ++ r) = shape false r) /\ forallb deep_shape ts = true) /\
  (forall ts e, G_and ts e -> (forall r, shape true (ts ++ r) = shape false r) /\ forallb deep_shape ts = true) /\
  (forall ts es, G_ands ts es -> (forall r, shape true (ts ++ r) = shape false r) /\ forallb deep_shape ts = true) /\
  (forall ts e, G_un ts e -> (forall r, shape true (ts ++ r) = shape false r) /\ forallb deep_shape ts = true) /\
  (forall t e, G_atom t e -> (forall r, shape true (t :: r) = shape false r) /\ deep_shape t = true).
Proof.
  apply G_mutind; try (intros; assumption).
  - intros ts1 e ts2 es _ [H1 D1] _ [H2 D2]. split.
    + intros r. rewrite <- app_assoc, H1. simpl. apply H2.
    + rewrite forallb_app, D1. simpl. exact D2.
  - intros ts1 e ts2 es _ [H1 D1] _ [H2 D2]. split.
    + intros r. rewrite <- app_assoc, H1. simpl. apply H2.
    + rewrite forallb_app, D1. simpl. exact D2.
  - intros t e _ [H D]. split; [intros r; apply H|simpl; rewrite D; reflexivity].
  - split; reflexivity.
  - split; reflexivity.
  - split; reflexivity.
  - intros inner e _ [H D]. split; [reflexivity|].
    simpl. rewrite D, andb_true_r. rewrite <- (app_nil_r inner), H. reflexivity.
Qed.

Theorem accepted_well_shaped ts e : parse_tokens ts = POk e -> well_shaped ts = true.
Proof.
  intros H. apply parse_tokens_sound in H. destruct (proj1 G_shape _ _ H) as [Hs Hd].
  unfold well_shaped. rewrite Hd, andb_true_r. rewrite <- (app_nil_r ts), Hs. reflexivity.
Qed.

Corollary ill_shaped_rejected ts : well_shaped ts = false -> exists x, parse_tokens ts = PErr x.
Proof.
  intros H. destruct (parse_tokens ts) as [e|x|] eqn:E.
  - rewrite (accepted_well_shaped _ _ E) in H. discriminate.
  - eauto.
  - exfalso. exact (parse_tokens_no_panic ts E).
Qed.

Definition is_binop (t : token) : bool := match t with TAnd | TOr => true | _ => false end.
Definition is_operand (t : token) : bool := match t with TTrue | TFalse | TLit _ | TParens _ => true | _ => false end.

Lemma shape_false_intro st pre mid : (forall st', shape st' mid = false) -> shape st (pre ++ mid) = false.
Proof.
  intros H. revert st. induction pre as [|t pre IH]; intros st; simpl; [apply H|].
  destruct t; rewrite IH; apply andb_false_r.
Qed.

Lemma ill_shaped_top ts : shape true ts = false -> well_shaped ts = false.
Proof. unfold well_shaped. intros ->. reflexivity. Qed.

(* an operator (binary or NOT) with nothing after it *)
Corollary reject_trailing_operator pre op :
  is_operand op = false -> exists x, parse_tokens (pre ++ [op]) = PErr x.
Proof.
  intros H. apply ill_shaped_rejected, ill_shaped_top, shape_false_intro.
  intros st'. destruct op; try discriminate; simpl; destruct st'; reflexivity.
Qed.

(* a binary operator with nothing before it *)
Corollary reject_leading_operator op post : is_binop op = true -> exists x, parse_tokens (op :: post) = PErr x.
Proof. intros H. apply ill_shaped_rejected, ill_shaped_top. destruct op; try discriminate; reflexivity. Qed.

(* an operator directly followed by a binary operator *)
Corollary reject_adjacent_operators pre op1 op2 post :
  is_operand op1 = false -> is_binop op2 = true -> exists x, parse_tokens (pre ++ op1 :: op2 :: post) = PErr x.
Proof.
  intros H1 H2. apply ill_shaped_rejected, ill_shaped_top, shape_false_intro.
  intros st'. destruct op1; try discriminate; destruct op2; try discriminate; simpl; destruct st'; reflexivity.
Qed.

(* an operand directly followed by an operand or by NOT *)
Corollary reject_adjacent_operands pre a b post :
  is_operand a = true -> is_binop b = false -> exists x, parse_tokens (pre ++ a :: b :: post) = PErr x.
Proof.
  intros H1 H2. apply ill_shaped_rejected, ill_shaped_top, shape_false_intro.
  intros st'. destruct a; try discriminate; destruct b; try discriminate; simpl; destruct st'; reflexivity.
Qed.

(* an empty pair of brackets, or any ill-formed content of a bracket pair, anywhere *)
Corollary reject_bad_group pre inner post :
  well_shaped inner = false -> exists x, parse_tokens (pre ++ TParens inner :: post) = PErr x.
Proof.
  intros H. apply ill_shaped_rejected. unfold well_shaped in *.
  rewrite forallb_app. simpl. rewrite H. rewrite !andb_false_r. reflexivity.
Qed.

(* the same at the level of texts: whatever reads as an ill-shaped forest is rejected *)
Theorem reject_ill_shaped_text s forest : lexes s (flatten forest) -> well_shaped forest = false -> rejected s.
Proof.
  intros Hl Hw. apply not_denotes_rejected. intros e (forest' & Hl' & Hg).
  pose proof (lexes_det _ _ _ Hl Hl') as Hf. apply flatten_inj in Hf. subst forest'.
  apply parse_tokens_complete in Hg. rewrite (accepted_well_shaped _ _ Hg) in Hw. discriminate.
Qed.

(* ====================================================================================
   names are preserved: the literal occurrences of the result, in order, are exactly the
   name lexemes of the text, in order
   ==================================================================================== *)
Definition fname (t : ftoken) : list name := match t with FName x => [x] | _ => [] end.
Definition fnames (ts : list ftoken) : list name := concat (map fname ts).

Lemma fnames_app a b : fnames (a ++ b) = fnames a ++ fnames b.
Proof. unfold fnames. rewrite map_app, concat_app. reflexivity. Qed.

Lemma occ_fold1_and es : occurrences (fold1 And es) = concat (map occurrences es).
Proof. destruct es as [|e [|e' es]]; simpl; rewrite ?app_nil_r; reflexivity. Qed.
Lemma occ_fold1_or es : occurrences (fold1 Or es) = concat (map occurrences es).
Proof. destruct es as [|e [|e' es]]; simpl; rewrite ?app_nil_r; reflexivity. Qed.

Lemma G_names :
  (forall ts e, G_or ts e -> occurrences e = fnames (flatten ts)) /\
  (forall ts es, G_ors ts es -> concat (map occurrences es) = fnames (flatten ts)) /\
  (forall ts e, G_and ts e -> occurrences e = fnames (flatten ts)) /\
  (forall ts es, G_ands ts es -> concat (map occurrences es) = fnames (flatten ts)) /\
  (forall ts e, G_un ts e -> occurrences e = fnames (flatten ts)) /\
  (forall t e, G_atom t e -> occurrences e = fnames (flatten_tok t)).
Proof.
  apply G_mutind.
  - intros ts es _ H. rewrite occ_fold1_or. exact H.
  - intros ts e _ H. simpl. rewrite app_nil_r. exact H.
  - intros ts1 e ts2 es _ H1 _ H2. simpl. rewrite H1, H2, flatten_app, fnames_app. reflexivity.
  - intros ts es _ H. rewrite occ_fold1_and. exact H.
  - intros ts e _ H. simpl. rewrite app_nil_r. exact H.
  - intros ts1 e ts2 es _ H1 _ H2. simpl. rewrite H1, H2, flatten_app, fnames_app. reflexivity.
  - intros ts e _ H. simpl. exact H.
  - intros t e _ H. rewrite H. unfold flatten. simpl. rewrite app_nil_r. reflexivity.
  - reflexivity.
  - reflexivity.
  - reflexivity.
  - intros inner e _ H. rewrite H, flatten_parens.
    change (FLParen :: flatten inner ++ [FRParen]) with ([FLParen] ++ flatten inner ++ [FRParen]).
    rewrite !fnames_app. unfold fnames at 1 3. simpl. rewrite app_nil_r. reflexivity.
Qed.

Theorem from_str_names s e : from_str s = Ok e ->
  exists ts, lexes s ts /\ occurrences e = fnames ts.
Proof.
  intros H. apply from_str_denotes in H. destruct H as (forest & Hl & Hg).
  exists (flatten forest). split; [exact Hl|exact (proj1 G_names _ _ Hg)].
Qed.

(* ====================================================================================
   the executable form of the reference (ref_lex, group, ref_forest) is the relation
   ==================================================================================== *)
Lemma strip_ci_length p : forall s rest, strip_ci p s = Some rest -> length s = (length p + length rest)%nat.
Proof.
  induction p as [|pc p IH]; intros s rest; simpl.
  - intros [= <-]. reflexivity.
  - destruct s as [|c s]; [discriminate|]. destruct (ci_eq pc c); [|discriminate].
    intros H. simpl. rewrite (IH _ _ H). reflexivity.
Qed.

Lemma strip_exact_length p : forall s rest, strip_exact p s = Some rest -> length s = (length p + length rest)%nat.
Proof.
  induction p as [|pc p IH]; intros s rest; simpl.
  - intros [= <-]. reflexivity.
  - destruct s as [|c s]; [discriminate|]. destruct (N.eqb c pc); [|discriminate].
    intros H. simpl. rewrite (IH _ _ H). reflexivity.
Qed.

Lemma find_kw_shorter kws s t rest :
  forallb (fun kw : list N * ftoken => negb (Nat.eqb (length (fst kw)) 0)) kws = true ->
  find_kw kws s = Some (t, rest) -> (length rest < length s)%nat.
Proof.
  induction kws as [|[p t'] kws IH]; simpl; [discriminate|].
  intros Hk. apply andb_true_iff in Hk. destruct Hk as [Hp Hk].
  unfold kw_at. destruct (strip_ci p s) as [r|] eqn:E.
  - destruct (boundary r).
    + intros [= _ <-]. apply strip_ci_length in E. apply negb_true_iff, Nat.eqb_neq in Hp. lia.
    + apply IH. exact Hk.
  - apply IH. exact Hk.
Qed.

Lemma find_sym_shorter syms s t rest :
  forallb (fun kw : list N * ftoken => negb (Nat.eqb (length (fst kw)) 0)) syms = true ->
  find_sym syms s = Some (t, rest) -> (length rest < length s)%nat.
Proof.
  induction syms as [|[p t'] syms IH]; simpl; [discriminate|].
  intros Hk. apply andb_true_iff in Hk. destruct Hk as [Hp Hk].
  destruct (strip_exact p s) as [r|] eqn:E.
  - intros [= _ <-]. apply strip_exact_length in E. apply negb_true_iff, Nat.eqb_neq in Hp. lia.
  - apply IH. exact Hk.
Qed.

Lemma ref_next_shorter s t rest : ref_next s = Some (t, rest) -> (length rest < length s)%nat.
Proof.
  unfold ref_next. destruct (find_kw keywords s) as [[t' r']|] eqn:Ek.
  - intros [= <- <-]. exact (find_kw_shorter keywords s _ _ eq_refl Ek).
  - destruct (span_ident s) as [[|c run] r'] eqn:Es.
    + destruct s as [|c s']; [discriminate|]. destruct (N.eqb c 123).
      * destruct (until_brace s') as [[[|d nm] r'']|] eqn:Eb; try discriminate.
        intros [= <- <-]. apply until_brace_app in Eb. destruct Eb as [-> _].
        simpl. rewrite app_length. simpl. lia.
      * intros H. exact (find_sym_shorter symbols _ _ _ eq_refl H).
    + intros [= <- <-]. apply span_ident_app in Es. destruct Es as [-> _]. rewrite app_length. simpl. lia.
Qed.

Lemma ref_lex_sound f : forall s ts, ref_lex f s = Some ts -> lexes s ts.
Proof.
  induction f as [|f IH]; intros s ts H; simpl in H.
  - destruct (trim_ws s) eqn:E; [|discriminate]. injection H as <-. exists s. split; [constructor|exact E].
  - destruct (trim_ws s) as [|c s'] eqn:E.
    + injection H as <-. exists s. split; [constructor|exact E].
    + destruct (ref_next (c :: s')) as [[t rest]|] eqn:En; [|discriminate].
      destruct (ref_lex f rest) as [ts'|] eqn:Er; [|discriminate]. injection H as <-.
      destruct (IH _ _ Er) as (r & Hr & Htr). exists r. split; [|exact Htr].
      econstructor; [rewrite E; exact En|exact Hr].
Qed.

Lemma ref_lex_complete s ts : lexes s ts -> forall f, (length s <= f)%nat -> ref_lex f s = Some ts.
Proof.
  intros (r & H & Er). induction H as [s|s t s' ts r Hn _ IH]; intros f Hf.
  - destruct f; simpl; rewrite Er; reflexivity.
  - destruct (trim_ws s) as [|c s0] eqn:E; [discriminate|].
    pose proof (trim_ws_length s) as Hl. rewrite E in Hl.
    pose proof (ref_next_shorter _ _ _ Hn) as Hs.
    destruct f as [|f]; [simpl in Hl; lia|].
    simpl. rewrite E, Hn. rewrite (IH Er f ltac:(lia)). reflexivity.
Qed.

(* what `group` has consumed when it is in the state (cur, stack) *)
Fixpoint ctx_flat (cur : list token) (stack : list (list token)) : list ftoken :=
  match stack with
  | [] => flatten (rev cur)
  | p :: stack' => ctx_flat p stack' ++ FLParen :: flatten (rev cur)
  end.

Lemma ctx_flat_cons t cur stack : ctx_flat (t :: cur) stack = ctx_flat cur stack ++ flatten_tok t.
Proof.
  destruct stack; simpl; rewrite flatten_app; unfold flatten at 2; simpl; rewrite app_nil_r.
  - reflexivity.
  - rewrite <- app_assoc. reflexivity.
Qed.

Lemma group_sound ts : forall cur stack forest,
  group ts cur stack = Some forest -> flatten forest = ctx_flat cur stack ++ ts.
Proof.
  induction ts as [|t ts IH]; intros cur stack forest H.
  - simpl in H. destruct stack; [|discriminate]. injection H as <-. simpl. rewrite app_nil_r. reflexivity.
  - destruct t; simpl in H;
      try (rewrite (IH _ _ _ H), ctx_flat_cons; simpl; rewrite <- app_assoc; reflexivity).
    + rewrite (IH _ _ _ H). simpl. rewrite <- app_assoc. reflexivity.
    + destruct stack as [|p stack]; [discriminate|].
      rewrite (IH _ _ _ H), ctx_flat_cons, flatten_parens. simpl.
      rewrite <- !app_assoc. simpl. rewrite <- !app_assoc. reflexivity.
Qed.

Theorem ref_forest_spec s forest : ref_forest s = Some forest <-> lexes s (flatten forest).
Proof.
  unfold ref_forest. split.
  - destruct (ref_lex (length s) s) as [ts|] eqn:E; [|discriminate]. intros Hg.
    apply group_sound in Hg. simpl in Hg. rewrite Hg. exact (ref_lex_sound _ _ _ E).
  - intros H. rewrite (ref_lex_complete _ _ H (length s) (le_n _)). apply group_flatten_id.
Qed.

(* T4 in executable form: the tokenizer accepts what the executable reference accepts, with
   the same forest *)
Theorem tokenize_ref_forest s : tokens_of_result (tokenize s) = ref_forest s.
Proof.
  destruct (tokenize s) as [forest|x|] eqn:E; simpl.
  - symmetry. apply ref_forest_spec. apply tokenize_sound. exact E.
  - destruct (ref_forest s) as [forest|] eqn:Er; [|reflexivity].
    apply ref_forest_spec, tokenize_complete in Er. congruence.
  - destruct (ref_forest s) as [forest|] eqn:Er; [|reflexivity].
    apply ref_forest_spec, tokenize_complete in Er. congruence.
Qed.
