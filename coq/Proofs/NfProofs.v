(* Normal forms: to_nnf / to_cnf / to_dnf preserve the function, introduce no variables, and
   produce the promised shapes; the predicates accept exactly the reference shapes. *)
From BBF Require Import Base.Prelude Base.Names Base.Bits Spec.Sem Model.Expr Proofs.ExprProofs.

(* ---------- NNF ---------- *)
Lemma nnf_sem v e : forall neg, sem v (nnf neg e) = if neg then negb (sem v e) else sem v e.
Proof.
  induction e using expr_ind'; intros neg; simpl.
  - destruct neg; reflexivity.
  - destruct neg; reflexivity.
  - rewrite IHe. destruct neg; simpl; [rewrite negb_involutive|]; reflexivity.
  - destruct neg; simpl.
    + rewrite existsb_map, negb_forallb. apply existsb_ext_in. intros e He. rewrite Forall_forall in H. apply H; auto.
    + rewrite forallb_map. apply forallb_ext_in. intros e He. rewrite Forall_forall in H. apply (H e He false).
  - destruct neg; simpl.
    + rewrite forallb_map, negb_existsb. apply forallb_ext_in. intros e He. rewrite Forall_forall in H. apply H; auto.
    + rewrite existsb_map. apply existsb_ext_in. intros e He. rewrite Forall_forall in H. apply (H e He false).
Qed.

Theorem to_nnf_sem v e : sem v (to_nnf e) = sem v e.
Proof. apply (nnf_sem v e false). Qed.

Lemma concat_map_ext_Forall {A B} (f g : A -> list B) l :
  Forall (fun x => f x = g x) l -> concat (map f l) = concat (map g l).
Proof. induction 1; simpl; congruence. Qed.

Lemma nnf_occurrences e : forall neg, occurrences (nnf neg e) = occurrences e.
Proof.
  induction e using expr_ind'; intros neg; simpl.
  - destruct neg; reflexivity.
  - destruct neg; reflexivity.
  - apply IHe.
  - destruct neg; simpl; rewrite map_map; apply concat_map_ext_Forall;
      (eapply Forall_impl; [|exact H]); intros e He; apply He.
  - destruct neg; simpl; rewrite map_map; apply concat_map_ext_Forall;
      (eapply Forall_impl; [|exact H]); intros e He; apply He.
Qed.

Theorem to_nnf_literals e : literals (to_nnf e) = literals e.
Proof. unfold literals, to_nnf. rewrite nnf_occurrences. reflexivity. Qed.

Lemma nnf_idem e : forall neg, nnf false (nnf neg e) = nnf neg e.
Proof.
  induction e using expr_ind'; intros neg; simpl.
  - destruct neg; reflexivity.
  - destruct neg; reflexivity.
  - apply IHe.
  - destruct neg; simpl; f_equal; rewrite map_map; apply Forall_map_ext;
      (eapply Forall_impl; [|exact H]); intros e He; apply He.
  - destruct neg; simpl; f_equal; rewrite map_map; apply Forall_map_ext;
      (eapply Forall_impl; [|exact H]); intros e He; apply He.
Qed.

Fixpoint const_free (e : expr) : bool :=
  match e with
  | Lit _ => true
  | Const _ => false
  | Not e => const_free e
  | And es | Or es => forallb const_free es
  end.
Fixpoint no_empty (e : expr) : bool :=
  match e with
  | Lit _ | Const _ => true
  | Not e => no_empty e
  | And es | Or es => negb (Nat.eqb (length es) 0) && forallb no_empty es
  end.

Lemma nnf_is_nnf e : const_free e = true -> forall neg, is_nnf (nnf neg e) = true.
Proof.
  induction e using expr_ind'; simpl; intros Hc neg.
  - destruct neg; reflexivity.
  - discriminate.
  - apply IHe; auto.
  - destruct neg; simpl; rewrite forallb_map; apply forallb_forall; intros e He;
      rewrite Forall_forall in H; apply H; auto; rewrite forallb_forall in Hc; auto.
  - destruct neg; simpl; rewrite forallb_map; apply forallb_forall; intros e He;
      rewrite Forall_forall in H; apply H; auto; rewrite forallb_forall in Hc; auto.
Qed.

Theorem to_nnf_is_nnf e : const_free e = true -> is_nnf (to_nnf e) = true.
Proof. intros H. apply nnf_is_nnf. exact H. Qed.

(* ---------- distribution ---------- *)
Lemma forallb_or_r {A} (f : A -> bool) c l : forallb (fun x => f x || c) l = forallb f l || c.
Proof. induction l as [|a l IH]; simpl; [reflexivity|]. rewrite IH. destruct (f a), (forallb f l), c; reflexivity. Qed.
Lemma forallb_or_l {A} (f : A -> bool) c l : forallb (fun x => c || f x) l = c || forallb f l.
Proof. induction l as [|a l IH]; simpl; [rewrite orb_true_r; reflexivity|]. rewrite IH. destruct (f a), (forallb f l), c; reflexivity. Qed.
Lemma existsb_and_r {A} (f : A -> bool) c l : existsb (fun x => f x && c) l = existsb f l && c.
Proof. induction l as [|a l IH]; simpl; [reflexivity|]. rewrite IH. destruct (f a), (existsb f l), c; reflexivity. Qed.
Lemma existsb_and_l {A} (f : A -> bool) c l : existsb (fun x => c && f x) l = c && existsb f l.
Proof. induction l as [|a l IH]; simpl; [rewrite andb_false_r; reflexivity|]. rewrite IH. destruct (f a), (existsb f l), c; reflexivity. Qed.

Lemma dist_cnf_nonand a b : is_and a = false ->
  dist_cnf a b = match b with And es => And (map (dist_cnf a) es) | _ => Or [a; b] end.
Proof. destruct a; try discriminate; intros _; destruct b; reflexivity. Qed.
Lemma dist_cnf_and es b : dist_cnf (And es) b = And (map (fun e => dist_cnf e b) es).
Proof. destruct b; reflexivity. Qed.
Lemma dist_dnf_nonor a b : is_or a = false ->
  dist_dnf a b = match b with Or es => Or (map (dist_dnf a) es) | _ => And [a; b] end.
Proof. destruct a; try discriminate; intros _; destruct b; reflexivity. Qed.
Lemma dist_dnf_or es b : dist_dnf (Or es) b = Or (map (fun e => dist_dnf e b) es).
Proof. destruct b; reflexivity. Qed.

Lemma dist_cnf_sem_nonand v a : is_and a = false -> forall b, sem v (dist_cnf a b) = sem v a || sem v b.
Proof.
  intros Ha b. induction b using expr_ind'; rewrite (dist_cnf_nonand a _ Ha); simpl; rewrite ?orb_false_r; try reflexivity.
  rewrite forallb_map, <- forallb_or_l. apply forallb_ext_in. intros e He. rewrite Forall_forall in H. auto.
Qed.

Theorem dist_cnf_sem v a : forall b, sem v (dist_cnf a b) = sem v a || sem v b.
Proof.
  induction a using expr_ind'; intros b0; try (apply dist_cnf_sem_nonand; reflexivity).
  rewrite dist_cnf_and. simpl. rewrite forallb_map, <- forallb_or_r. apply forallb_ext_in.
  intros e He. rewrite Forall_forall in H. auto.
Qed.

Lemma dist_dnf_sem_nonor v a : is_or a = false -> forall b, sem v (dist_dnf a b) = sem v a && sem v b.
Proof.
  intros Ha b. induction b using expr_ind'; rewrite (dist_dnf_nonor a _ Ha); simpl; rewrite ?andb_true_r; try reflexivity.
  rewrite existsb_map, <- existsb_and_l. apply existsb_ext_in. intros e He. rewrite Forall_forall in H. auto.
Qed.

Theorem dist_dnf_sem v a : forall b, sem v (dist_dnf a b) = sem v a && sem v b.
Proof.
  induction a using expr_ind'; intros b0; try (apply dist_dnf_sem_nonor; reflexivity).
  rewrite dist_dnf_or. simpl. rewrite existsb_map, <- existsb_and_r. apply existsb_ext_in.
  intros e He. rewrite Forall_forall in H. auto.
Qed.

(* ---------- CNF / DNF preserve the function ---------- *)
Lemma fold_dist_cnf_sem v cs : forall c, sem v (fold_left dist_cnf cs c) = sem v c || existsb (sem v) cs.
Proof.
  induction cs as [|x cs IH]; intros c; simpl; [rewrite orb_false_r; reflexivity|].
  rewrite IH, dist_cnf_sem, orb_assoc. reflexivity.
Qed.
Lemma fold_dist_dnf_sem v cs : forall c, sem v (fold_left dist_dnf cs c) = sem v c && forallb (sem v) cs.
Proof.
  induction cs as [|x cs IH]; intros c; simpl; [rewrite andb_true_r; reflexivity|].
  rewrite IH, dist_dnf_sem, andb_assoc. reflexivity.
Qed.

Theorem cnf_core_sem v n : sem v (cnf_core n) = sem v n.
Proof.
  induction n using expr_ind'; simpl; try reflexivity.
  - rewrite forallb_map. apply forallb_ext_in. intros e He. rewrite Forall_forall in H. auto.
  - destruct es as [|e es]; [reflexivity|]. cbn [map]. rewrite fold_dist_cnf_sem.
    inversion H as [|? ? He Hes]; subst. simpl. rewrite He. f_equal.
    rewrite existsb_map. apply existsb_ext_in. intros x Hx. rewrite Forall_forall in Hes. auto.
Qed.
Theorem dnf_core_sem v n : sem v (dnf_core n) = sem v n.
Proof.
  induction n using expr_ind'; simpl; try reflexivity.
  - destruct es as [|e es]; [reflexivity|]. cbn [map]. rewrite fold_dist_dnf_sem.
    inversion H as [|? ? He Hes]; subst. simpl. rewrite He. f_equal.
    rewrite forallb_map. apply forallb_ext_in. intros x Hx. rewrite Forall_forall in Hes. auto.
  - rewrite existsb_map. apply existsb_ext_in. intros e He. rewrite Forall_forall in H. auto.
Qed.

Theorem to_cnf_sem v e : sem v (to_cnf e) = sem v e.
Proof. unfold to_cnf. rewrite cnf_core_sem. apply to_nnf_sem. Qed.
Theorem to_dnf_sem v e : sem v (to_dnf e) = sem v e.
Proof. unfold to_dnf. rewrite dnf_core_sem. apply to_nnf_sem. Qed.

(* ---------- no new variables ---------- *)
Lemma dist_cnf_occ x a : forall b, In x (occurrences (dist_cnf a b)) -> In x (occurrences a) \/ In x (occurrences b).
Proof.
  assert (Hnon : forall a, is_and a = false -> forall b, In x (occurrences (dist_cnf a b)) -> In x (occurrences a) \/ In x (occurrences b)).
  { intros a0 Ha b. induction b using expr_ind'; rewrite (dist_cnf_nonand a0 _ Ha); simpl; rewrite ?app_nil_r, ?in_app_iff; try tauto.
    rewrite map_map. intros Hin. apply In_concat_map in Hin. destruct Hin as (e & He & Hx).
    rewrite Forall_forall in H. destruct (H e He Hx); [tauto|]. right. apply In_concat_map. eauto. }
  induction a using expr_ind'; intros b0; try (apply Hnon; reflexivity).
  rewrite dist_cnf_and. simpl. rewrite map_map. intros Hin. apply In_concat_map in Hin. destruct Hin as (e & He & Hx).
  rewrite Forall_forall in H. destruct (H e He _ Hx); [|tauto]. left. apply In_concat_map. eauto.
Qed.
Lemma dist_dnf_occ x a : forall b, In x (occurrences (dist_dnf a b)) -> In x (occurrences a) \/ In x (occurrences b).
Proof.
  assert (Hnon : forall a, is_or a = false -> forall b, In x (occurrences (dist_dnf a b)) -> In x (occurrences a) \/ In x (occurrences b)).
  { intros a0 Ha b. induction b using expr_ind'; rewrite (dist_dnf_nonor a0 _ Ha); simpl; rewrite ?app_nil_r, ?in_app_iff; try tauto.
    rewrite map_map. intros Hin. apply In_concat_map in Hin. destruct Hin as (e & He & Hx).
    rewrite Forall_forall in H. destruct (H e He Hx); [tauto|]. right. apply In_concat_map. eauto. }
  induction a using expr_ind'; intros b0; try (apply Hnon; reflexivity).
  rewrite dist_dnf_or. simpl. rewrite map_map. intros Hin. apply In_concat_map in Hin. destruct Hin as (e & He & Hx).
  rewrite Forall_forall in H. destruct (H e He _ Hx); [|tauto]. left. apply In_concat_map. eauto.
Qed.

Lemma fold_dist_occ (dist : expr -> expr -> expr) x :
  (forall a b, In x (occurrences (dist a b)) -> In x (occurrences a) \/ In x (occurrences b)) ->
  forall cs c, In x (occurrences (fold_left dist cs c)) -> In x (occurrences c) \/ exists e, In e cs /\ In x (occurrences e).
Proof.
  intros Hd. induction cs as [|y cs IH]; intros c H; simpl in H; [auto|].
  apply IH in H. destruct H as [H|(e & He & Hx)]; [|right; exists e; simpl; auto].
  apply Hd in H. destruct H; [auto|right; exists y; simpl; auto].
Qed.

Lemma cnf_core_occ x n : In x (occurrences (cnf_core n)) -> In x (occurrences n).
Proof.
  induction n using expr_ind'; simpl; auto.
  - rewrite map_map. intros Hin. apply In_concat_map in Hin. destruct Hin as (e & He & Hx).
    apply In_concat_map. exists e. split; auto. rewrite Forall_forall in H. auto.
  - destruct es as [|e es]; [auto|]. cbn [map]. intros Hin.
    apply (fold_dist_occ dist_cnf x (dist_cnf_occ x)) in Hin. rewrite Forall_forall in H.
    destruct Hin as [Hin|(c & Hc & Hx)].
    + apply (In_concat_map occurrences (e :: es)). exists e. split; [left; auto|apply H; simpl; auto].
    + apply in_map_iff in Hc. destruct Hc as (e' & <- & He').
      apply (In_concat_map occurrences (e :: es)). exists e'. split; [right; auto|apply H; simpl; auto].
Qed.
Lemma dnf_core_occ x n : In x (occurrences (dnf_core n)) -> In x (occurrences n).
Proof.
  induction n using expr_ind'; simpl; auto.
  - destruct es as [|e es]; [auto|]. cbn [map]. intros Hin.
    apply (fold_dist_occ dist_dnf x (dist_dnf_occ x)) in Hin. rewrite Forall_forall in H.
    destruct Hin as [Hin|(c & Hc & Hx)].
    + apply (In_concat_map occurrences (e :: es)). exists e. split; [left; auto|apply H; simpl; auto].
    + apply in_map_iff in Hc. destruct Hc as (e' & <- & He').
      apply (In_concat_map occurrences (e :: es)). exists e'. split; [right; auto|apply H; simpl; auto].
  - rewrite map_map. intros Hin. apply In_concat_map in Hin. destruct Hin as (e & He & Hx).
    apply In_concat_map. exists e. split; auto. rewrite Forall_forall in H. auto.
Qed.

Theorem to_cnf_literals e x : In x (literals (to_cnf e)) -> In x (literals e).
Proof.
  rewrite !literals_In. unfold to_cnf, to_nnf. intros H. apply cnf_core_occ in H. rewrite nnf_occurrences in H. exact H.
Qed.
Theorem to_dnf_literals e x : In x (literals (to_dnf e)) -> In x (literals e).
Proof.
  rewrite !literals_In. unfold to_dnf, to_nnf. intros H. apply dnf_core_occ in H. rewrite nnf_occurrences in H. exact H.
Qed.

(* ---------- the results have the promised shape ---------- *)
Lemma is_cnf_And es : is_cnf (And es) = forallb is_cnf es.
Proof. reflexivity. Qed.
Lemma is_dnf_Or es : is_dnf (Or es) = forallb is_dnf es.
Proof. reflexivity. Qed.

Lemma is_cnf_Or2 a b : is_cnf (Or [a; b]) = negb (is_and a || is_and b) && (is_cnf a && is_cnf b).
Proof. simpl. rewrite orb_false_r, andb_true_r. reflexivity. Qed.
Lemma is_dnf_And2 a b : is_dnf (And [a; b]) = negb (is_or a || is_or b) && (is_dnf a && is_dnf b).
Proof. simpl. rewrite orb_false_r, andb_true_r. reflexivity. Qed.

Lemma dist_cnf_is_cnf a : forall b, is_cnf a = true -> is_cnf b = true -> is_cnf (dist_cnf a b) = true.
Proof.
  assert (Hnon : forall a, is_and a = false -> is_cnf a = true -> forall b, is_cnf b = true -> is_cnf (dist_cnf a b) = true).
  { intros a0 Ha Ca b. induction b using expr_ind'; intros Cb; rewrite (dist_cnf_nonand a0 _ Ha).
    - simpl. rewrite Ha, Ca. reflexivity.
    - discriminate.
    - simpl in *. rewrite Ha, Ca, Cb. reflexivity.
    - rewrite is_cnf_And in *. rewrite forallb_map. apply forallb_forall. intros e He.
      rewrite Forall_forall in H. apply H; auto. rewrite forallb_forall in Cb. auto.
    - rewrite is_cnf_Or2, Ha, Ca, Cb. reflexivity. }
  induction a using expr_ind'; intros b0 Ca Cb; try (apply Hnon; auto; reflexivity).
  rewrite dist_cnf_and, is_cnf_And, forallb_map. apply forallb_forall. intros e He.
  rewrite Forall_forall in H. apply H; auto. rewrite is_cnf_And, forallb_forall in Ca. auto.
Qed.

Lemma dist_dnf_is_dnf a : forall b, is_dnf a = true -> is_dnf b = true -> is_dnf (dist_dnf a b) = true.
Proof.
  assert (Hnon : forall a, is_or a = false -> is_dnf a = true -> forall b, is_dnf b = true -> is_dnf (dist_dnf a b) = true).
  { intros a0 Ha Ca b. induction b using expr_ind'; intros Cb; rewrite (dist_dnf_nonor a0 _ Ha).
    - simpl. rewrite Ha, Ca. reflexivity.
    - discriminate.
    - simpl in *. rewrite Ha, Ca, Cb. reflexivity.
    - rewrite is_dnf_And2, Ha, Ca, Cb. reflexivity.
    - rewrite is_dnf_Or in *. rewrite forallb_map. apply forallb_forall. intros e He.
      rewrite Forall_forall in H. apply H; auto. rewrite forallb_forall in Cb. auto. }
  induction a using expr_ind'; intros b0 Ca Cb; try (apply Hnon; auto; reflexivity).
  rewrite dist_dnf_or, is_dnf_Or, forallb_map. apply forallb_forall. intros e He.
  rewrite Forall_forall in H. apply H; auto. rewrite is_dnf_Or, forallb_forall in Ca. auto.
Qed.

Lemma fold_dist_is (P : expr -> bool) (dist : expr -> expr -> expr) :
  (forall a b, P a = true -> P b = true -> P (dist a b) = true) ->
  forall cs c, P c = true -> forallb P cs = true -> P (fold_left dist cs c) = true.
Proof.
  intros Hd. induction cs as [|x cs IH]; intros c Hc Hcs; simpl; [exact Hc|].
  simpl in Hcs. apply andb_prop in Hcs. destruct Hcs. apply IH; auto.
Qed.

Lemma cnf_core_is_cnf n : is_nnf n = true -> is_cnf (cnf_core n) = true.
Proof.
  induction n using expr_ind'; simpl; intros Hn; try discriminate; auto.
  - rewrite forallb_map. apply forallb_forall. intros e He. rewrite Forall_forall in H. apply H; auto.
    rewrite forallb_forall in Hn. auto.
  - destruct es as [|e es]; [reflexivity|]. cbn [map]. inversion H as [|? ? He Hes]; subst.
    simpl in Hn. apply andb_prop in Hn. destruct Hn as [Hne Hnes].
    apply (fold_dist_is is_cnf dist_cnf); [intros; apply dist_cnf_is_cnf; auto|auto|].
    rewrite forallb_map. apply forallb_forall. intros x Hx. rewrite Forall_forall in Hes. apply Hes; auto.
    rewrite forallb_forall in Hnes. auto.
Qed.
Lemma dnf_core_is_dnf n : is_nnf n = true -> is_dnf (dnf_core n) = true.
Proof.
  induction n using expr_ind'; simpl; intros Hn; try discriminate; auto.
  - destruct es as [|e es]; [reflexivity|]. cbn [map]. inversion H as [|? ? He Hes]; subst.
    simpl in Hn. apply andb_prop in Hn. destruct Hn as [Hne Hnes].
    apply (fold_dist_is is_dnf dist_dnf); [intros; apply dist_dnf_is_dnf; auto|auto|].
    rewrite forallb_map. apply forallb_forall. intros x Hx. rewrite Forall_forall in Hes. apply Hes; auto.
    rewrite forallb_forall in Hnes. auto.
  - rewrite forallb_map. apply forallb_forall. intros e He. rewrite Forall_forall in H. apply H; auto.
    rewrite forallb_forall in Hn. auto.
Qed.

Theorem to_cnf_is_cnf e : const_free e = true -> is_cnf (to_cnf e) = true.
Proof. intros H. apply cnf_core_is_cnf. apply to_nnf_is_nnf. exact H. Qed.
Theorem to_dnf_is_dnf e : const_free e = true -> is_dnf (to_dnf e) = true.
Proof. intros H. apply dnf_core_is_dnf. apply to_nnf_is_nnf. exact H. Qed.

(* ---------- the predicates accept exactly the reference shapes ---------- *)
Inductive nnf_ref : expr -> Prop :=
| NLit x : nnf_ref (Lit x)
| NNotLit x : nnf_ref (Not (Lit x))
| NAnd es : Forall nnf_ref es -> nnf_ref (And es)
| NOr es : Forall nnf_ref es -> nnf_ref (Or es).

(* no conjunction anywhere inside / no disjunction anywhere inside *)
Inductive no_and : expr -> Prop :=
| NALit x : no_and (Lit x) | NAConst b : no_and (Const b) | NANot e : no_and e -> no_and (Not e)
| NAOr es : Forall no_and es -> no_and (Or es).
Inductive no_or : expr -> Prop :=
| NOLit x : no_or (Lit x) | NOConst b : no_or (Const b) | NONot e : no_or e -> no_or (Not e)
| NOAnd es : Forall no_or es -> no_or (And es).

Inductive cnf_ref : expr -> Prop :=
| CLit x : cnf_ref (Lit x)
| CNotLit x : cnf_ref (Not (Lit x))
| CAnd es : Forall cnf_ref es -> cnf_ref (And es)
| COr es : Forall cnf_ref es -> Forall no_and es -> cnf_ref (Or es).
Inductive dnf_ref : expr -> Prop :=
| DLit x : dnf_ref (Lit x)
| DNotLit x : dnf_ref (Not (Lit x))
| DOr es : Forall dnf_ref es -> dnf_ref (Or es)
| DAnd es : Forall dnf_ref es -> Forall no_or es -> dnf_ref (And es).

Lemma is_lit_spec e : is_lit e = true <-> exists x, e = Lit x.
Proof. destruct e; simpl; split; try discriminate; try (intros (? & [=])); eauto. Qed.

Theorem is_nnf_ref e : is_nnf e = true <-> nnf_ref e.
Proof.
  induction e using expr_ind'; simpl.
  - split; [constructor|reflexivity].
  - split; [discriminate|intros H; inversion H].
  - rewrite is_lit_spec. split; [intros (x & ->); constructor|intros H; inversion H; eauto].
  - rewrite forallb_forall. rewrite Forall_forall in H. split.
    + intros Ha. constructor. apply Forall_forall. intros e He. apply H; auto.
    + intros Ha. inversion Ha as [| |? HF|]; subst. rewrite Forall_forall in HF. intros e He. apply H; auto.
  - rewrite forallb_forall. rewrite Forall_forall in H. split.
    + intros Ha. constructor. apply Forall_forall. intros e He. apply H; auto.
    + intros Ha. inversion Ha as [| | |? HF]; subst. rewrite Forall_forall in HF. intros e He. apply H; auto.
Qed.

Lemma cnf_ref_nonand e : cnf_ref e -> is_and e = false -> no_and e.
Proof. intros H Ha. inversion H; subst; try discriminate; repeat constructor; auto. Qed.
Lemma dnf_ref_nonor e : dnf_ref e -> is_or e = false -> no_or e.
Proof. intros H Ha. inversion H; subst; try discriminate; repeat constructor; auto. Qed.
Lemma no_and_is_and e : no_and e -> is_and e = false.
Proof. intros H. inversion H; reflexivity. Qed.
Lemma no_or_is_or e : no_or e -> is_or e = false.
Proof. intros H. inversion H; reflexivity. Qed.

Theorem is_cnf_ref e : is_cnf e = true <-> cnf_ref e.
Proof.
  induction e using expr_ind'; simpl.
  - split; [constructor|reflexivity].
  - split; [discriminate|intros H; inversion H].
  - rewrite is_lit_spec. split; [intros (x & ->); constructor|intros H; inversion H; eauto].
  - rewrite forallb_forall. rewrite Forall_forall in H. split.
    + intros Ha. constructor. apply Forall_forall. intros e He. apply H; auto.
    + intros Ha. inversion Ha as [| |? HF|]; subst. rewrite Forall_forall in HF. intros e He. apply H; auto.
  - rewrite andb_true_iff, negb_true_iff, forallb_forall. rewrite Forall_forall in H. split.
    + intros [Hna Hc].
      assert (HF : Forall cnf_ref es) by (apply Forall_forall; intros e He; apply H; auto).
      constructor; [exact HF|]. apply Forall_forall. intros e He. apply cnf_ref_nonand.
      * rewrite Forall_forall in HF. auto.
      * destruct (is_and e) eqn:E; [|reflexivity]. exfalso.
        assert (existsb is_and es = true) by (apply existsb_exists; eauto). congruence.
    + intros Ha. inversion Ha as [| | |? HF HN]; subst. rewrite Forall_forall in HF, HN. split.
      * destruct (existsb is_and es) eqn:E; [|reflexivity]. apply existsb_exists in E.
        destruct E as (e & He & Ea). rewrite (no_and_is_and e (HN e He)) in Ea. discriminate.
      * intros e He. apply H; auto.
Qed.

Theorem is_dnf_ref e : is_dnf e = true <-> dnf_ref e.
Proof.
  induction e using expr_ind'; simpl.
  - split; [constructor|reflexivity].
  - split; [discriminate|intros H; inversion H].
  - rewrite is_lit_spec. split; [intros (x & ->); constructor|intros H; inversion H; eauto].
  - rewrite andb_true_iff, negb_true_iff, forallb_forall. rewrite Forall_forall in H. split.
    + intros [Hna Hc].
      assert (HF : Forall dnf_ref es) by (apply Forall_forall; intros e He; apply H; auto).
      constructor; [exact HF|]. apply Forall_forall. intros e He. apply dnf_ref_nonor.
      * rewrite Forall_forall in HF. auto.
      * destruct (is_or e) eqn:E; [|reflexivity]. exfalso.
        assert (existsb is_or es = true) by (apply existsb_exists; eauto). congruence.
    + intros Ha. inversion Ha as [| | |? HF HN]; subst. rewrite Forall_forall in HF, HN. split.
      * destruct (existsb is_or es) eqn:E; [|reflexivity]. apply existsb_exists in E.
        destruct E as (e & He & Ea). rewrite (no_or_is_or e (HN e He)) in Ea. discriminate.
      * intros e He. apply H; auto.
  - rewrite forallb_forall. rewrite Forall_forall in H. split.
    + intros Ha. constructor. apply Forall_forall. intros e He. apply H; auto.
    + intros Ha. inversion Ha as [| |? HF|]; subst. rewrite Forall_forall in HF. intros e He. apply H; auto.
Qed.
