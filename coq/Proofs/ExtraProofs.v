(* rename_literals is substitution of variables by variables; boolean_point_to_valuation pairs the sorted inputs
   with the point's values and refuses every other length. *)
From BBF Require Import Base.Prelude Base.Names Base.Bits Spec.Sem Model.Expr Model.Table Model.LibBdd Model.Bdd Model.Prog Model.Iter Model.Render Model.Csv Model.Extra
     Proofs.ExprProofs Proofs.CsvProofs.

Lemma get_map_snd {X Y} (f : X -> Y) (m : list (name * X)) k :
  get (map (fun kv => (fst kv, f (snd kv))) m) k = option_map f (get m k).
Proof.
  induction m as [|[k' x] r IH]; [reflexivity|]. cbn [map get fst snd].
  destruct (name_eqb k k'); [reflexivity|exact IH].
Qed.

Lemma rename_is_substitute e m :
  e_rename e m = e_substitute e (map (fun kv => (fst kv, Lit (snd kv))) m).
Proof.
  induction e using expr_ind'; cbn [e_rename e_substitute].
  - rewrite (get_map_snd Lit). unfold rn. destruct (get m x); reflexivity.
  - reflexivity.
  - f_equal. exact IHe.
  - f_equal. apply map_ext_in. intros a Ha. rewrite Forall_forall in H. apply H. exact Ha.
  - f_equal. apply map_ext_in. intros a Ha. rewrite Forall_forall in H. apply H. exact Ha.
Qed.

Lemma rename_sem e m v : sem v (e_rename e m) = sem (fun x => v (rn m x)) e.
Proof.
  rewrite rename_is_substitute, sem_substitute. apply sem_coincidence.
  intros x _. unfold subst_env_e. rewrite (get_map_snd Lit). unfold rn. destruct (get m x); reflexivity.
Qed.

Lemma rename_occurrences e m : occurrences (e_rename e m) = map (rn m) (occurrences e).
Proof.
  induction e using expr_ind'; cbn [e_rename occurrences map]; try reflexivity.
  - exact IHe.
  - rewrite map_map, concat_map, map_map. f_equal. apply map_ext_in. intros a Ha. rewrite Forall_forall in H. apply H. exact Ha.
  - rewrite map_map, concat_map, map_map. f_equal. apply map_ext_in. intros a Ha. rewrite Forall_forall in H. apply H. exact Ha.
Qed.

Lemma rename_nil e : e_rename e [] = e.
Proof.
  induction e using expr_ind'; cbn [e_rename]; try reflexivity.
  - f_equal. exact IHe.
  - f_equal. rewrite <- (map_id es) at 2. apply map_ext_in. intros a Ha. rewrite Forall_forall in H. apply H. exact Ha.
  - f_equal. rewrite <- (map_id es) at 2. apply map_ext_in. intros a Ha. rewrite Forall_forall in H. apply H. exact Ha.
Qed.

(* renaming never changes the shape: same tree with other leaves *)
Lemma rename_size e m : size (e_rename e m) = size e.
Proof.
  induction e using expr_ind'; cbn [e_rename size]; try reflexivity.
  - f_equal. exact IHe.
  - f_equal. rewrite map_map. f_equal. apply map_ext_in. intros a Ha. rewrite Forall_forall in H. apply H. exact Ha.
  - f_equal. rewrite map_map. f_equal. apply map_ext_in. intros a Ha. rewrite Forall_forall in H. apply H. exact Ha.
Qed.

Lemma point_valuation_spec vars p :
  (length p = length vars -> point_valuation vars p = Some (combine vars p)) /\
  (length p <> length vars -> point_valuation vars p = None).
Proof.
  unfold point_valuation, val_of_point. split; intros H.
  - rewrite H, Nat.eqb_refl. reflexivity.
  - apply Nat.eqb_neq in H. rewrite H. reflexivity.
Qed.

(* ---------- the name reported for a repeated header cell ---------- *)
Lemma first_dup_Some : forall l seen x, first_dup seen l = Some x ->
  exists pre post, l = pre ++ x :: post /\ (In x seen \/ In x pre) /\ first_dup seen pre = None.
Proof.
  induction l as [|y r IH]; intros seen x H; [discriminate|].
  cbn [first_dup] in H. destruct (mem y seen) eqn:E.
  - injection H as ->. exists [], r. split; [reflexivity|]. split; [left; apply mem_In; exact E|reflexivity].
  - destruct (IH _ _ H) as (pre & post & -> & Hin & Hn).
    exists (y :: pre), post. split; [reflexivity|]. split.
    + destruct Hin as [[->|Hs]|Hp]; [right; left; reflexivity|left; exact Hs|right; right; exact Hp].
    + cbn [first_dup]. rewrite E. exact Hn.
Qed.

Lemma dup_import rs x : dup_of_records rs = Some x -> import_records rs = Err E_DuplicateVariableName.
Proof.
  unfold dup_of_records, import_records. destruct (header_and_data rs) as [[[h f] r]|c|c]; try discriminate.
  destruct h; [|discriminate]. intros H. cbn [bind]. rewrite H. reflexivity.
Qed.

Lemma dup_is_first_repeat rs x : dup_of_records rs = Some x ->
  exists hdr rest pre post, header_and_data rs = Ok (true, hdr, rest) /\
    removelast hdr = pre ++ x :: post /\ In x pre /\ NoDup pre.
Proof.
  unfold dup_of_records. destruct (header_and_data rs) as [[[h f] r]|c|c] eqn:E; try discriminate.
  destruct h; [|discriminate]. intros H.
  destruct (first_dup_Some _ _ _ H) as (pre & post & Hl & [[]|Hin] & Hn).
  exists f, r, pre, post. split; [reflexivity|]. split; [exact Hl|]. split; [exact Hin|].
  apply (first_dup_None _ _ Hn).
Qed.

Lemma dup_string s x : csv_duplicate_name s = Some x -> from_csv_string s = Err E_DuplicateVariableName.
Proof.
  unfold csv_duplicate_name, from_csv_string. destruct s; [discriminate|]. apply dup_import.
Qed.

(* conversely: no other stage of the import produces this variant *)
Lemma parse_cells_not_dup r cols vars : parse_cells r cols vars <> Err E_DuplicateVariableName.
Proof.
  induction vars as [|x vs IH]; cbn [parse_cells]; [discriminate|].
  destruct (nth_error r (column_of x cols)); [|discriminate].
  destruct (string_to_bool t); [|discriminate].
  destruct (parse_cells r cols vs) as [l|c|c]; cbn [rmap]; try discriminate.
  intros [= ->]. apply IH. reflexivity.
Qed.

Lemma parse_record_not_dup w cols vars r : parse_record w cols vars r <> Err E_DuplicateVariableName.
Proof.
  unfold parse_record. destruct (negb (length r =? w)); [discriminate|].
  pose proof (parse_cells_not_dup r cols vars) as H.
  destruct (parse_cells r cols vars) as [l|c|c]; cbn [bind]; try discriminate.
  - destruct (last_cell r); [|discriminate]. destruct (string_to_bool t); discriminate.
  - intros [= ->]. apply H. reflexivity.
Qed.

Lemma parse_records_not_dup w cols vars rs : parse_records w cols vars rs <> Err E_DuplicateVariableName.
Proof.
  induction rs as [|r rest IH]; cbn [parse_records]; [discriminate|].
  pose proof (parse_record_not_dup w cols vars r) as H.
  destruct (parse_record w cols vars r) as [po|c|c]; cbn [bind]; try discriminate.
  - destruct (parse_records w cols vars rest) as [l|c|c]; cbn [rmap]; try discriminate.
    intros [= ->]. apply IH. reflexivity.
  - intros [= ->]. apply H. reflexivity.
Qed.

Lemma import_dup rs : import_records rs = Err E_DuplicateVariableName -> exists x, dup_of_records rs = Some x.
Proof.
  unfold dup_of_records, import_records, header_and_data.
  destruct rs as [|first rest]; [discriminate|].
  destruct (last_cell first) as [c|]; [|discriminate]. cbn [bind].
  destruct (negb (is_bool_string c)).
  - destruct (first_dup [] (removelast first)) as [x|]; [intros _; exists x; reflexivity|].
    cbn [bind].
    pose proof (parse_records_not_dup (length first) (removelast first) (set_of_list (removelast first)) rest) as H.
    destruct (parse_records (length first) (removelast first) (set_of_list (removelast first)) rest) as [rows|c'|c']; cbn [bind].
    + repeat match goal with |- context [if ?b then _ else _] => destruct b end; discriminate.
    + intros [= ->]. exfalso. apply H. reflexivity.
    + discriminate.
  - cbn [bind].
    match goal with |- context [parse_records ?w ?c ?v ?r] => pose proof (parse_records_not_dup w c v r) as H; destruct (parse_records w c v r) as [rows|c'|c'] end; cbn [bind].
    + repeat match goal with |- context [if ?b then _ else _] => destruct b end; discriminate.
    + intros [= ->]. exfalso. apply H. reflexivity.
    + discriminate.
Qed.

(* ---------- the cell reported by NonBooleanCellValue ---------- *)
Lemma bad_in_cells_sound r cols vars c : bad_in_cells r cols vars = Some c ->
  parse_cells r cols vars = Err E_NonBooleanCellValue /\ string_to_bool c = None /\ In c r.
Proof.
  induction vars as [|x vs IH]; cbn [bad_in_cells parse_cells]; [discriminate|].
  destruct (nth_error r (column_of x cols)) as [c0|] eqn:En; [|discriminate].
  destruct (string_to_bool c0) eqn:Eb.
  - intros H. destruct (IH H) as (H1 & H2 & H3). rewrite H1. cbn [rmap]. auto.
  - intros [= <-]. split; [reflexivity|]. split; [exact Eb|]. apply (nth_error_In _ _ En).
Qed.

Lemma bad_in_cells_complete r cols vars : parse_cells r cols vars = Err E_NonBooleanCellValue ->
  exists c, bad_in_cells r cols vars = Some c.
Proof.
  induction vars as [|x vs IH]; cbn [bad_in_cells parse_cells]; [discriminate|].
  destruct (nth_error r (column_of x cols)) as [c0|]; [|discriminate].
  destruct (string_to_bool c0); [|intros _; eauto].
  destruct (parse_cells r cols vs) as [l|e|e]; cbn [rmap]; try discriminate.
  intros [= ->]. apply IH. reflexivity.
Qed.

Lemma last_cell_In (r : list text) c : last_cell r = Some c -> In c r.
Proof.
  unfold last_cell. destruct (rev r) as [|x l] eqn:E; [discriminate|]. intros [= <-].
  apply in_rev. rewrite E. left. reflexivity.
Qed.

Lemma bad_in_record_sound w cols vars r c : bad_in_record w cols vars r = Some c ->
  parse_record w cols vars r = Err E_NonBooleanCellValue /\ string_to_bool c = None /\ In c r.
Proof.
  unfold bad_in_record, parse_record. destruct (negb (length r =? w)); [discriminate|].
  destruct (parse_cells r cols vars) as [l|e|e] eqn:Ep; cbn [bind].
  - destruct (last_cell r) as [c0|] eqn:El; [|discriminate]. destruct (string_to_bool c0) eqn:Eb; [discriminate|].
    intros [= <-]. split; [reflexivity|]. split; [exact Eb|apply last_cell_In; exact El].
  - intros H. destruct (bad_in_cells_sound _ _ _ _ H) as (H1 & H2 & H3). rewrite Ep in H1. injection H1 as ->. auto.
  - intros H. destruct (bad_in_cells_sound _ _ _ _ H) as (H1 & _). rewrite Ep in H1. discriminate.
Qed.

Lemma bad_in_record_complete w cols vars r : parse_record w cols vars r = Err E_NonBooleanCellValue ->
  exists c, bad_in_record w cols vars r = Some c.
Proof.
  unfold bad_in_record, parse_record. destruct (negb (length r =? w)); [discriminate|].
  destruct (parse_cells r cols vars) as [l|e|e] eqn:Ep; cbn [bind].
  - destruct (last_cell r) as [c0|]; [|discriminate]. destruct (string_to_bool c0); [discriminate|]. eauto.
  - intros [= ->]. apply bad_in_cells_complete. exact Ep.
  - discriminate.
Qed.

Lemma bad_in_records_sound w cols vars rs c : bad_in_records w cols vars rs = Some c ->
  parse_records w cols vars rs = Err E_NonBooleanCellValue /\ string_to_bool c = None /\ exists r, In r rs /\ In c r.
Proof.
  induction rs as [|r rest IH]; cbn [bad_in_records parse_records]; [discriminate|].
  destruct (parse_record w cols vars r) as [po|e|e] eqn:Ep; cbn [bind].
  - intros H. destruct (IH H) as (H1 & H2 & r' & H3 & H4). rewrite H1. cbn [rmap].
    split; [reflexivity|]. split; [exact H2|]. exists r'. split; [right; exact H3|exact H4].
  - intros H. destruct (bad_in_record_sound _ _ _ _ _ H) as (H1 & H2 & H3). rewrite Ep in H1. injection H1 as ->.
    split; [reflexivity|]. split; [exact H2|]. exists r. split; [left; reflexivity|exact H3].
  - intros H. destruct (bad_in_record_sound _ _ _ _ _ H) as (H1 & _). rewrite Ep in H1. discriminate.
Qed.

Lemma bad_in_records_complete w cols vars rs : parse_records w cols vars rs = Err E_NonBooleanCellValue ->
  exists c, bad_in_records w cols vars rs = Some c.
Proof.
  induction rs as [|r rest IH]; cbn [bad_in_records parse_records]; [discriminate|].
  destruct (parse_record w cols vars r) as [po|e|e] eqn:Ep; cbn [bind].
  - destruct (parse_records w cols vars rest) as [l|e|e]; cbn [rmap]; try discriminate.
    intros [= ->]. apply IH. reflexivity.
  - intros [= ->]. apply bad_in_record_complete. exact Ep.
  - discriminate.
Qed.

Theorem bad_cell_sound rs c : bad_cell_of_records rs = Some c ->
  import_records rs = Err E_NonBooleanCellValue /\ string_to_bool c = None /\ exists r, In r rs /\ In c r.
Proof.
  unfold bad_cell_of_records, import_records, header_and_data.
  destruct rs as [|first rest]; [discriminate|].
  destruct (last_cell first) as [c0|]; [|discriminate]. cbn [bind].
  destruct (negb (is_bool_string c0)).
  - destruct (first_dup [] (removelast first)); [discriminate|]. cbn [bind]. intros H.
    destruct (bad_in_records_sound _ _ _ _ _ H) as (H1 & H2 & r & H3 & H4). rewrite H1. cbn [bind].
    split; [reflexivity|]. split; [exact H2|]. exists r. split; [right; exact H3|exact H4].
  - cbn [bind]. intros H.
    destruct (bad_in_records_sound _ _ _ _ _ H) as (H1 & H2 & r & H3 & H4). rewrite H1. cbn [bind].
    split; [reflexivity|]. split; [exact H2|]. exists r. split; [exact H3|exact H4].
Qed.

Theorem bad_cell_complete rs : import_records rs = Err E_NonBooleanCellValue -> exists c, bad_cell_of_records rs = Some c.
Proof.
  unfold bad_cell_of_records, import_records, header_and_data.
  destruct rs as [|first rest]; [discriminate|].
  destruct (last_cell first) as [c0|]; [|discriminate]. cbn [bind].
  destruct (negb (is_bool_string c0)).
  - destruct (first_dup [] (removelast first)); [discriminate|]. cbn [bind].
    match goal with |- context [parse_records ?w ?c ?v ?r] => destruct (parse_records w c v r) as [rows|e|e] eqn:Ep end; cbn [bind].
    + repeat match goal with |- context [if ?b then _ else _] => destruct b end; discriminate.
    + intros [= ->]. apply bad_in_records_complete. exact Ep.
    + discriminate.
  - cbn [bind].
    match goal with |- context [parse_records ?w ?c ?v ?r] => destruct (parse_records w c v r) as [rows|e|e] eqn:Ep end; cbn [bind].
    + repeat match goal with |- context [if ?b then _ else _] => destruct b end; discriminate.
    + intros [= ->]. apply bad_in_records_complete. exact Ep.
    + discriminate.
Qed.
