(* Power set, semantic equality / implication, quantifier elimination: expressions and tables. *)
From BBF Require Import Base.Prelude Base.Names Base.Bits Spec.Sem Model.Expr Model.Table
     Proofs.ExprProofs Proofs.TableProofs.
From Coq Require Import Sorting.Permutation.

(* ---------- the power set enumerates every assignment of the variables ---------- *)
Lemma power_rec_complete (v : env) : forall l cur, NoDup l ->
  exists rho, In rho (power_rec l cur) /\
              (forall x, In x l -> get rho x = Some (v x)) /\
              (forall x, ~ In x l -> get rho x = get cur x).
Proof.
  induction l as [|x r IH]; intros cur Hnd.
  - exists cur. simpl. repeat split; auto. intros x [].
  - inversion Hnd as [|? ? Hx Hr]; subst.
    destruct (IH ((x, v x) :: cur) Hr) as (rho & Hin & Hl & Hnl).
    exists rho. split; [|split].
    + simpl. apply in_or_app. destruct (v x); auto.
    + intros y [<-|Hy]; [|auto]. rewrite (Hnl x Hx). simpl. rewrite name_eqb_refl. reflexivity.
    + intros y Hy. rewrite Hnl by (intros H; apply Hy; right; auto). simpl.
      destruct (name_eqb_spec y x); [subst; exfalso; apply Hy; left; auto|reflexivity].
Qed.

Lemma power_set_complete vars (v : env) : NoDup vars ->
  exists rho, In rho (power_set vars) /\ forall x, In x vars -> complete false rho x = v x.
Proof.
  intros Hnd. destruct (power_rec_complete v (rev vars) [] (NoDup_rev Hnd)) as (rho & Hin & Hl & _).
  exists rho. split; [exact Hin|]. intros x Hx. unfold complete. rewrite Hl; auto. apply in_rev in Hx. exact Hx.
Qed.

Lemma forallb_power_set vars (P : valuation -> bool) (Q : env -> Prop) :
  NoDup vars ->
  (forall rho, P rho = true <-> Q (complete false rho)) ->
  (forall v v', (forall x, In x vars -> v x = v' x) -> Q v -> Q v') ->
  (forallb P (power_set vars) = true <-> forall v, Q v).
Proof.
  intros Hnd HP Hco. rewrite forallb_forall. split.
  - intros H v. destruct (power_set_complete vars v Hnd) as (rho & Hin & Hag).
    apply (Hco (complete false rho)); auto. apply HP. apply H. exact Hin.
  - intros H rho _. apply HP. apply H.
Qed.

(* ---------- expressions: is_equivalent / is_implied_by ---------- *)
Lemma union_lits_l a b x : In x (literals a) -> In x (set_union (literals a) (literals b)).
Proof. intros. apply set_union_In. auto. Qed.
Lemma union_lits_r a b x : In x (literals b) -> In x (set_union (literals a) (literals b)).
Proof. intros. apply set_union_In. auto. Qed.

Theorem e_equiv_spec a b : e_equiv a b = true <-> forall v, sem v a = sem v b.
Proof.
  unfold e_equiv. apply forallb_power_set.
  - apply sset_NoDup, set_union_sset.
  - intros rho. rewrite !evaluate_sem. destruct (sem (complete false rho) a), (sem (complete false rho) b); simpl; intuition congruence.
  - intros v v' Hag H.
    rewrite <- (sem_coincidence_lits a v v'), <- (sem_coincidence_lits b v v'); auto;
      intros x Hx; apply Hag; [apply union_lits_r|apply union_lits_l]; auto.
Qed.

Theorem e_implied_by_spec a b : e_implied_by a b = true <-> forall v, sem v b = true -> sem v a = true.
Proof.
  unfold e_implied_by. apply forallb_power_set.
  - apply sset_NoDup, set_union_sset.
  - intros rho. rewrite !evaluate_sem. destruct (sem (complete false rho) a), (sem (complete false rho) b); simpl; intuition congruence.
  - intros v v' Hag H.
    rewrite <- (sem_coincidence_lits a v v'), <- (sem_coincidence_lits b v v'); auto;
      intros x Hx; apply Hag; [apply union_lits_r|apply union_lits_l]; auto.
Qed.

(* ---------- tables: bit operations ---------- *)
Lemma nth_zip_with {A B C} (f : A -> B -> C) da db dc : forall a b i,
  i < length a -> i < length b -> nth i (zip_with f a b) dc = f (nth i a da) (nth i b db).
Proof.
  induction a as [|x a IH]; intros [|y b] i Ha Hb; simpl in *; try lia.
  destruct i; [reflexivity|]. apply IH; lia.
Qed.
Lemma zip_with_length {A B C} (f : A -> B -> C) a b : length a = length b -> length (zip_with f a b) = length a.
Proof. revert b. induction a as [|x a IH]; intros [|y b] H; simpl in *; try discriminate; auto. Qed.

Lemma t_literals_wf t : wf_table t -> t_literals t = t_inputs t.
Proof. intros [Hs _]. apply set_of_list_id. exact Hs. Qed.

Lemma set_union_idem a : sset a -> set_union a a = a.
Proof.
  intros H. apply sset_ext; [apply set_union_sset|exact H|]. intros x. rewrite set_union_In. tauto.
Qed.

Lemma lookup_in_range (outs : list bool) p : length outs = 2 ^ length p -> N.to_nat (point_index p) < length outs.
Proof. intros ->. apply point_index_lt_nat. Qed.

Lemma t_evaluate_tsem t rho : t_evaluate t rho = tsem t (complete false rho).
Proof. reflexivity. Qed.

Lemma tsem_eval_combine t u v : (forall x, In x (t_inputs t) -> In x u) ->
  t_evaluate t (combine u (map v u)) = tsem t v.
Proof.
  intros Hsub. rewrite t_evaluate_tsem. apply tsem_coincidence. intros x Hx.
  apply complete_combine_agrees. auto.
Qed.

Theorem t_bit_spec op a b : wf_table a -> wf_table b ->
  wf_table (t_bit op a b) /\
  t_inputs (t_bit op a b) = set_union (t_inputs a) (t_inputs b) /\
  forall v, tsem (t_bit op a b) v = op (tsem a v) (tsem b v).
Proof.
  intros Ha Hb. unfold t_bit. rewrite (t_literals_wf a Ha), (t_literals_wf b Hb).
  destruct Ha as [Sa La], Hb as [Sb Lb].
  destruct (names_eqb (t_inputs a) (t_inputs b)) eqn:E.
  - assert (Eab : t_inputs a = t_inputs b).
    { clear - E. revert E. generalize (t_inputs b). induction (t_inputs a) as [|x r IH]; intros [|y s]; simpl; try discriminate; auto.
      destruct (name_eqb_spec x y); simpl; [|discriminate]. intros H. f_equal; auto. }
    assert (Hlen : length (t_outputs a) = length (t_outputs b)) by (rewrite La, Lb, Eab; reflexivity).
    split; [|split].
    + split; cbn [t_inputs t_outputs]; auto. rewrite zip_with_length; auto.
    + cbn [t_inputs]. rewrite <- Eab. symmetry. apply set_union_idem. exact Sa.
    + intros v. unfold tsem. cbn [t_inputs t_outputs]. rewrite <- Eab. unfold lookup.
      apply (nth_zip_with op false false false).
      * apply lookup_in_range. rewrite map_length. exact La.
      * apply lookup_in_range. rewrite map_length, Eab. exact Lb.
  - split; [|split].
    + apply tabulate_wf. apply set_union_sset.
    + reflexivity.
    + intros v. rewrite tsem_tabulate. f_equal; apply tsem_eval_combine; intros x Hx; apply set_union_In; auto.
Qed.

Theorem t_not_spec a : wf_table a ->
  wf_table (t_not a) /\ t_inputs (t_not a) = t_inputs a /\ forall v, tsem (t_not a) v = negb (tsem a v).
Proof.
  intros [Sa La]. split; [|split].
  - split; cbn [t_inputs t_outputs t_not]; auto. rewrite map_length. exact La.
  - reflexivity.
  - intros v. unfold tsem, lookup. cbn [t_inputs t_outputs t_not].
    rewrite (nth_indep _ false (negb false)).
    + apply map_nth.
    + rewrite map_length. apply lookup_in_range. rewrite map_length. exact La.
Qed.

(* ---------- quantifier elimination ---------- *)
Lemma elim_fn_ext op vars : forall f g, (forall v, f v = g v) -> forall v, elim_fn op vars f v = elim_fn op vars g v.
Proof.
  induction vars as [|x r IH]; intros f g H v; simpl; [apply H|].
  apply IH. intros w. rewrite !H. reflexivity.
Qed.

Lemma override_single v x b y : override v [(x, b)] y = upd v x b y.
Proof. unfold override, upd. simpl. destruct (name_eqb y x); reflexivity. Qed.

Section ExprElim.
  Variable eop : expr -> expr -> expr.
  Variable bop : bool -> bool -> bool.
  Hypothesis eop_sem : forall v a b, sem v (eop a b) = bop (sem v a) (sem v b).
  Hypothesis eop_occ : forall x a b, In x (occurrences (eop a b)) <-> In x (occurrences a) \/ In x (occurrences b).

  Lemma sem_restrict_single e x b v : sem v (e_restrict e [(x, b)]) = sem (upd v x b) e.
  Proof. rewrite sem_restrict. apply sem_coincidence. intros y _. apply override_single. Qed.

  Theorem e_elim_sem vars : forall e v, sem v (e_elim eop e vars) = elim_fn bop vars (fun w => sem w e) v.
  Proof.
    unfold e_elim. induction vars as [|x r IH]; intros e v; simpl; [reflexivity|].
    rewrite IH. apply elim_fn_ext. intros w. rewrite eop_sem, !sem_restrict_single. reflexivity.
  Qed.

  Theorem e_elim_literals vars : forall e, literals (e_elim eop e vars) = set_diff (literals e) vars.
  Proof.
    unfold e_elim. induction vars as [|x r IH]; intros e; simpl.
    - unfold set_diff. rewrite filter_true; auto.
    - rewrite IH. apply sset_ext; [apply set_diff_sset, literals_sset|apply set_diff_sset, literals_sset|].
      intros y. rewrite !set_diff_In, !literals_In, eop_occ, !occ_restrict. simpl.
      destruct (name_eqb_spec y x); [subst; intuition congruence|]. intuition congruence.
  Qed.
End ExprElim.

Lemma occ_e_xor x a b : In x (occurrences (e_xor a b)) <-> In x (occurrences a) \/ In x (occurrences b).
Proof. unfold e_xor. rewrite occ_e_and. simpl. rewrite occ_e_or, occ_e_and. tauto. Qed.

Definition e_exists_sem := e_elim_sem e_or orb sem_e_or.
Definition e_forall_sem := e_elim_sem e_and andb sem_e_and.
Definition e_derivative_sem := e_elim_sem e_xor xorb sem_e_xor.
Definition e_exists_literals := e_elim_literals e_or occ_e_or.
Definition e_forall_literals := e_elim_literals e_and occ_e_and.
Definition e_derivative_literals := e_elim_literals e_xor occ_e_xor.

Section TableElim.
  Variable bop : bool -> bool -> bool.

  Lemma t_restrict_single_sem t x b v : wf_table t -> tsem (t_restrict t [(x, b)]) v = tsem t (upd v x b).
  Proof. intros H. rewrite t_restrict_sem by auto. apply tsem_coincidence. intros y _. apply override_single. Qed.

  Theorem t_elim_spec vars : forall t, wf_table t ->
    wf_table (t_elim (t_bit bop) t vars) /\
    t_inputs (t_elim (t_bit bop) t vars) = set_diff (t_inputs t) vars /\
    forall v, tsem (t_elim (t_bit bop) t vars) v = elim_fn bop vars (tsem t) v.
  Proof.
    unfold t_elim. induction vars as [|x r IH]; intros t Hwf; simpl.
    - repeat split; try apply Hwf. unfold set_diff. rewrite filter_true; auto.
    - pose proof (t_restrict_wf t [(x, false)] Hwf) as W0. pose proof (t_restrict_wf t [(x, true)] Hwf) as W1.
      destruct (t_bit_spec bop _ _ W0 W1) as (Wb & Ib & Sb).
      destruct (IH _ Wb) as (W & I & S). split; [exact W|]. split.
      + rewrite I, Ib, !t_restrict_inputs. simpl.
        apply sset_ext; [apply set_diff_sset, set_union_sset|apply set_diff_sset, Hwf|].
        intros y. rewrite !set_diff_In, set_union_In, !set_diff_In. simpl. intuition.
      + intros v. rewrite S. apply elim_fn_ext. intros w. rewrite Sb, !t_restrict_single_sem; auto.
  Qed.
End TableElim.

(* ---------- the two readings of elimination agree: one variable at a time = all assignments ---------- *)
Definition ext_fn (f : env -> bool) : Prop := forall v v', (forall y, v y = v' y) -> f v = f v'.

Lemma sem_ext e : ext_fn (fun v => sem v e).
Proof. intros v v' H. apply sem_coincidence. auto. Qed.
Lemma tsem_ext t : ext_fn (tsem t).
Proof. intros v v' H. apply tsem_coincidence. auto. Qed.

(* the combination of f over ALL assignments of the variables, as a binary tree of op *)
Fixpoint big (op : bool -> bool -> bool) (vars : list name) (g : list (name * bool) -> bool) : bool :=
  match vars with
  | [] => g []
  | x :: r => op (big op r (fun a => g ((x, false) :: a))) (big op r (fun a => g ((x, true) :: a)))
  end.

Fixpoint assignments (vars : list name) : list (list (name * bool)) :=
  match vars with
  | [] => [[]]
  | x :: r => map (cons (x, false)) (assignments r) ++ map (cons (x, true)) (assignments r)
  end.

Lemma big_ext op vars : forall g h, (forall a, g a = h a) -> big op vars g = big op vars h.
Proof. induction vars as [|x r IH]; intros g h H; simpl; [apply H|]. f_equal; apply IH; intros; apply H. Qed.

Section Medial.
  Variable op : bool -> bool -> bool.
  Hypothesis medial : forall a b c d, op (op a b) (op c d) = op (op a c) (op b d).

  Lemma elim_fn_combine r : forall A B v,
    elim_fn op r (fun w => op (A w) (B w)) v = op (elim_fn op r A v) (elim_fn op r B v).
  Proof.
    induction r as [|y r IH]; intros A B v; simpl; [reflexivity|].
    rewrite <- IH. apply elim_fn_ext. intros w. apply medial.
  Qed.

  Lemma ext_step f x : ext_fn f -> ext_fn (fun w => op (f (upd w x false)) (f (upd w x true))).
  Proof.
    intros Hf v v' H. f_equal; apply Hf; intros y; unfold upd; destruct (name_eqb y x); auto.
  Qed.

  Theorem elim_fn_big vars : forall f v, ext_fn f ->
    elim_fn op vars f v = big op vars (fun a => f (override v a)).
  Proof.
    induction vars as [|x r IH]; intros f v Hf; simpl.
    - apply Hf. intros y. reflexivity.
    - rewrite elim_fn_combine. f_equal.
      + rewrite IH. * apply big_ext. intros a. apply Hf. intros y. unfold upd, override. simpl.
          destruct (name_eqb y x); reflexivity.
        * intros v1 v2 H. apply Hf. intros y. unfold upd. destruct (name_eqb y x); auto.
      + rewrite IH. * apply big_ext. intros a. apply Hf. intros y. unfold upd, override. simpl.
          destruct (name_eqb y x); reflexivity.
        * intros v1 v2 H. apply Hf. intros y. unfold upd. destruct (name_eqb y x); auto.
  Qed.

  (* the order in which the variables are eliminated does not matter *)
  Lemma elim_fn_swap x y r f v : ext_fn f ->
    elim_fn op (x :: y :: r) f v = elim_fn op (y :: x :: r) f v.
  Proof.
    intros Hf. simpl. apply elim_fn_ext. intros w.
    destruct (name_eqb_spec x y) as [E|N].
    - subst y. reflexivity.
    - rewrite medial. f_equal; f_equal; apply Hf; intros z; unfold upd;
        destruct (name_eqb_spec z x), (name_eqb_spec z y); try reflexivity; congruence.
  Qed.

  Theorem elim_fn_perm l l' : Permutation l l' -> forall f v, ext_fn f ->
    elim_fn op l f v = elim_fn op l' f v.
  Proof.
    induction 1 as [|x l l' _ IH|x y l|l l' l'' _ IH1 _ IH2]; intros f v Hf.
    - reflexivity.
    - simpl. apply IH. apply ext_step. exact Hf.
    - apply elim_fn_swap. exact Hf.
    - rewrite IH1, IH2; auto.
  Qed.
End Medial.

Lemma medial_orb a b c d : (a || b) || (c || d) = (a || c) || (b || d).
Proof. destruct a, b, c, d; reflexivity. Qed.
Lemma medial_andb a b c d : (a && b) && (c && d) = (a && c) && (b && d).
Proof. destruct a, b, c, d; reflexivity. Qed.
Lemma medial_xorb a b c d : xorb (xorb a b) (xorb c d) = xorb (xorb a c) (xorb b d).
Proof. destruct a, b, c, d; reflexivity. Qed.

Lemma big_orb vars : forall g, big orb vars g = existsb g (assignments vars).
Proof.
  induction vars as [|x r IH]; intros g; simpl; [rewrite orb_false_r; reflexivity|].
  rewrite existsb_app, !existsb_map, !IH. reflexivity.
Qed.
Lemma big_andb vars : forall g, big andb vars g = forallb g (assignments vars).
Proof.
  induction vars as [|x r IH]; intros g; simpl; [rewrite andb_true_r; reflexivity|].
  rewrite forallb_app, !forallb_map, !IH. reflexivity.
Qed.
Definition parity (l : list bool) : bool := fold_right xorb false l.
Lemma parity_app a b : parity (a ++ b) = xorb (parity a) (parity b).
Proof. induction a as [|x a IH]; simpl; [destruct (parity b); reflexivity|]. rewrite IH. destruct x, (parity a), (parity b); reflexivity. Qed.
Lemma big_xorb vars : forall g, big xorb vars g = parity (map g (assignments vars)).
Proof.
  induction vars as [|x r IH]; intros g; simpl; [destruct (g []); reflexivity|].
  rewrite map_app, parity_app, !map_map, !IH. reflexivity.
Qed.

Lemma assignments_keys vars a : In a (assignments vars) <-> keys a = vars.
Proof.
  revert a. induction vars as [|x r IH]; intros a; simpl.
  - split; [intros [<-|[]]; reflexivity|]. destruct a; [auto|discriminate].
  - rewrite in_app_iff, !in_map_iff. split.
    + intros [(a' & <- & H)|(a' & <- & H)]; simpl; f_equal; apply IH; auto.
    + destruct a as [|[k b] a']; [discriminate|]. simpl. intros [= -> H]. apply IH in H.
      destruct b; [right|left]; exists a'; auto.
Qed.

(* ---------- tables: is_equivalent / is_implied_by ---------- *)
Lemma t_literals_In t x : In x (t_literals t) <-> In x (t_inputs t).
Proof. apply set_of_list_In. Qed.

Theorem t_equiv_spec a b : t_equiv a b = true <-> forall v, tsem a v = tsem b v.
Proof.
  unfold t_equiv. apply forallb_power_set.
  - apply sset_NoDup, set_union_sset.
  - intros rho. rewrite !t_evaluate_tsem.
    destruct (tsem a (complete false rho)), (tsem b (complete false rho)); simpl; intuition congruence.
  - intros v v' Hag H.
    rewrite <- (tsem_coincidence a v v'), <- (tsem_coincidence b v v'); auto;
      intros x Hx; apply Hag; apply set_union_In; [right|left]; apply t_literals_In; auto.
Qed.

Theorem t_implied_by_spec a b : t_implied_by a b = true <-> forall v, tsem b v = true -> tsem a v = true.
Proof.
  unfold t_implied_by. apply forallb_power_set.
  - apply sset_NoDup, set_union_sset.
  - intros rho. rewrite !t_evaluate_tsem.
    destruct (tsem a (complete false rho)), (tsem b (complete false rho)); simpl; intuition congruence.
  - intros v v' Hag H.
    rewrite <- (tsem_coincidence a v v'), <- (tsem_coincidence b v v'); auto;
      intros x Hx; apply Hag; apply set_union_In; [right|left]; apply t_literals_In; auto.
Qed.

(* ---------- tables: substitution is simultaneous composition ---------- *)
Definition subst_env_t (m : list (name * table)) (v : env) : env :=
  fun k => match get m k with Some g => tsem g v | None => v k end.

Lemma get_map_snd {X Y} (f : X -> Y) (m : list (name * X)) x :
  get (map (fun kv => (fst kv, f (snd kv))) m) x = option_map f (get m x).
Proof. induction m as [|[k g] r IH]; simpl; [reflexivity|]. destruct (name_eqb x k); auto. Qed.

Lemma get_app {X} (a b : list (name * X)) x : get (a ++ b) x = match get a x with Some y => Some y | None => get b x end.
Proof. induction a as [|[k y] r IH]; simpl; [reflexivity|]. destruct (name_eqb x k); auto. Qed.

Definition t_subst_inputs (t : table) (m : list (name * table)) : list name :=
  set_union (set_diff (t_literals t) (keys m)) (set_of_list (concat (map (fun kv => t_inputs (snd kv)) m))).

Theorem t_substitute_spec t m : wf_table t ->
  wf_table (t_substitute t m) /\
  t_inputs (t_substitute t m) = t_subst_inputs t m /\
  forall v, tsem (t_substitute t m) v = tsem t (subst_env_t m v).
Proof.
  intros Hwf. unfold t_substitute. fold (t_subst_inputs t m). split; [|split].
  - apply tabulate_wf. apply set_union_sset.
  - reflexivity.
  - intros v. rewrite tsem_tabulate. set (fin := t_subst_inputs t m). set (rho := combine fin (map v fin)).
    rewrite t_evaluate_tsem. apply tsem_coincidence. intros x Hx.
    unfold complete, subst_env_t. rewrite get_app.
    rewrite (get_map_snd (fun g => t_evaluate g rho) m x).
    destruct (get m x) as [g|] eqn:G; cbn [option_map].
    + apply tsem_eval_combine. intros y Hy. unfold fin, t_subst_inputs. apply set_union_In. right.
      apply set_of_list_In. apply In_concat_map. exists (x, g). split; [apply get_Some_In; auto|exact Hy].
    + fold (complete false rho x). unfold rho. apply complete_combine_agrees.
      unfold fin, t_subst_inputs. apply set_union_In. left. apply set_diff_In. split.
      * apply t_literals_In. exact Hx.
      * apply get_None_keys. exact G.
Qed.

(* ---------- expressions: essential inputs ---------- *)
Lemma forallb_false_exists {A} (P : A -> bool) l : forallb P l = false -> exists x, In x l /\ P x = false.
Proof.
  induction l as [|a l IH]; simpl; [discriminate|]. destruct (P a) eqn:E; simpl.
  - intros H. destruct (IH H) as (x & Hx & Px). eauto.
  - intros _. eauto.
Qed.

Theorem e_essential_spec e u :
  In u (e_essential e) <-> In u (literals e) /\ exists v, sem (upd v u false) e <> sem (upd v u true) e.
Proof.
  unfold e_essential. rewrite filter_In, negb_true_iff. split.
  - intros [Hu Hne]. split; [exact Hu|].
    unfold e_equiv in Hne. apply forallb_false_exists in Hne. destruct Hne as (rho & _ & Hrho).
    exists (complete false rho). rewrite !evaluate_sem in Hrho.
    rewrite (sem_restrict_single e u true), (sem_restrict_single e u false) in Hrho.
    intros E. rewrite E in Hrho. destruct (sem (upd (complete false rho) u true) e); discriminate.
  - intros [Hu (v & Hv)]. split; [exact Hu|].
    destruct (e_equiv (e_restrict e [(u, true)]) (e_restrict e [(u, false)])) eqn:E; [|reflexivity].
    exfalso. apply Hv. pose proof (proj1 (e_equiv_spec _ _) E v) as H.
    rewrite (sem_restrict_single e u true), (sem_restrict_single e u false) in H. auto.
Qed.

Theorem e_essential_sset e : sset (e_essential e).
Proof. apply filter_sset. apply literals_sset. Qed.
