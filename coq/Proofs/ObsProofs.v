(* The observations the model runner prints (the obj_ functions of Model/Prog.v) are what the per-representation theorems
   speak about: one statement per observation for an object of ANY representation. *)
From BBF Require Import Base.Prelude Base.Names Base.Bits Spec.Sem
     Model.Expr Model.Table Model.LibBdd Model.Bdd Model.Lexer Model.Parser Model.Display Model.Render Model.Csv Model.Prog
     Proofs.ExprProofs Proofs.TableProofs Proofs.QuantProofs Proofs.NfProofs Proofs.DdProofs Proofs.BddProofs Proofs.BddOps
     Proofs.ConvProofs Proofs.EnumProofs Proofs.CountProofs Proofs.ProgProofs Proofs.ConvChain.

(* evaluation with a default: the value of the object's function at the completed assignment *)
Theorem obj_eval_default_spec o rho d : obj_eval_default o rho d = osem o (complete d rho).
Proof. destruct o; simpl; [apply eval_default_sem|apply t_eval_default_sem|apply b_eval_default_sem]. Qed.

(* checked evaluation: a value exactly when every declared input is assigned, otherwise exactly the unassigned ones *)
Theorem obj_eval_checked_spec o rho :
  match obj_eval_checked o rho with
  | inl b => (forall x, In x (decl o) -> get rho x <> None) /\ forall d, b = osem o (complete d rho)
  | inr errs => errs <> [] /\ forall x, In x errs <-> In x (decl o) /\ get rho x = None
  end.
Proof.
  destruct o as [e|t|b]; simpl.
  - pose proof (eval_checked_spec e rho) as H. destruct (eval_checked e rho) as [v|errs].
    + exact H.
    + destruct H as (Hne & He). split; [exact Hne|]. intros x. rewrite He. rewrite missing_In, literals_In. tauto.
  - pose proof (t_eval_checked_spec t rho) as H. destruct (t_eval_checked t rho) as [v|errs]; exact H.
  - pose proof (b_eval_checked_spec b rho) as H. destruct (b_eval_checked b rho) as [v|errs].
    + exact H.
    + destruct H as (Hne & He). split; [exact Hne|]. intros x. rewrite He. apply missing_In.
Qed.

(* the enumerations of an object of any representation *)
Theorem obj_enumerations_spec o : owf o ->
  let ins := decl o in
  obj_domain o = points (length ins) /\
  obj_image o = map (fun p => osem o (env_of ins p)) (obj_domain o) /\
  obj_relation o = combine (obj_domain o) (obj_image o) /\
  obj_support o = filter (fun p => osem o (env_of ins p)) (obj_domain o) /\
  obj_weight o = N.of_nat (length (obj_support o)) /\
  (forall p, obj_sat_point o = Some p -> In p (obj_support o)) /\
  (obj_sat_point o = None <-> obj_support o = []).
Proof.
  intros Hw. destruct o as [e|t|b]; simpl in *.
  - exact (e_enum_spec e).
  - exact (t_enum_spec t Hw).
  - destruct (b_enum_spec b Hw) as (D & I & R & S & P1 & P2). repeat split; try assumption.
    + apply b_weight_is_support_size. exact Hw.
    + apply P2.
    + apply P2.
Qed.

(* node count of a diagram is determined by its inputs and its function *)
Theorem node_count_determined a b : wf_bdd a -> wf_bdd b -> b_inputs a = b_inputs b ->
  (forall v, bsem a v = bsem b v) -> b_node_count a = b_node_count b.
Proof.
  intros Wa Wb Hi Hs. unfold b_node_count.
  assert (Hr : b_root a = b_root b).
  { pose proof Wa as (Sa & Na & Oa & Ra & Ba). pose proof Wb as (Sb & Nb & Ob & Rb & Bb).
    apply (canonical _ _ 0); auto. intros p.
    rewrite <- (eval_env_of_inner a p Wa), <- (eval_env_of_inner b p Wb), Hi. apply Hs. }
  rewrite Hr. reflexivity.
Qed.
