From BBF Require Import Base.Prelude Base.Names Base.Bits Spec.Sem
     Model.Expr Model.Table Model.LibBdd Model.Bdd Model.Lexer Model.Parser Model.Display Model.Render Model.Csv
     Model.Prog Model.Py Model.PyProg Proofs.ProgProofs.

Lemma py_exec_ok p i e : py_exec p i = PyOk e <-> exec p i = Ok e.
Proof.
  unfold py_exec. destruct (exec p i) as [x|c|c].
  - split; intros H; injection H as <-; reflexivity.
  - destruct (Nat.eqb c 90); split; discriminate.
  - split; discriminate.
Qed.

Lemma py_step_is_step p i : py_step p i = step p i.
Proof.
  unfold py_step, step, py_exec. destruct (exec p i) as [x|c|c]; try reflexivity.
  destruct (Nat.eqb c 90); reflexivity.
Qed.

Lemma py_run_is_run is : py_run is = run is.
Proof.
  unfold py_run, run. generalize (@nil (option entry)). induction is as [|i is IH]; intros p; simpl; [reflexivity|].
  rewrite py_step_is_step. apply IH.
Qed.

Lemma exc_of_csv_cases c : exc_of_csv c = RuntimeError \/ exc_of_csv c = EOFError \/ exc_of_csv c = TypeError \/ exc_of_csv c = OSError.
Proof.
  unfold exc_of_csv. destruct (Nat.eqb c E_UnexpectedEof); [right; left; reflexivity|].
  destruct (Nat.eqb c E_NonBooleanCellValue); [right; right; left; reflexivity|].
  destruct (Nat.eqb c E_IOError); [right; right; right; reflexivity|left; reflexivity].
Qed.

(* which exception for which failure *)
Lemma py_exec_raise p i x : py_exec p i = PyRaise x ->
  (exists c, exec p i = Err c /\ c <> 90 /\ x = exc_of_instr i c) \/ (exists c, exec p i = Panic c /\ x = PanicException).
Proof.
  unfold py_exec. destruct (exec p i) as [e|c|c]; [discriminate| |].
  - destruct (Nat.eqb c 90) eqn:E; [discriminate|]. intros H. injection H as <-. left. exists c.
    apply PeanoNat.Nat.eqb_neq in E. auto.
  - intros H. injection H as <-. right. exists c. auto.
Qed.

Lemma py_exec_never_key_error p i : py_exec p i <> PyRaise KeyError.
Proof.
  intros H. apply py_exec_raise in H. destruct H as [(c & _ & _ & H)|(c & _ & H)]; [|discriminate].
  unfold exc_of_instr in H. destruct i; try discriminate.
  destruct (exc_of_csv_cases c) as [E|[E|[E|E]]]; rewrite E in H; discriminate.
Qed.

Lemma py_exec_special_only_csv p i x : py_exec p i = PyRaise x -> x <> RuntimeError -> x <> PanicException ->
  exists f s, i = ICsvIn f s.
Proof.
  intros H Hr Hp. apply py_exec_raise in H. destruct H as [(c & _ & _ & H)|(c & _ & H)]; [|contradiction].
  destruct i; simpl in H; try contradiction. eauto.
Qed.
