(* End to end: what the i-th call of next() on a fresh image / relation iterator of a well-formed object returns,
   in terms of the object's meaning: the function's value at the point whose binary value is i. *)
From BBF Require Import Base.Prelude Base.Names Base.Bits Spec.Sem Model.Expr Model.Table Model.LibBdd Model.Bdd Model.Prog Model.Iter
     Proofs.ExprProofs Proofs.TableProofs Proofs.RenderProofs Proofs.EnumProofs Proofs.ProgProofs Proofs.ConvChain Proofs.ObsProofs Proofs.IterProofs.

Lemma nth_error_answers {A} (L : list A) k i : i < k -> nth_error (answers L k) i = Some (nth_error L i).
Proof.
  intros H. unfold answers. rewrite nth_error_map.
  rewrite (nth_error_nth' (seq 0 k) 0) by (rewrite seq_length; exact H). rewrite seq_nth by exact H. reflexivity.
Qed.

Lemma nth_error_points n i : i < 2 ^ n -> nth_error (points n) i = Some (index_point (N.of_nat i) n).
Proof.
  intros H. rewrite (nth_error_nth' (points n) []) by (rewrite points_length; exact H).
  rewrite index_point_spec, Nat2N.id; [reflexivity|].
  rewrite <- (N2Nat.id (2 ^ N.of_nat n)), pow2_N_nat. lia.
Qed.

Theorem iter_image_value o : owf o ->
  let ins := decl o in let n := length ins in
  forall k i, i < k -> i < 2 ^ n ->
    nth_error (obj_img_steps o k) i = Some (Some (osem o (env_of ins (index_point (N.of_nat i) n)))) /\
    nth_error (obj_rel_steps o k) i = Some (Some (index_point (N.of_nat i) n, osem o (env_of ins (index_point (N.of_nat i) n)))) /\
    nth_error (obj_dom_steps o k) i = Some (Some (index_point (N.of_nat i) n)).
Proof.
  intros Hwf ins n k i Hik Hin.
  destruct (obj_enumerations_spec o Hwf) as (Hd & Hi & Hr & _).
  destruct (obj_iter_spec o k) as (Sd & Si & Sr & _).
  fold ins in Hd, Hi. fold n in Hd.
  assert (Pd : nth_error (obj_domain o) i = Some (index_point (N.of_nat i) n)) by (rewrite Hd; apply nth_error_points; exact Hin).
  assert (Pi : nth_error (obj_image o) i = Some (osem o (env_of ins (index_point (N.of_nat i) n)))).
  { rewrite Hi, nth_error_map, Pd. reflexivity. }
  split; [|split].
  - rewrite Si, nth_error_answers by exact Hik. rewrite Pi. reflexivity.
  - rewrite Sr, nth_error_answers by exact Hik. rewrite Hr.
    assert (Hl : length (obj_domain o) = length (obj_image o)) by (rewrite Hi, map_length; reflexivity).
    set (pp := index_point (N.of_nat i) n) in *. set (vv := osem o (env_of ins pp)) in *. clearbody pp vv.
    clear - Pd Pi Hl. revert Pd Pi Hl. generalize (obj_domain o) (obj_image o). intros D. revert i.
    induction D as [|d D IH]; intros i I Pd Pi Hl; [destruct i; discriminate|].
    destruct I as [|b I]; [discriminate|]. destruct i as [|i]; cbn [nth_error combine length] in *.
    + injection Pd as ->. injection Pi as ->. reflexivity.
    + apply IH; auto.
  - rewrite Sd, nth_error_answers by exact Hik. rewrite Pd. reflexivity.
Qed.

(* ... and None from call 2^n on *)
Theorem iter_exhausted o : owf o ->
  let n := length (decl o) in
  forall k i, i < k -> 2 ^ n <= i ->
    nth_error (obj_img_steps o k) i = Some None /\ nth_error (obj_rel_steps o k) i = Some None /\ nth_error (obj_dom_steps o k) i = Some None.
Proof.
  intros Hwf n k i Hik Hin.
  destruct (obj_enumerations_spec o Hwf) as (Hd & Hi & Hr & _).
  destruct (obj_iter_spec o k) as (Sd & Si & Sr & _).
  fold n in Hd.
  assert (Ld : length (obj_domain o) = 2 ^ n) by (rewrite Hd, points_length; reflexivity).
  assert (Li : length (obj_image o) = 2 ^ n) by (rewrite Hi, map_length; exact Ld).
  assert (Lr : length (obj_relation o) = 2 ^ n) by (rewrite Hr, combine_length, Ld, Li; lia).
  rewrite Si, Sr, Sd, !nth_error_answers by exact Hik.
  repeat split; f_equal; apply nth_error_None; lia.
Qed.
