(* The wrapper around lib-bdd: extend / prune are semantics-preserving and keep the diagram
   well-formed (the precondition of the `unsafe` blocks is proved), and every operation of
   the wrapper refines the specification. *)
From BBF Require Import Base.Prelude Base.Names Base.Bits Spec.Sem
     Model.Expr Model.Table Model.LibBdd Model.Bdd Proofs.ExprProofs Proofs.TableProofs Proofs.DdProofs.
From Coq Require Import Sorting.Sorted.

(* ---------- index_of ---------- *)
Lemma index_of_nth x l : forall i, index_of x l = Some i -> nth_error l i = Some x.
Proof.
  induction l as [|y r IH]; simpl; intros i H; [discriminate|].
  destruct (name_eqb_spec x y).
  - injection H as <-. subst. reflexivity.
  - destruct (index_of x r) as [j|]; [|discriminate]. injection H as <-. simpl. apply IH. reflexivity.
Qed.

Lemma index_of_lt x l i : index_of x l = Some i -> i < length l.
Proof. intros H. apply index_of_nth in H. apply nth_error_Some. congruence. Qed.

Lemma index_of_In x l : In x l -> exists i, index_of x l = Some i.
Proof.
  induction l as [|y r IH]; simpl; intros H; [contradiction|].
  destruct (name_eqb_spec x y); [eauto|].
  destruct H as [E|H]; [congruence|]. destruct (IH H) as (i & ->). simpl. eauto.
Qed.

Lemma index_of_None x l : index_of x l = None <-> ~ In x l.
Proof.
  split.
  - intros H Hin. destruct (index_of_In _ _ Hin) as (i & E). congruence.
  - intros H. destruct (index_of x l) eqn:E; [|reflexivity].
    exfalso. apply H. apply index_of_nth in E. eapply nth_error_In; eauto.
Qed.

Lemma index_of_NoDup l : NoDup l -> forall i x, nth_error l i = Some x -> index_of x l = Some i.
Proof.
  induction 1 as [|y r Hy Hnd IH]; intros i x Hx; [destruct i; discriminate|].
  destruct i as [|i]; simpl in *.
  - injection Hx as ->. rewrite name_eqb_refl. reflexivity.
  - destruct (name_eqb_spec x y).
    + subst. exfalso. apply Hy. eapply nth_error_In; eauto.
    + rewrite (IH i x Hx). reflexivity.
Qed.

Lemma sset_nth_lt l : sset l -> forall i j x y, nth_error l i = Some x -> nth_error l j = Some y -> i < j -> name_lt x y.
Proof.
  induction l as [|z r IH]; intros Hs i j x y Hi Hj Hij; [destruct i; discriminate|].
  destruct (sset_inv _ _ Hs) as [Hr Hz]. rewrite Forall_forall in Hz.
  destruct j as [|j]; [lia|]. simpl in Hj. destruct i as [|i]; simpl in Hi.
  - injection Hi as ->. apply Hz. eapply nth_error_In; eauto.
  - apply (IH Hr i j); auto. lia.
Qed.

Lemma sset_index_mono l x y i j : sset l -> index_of x l = Some i -> index_of y l = Some j -> name_lt x y -> i < j.
Proof.
  intros Hs Hi Hj Hxy. apply index_of_nth in Hi, Hj.
  destruct (Nat.lt_trichotomy i j) as [H|[H|H]]; [exact H| |].
  - subst. rewrite Hi in Hj. injection Hj as ->. exfalso. exact (name_lt_irrefl _ Hxy).
  - exfalso. pose proof (sset_nth_lt l Hs j i y x Hj Hi H) as Hyx. exact (name_lt_asym _ _ Hxy Hyx).
Qed.

(* ---------- the inner environment ---------- *)
Definition ienv (inputs : list name) (v : env) : nat -> bool :=
  fun i => match nth_error inputs i with Some x => v x | None => false end.

Lemma bsem_ienv b v : bsem b v = dd_eval (b_root b) (ienv (b_inputs b) v).
Proof. reflexivity. Qed.

Lemma eval_agree t p q : (forall x, occurs x t -> p x = q x) -> dd_eval t p = dd_eval t q.
Proof.
  induction t as [c|v lo IHlo hi IHhi]; simpl; intros H; [reflexivity|].
  rewrite (H v) by auto. destruct (q v); [apply IHhi|apply IHlo]; auto.
Qed.

Lemma names_eqb_spec a b : reflect (a = b) (names_eqb a b).
Proof.
  revert b. induction a as [|x a IH]; intros [|y b]; simpl; try (constructor; congruence).
  destruct (name_eqb_spec x y); simpl; [|constructor; congruence].
  destruct (IH b); constructor; congruence.
Qed.

(* ---------- what `moved` computes ---------- *)
Definition perm_fn (perm : list (nat * nat)) (i : nat) : nat :=
  match nat_get perm i with Some w => w | None => i end.

Lemma moved_forward_low src dst : forall s perm,
  moved (enumerate_from s src) dst true = Ok perm -> forall k, k < s -> nat_get perm k = None.
Proof.
  induction src as [|x r IH]; intros s perm H k Hk; simpl in H.
  - injection H as <-. reflexivity.
  - destruct (index_of x dst) as [j|]; [|discriminate].
    destruct (moved (enumerate_from (S s) r) dst true) as [rest| |] eqn:E; simpl in H; try discriminate.
    injection H as <-. specialize (IH (S s) rest E k ltac:(lia)).
    destruct (Nat.eqb s j); [exact IH|]. simpl. destruct (Nat.eqb_spec k s); [lia|exact IH].
Qed.

Lemma moved_forward_spec src dst : forall s perm,
  moved (enumerate_from s src) dst true = Ok perm ->
  forall k x, nth_error src k = Some x -> index_of x dst = Some (perm_fn perm (s + k)).
Proof.
  induction src as [|y r IH]; intros s perm H k x Hk; [destruct k; discriminate|].
  simpl in H. destruct (index_of y dst) as [j|] eqn:Ej; [|discriminate].
  destruct (moved (enumerate_from (S s) r) dst true) as [rest| |] eqn:E; simpl in H; try discriminate.
  injection H as <-. destruct k as [|k]; simpl in Hk.
  - injection Hk as ->. rewrite Nat.add_0_r. unfold perm_fn.
    destruct (Nat.eqb_spec s j).
    + subst j. rewrite (moved_forward_low _ _ _ _ E s) by lia. exact Ej.
    + simpl. rewrite Nat.eqb_refl. exact Ej.
  - specialize (IH (S s) rest E k x Hk). replace (s + S k) with (S s + k) by lia.
    unfold perm_fn in *. destruct (Nat.eqb_spec s j); [exact IH|].
    cbn [nat_get]. destruct (Nat.eqb_spec (S s + k) s); [lia|exact IH].
Qed.

Lemma moved_forward_ok src dst : (forall x, In x src -> In x dst) -> forall s,
  exists perm, moved (enumerate_from s src) dst true = Ok perm.
Proof.
  induction src as [|y r IH]; intros Hsub s; simpl; [eauto|].
  destruct (index_of_In y dst) as (j & ->); [apply Hsub; simpl; auto|].
  destruct (IH (fun x Hx => Hsub x (or_intror Hx)) (S s)) as (rest & ->). simpl. eauto.
Qed.

(* ---------- rename_variables: its assertions hold and the result is well-formed ---------- *)
Lemma support_nil_leaf t : dd_support t = [] -> exists c, t = Leaf c.
Proof.
  destruct t as [c|v lo hi]; [eauto|]. simpl. intros H.
  assert (In v (nat_insert v (nat_union (dd_support lo) (dd_support hi)))) by (apply nat_insert_In; auto).
  rewrite H in H0. destruct H0.
Qed.

Lemma occurs_map_vars f y t : occurs y (dd_map_vars f t) <-> exists x, occurs x t /\ y = f x.
Proof.
  induction t as [c|v lo IHlo hi IHhi]; simpl.
  - split; [tauto|intros (x & [] & _)].
  - rewrite IHlo, IHhi. split.
    + intros [E|[(x & Hx & E)|(x & Hx & E)]]; eauto 6.
    + intros (x & [E|[Hx|Hx]] & ->); [left; congruence|right; left; eauto|right; right; eauto].
Qed.

Lemma rename_ok nv' nv'' perm t k nv :
  let f := perm_fn perm in
  inv k nv t ->
  (forall x y, occurs x t -> occurs y t -> x < y -> f x < f y) ->
  (forall x, occurs x t -> f x < nv') -> nv' <= nv'' ->
  dd_rename nv'' perm t = Ok (dd_map_vars f t) /\ inv 0 nv' (dd_map_vars f t).
Proof.
  intros f Hinv Hmono Hb Hle. split.
  - unfold dd_rename.
    change (fun v : nat => match nat_get perm v with Some w => w | None => v end) with f.
    destruct (dd_support t) as [|s0 sup] eqn:Es.
    + destruct (support_nil_leaf t Es) as (c & ->). reflexivity.
    + rewrite <- Es.
      assert (H1 : forallb (fun v => v <? nv'') (map f (dd_support t)) = true).
      { apply forallb_forall. intros y Hy. apply in_map_iff in Hy. destruct Hy as (x & <- & Hx).
        apply Nat.ltb_lt. apply dd_support_In in Hx. specialize (Hb x Hx). lia. }
      rewrite H1. cbn [negb].
      assert (H2 : increasing (map f (dd_support t)) = true).
      { apply increasing_map_mono; [apply dd_support_sorted|].
        intros x y Hx Hy. apply Hmono; apply dd_support_In; auto. }
      rewrite H2. reflexivity.
  - destruct Hinv as (Ho & Hr & _). repeat split.
    + apply (map_vars_ordered f t k 0); auto. intros; lia.
    + apply map_vars_reduced; auto. intros x y Hx Hy E.
      destruct (Nat.lt_trichotomy x y) as [L|[L|L]]; [|exact L|].
      * specialize (Hmono x y Hx Hy L). lia.
      * specialize (Hmono y x Hy Hx L). lia.
    + apply map_vars_bounded. exact Hb.
Qed.

Lemma set_num_vars_ok k t nv : bounded nv t -> nv <= k -> dd_set_num_vars k t = Ok t.
Proof.
  intros Hb Hk. unfold dd_set_num_vars.
  assert (forallb (fun v => v <? k) (dd_support t) = true) as ->; [|reflexivity].
  apply forallb_forall. intros x Hx. apply Nat.ltb_lt. apply dd_support_In in Hx.
  assert (x < nv); [|lia]. clear Hk. induction t as [c|v lo IHlo hi IHhi]; simpl in *; [contradiction|].
  destruct Hb as (Hv & Bl & Bh). destruct Hx as [->|[H|H]]; auto.
Qed.

Lemma map_vars_id f t : (forall x, occurs x t -> f x = x) -> dd_map_vars f t = t.
Proof.
  induction t as [c|v lo IHlo hi IHhi]; simpl; intros H; [reflexivity|].
  rewrite H, IHlo, IHhi; auto.
Qed.

Lemma incl_length_NoDup (a b : list name) : NoDup a -> incl a b -> length a <= length b.
Proof. intros. apply NoDup_incl_length; auto. Qed.

Lemma ienv_nth inputs v i x : nth_error inputs i = Some x -> ienv inputs v i = v x.
Proof. unfold ienv. intros ->. reflexivity. Qed.

(* ---------- extend_bdd_variables ---------- *)
Theorem extend_ok dbg b new :
  wf_bdd b -> sset new -> incl (b_inputs b) new ->
  exists b', extend dbg b new = Ok b' /\ wf_bdd b' /\ b_inputs b' = new /\ (forall v, bsem b' v = bsem b v) /\
             (forall y, occurs y (b_root b') -> exists x, nth_error new y = Some x /\ In x (b_inputs b)).
Proof.
  intros (Hs & Hnv & Ho & Hr & Hb) Hnew Hincl. unfold extend.
  destruct (names_eqb_spec (b_inputs b) new) as [E|NE].
  - exists b. repeat split; auto. intros y Hy. rewrite <- E.
    assert (y < b_nv b) by (apply (occurs_bounds y 0 (b_nv b) (b_root b)); [repeat split; auto|auto]).
    destruct (nth_error (b_inputs b) y) as [x|] eqn:Ex; [|apply nth_error_None in Ex; lia].
    exists x. split; auto. eapply nth_error_In; eauto.
  - assert (Hdbg : dbg && negb (forallb (fun x => mem x new) (b_inputs b)) = false).
    { assert (forallb (fun x => mem x new) (b_inputs b) = true) as ->; [|apply andb_false_r].
      apply forallb_forall. intros x Hx. apply mem_In. apply Hincl. exact Hx. }
    rewrite Hdbg.
    destruct (moved_forward_ok (b_inputs b) new Hincl 0) as (perm & Hperm). rewrite Hperm. cbn [bind].
    pose proof (moved_forward_spec _ _ _ _ Hperm) as Hspec. cbn [Nat.add] in Hspec.
    set (f := perm_fn perm) in *.
    assert (Hlen : length (b_inputs b) <= length new).
    { apply incl_length_NoDup; auto. apply sset_NoDup; auto. }
    rewrite (set_num_vars_ok _ _ (b_nv b)) by (auto; lia). cbn [bind].
    (* facts about f on the occurring variables *)
    assert (Hocc : forall i, occurs i (b_root b) -> exists x, nth_error (b_inputs b) i = Some x /\ index_of x new = Some (f i)).
    { intros i Hi. assert (i < b_nv b) by (apply (occurs_bounds i 0 (b_nv b) (b_root b)); [repeat split; auto|auto]).
      destruct (nth_error (b_inputs b) i) as [x|] eqn:Ex; [|apply nth_error_None in Ex; lia].
      exists x. split; auto. }
    assert (Hmono : forall x y, occurs x (b_root b) -> occurs y (b_root b) -> x < y -> f x < f y).
    { intros i j Hi Hj Hij. destruct (Hocc i Hi) as (x & Ex & Fx). destruct (Hocc j Hj) as (y & Ey & Fy).
      apply (sset_index_mono new x y); auto. apply (sset_nth_lt (b_inputs b) Hs i j); auto. }
    assert (Hbound : forall x, occurs x (b_root b) -> f x < length new).
    { intros i Hi. destruct (Hocc i Hi) as (x & _ & Fx). apply (index_of_lt x); auto. }
    destruct (rename_ok (length new) (length new) perm (b_root b) 0 (b_nv b) (conj Ho (conj Hr Hb)) Hmono Hbound (le_n _)) as (Hren & Hinv).
    fold f in Hren, Hinv.
    assert (Hroot : (match perm with [] => Ok (b_root b) | _ :: _ => dd_rename (length new) perm (b_root b) end)
                    = Ok (dd_map_vars f (b_root b))).
    { destruct perm; [|exact Hren]. rewrite map_vars_id; [reflexivity|]. intros x _. reflexivity. }
    rewrite Hroot. cbn [bind].
    eexists. split; [reflexivity|]. split; [|split; [reflexivity|split]].
    + repeat split; auto; apply Hinv.
    + intros v. unfold bsem. cbn [b_root b_inputs]. rewrite map_vars_sem. apply eval_agree.
      intros i Hi. destruct (Hocc i Hi) as (x & Ex & Fx). apply index_of_nth in Fx.
      fold (ienv new v (f i)). fold (ienv (b_inputs b) v i).
      rewrite (ienv_nth _ _ _ _ Fx), (ienv_nth _ _ _ _ Ex). reflexivity.
    + cbn [b_root]. intros y Hy. apply occurs_map_vars in Hy. destruct Hy as (i & Hi & ->).
      destruct (Hocc i Hi) as (x & Ex & Fx). exists x. split; [apply index_of_nth; auto|eapply nth_error_In; eauto].
Qed.

(* ---------- prune_bdd_variables ---------- *)
Lemma moved_backward_keys src dst : forall s perm,
  moved (enumerate_from s src) dst false = Ok perm ->
  forall j w, nat_get perm j = Some w ->
  exists k x, nth_error src k = Some x /\ index_of x dst = Some j /\ w = s + k.
Proof.
  induction src as [|y r IH]; intros s perm H j w Hw; simpl in H.
  - injection H as <-. discriminate.
  - destruct (index_of y dst) as [jy|] eqn:Ej; [|discriminate].
    destruct (moved (enumerate_from (S s) r) dst false) as [rest| |] eqn:E; simpl in H; try discriminate.
    injection H as <-.
    assert (Hrest : nat_get rest j = Some w -> exists k x, nth_error (y :: r) k = Some x /\ index_of x dst = Some j /\ w = s + k).
    { intros Hr. destruct (IH (S s) rest E j w Hr) as (k & x & Hk & Hx & ->).
      exists (S k), x. repeat split; auto. lia. }
    destruct (Nat.eqb s jy); [auto|].
    cbn [nat_get] in Hw. destruct (Nat.eqb_spec j jy); [|auto].
    injection Hw as <-. subst jy. exists 0, y. repeat split; auto.
Qed.

Lemma moved_backward_has src dst : forall s perm,
  moved (enumerate_from s src) dst false = Ok perm ->
  forall k x j, nth_error src k = Some x -> index_of x dst = Some j -> j <> s + k -> nat_get perm j <> None.
Proof.
  induction src as [|y r IH]; intros s perm H k x j Hk Hj Hne; [destruct k; discriminate|].
  simpl in H. destruct (index_of y dst) as [jy|] eqn:Ej; [|discriminate].
  destruct (moved (enumerate_from (S s) r) dst false) as [rest| |] eqn:E; simpl in H; try discriminate.
  injection H as <-. destruct k as [|k]; simpl in Hk.
  - injection Hk as ->. rewrite Hj in Ej. injection Ej as <-. rewrite Nat.add_0_r in Hne.
    destruct (Nat.eqb_spec s j); [congruence|]. cbn [nat_get]. rewrite Nat.eqb_refl. discriminate.
  - assert (Hr : nat_get rest j <> None) by (apply (IH (S s) rest E k x j); auto; lia).
    destruct (Nat.eqb s jy); [exact Hr|]. cbn [nat_get]. destruct (Nat.eqb j jy); [discriminate|exact Hr].
Qed.

Lemma moved_backward_spec src dst s perm :
  NoDup src -> moved (enumerate_from s src) dst false = Ok perm ->
  forall k x j, nth_error src k = Some x -> index_of x dst = Some j -> perm_fn perm j = s + k.
Proof.
  intros Hnd H k x j Hk Hj. unfold perm_fn. destruct (nat_get perm j) as [w|] eqn:Ew.
  - destruct (moved_backward_keys _ _ _ _ H j w Ew) as (k' & x' & Hk' & Hj' & ->).
    apply index_of_nth in Hj, Hj'. rewrite Hj in Hj'. injection Hj' as <-.
    f_equal. apply (proj1 (NoDup_nth_error src) Hnd); [apply nth_error_Some; congruence|congruence].
  - destruct (Nat.eq_dec j (s + k)) as [E|NE]; [exact E|].
    exfalso. exact (moved_backward_has _ _ _ _ H k x j Hk Hj NE Ew).
Qed.

Lemma moved_backward_ok src dst : (forall x, In x src -> In x dst) -> forall s,
  exists perm, moved (enumerate_from s src) dst false = Ok perm.
Proof.
  induction src as [|y r IH]; intros Hsub s; simpl; [eauto|].
  destruct (index_of_In y dst) as (j & ->); [apply Hsub; simpl; auto|].
  destruct (IH (fun x Hx => Hsub x (or_intror Hx)) (S s)) as (rest & ->). simpl. eauto.
Qed.

Lemma essential_fold_ok b (sup : list nat) :
  (forall i, In i sup -> i < length (b_inputs b)) ->
  exists ess,
    fold_right (fun i acc => l <- acc ;; match inner_to_outer b i with Some x => Ok (set_insert x l) | None => Panic 22 end)
               (Ok []) sup = Ok ess /\ sset ess /\
    forall x, In x ess <-> exists i, In i sup /\ nth_error (b_inputs b) i = Some x.
Proof.
  induction sup as [|i sup IH]; intros Hlt; simpl.
  - exists []. repeat split; [constructor|intros []|intros (i & [] & _)].
  - destruct IH as (ess & -> & Hss & Hin); [intros; apply Hlt; simpl; auto|]. cbn [bind].
    unfold inner_to_outer. destruct (nth_error (b_inputs b) i) as [x|] eqn:Ex.
    + exists (set_insert x ess). repeat split; [apply set_insert_sset; auto| |].
      * intros Hy. apply set_insert_In in Hy. destruct Hy as [->|Hy]; [eauto|].
        apply Hin in Hy. destruct Hy as (j & Hj & Ej). eauto.
      * intros (j & [<-|Hj] & Ej); apply set_insert_In; [left; congruence|right; apply Hin; eauto].
    + apply nth_error_None in Ex. specialize (Hlt i (or_introl eq_refl)). lia.
Qed.

Lemma b_essential_ok b : wf_bdd b ->
  exists ess, b_essential b = Ok ess /\ sset ess /\
    forall x, In x ess <-> exists i, occurs i (b_root b) /\ nth_error (b_inputs b) i = Some x.
Proof.
  intros (Hs & Hnv & Ho & Hr & Hb). unfold b_essential.
  destruct (essential_fold_ok b (dd_support (b_root b))) as (ess & He & Hss & Hin).
  - intros i Hi. apply dd_support_In in Hi. rewrite <- Hnv.
    apply (occurs_bounds i 0 (b_nv b) (b_root b)); [repeat split; auto|auto].
  - exists ess. repeat split; auto.
    + intros Hx. apply Hin in Hx. destruct Hx as (i & Hi & E). exists i. split; auto. apply dd_support_In; auto.
    + intros (i & Hi & E). apply Hin. exists i. split; auto. apply dd_support_In; auto.
Qed.

Theorem prune_ok dbg b new :
  wf_bdd b -> sset new -> incl new (b_inputs b) ->
  (forall i x, occurs i (b_root b) -> nth_error (b_inputs b) i = Some x -> In x new) ->
  exists b', prune dbg b new = Ok b' /\ wf_bdd b' /\ b_inputs b' = new /\ forall v, bsem b' v = bsem b v.
Proof.
  intros Hwf Hnew Hincl Hess. pose proof Hwf as (Hs & Hnv & Ho & Hr & Hb). unfold prune.
  destruct (names_eqb_spec (b_inputs b) new) as [E|NE].
  - exists b. repeat split; auto.
  - destruct (b_essential_ok b Hwf) as (ess & Hess_eq & _ & Hess_in).
    assert (Hdbg : (ess' <- (if dbg then b_essential b else Ok []) ;;
                    if dbg && negb (forallb (fun x => mem x new) ess') then (Panic 23 : Res bdd) else Ok b) = Ok b).
    { destruct dbg; cbn [bind andb]; [|reflexivity]. rewrite Hess_eq. cbn [bind].
      assert (forallb (fun x => mem x new) ess = true) as ->; [|reflexivity].
      apply forallb_forall. intros x Hx. apply mem_In. apply Hess_in in Hx. destruct Hx as (i & Hi & Ei). eauto. }
    assert (Hdbg2 : exists ess', (if dbg then b_essential b else Ok []) = Ok ess' /\
                                 dbg && negb (forallb (fun x => mem x new) ess') = false).
    { destruct dbg.
      - exists ess. split; auto. cbn [andb].
        assert (forallb (fun x => mem x new) ess = true) as ->; [|reflexivity].
        apply forallb_forall. intros x Hx. apply mem_In. apply Hess_in in Hx. destruct Hx as (i & Hi & Ei). eauto.
      - exists []. split; auto. }
    destruct Hdbg2 as (ess' & -> & Hd2). cbn [bind]. rewrite Hd2. clear Hdbg.
    destruct (moved_backward_ok new (b_inputs b) Hincl 0) as (perm & Hperm). rewrite Hperm. cbn [bind].
    pose proof (moved_backward_spec new (b_inputs b) 0 perm (sset_NoDup _ Hnew) Hperm) as Hspec. cbn [Nat.add] in Hspec.
    set (f := perm_fn perm) in *.
    assert (Hlen : length new <= length (b_inputs b)).
    { apply incl_length_NoDup; auto. apply sset_NoDup; auto. }
    assert (Hocc : forall i, occurs i (b_root b) -> exists x, nth_error (b_inputs b) i = Some x /\ index_of x new = Some (f i)).
    { intros i Hi. assert (i < b_nv b) by (apply (occurs_bounds i 0 (b_nv b) (b_root b)); [repeat split; auto|auto]).
      destruct (nth_error (b_inputs b) i) as [x|] eqn:Ex; [|apply nth_error_None in Ex; lia].
      exists x. split; auto. destruct (index_of_In x new (Hess i x Hi Ex)) as (k & Ek).
      rewrite Ek. f_equal. symmetry. apply (Hspec k x i).
      - apply index_of_nth; auto.
      - apply index_of_NoDup; auto. apply sset_NoDup; auto. }
    assert (Hmono : forall x y, occurs x (b_root b) -> occurs y (b_root b) -> x < y -> f x < f y).
    { intros i j Hi Hj Hij. destruct (Hocc i Hi) as (x & Ex & Fx). destruct (Hocc j Hj) as (y & Ey & Fy).
      apply (sset_index_mono new x y); auto. apply (sset_nth_lt (b_inputs b) Hs i j); auto. }
    assert (Hbound : forall x, occurs x (b_root b) -> f x < length new).
    { intros i Hi. destruct (Hocc i Hi) as (x & _ & Fx). apply (index_of_lt x); auto. }
    destruct (rename_ok (length new) (b_nv b) perm (b_root b) 0 (b_nv b) (conj Ho (conj Hr Hb)) Hmono Hbound ltac:(lia)) as (Hren & Hinv).
    fold f in Hren, Hinv.
    assert (Hroot : (match perm with [] => Ok (b_root b) | _ :: _ => dd_rename (b_nv b) perm (b_root b) end)
                    = Ok (dd_map_vars f (b_root b))).
    { destruct perm; [|exact Hren]. rewrite map_vars_id; [reflexivity|]. intros x _. reflexivity. }
    rewrite Hroot. cbn [bind].
    rewrite (set_num_vars_ok _ _ (length new)) by (auto; apply Hinv). cbn [bind].
    eexists. split; [reflexivity|]. split; [|split; [reflexivity|]].
    + repeat split; auto; apply Hinv.
    + intros v. unfold bsem. cbn [b_root b_inputs]. rewrite map_vars_sem. apply eval_agree.
      intros i Hi. destruct (Hocc i Hi) as (x & Ex & Fx). apply index_of_nth in Fx.
      fold (ienv new v (f i)). fold (ienv (b_inputs b) v i).
      rewrite (ienv_nth _ _ _ _ Fx), (ienv_nth _ _ _ _ Ex). reflexivity.
Qed.
