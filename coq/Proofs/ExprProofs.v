(* Lemmas about the expression model. *)
From BBF Require Import Base.Prelude Base.Names Base.Bits Spec.Sem Model.Expr.

(* ---------- literals ---------- *)
Lemma literals_In x e : In x (literals e) <-> In x (occurrences e).
Proof. apply set_of_list_In. Qed.
Lemma literals_sset e : sset (literals e).
Proof. apply set_of_list_sset. Qed.

Lemma occ_And x es : In x (occurrences (And es)) <-> exists e, In e es /\ In x (occurrences e).
Proof. simpl. apply In_concat_map. Qed.
Lemma occ_Or x es : In x (occurrences (Or es)) <-> exists e, In e es /\ In x (occurrences e).
Proof. simpl. apply In_concat_map. Qed.

(* ---------- coincidence ---------- *)
Lemma sem_coincidence e : forall v v', (forall x, In x (occurrences e) -> v x = v' x) -> sem v e = sem v' e.
Proof.
  induction e using expr_ind'; intros v v' Hag; simpl.
  - apply Hag. simpl; auto.
  - reflexivity.
  - f_equal. apply IHe. exact Hag.
  - apply forallb_ext_in. intros e He. rewrite Forall_forall in H. apply H; auto.
    intros x Hx. apply Hag. apply occ_And. eauto.
  - apply existsb_ext_in. intros e He. rewrite Forall_forall in H. apply H; auto.
    intros x Hx. apply Hag. apply occ_Or. eauto.
Qed.

Lemma sem_coincidence_lits e v v' : (forall x, In x (literals e) -> v x = v' x) -> sem v e = sem v' e.
Proof. intros H. apply sem_coincidence. intros x Hx. apply H. apply literals_In; auto. Qed.

(* ---------- evaluation with a default ---------- *)
Lemma eval_default_sem e rho d : eval_default e rho d = sem (complete d rho) e.
Proof.
  induction e using expr_ind'; simpl.
  - reflexivity.
  - reflexivity.
  - f_equal; auto.
  - apply forallb_ext_in. intros e He. rewrite Forall_forall in H. auto.
  - apply existsb_ext_in. intros e He. rewrite Forall_forall in H. auto.
Qed.

Lemma evaluate_sem e rho : evaluate e rho = sem (complete false rho) e.
Proof. apply eval_default_sem. Qed.

(* ---------- checked evaluation ---------- *)
Definition missing (rho : valuation) (l : list name) : list name := filter (fun x => negb (has rho x)) l.

Lemma missing_app rho a b : missing rho (a ++ b) = missing rho a ++ missing rho b.
Proof. apply filter_app. Qed.

Lemma fold_checked_and rho es : forall b0 l0,
  fold_left (fun acc e => let '(b, errs) := checked_rec e rho in (andb (fst acc) b, snd acc ++ errs)) es (b0, l0)
  = (b0 && forallb (fun e => fst (checked_rec e rho)) es, l0 ++ concat (map (fun e => snd (checked_rec e rho)) es)).
Proof.
  induction es as [|e es IH]; intros b0 l0; simpl.
  - rewrite andb_true_r, app_nil_r. reflexivity.
  - destruct (checked_rec e rho) as [b errs] eqn:E. simpl. rewrite IH. rewrite andb_assoc, app_assoc. reflexivity.
Qed.
Lemma fold_checked_or rho es : forall b0 l0,
  fold_left (fun acc e => let '(b, errs) := checked_rec e rho in (orb (fst acc) b, snd acc ++ errs)) es (b0, l0)
  = (b0 || existsb (fun e => fst (checked_rec e rho)) es, l0 ++ concat (map (fun e => snd (checked_rec e rho)) es)).
Proof.
  induction es as [|e es IH]; intros b0 l0; simpl.
  - rewrite orb_false_r, app_nil_r. reflexivity.
  - destruct (checked_rec e rho) as [b errs] eqn:E. simpl. rewrite IH. rewrite orb_assoc, app_assoc. reflexivity.
Qed.

Lemma concat_map_missing rho (es : list expr) (f : expr -> list name) :
  Forall (fun e => f e = missing rho (occurrences e)) es ->
  concat (map f es) = missing rho (concat (map occurrences es)).
Proof.
  induction 1 as [|e es He _ IH]; simpl; [reflexivity|].
  rewrite missing_app, He, IH. reflexivity.
Qed.

(* the errors are exactly the unassigned literal occurrences, in traversal order *)
Lemma checked_rec_errs e rho : snd (checked_rec e rho) = missing rho (occurrences e).
Proof.
  induction e using expr_ind'; simpl.
  - unfold has. destruct (get rho x); reflexivity.
  - reflexivity.
  - destruct (checked_rec e rho); simpl in *. auto.
  - rewrite fold_checked_and. simpl. apply concat_map_missing. exact H.
  - rewrite fold_checked_or. simpl. apply concat_map_missing. exact H.
Qed.

Lemma missing_nil_iff rho l : missing rho l = [] <-> forall x, In x l -> get rho x <> None.
Proof.
  unfold missing. split.
  - intros H x Hx Hn.
    assert (In x (filter (fun x => negb (has rho x)) l)).
    { apply filter_In. split; auto. unfold has. rewrite Hn. reflexivity. }
    rewrite H in H0. destruct H0.
  - intros H. induction l as [|y l IH]; simpl; [reflexivity|].
    unfold has at 1. destruct (get rho y) eqn:E.
    + simpl. apply IH. intros x Hx. apply H. right; auto.
    + exfalso. apply (H y); simpl; auto.
Qed.

(* when nothing is missing the value is the meaning (whatever the default) *)
Lemma checked_rec_val e rho d :
  missing rho (occurrences e) = [] -> fst (checked_rec e rho) = sem (complete d rho) e.
Proof.
  induction e using expr_ind'; simpl; intros Hm.
  - unfold complete. unfold has in Hm. destruct (get rho x); [reflexivity|discriminate].
  - reflexivity.
  - destruct (checked_rec e rho) eqn:E; simpl in *. f_equal. auto.
  - rewrite fold_checked_and. simpl. apply forallb_ext_in. intros e He.
    rewrite Forall_forall in H. apply H; auto.
    apply missing_nil_iff. intros x Hx. apply (proj1 (missing_nil_iff _ _) Hm).
    apply In_concat_map. eauto.
  - rewrite fold_checked_or. simpl. apply existsb_ext_in. intros e He.
    rewrite Forall_forall in H. apply H; auto.
    apply missing_nil_iff. intros x Hx. apply (proj1 (missing_nil_iff _ _) Hm).
    apply In_concat_map. eauto.
Qed.

Lemma eval_checked_spec e rho :
  match eval_checked e rho with
  | inl b => (forall x, In x (literals e) -> get rho x <> None) /\ forall d, b = sem (complete d rho) e
  | inr errs => errs <> [] /\ errs = missing rho (occurrences e)
  end.
Proof.
  unfold eval_checked. pose proof (checked_rec_errs e rho) as He.
  destruct (checked_rec e rho) as [b errs] eqn:E. simpl in He.
  destruct errs as [|x errs].
  - split.
    + intros x Hx. apply (proj1 (missing_nil_iff rho (occurrences e))); auto. apply literals_In; auto.
    + intros d. pose proof (checked_rec_val e rho d (eq_sym He)) as Hv. rewrite E in Hv. exact Hv.
  - split; [discriminate|exact He].
Qed.

Lemma missing_In rho l x : In x (missing rho l) <-> In x l /\ get rho x = None.
Proof.
  unfold missing. rewrite filter_In, negb_true_iff. unfold has.
  destruct (get rho x); intuition congruence.
Qed.

(* ---------- connectives ---------- *)
Lemma sem_e_and v a b : sem v (e_and a b) = sem v a && sem v b.
Proof.
  destruct a, b; simpl; rewrite ?forallb_app; simpl; rewrite ?andb_true_r; reflexivity.
Qed.
Lemma sem_e_or v a b : sem v (e_or a b) = sem v a || sem v b.
Proof.
  destruct a, b; simpl; rewrite ?existsb_app; simpl; rewrite ?orb_false_r; reflexivity.
Qed.
Lemma sem_e_not v a : sem v (e_not a) = negb (sem v a).
Proof. reflexivity. Qed.
Lemma sem_e_xor v a b : sem v (e_xor a b) = xorb (sem v a) (sem v b).
Proof. unfold e_xor. rewrite sem_e_and, sem_e_not, sem_e_or, sem_e_and. destruct (sem v a), (sem v b); reflexivity. Qed.
Lemma sem_e_imply v a b : sem v (e_imply a b) = implb (sem v a) (sem v b).
Proof. unfold e_imply. rewrite sem_e_or, sem_e_not. destruct (sem v a), (sem v b); reflexivity. Qed.
Lemma sem_e_iff v a b : sem v (e_iff a b) = Bool.eqb (sem v a) (sem v b).
Proof. unfold e_iff. rewrite sem_e_or, !sem_e_and, !sem_e_not. destruct (sem v a), (sem v b); reflexivity. Qed.

Lemma occ_e_and x a b : In x (occurrences (e_and a b)) <-> In x (occurrences a) \/ In x (occurrences b).
Proof.
  destruct a, b; simpl; rewrite ?map_app, ?concat_app, ?in_app_iff; simpl; rewrite ?app_nil_r, ?in_app_iff; tauto.
Qed.
Lemma occ_e_or x a b : In x (occurrences (e_or a b)) <-> In x (occurrences a) \/ In x (occurrences b).
Proof.
  destruct a, b; simpl; rewrite ?map_app, ?concat_app, ?in_app_iff; simpl; rewrite ?app_nil_r, ?in_app_iff; tauto.
Qed.

Lemma literals_ext a b : (forall x, In x (occurrences a) <-> In x (occurrences b)) -> literals a = literals b.
Proof.
  intros H. apply sset_ext; try apply literals_sset. intros x. rewrite !literals_In. apply H.
Qed.

Lemma literals_e_and a b : literals (e_and a b) = set_union (literals a) (literals b).
Proof.
  apply sset_ext; [apply literals_sset|apply set_union_sset|].
  intros x. rewrite set_union_In, !literals_In. apply occ_e_and.
Qed.
Lemma literals_e_or a b : literals (e_or a b) = set_union (literals a) (literals b).
Proof.
  apply sset_ext; [apply literals_sset|apply set_union_sset|].
  intros x. rewrite set_union_In, !literals_In. apply occ_e_or.
Qed.
Lemma literals_e_not a : literals (e_not a) = literals a.
Proof. reflexivity. Qed.

(* ---------- substitution ---------- *)
Definition subst_env_e (m : list (name * expr)) (v : env) : env :=
  fun k => match get m k with Some g => sem v g | None => v k end.

Lemma sem_substitute e m v : sem v (e_substitute e m) = sem (subst_env_e m v) e.
Proof.
  induction e using expr_ind'; simpl.
  - unfold subst_env_e. destruct (get m x); reflexivity.
  - reflexivity.
  - f_equal; auto.
  - rewrite forallb_map. apply forallb_ext_in. intros e He. rewrite Forall_forall in H. auto.
  - rewrite existsb_map. apply existsb_ext_in. intros e He. rewrite Forall_forall in H. auto.
Qed.

Lemma occ_substitute e m x :
  In x (occurrences (e_substitute e m)) <->
  (In x (occurrences e) /\ get m x = None) \/
  (exists k g, In k (occurrences e) /\ get m k = Some g /\ In x (occurrences g)).
Proof.
  induction e using expr_ind'; simpl.
  - destruct (get m x0) eqn:E; simpl.
    + split.
      * intros Hx. right. exists x0, e. auto.
      * intros [[[->|[]] Hn]|(k & g & [->|[]] & Hg & Hx)]; congruence.
    + split.
      * intros [->|[]]. left. auto.
      * intros [[[->|[]] _]|(k & g & [->|[]] & Hg & _)]; [auto|congruence].
  - split; [tauto|]. intros [[[] _]|(k & g & [] & _)].
  - exact IHe.
  - rewrite map_map. rewrite !In_concat_map. rewrite Forall_forall in H. split.
    + intros (e & He & Hx). apply H in Hx; auto. destruct Hx as [[Hx Hn]|(k & g & Hk & Hg & Hx)].
      * left. split; auto. first [apply (proj2 (In_concat_map _ _ _)); solve [eauto] | solve [eauto]].
      * right. exists k, g. split; auto. first [apply (proj2 (In_concat_map _ _ _)); solve [eauto] | solve [eauto]].
    + intros [[Hx Hn]|(k & g & Hk & Hg & Hx)].
      * destruct Hx as (e & He & Hx). exists e. split; auto. apply H; auto.
      * apply In_concat_map in Hk. destruct Hk as (e & He & Hk). exists e. split; auto. apply H; auto.
        right. eauto.
  - rewrite map_map. rewrite !In_concat_map. rewrite Forall_forall in H. split.
    + intros (e & He & Hx). apply H in Hx; auto. destruct Hx as [[Hx Hn]|(k & g & Hk & Hg & Hx)].
      * left. split; auto. first [apply (proj2 (In_concat_map _ _ _)); solve [eauto] | solve [eauto]].
      * right. exists k, g. split; auto. first [apply (proj2 (In_concat_map _ _ _)); solve [eauto] | solve [eauto]].
    + intros [[Hx Hn]|(k & g & Hk & Hg & Hx)].
      * destruct Hx as (e & He & Hx). exists e. split; auto. apply H; auto.
      * apply In_concat_map in Hk. destruct Hk as (e & He & Hk). exists e. split; auto. apply H; auto.
        right. eauto.
Qed.

(* ---------- restriction ---------- *)
Definition const_map (rho : valuation) : list (name * expr) := map (fun kv => (fst kv, Const (snd kv))) rho.

Lemma get_const_map rho x : get (const_map rho) x = option_map Const (get rho x).
Proof.
  induction rho as [|[k b] r IH]; simpl; [reflexivity|]. destruct (name_eqb x k); auto.
Qed.

Lemma sem_restrict e rho v : sem v (e_restrict e rho) = sem (override v rho) e.
Proof.
  unfold e_restrict. fold (const_map rho). rewrite sem_substitute. apply sem_coincidence.
  intros x _. unfold subst_env_e, override. rewrite get_const_map. destruct (get rho x); reflexivity.
Qed.

Lemma occ_restrict e rho x :
  In x (occurrences (e_restrict e rho)) <-> In x (occurrences e) /\ get rho x = None.
Proof.
  unfold e_restrict. fold (const_map rho). rewrite occ_substitute. split.
  - intros [[Hx Hn]|(k & g & Hk & Hg & Hx)].
    + rewrite get_const_map in Hn. destruct (get rho x); [discriminate|auto].
    + rewrite get_const_map in Hg. destruct (get rho k); [|discriminate].
      injection Hg as <-. destruct Hx.
  - intros [Hx Hn]. left. split; auto. rewrite get_const_map, Hn. reflexivity.
Qed.

Lemma literals_restrict e rho : literals (e_restrict e rho) = set_diff (literals e) (keys rho).
Proof.
  apply sset_ext; [apply literals_sset|apply set_diff_sset, literals_sset|].
  intros x. rewrite set_diff_In, !literals_In, occ_restrict, get_None_keys. tauto.
Qed.

Lemma restrict_nil e : e_restrict e [] = e.
Proof.
  unfold e_restrict. simpl. induction e using expr_ind'; simpl; try reflexivity.
  - f_equal; auto.
  - f_equal. rewrite <- (map_id es) at 2. apply Forall_map_ext. exact H.
  - f_equal. rewrite <- (map_id es) at 2. apply Forall_map_ext. exact H.
Qed.
