(* C15: objects stay well-formed and keep denoting the specified function through every program. *)
From BBF Require Import Base.Prelude Base.Names Base.Bits Spec.Sem
     Model.Expr Model.Table Model.LibBdd Model.Bdd Model.Lexer Model.Parser Model.Display Model.Render Model.Csv Model.Prog
     Proofs.ExprProofs Proofs.TableProofs Proofs.QuantProofs Proofs.NfProofs Proofs.DdProofs Proofs.BddProofs Proofs.BddOps
     Proofs.ConvProofs Proofs.CsvProofs Proofs.LexerProofs Proofs.ParserProofs.

Definition osem (o : obj) (v : env) : bool :=
  match o with OE e => sem v e | OT t => tsem t v | OB b => bsem b v end.
Definition owf (o : obj) : Prop :=
  match o with OE _ => True | OT t => wf_table t | OB b => wf_bdd b end.

(* the relation between a model object and its specification *)
Definition Rel (x : entry) : Prop :=
  owf (e_obj x) /\
  (forall v, osem (e_obj x) v = fn (e_spec x) v) /\
  match e_obj x with
  | OE e => incl (literals e) (ins (e_spec x))
  | OT t => t_inputs t = ins (e_spec x)
  | OB b => b_inputs b = ins (e_spec x)
  end.

Definition Inv (p : pool) : Prop := forall r x, reg p r = Some x -> Rel x.

Lemma osem_ext o : ext_fn (osem o).
Proof.
  destruct o; simpl.
  - apply sem_ext.
  - apply tsem_ext.
  - intros v v' H. apply bsem_coincidence. auto.
Qed.

Lemma Rel_fn_ext x v v' : Rel x -> (forall y, v y = v' y) -> fn (e_spec x) v = fn (e_spec x) v'.
Proof. intros (_ & Hs & _) H. rewrite <- !Hs. apply osem_ext. exact H. Qed.

Lemma incl_union_l a b c : incl a b -> incl a (set_union b c).
Proof. intros H x Hx. apply set_union_In. auto. Qed.
Lemma incl_union_r a b c : incl a c -> incl a (set_union b c).
Proof. intros H x Hx. apply set_union_In. auto. Qed.
Lemma incl_union2 a b c d : incl a c -> incl b d -> incl (set_union a b) (set_union c d).
Proof. intros H1 H2 x Hx. apply set_union_In in Hx. apply set_union_In. destruct Hx; auto. Qed.

(* ---------- single instructions ---------- *)
Lemma rel_expr e : Rel {| e_obj := OE e; e_spec := {| ins := literals e; fn := fun v => sem v e |}; e_opaque := false |}.
Proof. repeat split; simpl; auto. apply incl_refl. Qed.

Lemma rel_op1 o x y : Rel x -> exec_op1 o (e_obj x) = Ok y ->
  Rel {| e_obj := y; e_spec := match o with ONot => spec_not (e_spec x) | _ => e_spec x end; e_opaque := e_opaque x |}.
Proof.
  intros (Hw & Hs & Hi) He. destruct o, (e_obj x) as [e|t|b]; simpl in He; try discriminate; injection He as <-.
  - split; [exact I|]. split; simpl; [|exact Hi]. intros v. rewrite <- Hs. reflexivity.
  - destruct (t_not_spec t Hw) as (W & In_ & S). split; [exact W|]. split; simpl.
    + intros v. rewrite S, <- Hs. reflexivity.
    + first [exact Hi | rewrite In_; exact Hi].
  - destruct (b_not_spec b Hw) as (W & In_ & S). split; [exact W|]. split; simpl.
    + intros v. rewrite S, <- Hs. reflexivity.
    + exact Hi.
  - split; [exact I|]. split; simpl.
    + intros v. rewrite to_nnf_sem. apply Hs.
    + rewrite to_nnf_literals. exact Hi.
  - split; [exact I|]. split; simpl.
    + intros v. rewrite to_cnf_sem. apply Hs.
    + intros z Hz. apply Hi. apply to_cnf_literals. exact Hz.
  - split; [exact I|]. split; simpl.
    + intros v. rewrite to_dnf_sem. apply Hs.
    + intros z Hz. apply Hi. apply to_dnf_literals. exact Hz.
Qed.

Lemma literals_incl_occ a b : (forall x, In x (occurrences a) -> In x (occurrences b)) -> incl (literals a) (literals b).
Proof. intros H x Hx. apply literals_In. apply H. apply literals_In. exact Hx. Qed.

Lemma e_op2_spec o a b :
  let r := match o with OAnd => e_and a b | OOr => e_or a b | OXor => e_xor a b | OImply => e_imply a b | OIff => e_iff a b end in
  (forall v, sem v r = bool_op o (sem v a) (sem v b)) /\ incl (literals r) (set_union (literals a) (literals b)).
Proof.
  intros r. split.
  - intros v. destruct o; simpl; [apply sem_e_and|apply sem_e_or|apply sem_e_xor|apply sem_e_imply|apply sem_e_iff].
  - intros x Hx. apply set_union_In. rewrite !literals_In. apply literals_In in Hx. unfold r in Hx.
    destruct o; [apply occ_e_and in Hx|apply occ_e_or in Hx|apply occ_e_xor in Hx| |]; auto.
    + unfold e_imply in Hx. apply occ_e_or in Hx. simpl in Hx. exact Hx.
    + unfold e_iff in Hx. apply occ_e_or in Hx. rewrite !occ_e_and in Hx. simpl in Hx. tauto.
Qed.

Lemma t_op2_spec o a b : wf_table a -> wf_table b ->
  let r := match o with OAnd => t_and a b | OOr => t_or a b | OXor => t_xor a b | OImply => t_imply a b | OIff => t_iff a b end in
  wf_table r /\ t_inputs r = set_union (t_inputs a) (t_inputs b) /\ forall v, tsem r v = bool_op o (tsem a v) (tsem b v).
Proof.
  intros Wa Wb r. unfold r. destruct o; try (apply t_bit_spec; auto).
  - (* imply *) unfold t_imply, t_or. destruct (t_not_spec a Wa) as (Wn & In_ & Sn).
    destruct (t_bit_spec orb (t_not a) b Wn Wb) as (W & I & S). split; [exact W|]. split.
    + rewrite I, In_. reflexivity.
    + intros v. rewrite S, Sn. simpl. destruct (tsem a v), (tsem b v); reflexivity.
  - (* iff *) unfold t_iff, t_or, t_and.
    destruct (t_not_spec a Wa) as (Wna & Ina & Sna). destruct (t_not_spec b Wb) as (Wnb & Inb & Snb).
    destruct (t_bit_spec andb a b Wa Wb) as (W1 & I1 & S1).
    destruct (t_bit_spec andb (t_not a) (t_not b) Wna Wnb) as (W2 & I2 & S2).
    destruct (t_bit_spec orb _ _ W1 W2) as (W & I & S). split; [exact W|]. split.
    + rewrite I, I1, I2, Ina, Inb. apply set_union_idem. apply set_union_sset.
    + intros v. rewrite S, S1, S2, Sna, Snb. simpl. destruct (tsem a v), (tsem b v); reflexivity.
Qed.

Lemma rel_op2 o x y z : Rel x -> Rel y -> exec_op2 o (e_obj x) (e_obj y) = Ok z ->
  Rel {| e_obj := z; e_spec := spec_op2 o (e_spec x) (e_spec y); e_opaque := e_opaque x || e_opaque y |}.
Proof.
  intros (Hwx & Hsx & Hix) (Hwy & Hsy & Hiy) He.
  destruct (e_obj x) as [a|a|a], (e_obj y) as [b|b|b]; simpl in He; try discriminate.
  - injection He as <-. destruct (e_op2_spec o a b) as (S & I). repeat split; simpl; auto.
    + intros v. rewrite S, <- Hsx, <- Hsy. reflexivity.
    + intros u Hu. apply (incl_union2 _ _ _ _ Hix Hiy). apply I. exact Hu.
  - injection He as <-. destruct (t_op2_spec o a b Hwx Hwy) as (W & I & S). split; [exact W|]. split; simpl.
    + intros v. rewrite S, <- Hsx, <- Hsy. reflexivity.
    + rewrite I, Hix, Hiy. reflexivity.
  - destruct (b_bit_spec debug_build (bool_op o) a b Hwx Hwy) as (r & Hr & W & I & S).
    assert (Hop : dd_op o = dd_apply (bool_op o)) by (destruct o; reflexivity).
    rewrite Hop, Hr in He. simpl in He. injection He as <-. split; [exact W|]. split; simpl.
    + intros v. rewrite S, <- Hsx, <- Hsy. reflexivity.
    + rewrite I, Hix, Hiy. reflexivity.
Qed.

Lemma rel_restrict x rho y : Rel x -> exec_restrict (e_obj x) rho = Ok y ->
  Rel {| e_obj := y; e_spec := spec_restrict (e_spec x) rho; e_opaque := e_opaque x |}.
Proof.
  intros (Hw & Hs & Hi) He. destruct (e_obj x) as [e|t|b]; simpl in He.
  - injection He as <-. repeat split; simpl; auto.
    + intros v. rewrite sem_restrict. apply Hs.
    + rewrite literals_restrict. intros u Hu. apply set_diff_In in Hu. apply set_diff_In. split; [apply Hi|]; tauto.
  - injection He as <-. split; [apply t_restrict_wf; auto|]. split; simpl.
    + intros v. rewrite t_restrict_sem by auto. apply Hs.
    + change (t_inputs (t_restrict t rho) = set_diff (ins (e_spec x)) (keys rho)). rewrite t_restrict_inputs, Hi. reflexivity.
  - destruct (b_restrict_spec debug_build b rho Hw) as (r & Hr & W & I & S). rewrite Hr in He. simpl in He.
    injection He as <-. split; [exact W|]. split; simpl.
    + intros v. rewrite S. apply Hs.
    + rewrite I, Hi. reflexivity.
Qed.

Lemma rel_quant q x vars y : Rel x -> exec_quant q (e_obj x) vars = Ok y ->
  Rel {| e_obj := y; e_spec := spec_elim (quant_op q) (e_spec x) vars; e_opaque := e_opaque x |}.
Proof.
  intros (Hw & Hs & Hi) He. destruct (e_obj x) as [e|t|b]; simpl in He.
  - injection He as <-. repeat split; simpl; auto.
    + intros v. destruct q; [rewrite e_exists_sem|rewrite e_forall_sem|rewrite e_derivative_sem];
        apply elim_fn_ext; intros w; apply Hs.
    + assert (Hl : literals (match q with QExists => e_exists e vars | QForall => e_forall e vars | QDeriv => e_derivative e vars end)
                   = set_diff (literals e) vars)
        by (destruct q; [apply e_exists_literals|apply e_forall_literals|apply e_derivative_literals]).
      rewrite Hl. intros u Hu. apply set_diff_In in Hu. apply set_diff_In. split; [apply Hi|]; tauto.
  - injection He as <-.
    assert (Hq : wf_table (match q with QExists => t_exists t vars | QForall => t_forall t vars | QDeriv => t_derivative t vars end) /\
                 t_inputs (match q with QExists => t_exists t vars | QForall => t_forall t vars | QDeriv => t_derivative t vars end) = set_diff (t_inputs t) vars /\
                 forall v, tsem (match q with QExists => t_exists t vars | QForall => t_forall t vars | QDeriv => t_derivative t vars end) v
                           = elim_fn (quant_op q) vars (tsem t) v)
      by (destruct q; [apply (t_elim_spec orb)|apply (t_elim_spec andb)|apply (t_elim_spec xorb)]; auto).
    destruct Hq as (W & I & S). split; [exact W|]. split; simpl.
    + intros v. rewrite S. apply elim_fn_ext. intros w. apply Hs.
    + rewrite I, Hi. reflexivity.
  - assert (Hq : exists r, (match q with QExists => b_exists debug_build b vars | QForall => b_forall debug_build b vars
                                    | QDeriv => b_derivative debug_build b vars end) = Ok r /\ wf_bdd r /\
                           b_inputs r = set_diff (b_inputs b) vars /\ forall v, bsem r v = elim_fn (quant_op q) vars (bsem b) v)
      by (destruct q; [apply b_exists_spec|apply b_forall_spec|apply b_derivative_spec]; auto).
    destruct Hq as (r & Hr & W & I & S). rewrite Hr in He. simpl in He. injection He as <-.
    split; [exact W|]. split; simpl.
    + intros v. rewrite S. apply elim_fn_ext. intros w. apply Hs.
    + rewrite I, Hi. reflexivity.
Qed.

(* conversions; the table -> diagram conversion is the known finding D1 and excluded *)
Definition is_D1 (k : okind) (o : obj) : bool := match k, o with KB, OT _ => true | _, _ => false end.

Lemma rel_conv k x y : Rel x -> is_D1 k (e_obj x) = false -> exec_conv k (e_obj x) = Ok y ->
  Rel {| e_obj := y;
         e_spec := {| ins := match k, e_obj x with KE, _ => ins (e_spec x) | _, OE e => literals e | _, _ => ins (e_spec x) end;
                      fn := fn (e_spec x) |};
         e_opaque := match k, e_obj x with KE, OB _ => true | KE, _ => e_opaque x | _, _ => false end |}.
Proof.
  intros (Hw & Hs & Hi) Hd He. destruct k, (e_obj x) as [e|t|b]; simpl in He, Hd; try discriminate.
  - injection He as <-. repeat split; simpl; auto.
  - injection He as <-. destruct (expr_of_table_spec t Hw) as (S & L). repeat split; simpl; auto.
    + intros v. rewrite S. apply Hs.
    + intros u Hu. rewrite <- Hi. apply L. exact Hu.
  - destruct (expr_of_bdd_spec b Hw) as (e & Hr & S & L). rewrite Hr in He. simpl in He. injection He as <-.
    repeat split; simpl; auto.
    + intros v. rewrite S. apply Hs.
    + intros u Hu. rewrite <- Hi. apply L. exact Hu.
  - injection He as <-. destruct (table_of_expr_spec e) as (W & I & S). split; [exact W|]. split; simpl.
    + intros v. rewrite S. apply Hs.
    + exact I.
  - injection He as <-. split; [exact Hw|]. split; simpl; auto.
  - injection He as <-. destruct (table_of_bdd_spec b Hw) as (W & I & S). split; [exact W|]. split.
    + intros v. cbn [e_obj e_spec osem fn]. rewrite S. apply Hs.
    + cbn [e_obj e_spec ins]. rewrite I. exact Hi.
  - destruct (bdd_of_expr_spec e) as (_ & Hok). unfold bdd_of_expr in He.
    destruct (too_many (length (literals e))) eqn:Et; [discriminate|].
    destruct (Hok eq_refl) as (r & Hr & W & I & S). unfold bdd_of_expr in Hr. rewrite Et in Hr. rewrite Hr in He.
    injection He as <-. split; [exact W|]. split; simpl.
    + intros v. rewrite S. apply Hs.
    + exact I.
  - injection He as <-. split; [exact Hw|]. split; simpl; auto.
Qed.

(* ---------- substitution ---------- *)
Lemma named_regs_spec {A} p (f : entry -> A) m l : named_regs p f m = Some l ->
  Forall2 (fun kr ka => fst kr = fst ka /\ exists x, reg p (snd kr) = Some x /\ snd ka = f x) m l.
Proof.
  revert l. induction m as [|[k r] m IH]; intros l H; simpl in H.
  - injection H as <-. constructor.
  - destruct (reg p r) as [x|] eqn:Er; [|discriminate].
    destruct (named_regs p f m) as [l'|]; [|discriminate]. injection H as <-.
    constructor; [simpl; eauto|apply IH; reflexivity].
Qed.

Lemma all_exprs_get m m' k : all_exprs m = Some m' ->
  get m' k = match get m k with Some (OE e) => Some e | _ => None end /\ (forall o, get m k = Some o -> exists e, o = OE e).
Proof.
  revert m'. induction m as [|[k' o] r IH]; intros m' H; simpl in H.
  - injection H as <-. split; [reflexivity|discriminate].
  - destruct o as [e| |]; try discriminate. destruct (all_exprs r) as [r'|]; [|discriminate]. injection H as <-.
    simpl. destruct (name_eqb k k'); [split; [reflexivity|intros o [= <-]; eauto]|apply IH; reflexivity].
Qed.
Lemma all_tables_get m m' k : all_tables m = Some m' ->
  get m' k = match get m k with Some (OT e) => Some e | _ => None end /\ (forall o, get m k = Some o -> exists e, o = OT e).
Proof.
  revert m'. induction m as [|[k' o] r IH]; intros m' H; simpl in H.
  - injection H as <-. split; [reflexivity|discriminate].
  - destruct o as [|e|]; try discriminate. destruct (all_tables r) as [r'|]; [|discriminate]. injection H as <-.
    simpl. destruct (name_eqb k k'); [split; [reflexivity|intros o [= <-]; eauto]|apply IH; reflexivity].
Qed.
Lemma all_bdds_get m m' k : all_bdds m = Some m' ->
  get m' k = match get m k with Some (OB e) => Some e | _ => None end /\ (forall o, get m k = Some o -> exists e, o = OB e).
Proof.
  revert m'. induction m as [|[k' o] r IH]; intros m' H; simpl in H.
  - injection H as <-. split; [reflexivity|discriminate].
  - destruct o as [| |e]; try discriminate. destruct (all_bdds r) as [r'|]; [|discriminate]. injection H as <-.
    simpl. destruct (name_eqb k k'); [split; [reflexivity|intros o [= <-]; eauto]|apply IH; reflexivity].
Qed.

Lemma all_bdds_In m m' k g : all_bdds m = Some m' -> In (k, g) m' -> In (k, OB g) m.
Proof.
  revert m'. induction m as [|[k' o] r IH]; intros m' H Hin; simpl in H.
  - injection H as <-. destruct Hin.
  - destruct o as [| |e]; try discriminate. destruct (all_bdds r) as [r'|]; [|discriminate]. injection H as <-.
    destruct Hin as [[= -> ->]|Hin]; [left; reflexivity|right; eapply IH; eauto].
Qed.

(* the entries substituted: related, keyed lists *)
Definition me_ok (me : list (name * entry)) : Prop := forall k x, In (k, x) me -> Rel x.

Lemma get_me_obj (me : list (name * entry)) k :
  get (map (fun ke => (fst ke, e_obj (snd ke))) me) k = option_map e_obj (get me k).
Proof. apply (get_map_snd e_obj). Qed.
Lemma get_me_spec (me : list (name * entry)) k :
  get (map (fun ke => (fst ke, e_spec (snd ke))) me) k = option_map e_spec (get me k).
Proof. apply (get_map_snd e_spec). Qed.

Lemma rel_subst_sem x (me : list (name * entry)) : Rel x -> me_ok me ->
  forall (genv : env -> env) v,
    (forall k, genv v k = match get me k with Some y => osem (e_obj y) v | None => v k end) ->
    osem (e_obj x) (genv v) = fn (spec_subst (e_spec x) (map (fun ke => (fst ke, e_spec (snd ke))) me)) v.
Proof.
  intros (Hw & Hs & Hi) Hme genv v Hg. simpl. rewrite <- Hs. apply osem_ext. intros k.
  rewrite Hg. unfold subst_env. rewrite get_me_spec. destruct (get me k) as [y|] eqn:G; simpl; [|reflexivity].
  apply get_Some_In in G. destruct (Hme k y G) as (_ & Hsy & _). apply Hsy.
Qed.

Lemma all_exprs_rel m : forall m', all_exprs m = Some m' -> Forall2 (fun ko ke => fst ko = fst ke /\ snd ko = OE (snd ke)) m m'.
Proof.
  induction m as [|[k o] r IH]; intros m' H; simpl in H; [injection H as <-; constructor|].
  destruct o as [e| |]; try discriminate. destruct (all_exprs r) as [r'|]; [|discriminate]. injection H as <-.
  constructor; [simpl; auto|apply IH; reflexivity].
Qed.
Lemma all_tables_rel m : forall m', all_tables m = Some m' -> Forall2 (fun ko ke => fst ko = fst ke /\ snd ko = OT (snd ke)) m m'.
Proof.
  induction m as [|[k o] r IH]; intros m' H; simpl in H; [injection H as <-; constructor|].
  destruct o as [|e|]; try discriminate. destruct (all_tables r) as [r'|]; [|discriminate]. injection H as <-.
  constructor; [simpl; auto|apply IH; reflexivity].
Qed.
Lemma all_bdds_rel m : forall m', all_bdds m = Some m' -> Forall2 (fun ko ke => fst ko = fst ke /\ snd ko = OB (snd ke)) m m'.
Proof.
  induction m as [|[k o] r IH]; intros m' H; simpl in H; [injection H as <-; constructor|].
  destruct o as [| |e]; try discriminate. destruct (all_bdds r) as [r'|]; [|discriminate]. injection H as <-.
  constructor; [simpl; auto|apply IH; reflexivity].
Qed.

(* keys and declared inputs of the typed map agree with those of the specification map *)
Lemma typed_map_inputs {X} (mk : X -> obj) (inputs_of : X -> list name) (me : list (name * entry)) (m' : list (name * X)) :
  me_ok me ->
  (forall x y, e_obj x = mk y -> Rel x -> inputs_of y = ins (e_spec x)) ->
  Forall2 (fun ko ke => fst ko = fst ke /\ snd ko = mk (snd ke)) (map (fun ke => (fst ke, e_obj (snd ke))) me) m' ->
  keys m' = keys (map (fun ke => (fst ke, e_spec (snd ke))) me) /\
  map (fun kv => inputs_of (snd kv)) m' = map (fun kg => ins (snd kg)) (map (fun ke => (fst ke, e_spec (snd ke))) me).
Proof.
  intros Hme Hin. revert m'. induction me as [|[k x] r IH]; intros m' HF; simpl in HF; inversion HF as [|? [k' y] ? ? (Ek & Eo) HF']; subst.
  - split; reflexivity.
  - simpl in Ek, Eo. subst k'. destruct (IH (fun k0 x0 H0 => Hme k0 x0 (or_intror H0)) _ HF') as (A & B).
    simpl. split; f_equal; auto. apply (Hin x y Eo). apply (Hme k x). left. reflexivity.
Qed.

Lemma rel_subst x (me : list (name * entry)) y : Rel x -> me_ok me ->
  exec_subst (e_obj x) (map (fun ke => (fst ke, e_obj (snd ke))) me) = Ok y ->
  let ms := map (fun ke => (fst ke, e_spec (snd ke))) me in
  Rel {| e_obj := y;
         e_spec := {| ins := subst_ins (obj_kind (e_obj x)) (e_obj x) (e_spec x) ms; fn := fn (spec_subst (e_spec x) ms) |};
         e_opaque := e_opaque x || some_opaque (map snd me) |}.
Proof.
  intros Hx Hme He ms. pose proof Hx as (Hw & Hs & Hi).
  set (m := map (fun ke => (fst ke, e_obj (snd ke))) me) in *.
  destruct (e_obj x) as [e|t|b] eqn:Eo; simpl in He.
  - (* expressions *)
    destruct (all_exprs m) as [m'|] eqn:Em; [|discriminate]. injection He as <-.
    split; [exact I|]. split.
    + intros v. cbn [e_obj e_spec osem fn]. rewrite sem_substitute.
      change (sem (subst_env_e m' v) e) with (osem (OE e) (subst_env_e m' v)). rewrite <- Eo.
      apply (rel_subst_sem x me Hx Hme (subst_env_e m')). intros k. unfold subst_env_e.
      destruct (all_exprs_get m m' k Em) as (G & Gk). rewrite G. unfold m. rewrite get_me_obj.
      destruct (get me k) as [z|] eqn:Gz; simpl; [|reflexivity].
      destruct (Gk (e_obj z)) as (g & Eg); [unfold m; rewrite get_me_obj, Gz; reflexivity|]. rewrite Eg. reflexivity.
    + cbn [e_obj e_spec ins obj_kind subst_ins]. intros u Hu. apply literals_In in Hu. apply occ_substitute in Hu.
      apply set_union_In. destruct Hu as [[Hu Hn]|(k & g & Hk & Hg & Hu)].
      * left. apply set_diff_In. split; [apply Hi; apply literals_In; exact Hu|].
        destruct (all_exprs_get m m' u Em) as (G & Gk). rewrite G in Hn. unfold m in Hn. rewrite get_me_obj in Hn.
        unfold ms. apply get_None_keys. rewrite get_me_spec. destruct (get me u) as [z|] eqn:Gz; [|reflexivity].
        exfalso. simpl in Hn. destruct (Gk (e_obj z)) as (g & Eg); [unfold m; rewrite get_me_obj, Gz; reflexivity|].
        rewrite Eg in Hn. discriminate.
      * right. apply set_of_list_In. apply In_concat_map.
        destruct (all_exprs_get m m' k Em) as (G & Gk). rewrite G in Hg. unfold m in Hg. rewrite get_me_obj in Hg.
        destruct (get me k) as [z|] eqn:Gz; [|discriminate]. simpl in Hg.
        destruct (e_obj z) as [g'| |] eqn:Ez; try discriminate. injection Hg as <-.
        exists (k, e_spec z). split.
        -- unfold ms. apply in_map_iff. exists (k, z). split; [reflexivity|apply get_Some_In; exact Gz].
        -- simpl. apply get_Some_In in Gz. destruct (Hme k z Gz) as (_ & _ & Hiz). rewrite Ez in Hiz.
           apply Hiz. apply literals_In. exact Hu.
  - (* tables *)
    destruct (all_tables m) as [m'|] eqn:Em; [|discriminate]. injection He as <-.
    destruct (t_substitute_spec t m' Hw) as (W & In_ & S). split; [exact W|]. split.
    + intros v. cbn [e_obj e_spec osem fn]. rewrite S.
      change (tsem t (subst_env_t m' v)) with (osem (OT t) (subst_env_t m' v)). rewrite <- Eo.
      apply (rel_subst_sem x me Hx Hme (subst_env_t m')). intros k. unfold subst_env_t.
      destruct (all_tables_get m m' k Em) as (G & Gk). rewrite G. unfold m. rewrite get_me_obj.
      destruct (get me k) as [z|] eqn:Gz; simpl; [|reflexivity].
      destruct (Gk (e_obj z)) as (g & Eg); [unfold m; rewrite get_me_obj, Gz; reflexivity|]. rewrite Eg. reflexivity.
    + cbn [e_obj e_spec ins obj_kind subst_ins]. rewrite In_. unfold t_subst_inputs.
      destruct (typed_map_inputs OT t_inputs me m' Hme) as (Hk & Hm).
      * intros x0 y0 E0 (_ & _ & Hi0). rewrite E0 in Hi0. exact Hi0.
      * apply all_tables_rel. exact Em.
      * fold ms in Hk, Hm. rewrite Hk, Hm, (t_literals_wf t Hw), Hi. reflexivity.
  - (* diagrams *)
    destruct (all_bdds m) as [m'|] eqn:Em; [|discriminate].
    destruct (b_substitute debug_build b m') as [r| |] eqn:Er; simpl in He; try discriminate. injection He as <-.
    assert (Hwf' : forall k g, In (k, g) m' -> wf_bdd g).
    { intros k g Hin. apply (all_bdds_In m m' k g Em) in Hin. unfold m in Hin. apply in_map_iff in Hin.
      destruct Hin as ([k0 z] & [= <- Ez] & Hz). simpl in Ez. destruct (Hme k0 z Hz) as (Hwz & _). rewrite Ez in Hwz. exact Hwz. }
    assert (Hself : forall k g, In (k, g) m' -> ~ In k (b_inputs g)).
    { intros k g Hin Hk. rewrite (b_substitute_refuses debug_build b m') in Er; [discriminate|]. eauto. }
    destruct (b_substitute_spec debug_build b m' Hw Hwf' Hself) as (r' & Hr' & W & In_ & S). rewrite Er in Hr'. injection Hr' as <-.
    split; [exact W|]. split.
    + intros v. cbn [e_obj e_spec osem fn]. rewrite S.
      change (bsem b (subst_env_b m' v)) with (osem (OB b) (subst_env_b m' v)). rewrite <- Eo.
      apply (rel_subst_sem x me Hx Hme (subst_env_b m')). intros k. unfold subst_env_b.
      destruct (all_bdds_get m m' k Em) as (G & Gk). rewrite G. unfold m. rewrite get_me_obj.
      destruct (get me k) as [z|] eqn:Gz; simpl; [|reflexivity].
      destruct (Gk (e_obj z)) as (g & Eg); [unfold m; rewrite get_me_obj, Gz; reflexivity|]. rewrite Eg. reflexivity.
    + cbn [e_obj e_spec ins obj_kind subst_ins]. rewrite In_. unfold b_subst_inputs.
      set (m1' := filter (fun kv => mem (fst kv) (b_inputs b)) m').
      set (m1 := filter (fun kg => mem (fst kg) (ins (e_spec x))) ms).
      assert (Hrel : Forall2 (fun (kb : name * bdd) (ks : name * bf) => fst kb = fst ks /\ b_inputs (snd kb) = ins (snd ks)) m' ms).
      { pose proof (all_bdds_rel m m' Em) as HF. unfold m, ms in *. clear - HF Hme.
        revert m' HF. induction me as [|[k z] r IH]; intros m' HF; simpl in HF; inversion HF as [|? [k' g] ? ? (Ek & Eo) HF']; subst; simpl.
        - constructor.
        - simpl in Ek, Eo. subst k'. constructor.
          + simpl. split; [reflexivity|]. destruct (Hme k z (or_introl eq_refl)) as (_ & _ & Hiz). rewrite Eo in Hiz. exact Hiz.
          + apply IH; auto. intros k0 x0 H0. apply (Hme k0 x0). right. exact H0. }
      assert (Hrel1 : Forall2 (fun (kb : name * bdd) (ks : name * bf) => fst kb = fst ks /\ b_inputs (snd kb) = ins (snd ks)) m1' m1).
      { unfold m1', m1. rewrite <- Hi. clear - Hrel. induction Hrel as [|[k g] [k' s] l l' (Ek & Ei) _ IH]; simpl; [constructor|].
        simpl in Ek. subst k'. destruct (mem k (b_inputs b)); [constructor; auto|exact IH]. }
      assert (Hkeys : keys m1' = keys m1) by (clear - Hrel1; induction Hrel1 as [|? ? ? ? (E & _) _ IH]; simpl; [reflexivity|f_equal; auto]).
      assert (Hment : map (fun kv => b_inputs (snd kv)) m1' = map (fun kg => ins (snd kg)) m1)
        by (clear - Hrel1; induction Hrel1 as [|? ? ? ? (_ & E) _ IH]; simpl; [reflexivity|f_equal; auto]).
      rewrite Hment. apply sset_ext.
      * apply filter_sset. apply set_of_list_sset.
      * apply set_union_sset.
      * intros u. rewrite filter_In, set_of_list_In, in_app_iff, set_union_In, set_diff_In, set_of_list_In, orb_true_iff, negb_true_iff.
        rewrite mem_In, <- Hi. rewrite <- Hkeys. rewrite <- (has_keys m1' u).
        destruct (has m1' u); split; intuition congruence.
Qed.

(* ---------- the remaining constructors ---------- *)
Lemma exprs_of_rel es : forall xs, exprs_of (map e_obj es) = Some xs -> Forall2 (fun x e => e_obj x = OE e) es xs.
Proof.
  induction es as [|x es IH]; intros xs H; simpl in H; [injection H as <-; constructor|].
  destruct (e_obj x) as [e| |] eqn:E; try discriminate. destruct (exprs_of (map e_obj es)) as [r|]; [|discriminate].
  injection H as <-. constructor; auto.
Qed.

Lemma rel_nary (cj : bool) (es : list entry) xs : Forall Rel es -> exprs_of (map e_obj es) = Some xs ->
  Rel {| e_obj := OE (if cj then And xs else Or xs);
         e_spec := fold_left (fun acc e => spec_bin (if cj then andb else orb) acc (e_spec e)) es (spec_const cj);
         e_opaque := some_opaque es |}.
Proof.
  intros HR He. apply exprs_of_rel in He. split; [exact I|].
  assert (Hgen : forall (s0 : bf) (b0 : bool) (l0 : list name),
            (forall v, fn s0 v = b0) -> True ->
            forall es xs, Forall Rel es -> Forall2 (fun x e => e_obj x = OE e) es xs ->
            (forall v, fn (fold_left (fun acc e => spec_bin (if cj then andb else orb) acc (e_spec e)) es s0) v
                       = (if cj then andb else orb) (fn s0 v) (if cj then forallb (sem v) xs else existsb (sem v) xs)) /\
            (forall u, In u (concat (map occurrences xs)) -> In u (ins (fold_left (fun acc e => spec_bin (if cj then andb else orb) acc (e_spec e)) es s0))) /\
            (forall u, In u (ins s0) -> In u (ins (fold_left (fun acc e => spec_bin (if cj then andb else orb) acc (e_spec e)) es s0)))).
  { intros s0 b0 l0 _ _ es0. revert s0. induction es0 as [|x r IH]; intros s0 xs0 HR0 HF; inversion HF as [|? e ? xs' Ex HF']; subst; simpl.
    - split; [intros v; destruct cj, (fn s0 v); reflexivity|]. split; [intros u []|auto].
    - inversion HR0 as [|? ? (Hwx & Hsx & Hix) HRr]; subst. rewrite Ex in Hsx, Hix. simpl in Hsx.
      destruct (IH (spec_bin (if cj then andb else orb) s0 (e_spec x)) xs' HRr HF') as (A & B & C). split; [|split].
      + intros v. rewrite A. simpl. rewrite <- Hsx. destruct cj, (fn s0 v), (sem v e); reflexivity.
      + intros u Hu. apply in_app_iff in Hu. destruct Hu as [Hu|Hu]; [|apply B; exact Hu].
        apply C. simpl. apply set_union_In. right. apply Hix. apply literals_In. exact Hu.
      + intros u Hu. apply C. simpl. apply set_union_In. left. exact Hu. }
  destruct (Hgen (spec_const cj) cj [] (fun _ => eq_refl) I es xs HR He) as (A & B & _). split.
  - intros v. cbn [e_obj e_spec osem]. rewrite A. simpl. destruct cj; simpl; reflexivity.
  - cbn [e_obj e_spec]. intros u Hu. apply literals_In in Hu. apply B. destruct cj; exact Hu.
Qed.

(* ---------- one step ---------- *)
(* instructions outside the known finding D1 and the explicitly empty table *)
Definition allowed (p : pool) (i : instr) : Prop :=
  match i with
  | IConv k r => match reg p r with Some x => is_D1 k (e_obj x) = false | None => True end
  | ICsvIn _ s => s <> []
  | _ => True
  end.

Lemma regs_Rel p rs es : Inv p -> regs p (fun e => e) rs = Some es -> Forall Rel es.
Proof.
  intros Hinv. revert es. induction rs as [|r rs IH]; intros es H; simpl in H; [injection H as <-; constructor|].
  destruct (reg p r) as [x|] eqn:Er; [|discriminate]. destruct (regs p (fun e => e) rs) as [l|]; [|discriminate].
  injection H as <-. constructor; [eapply Hinv; eauto|apply IH; reflexivity].
Qed.

Lemma named_regs_me p m me : Inv p -> named_regs p (fun e => e) m = Some me -> me_ok me.
Proof.
  intros Hinv H k x Hin. apply named_regs_spec in H.
  destruct (Forall2_in_r _ _ _ (k, x) H Hin) as ([k0 r] & _ & (_ & y & Hr & Ey)). simpl in Ey. subst y. eapply Hinv; eauto.
Qed.

Theorem exec_sound p i x : Inv p -> allowed p i -> exec p i = Ok x -> Rel x.
Proof.
  intros Hinv Hal He. destruct i; simpl in He, Hal.
  - injection He as <-. apply rel_expr.
  - destruct (reg p r) as [y|] eqn:Er; [|discriminate].
    destruct (exec_op1 o (e_obj y)) as [z| |] eqn:Ez; simpl in He; try discriminate. injection He as <-.
    eapply rel_op1; eauto.
  - destruct (reg p r1) as [y1|] eqn:E1; [|discriminate]. destruct (reg p r2) as [y2|] eqn:E2; [|discriminate].
    destruct (exec_op2 o (e_obj y1) (e_obj y2)) as [z| |] eqn:Ez; simpl in He; try discriminate. injection He as <-.
    eapply rel_op2; eauto.
  - destruct (reg p r) as [y|] eqn:Er; [|discriminate].
    destruct (exec_conv k (e_obj y)) as [z| |] eqn:Ez; simpl in He; try discriminate. injection He as <-.
    eapply rel_conv; eauto.
  - destruct (reg p r) as [y|] eqn:Er; [|discriminate].
    destruct (exec_restrict (e_obj y) rho) as [z| |] eqn:Ez; simpl in He; try discriminate. injection He as <-.
    eapply rel_restrict; eauto.
  - destruct (reg p r) as [y|] eqn:Er; [|discriminate].
    destruct (exec_quant q (e_obj y) vars) as [z| |] eqn:Ez; simpl in He; try discriminate. injection He as <-.
    eapply rel_quant; eauto.
  - destruct (reg p r) as [y|] eqn:Er; [|discriminate].
    destruct (named_regs p (fun e => e) m) as [me|] eqn:Em; [|discriminate].
    destruct (exec_subst (e_obj y) (map (fun ke => (fst ke, e_obj (snd ke))) me)) as [z| |] eqn:Ez; simpl in He; try discriminate.
    injection He as <-. apply (rel_subst y me z); eauto. eapply named_regs_me; eauto.
  - destruct k; try discriminate; injection He as <-.
    + split; [exact I|]. split; simpl; [reflexivity|apply incl_refl].
    + split; [|split; simpl; reflexivity]. split; [constructor|]. split; [reflexivity|]. repeat split; simpl; auto.
  - destruct k; try discriminate; injection He as <-.
    + split; [exact I|]. split; [intros v; destruct b; reflexivity|]. destruct b; simpl; intros u Hu; exact Hu.
    + destruct b.
      * split; [split; [repeat constructor|split; [reflexivity|repeat split; simpl; auto; discriminate]]|].
        split; [|reflexivity]. intros v. cbn [e_obj e_spec osem]. unfold bsem, mk_literal, dd_literal. cbn. destruct (v x0); reflexivity.
      * split; [split; [repeat constructor|split; [reflexivity|repeat split; simpl; auto; discriminate]]|].
        split; [|reflexivity]. intros v. cbn [e_obj e_spec osem]. unfold bsem, mk_literal, dd_literal. cbn. destruct (v x0); reflexivity.
  - destruct (regs p (fun e => e) rs) as [es|] eqn:Er; [|discriminate].
    destruct (exprs_of (map e_obj es)) as [xs|] eqn:Ex; [|discriminate]. injection He as <-.
    apply rel_nary; auto. eapply regs_Rel; eauto.
  - destruct (reg p r1) as [y1|] eqn:E1; [|discriminate]. destruct (reg p r2) as [y2|] eqn:E2; [|discriminate].
    destruct (e_obj y1) as [a| |] eqn:Ea; try discriminate. destruct (e_obj y2) as [b| |] eqn:Eb; try discriminate.
    injection He as <-. destruct (Hinv _ _ E1) as (_ & S1 & I1). destruct (Hinv _ _ E2) as (_ & S2 & I2).
    rewrite Ea in S1, I1. rewrite Eb in S2, I2. simpl in S1, S2. split; [exact I|]. split.
    + intros v. destruct cj; simpl; rewrite <- S1, <- S2; [rewrite andb_true_r|rewrite orb_false_r]; reflexivity.
    + cbn [e_obj e_spec]. intros u Hu. apply literals_In in Hu. destruct cj; simpl in Hu; rewrite app_nil_r in Hu;
        apply in_app_iff in Hu; simpl; apply set_union_In; destruct Hu as [Hu|Hu];
        [left; apply I1|right; apply I2|left; apply I1|right; apply I2]; apply literals_In; exact Hu.
  - destruct (reg p r) as [y|] eqn:Er; [|discriminate]. destruct (e_obj y) as [a| |] eqn:Ea; try discriminate.
    injection He as <-. destruct (Hinv _ _ Er) as (_ & S & Iy). rewrite Ea in S, Iy. simpl in S.
    split; [exact I|]. split; simpl; [intros v; rewrite <- S; reflexivity|exact Iy].
  - destruct (from_str s) as [e| |] eqn:Es; simpl in He; try discriminate. injection He as <-. apply rel_expr.
  - destruct (if file then from_csv_file s else from_csv_string s) as [t| |] eqn:Et; simpl in He; try discriminate.
    injection He as <-.
    assert (Hstr : from_csv_string s = Ok t) by (destruct file; [rewrite <- from_csv_file_string|]; exact Et).
    destruct (from_csv_string_sound s t Hal Hstr) as (W & _). split; [exact W|]. split; simpl; auto.
Qed.

(* ---------- every history ---------- *)
Lemma reg_step_old p i r : r < length p -> reg (Prog.step p i) r = reg p r.
Proof. intros H. unfold reg, Prog.step. rewrite nth_error_app1 by exact H. reflexivity. Qed.

Lemma reg_step_new p i : reg (Prog.step p i) (length p) = match exec p i with Ok e => Some e | _ => None end.
Proof.
  unfold reg, Prog.step. rewrite nth_error_app2 by lia. rewrite Nat.sub_diag. simpl. destruct (exec p i); reflexivity.
Qed.

Lemma reg_lt p r x : reg p r = Some x -> r < length p.
Proof. unfold reg. intros H. apply nth_error_Some. destruct (nth_error p r); [discriminate|discriminate]. Qed.

Theorem step_inv p i : Inv p -> allowed p i -> Inv (Prog.step p i).
Proof.
  intros Hinv Hal r x Hr. pose proof (reg_lt _ _ _ Hr) as Hlt. unfold Prog.step in Hlt. rewrite app_length in Hlt. simpl in Hlt.
  destruct (Nat.eq_dec r (length p)) as [->|N].
  - rewrite reg_step_new in Hr. destruct (exec p i) as [e| |] eqn:Ee; try discriminate. injection Hr as <-.
    eapply exec_sound; eauto.
  - rewrite reg_step_old in Hr by lia. eapply Hinv; eauto.
Qed.

Fixpoint allowed_all (p : pool) (is : list instr) : Prop :=
  match is with [] => True | i :: r => allowed p i /\ allowed_all (Prog.step p i) r end.

Theorem run_inv is : forall p, Inv p -> allowed_all p is -> Inv (fold_left Prog.step is p).
Proof.
  induction is as [|i r IH]; intros p Hinv Hal; simpl; [exact Hinv|].
  destruct Hal as [Ha Hr]. apply IH; auto. apply step_inv; auto.
Qed.

Corollary run_from_empty is : allowed_all [] is -> Inv (run is).
Proof. intros H. apply run_inv; auto. intros r x Hr. unfold reg in Hr. destruct r; discriminate. Qed.

(* no instruction changes a register that exists already: operands are never altered *)
Theorem step_keeps_registers p i r : r < length p -> nth_error (Prog.step p i) r = nth_error p r.
Proof. intros H. unfold Prog.step. apply nth_error_app1. exact H. Qed.

Theorem run_keeps_registers is : forall p r, r < length p -> nth_error (fold_left Prog.step is p) r = nth_error p r.
Proof.
  induction is as [|i rest IH]; intros p r H; simpl; [reflexivity|].
  rewrite IH; [apply step_keeps_registers; exact H|]. unfold Prog.step. rewrite app_length. simpl. lia.
Qed.

(* ---------- no panic except the documented refusal ---------- *)
Definition documented_refusal (p : pool) (i : instr) : Prop :=
  match i with
  | ISubst r m =>
      exists x b me m', reg p r = Some x /\ e_obj x = OB b /\ named_regs p (fun e => e) m = Some me /\
                        all_bdds (map (fun ke => (fst ke, e_obj (snd ke))) me) = Some m' /\
                        exists k g, In (k, g) m' /\ In k (b_inputs g)
  | _ => False
  end.

Lemma rmap_panic {A B} (f : A -> B) r c : rmap f r = Panic c -> r = Panic c.
Proof. destruct r; simpl; intros H; congruence. Qed.

Theorem exec_panics_only_as_documented p i c : Inv p -> exec p i = Panic c -> documented_refusal p i.
Proof.
  intros Hinv He. destruct i; simpl in He.
  - discriminate.
  - destruct (reg p r) as [y|] eqn:Er; [|discriminate]. destruct o, (e_obj y); simpl in He; discriminate.
  - destruct (reg p r1) as [y1|] eqn:E1; [|discriminate]. destruct (reg p r2) as [y2|] eqn:E2; [|discriminate].
    destruct (Hinv _ _ E1) as (W1 & _). destruct (Hinv _ _ E2) as (W2 & _).
    destruct (e_obj y1) as [a|a|a], (e_obj y2) as [b|b|b]; simpl in He; try discriminate.
    assert (Hop : dd_op o = dd_apply (bool_op o)) by (destruct o; reflexivity).
    destruct (b_bit_spec debug_build (bool_op o) a b W1 W2) as (r & Hr & _). rewrite Hop, Hr in He. discriminate.
  - destruct (reg p r) as [y|] eqn:Er; [|discriminate]. destruct (Hinv _ _ Er) as (W & _).
    destruct k, (e_obj y) as [e|t|b]; simpl in He; try discriminate.
    + destruct (expr_of_bdd_spec b W) as (e & Hr & _). rewrite Hr in He. discriminate.
    + unfold bdd_of_expr in He. destruct (too_many _); [discriminate|].
      destruct (dd_of_expr_ok (literals e) e (literals_sset e)) as (t & Hd & _); [intros z Hz; apply literals_In; exact Hz|].
      rewrite Hd in He. discriminate.
    + unfold bdd_of_table in He. destruct (too_many _); discriminate.
  - destruct (reg p r) as [y|] eqn:Er; [|discriminate]. destruct (Hinv _ _ Er) as (W & _).
    destruct (e_obj y) as [e|t|b]; simpl in He; try discriminate.
    destruct (b_restrict_spec debug_build b rho W) as (r0 & Hr & _). rewrite Hr in He. discriminate.
  - destruct (reg p r) as [y|] eqn:Er; [|discriminate]. destruct (Hinv _ _ Er) as (W & _).
    destruct (e_obj y) as [e|t|b]; simpl in He; try discriminate.
    destruct q; [destruct (b_exists_spec debug_build b vars W) as (r0 & Hr & _)
                |destruct (b_forall_spec debug_build b vars W) as (r0 & Hr & _)
                |destruct (b_derivative_spec debug_build b vars W) as (r0 & Hr & _)]; rewrite Hr in He; discriminate.
  - destruct (reg p r) as [y|] eqn:Er; [|discriminate].
    destruct (named_regs p (fun e => e) m) as [me|] eqn:Em; [|discriminate].
    destruct (Hinv _ _ Er) as (W & _).
    destruct (e_obj y) as [e|t|b] eqn:Eo; simpl in He.
    + destruct (all_exprs _); discriminate.
    + destruct (all_tables _); discriminate.
    + destruct (all_bdds (map (fun ke => (fst ke, e_obj (snd ke))) me)) as [m'|] eqn:Ea; [|discriminate].
      exists y, b, me, m'. repeat split; auto.
      destruct (existsb (fun kv => mem (fst kv) (b_inputs (snd kv))) m') eqn:Ex.
      * apply existsb_exists in Ex. destruct Ex as ([k g] & Hin & Hk). simpl in Hk. apply mem_In in Hk. eauto.
      * exfalso.
        assert (Hwf' : forall k g, In (k, g) m' -> wf_bdd g).
        { intros k g Hin. apply (all_bdds_In _ m' k g Ea) in Hin. apply in_map_iff in Hin.
          destruct Hin as ([k0 z] & [= <- Ez] & Hz). simpl in Ez.
          destruct (named_regs_me p m me Hinv Em k0 z Hz) as (Hwz & _). rewrite Ez in Hwz. exact Hwz. }
        assert (Hself : forall k g, In (k, g) m' -> ~ In k (b_inputs g)).
        { intros k g Hin Hk. assert (existsb (fun kv => mem (fst kv) (b_inputs (snd kv))) m' = true); [|congruence].
          apply existsb_exists. exists (k, g). split; auto. simpl. apply mem_In. exact Hk. }
        destruct (b_substitute_spec debug_build b m' W Hwf' Hself) as (r0 & Hr & _).
        destruct (b_substitute debug_build b m') eqn:Eb; simpl in He; congruence.
  - destruct k; discriminate.
  - destruct k; discriminate.
  - destruct (regs p (fun e => e) rs); [|discriminate]. destruct (exprs_of _); discriminate.
  - destruct (reg p r1); [|discriminate]. destruct (reg p r2); [|discriminate]. destruct (e_obj e); try discriminate. destruct (e_obj e0); discriminate.
  - destruct (reg p r); [|discriminate]. destruct (e_obj e); discriminate.
  - destruct (from_str s) as [e| |] eqn:Es; simpl in He; try discriminate.
    exfalso. unfold from_str in Es.
    destruct (from_str_full s) as [e0|te|pe|pc] eqn:Ef.
    + discriminate.
    + discriminate.
    + destruct pe; discriminate.
    + exact (from_str_full_total s _ Ef).
  - destruct file.
    + destruct (from_csv_file s) as [t|ec|pc] eqn:Ef; simpl in He; try discriminate. exfalso.
      destruct (from_csv_never_panics s pc) as (_ & H2). contradiction.
    + destruct (from_csv_string s) as [t|ec|pc] eqn:Ef; simpl in He; try discriminate. exfalso.
      destruct (from_csv_never_panics s pc) as (H1 & _). contradiction.
Qed.

(* ---------- the debug assertions never decide anything: debug and release builds agree ---------- *)
Lemma bdd_determined a b : wf_bdd a -> wf_bdd b -> b_inputs a = b_inputs b -> (forall v, bsem a v = bsem b v) -> a = b.
Proof.
  intros Wa Wb Hi Hs. pose proof Wa as (Sa & Na & Oa & Ra & Ba). pose proof Wb as (Sb & Nb & Ob & Rb & Bb).
  destruct a as [ia na ra], b as [ib nb rb]. simpl in *. subst ib. f_equal; [congruence|].
  apply (canonical _ _ 0); auto. intros p.
  pose proof (eval_env_of_inner {| b_inputs := ia; b_nv := na; b_root := ra |} p Wa) as E1.
  pose proof (eval_env_of_inner {| b_inputs := ia; b_nv := nb; b_root := rb |} p Wb) as E2.
  simpl in E1, E2. rewrite <- E1, <- E2. apply Hs.
Qed.

Theorem restrict_profile_independent b rho : wf_bdd b -> b_restrict true b rho = b_restrict false b rho.
Proof.
  intros W. destruct (b_restrict_spec true b rho W) as (r1 & H1 & W1 & I1 & S1).
  destruct (b_restrict_spec false b rho W) as (r2 & H2 & W2 & I2 & S2). rewrite H1, H2. f_equal.
  apply bdd_determined; auto; [congruence|]. intros v. rewrite S1, S2. reflexivity.
Qed.

Theorem quantifiers_profile_independent b vars : wf_bdd b ->
  b_exists true b vars = b_exists false b vars /\ b_forall true b vars = b_forall false b vars /\
  b_derivative true b vars = b_derivative false b vars.
Proof.
  intros W. split; [|split].
  - destruct (b_exists_spec true b vars W) as (r1 & H1 & W1 & I1 & S1). destruct (b_exists_spec false b vars W) as (r2 & H2 & W2 & I2 & S2).
    rewrite H1, H2. f_equal. apply bdd_determined; auto; [congruence|]. intros v. rewrite S1, S2. reflexivity.
  - destruct (b_forall_spec true b vars W) as (r1 & H1 & W1 & I1 & S1). destruct (b_forall_spec false b vars W) as (r2 & H2 & W2 & I2 & S2).
    rewrite H1, H2. f_equal. apply bdd_determined; auto; [congruence|]. intros v. rewrite S1, S2. reflexivity.
  - destruct (b_derivative_spec true b vars W) as (r1 & H1 & W1 & I1 & S1). destruct (b_derivative_spec false b vars W) as (r2 & H2 & W2 & I2 & S2).
    rewrite H1, H2. f_equal. apply bdd_determined; auto; [congruence|]. intros v. rewrite S1, S2. reflexivity.
Qed.

Theorem bit_profile_independent op a b : wf_bdd a -> wf_bdd b ->
  b_bit true (dd_apply op) a b = b_bit false (dd_apply op) a b.
Proof.
  intros Wa Wb. destruct (b_bit_spec true op a b Wa Wb) as (r1 & H1 & W1 & I1 & S1).
  destruct (b_bit_spec false op a b Wa Wb) as (r2 & H2 & W2 & I2 & S2). rewrite H1, H2. f_equal.
  apply bdd_determined; auto; [congruence|]. intros v. rewrite S1, S2. reflexivity.
Qed.

Theorem substitute_profile_independent b m : wf_bdd b -> (forall k g, In (k, g) m -> wf_bdd g) ->
  b_substitute true b m = b_substitute false b m.
Proof.
  intros W Wm. destruct (existsb (fun kv => mem (fst kv) (b_inputs (snd kv))) m) eqn:Ex.
  - apply existsb_exists in Ex. destruct Ex as ([k g] & Hin & Hk). simpl in Hk. apply mem_In in Hk.
    rewrite !b_substitute_refuses by eauto. reflexivity.
  - assert (Hself : forall k g, In (k, g) m -> ~ In k (b_inputs g)).
    { intros k g Hin Hk. assert (existsb (fun kv => mem (fst kv) (b_inputs (snd kv))) m = true); [|congruence].
      apply existsb_exists. exists (k, g). split; auto. simpl. apply mem_In. exact Hk. }
    destruct (b_substitute_spec true b m W Wm Hself) as (r1 & H1 & W1 & I1 & S1).
    destruct (b_substitute_spec false b m W Wm Hself) as (r2 & H2 & W2 & I2 & S2). rewrite H1, H2. f_equal.
    apply bdd_determined; auto; [congruence|]. intros v. rewrite S1, S2. reflexivity.
Qed.
