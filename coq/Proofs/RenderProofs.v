(* Proofs about Model/Render.v: the rows of a well-formed table, joining and splitting,
   and reading the cells of a rendering back (C18). *)
From BBF Require Import Base.Prelude Base.Names Base.Bits Model.Expr Model.Table Model.Render Proofs.TableProofs.

(* ---------- row_index_to_bool_point is the enumeration of the domain ---------- *)

Fixpoint lsb_value (l : list bool) : N :=
  match l with [] => 0%N | b :: r => (b2n b + 2 * lsb_value r)%N end.

(* the canonical fuel of index_point suffices: any fuel f with i < 2^f gives the binary digits *)
Lemma index_bits_value f : forall i, (i < 2 ^ N.of_nat f)%N -> lsb_value (index_bits f i) = i.
Proof.
  induction f as [|f IH]; intros i Hi.
  - change (2 ^ N.of_nat 0)%N with 1%N in Hi. assert (i = 0%N) by lia. subst. reflexivity.
  - cbn [index_bits]. destruct (N.eqb_spec i 0) as [->|Hnz]; [reflexivity|].
    cbn [lsb_value]. rewrite IH.
    + pose proof (N.div2_odd i) as H. rewrite N.div2_div in H.
      destruct (N.odd i); cbn [N.b2n b2n] in *; lia.
    + rewrite Nat2N.inj_succ, N.pow_succ_r' in Hi. apply N.div_lt_upper_bound; lia.
Qed.

Lemma canonical_fuel i : (i < 2 ^ N.of_nat (S (N.to_nat (N.log2 i))))%N.
Proof.
  rewrite Nat2N.inj_succ, N2Nat.id.
  destruct (N.eqb_spec i 0) as [->|Hnz]; [reflexivity|].
  apply N.log2_spec. lia.
Qed.

Lemma index_bits_length f : forall i n, (i < 2 ^ N.of_nat n)%N -> length (index_bits f i) <= n.
Proof.
  induction f as [|f IH]; intros i n Hi; cbn [index_bits]; [simpl; lia|].
  destruct (N.eqb_spec i 0) as [->|Hnz]; [simpl; lia|].
  destruct n as [|n].
  - change (2 ^ N.of_nat 0)%N with 1%N in Hi. lia.
  - cbn [length]. apply le_n_S. apply IH.
    rewrite Nat2N.inj_succ, N.pow_succ_r' in Hi. apply N.div_lt_upper_bound; lia.
Qed.

Lemma index_from_snoc l : forall acc b, index_from acc (l ++ [b]) = (2 * index_from acc l + b2n b)%N.
Proof. induction l as [|x l IH]; intros acc b; cbn [app index_from]; [reflexivity|apply IH]. Qed.

Lemma point_index_rev l : point_index (rev l) = lsb_value l.
Proof.
  induction l as [|b l IH]; [reflexivity|].
  cbn [rev lsb_value]. unfold point_index in *. rewrite index_from_snoc, IH. lia.
Qed.

Lemma lsb_value_pad l k : lsb_value (l ++ repeat false k) = lsb_value l.
Proof.
  induction l as [|b l IH]; cbn [app lsb_value].
  - induction k as [|k IHk]; cbn [repeat lsb_value b2n]; [reflexivity|]. rewrite IHk. reflexivity.
  - rewrite IH. reflexivity.
Qed.

Lemma index_point_spec i n : (i < 2 ^ N.of_nat n)%N ->
  index_point i n = nth (N.to_nat i) (points n) [].
Proof.
  intros Hi. unfold index_point.
  set (bits := index_bits (S (N.to_nat (N.log2 i))) i).
  assert (Hlen : length bits <= n) by (apply index_bits_length; exact Hi).
  set (p := rev (bits ++ repeat false (n - length bits))).
  assert (Hp : length p = n).
  { unfold p. rewrite rev_length, app_length, repeat_length. lia. }
  assert (Hv : point_index p = i).
  { unfold p. rewrite point_index_rev, lsb_value_pad. apply index_bits_value, canonical_fuel. }
  pose proof (nth_points_index p) as H. rewrite Hp, Hv in H. symmetry. exact H.
Qed.

Lemma map_nth_seq {A} (l : list A) d : map (fun i => nth i l d) (seq 0 (length l)) = l.
Proof.
  apply nth_ext with (d := d) (d' := d).
  - rewrite map_length, seq_length. reflexivity.
  - intros k Hk. rewrite map_length, seq_length in Hk.
    rewrite nth_indep with (d' := nth 0 l d) by (rewrite map_length, seq_length; exact Hk).
    change (nth 0 l d) with ((fun i => nth i l d) 0).
    rewrite map_nth. rewrite seq_nth by exact Hk. reflexivity.
Qed.

(* the relation of a well-formed table: the domain in order, paired with the outputs *)
Lemma t_relation_wf t : wf_table t -> t_relation t = combine (points (t_nvars t)) (t_outputs t).
Proof.
  intros [_ Hlen]. unfold t_relation, t_nvars. rewrite Hlen. f_equal.
  transitivity (map (fun i => nth i (points (length (t_inputs t))) []) (seq 0 (length (points (length (t_inputs t))))));
    [|apply map_nth_seq].
  rewrite points_length.
  apply map_ext_in. intros k Hk. apply in_seq in Hk.
  rewrite index_point_spec.
  - rewrite Nat2N.id. reflexivity.
  - rewrite <- (N2Nat.id (2 ^ _)), pow2_N_nat. lia.
Qed.

Lemma t_relation_length t : length (t_relation t) = length (t_outputs t).
Proof.
  unfold t_relation. rewrite combine_length, map_length, seq_length. lia.
Qed.

(* ---------- the rows: header, then one record per domain point in domain order ---------- *)

Lemma table_rows_wf fi fo t : wf_table t ->
  table_rows fi fo t =
  (t_inputs t ++ [w_result])
  :: map (fun po => map (format_bool fi) (fst po) ++ [format_bool fo (snd po)])
         (combine (points (length (t_inputs t))) (t_outputs t)).
Proof. intros H. unfold table_rows. rewrite (t_relation_wf t H). reflexivity. Qed.

Lemma table_rows_length fi fo t : wf_table t -> length (table_rows fi fo t) = S (2 ^ length (t_inputs t)).
Proof.
  intros H. unfold table_rows. cbn [length]. rewrite map_length, t_relation_length. f_equal. apply H.
Qed.

(* ---------- tjoin and cut_at ---------- *)

Lemma join_cons sep x y r : tjoin sep (x :: y :: r) = x ++ sep ++ tjoin sep (y :: r).
Proof. reflexivity. Qed.

Lemma split_on_nonnil c s : cut_at c s <> [].
Proof.
  destruct s as [|x r]; cbn [cut_at]; [discriminate|].
  destruct (N.eqb x c); [discriminate|]. destruct (cut_at c r); discriminate.
Qed.

Lemma split_on_app_nosep c a : forall b, ~ In c a ->
  cut_at c (a ++ b) = match cut_at c b with p :: ps => (a ++ p) :: ps | [] => [a] end.
Proof.
  induction a as [|x a IH]; intros b Hn; cbn [app].
  - pose proof (split_on_nonnil c b). destruct (cut_at c b); [congruence|reflexivity].
  - cbn [cut_at]. destruct (N.eqb_spec x c) as [->|Hne]; [exfalso; apply Hn; left; reflexivity|].
    rewrite IH by (intros H; apply Hn; right; exact H).
    destruct (cut_at c b); reflexivity.
Qed.

Lemma split_on_nosep c a : ~ In c a -> cut_at c a = [a].
Proof.
  intros H. rewrite <- (app_nil_r a) at 1. rewrite split_on_app_nosep by exact H. cbn. rewrite app_nil_r. reflexivity.
Qed.

(* cutting a joined text at the separator gives the pieces back *)
Lemma split_on_join c l : l <> [] -> Forall (fun p => ~ In c p) l -> cut_at c (tjoin [c] l) = l.
Proof.
  induction l as [|x [|y r] IH]; intros Hne Hall; [congruence| |].
  - cbn [tjoin]. apply split_on_nosep. inversion Hall; auto.
  - rewrite join_cons. inversion Hall as [|? ? Hx Hr]; subst.
    rewrite split_on_app_nosep by exact Hx.
    change ([c] ++ tjoin [c] (y :: r)) with (c :: tjoin [c] (y :: r)).
    cbn [cut_at]. rewrite N.eqb_refl. rewrite IH by (auto; discriminate). rewrite app_nil_r. reflexivity.
Qed.

Lemma map_fst_combine_len {A B} (a : list A) (b : list B) : length a = length b -> map fst (combine a b) = a.
Proof. revert b. induction a as [|x a IH]; intros [|y b] H; cbn in *; try discriminate; [reflexivity|]. f_equal. apply IH. lia. Qed.

(* ---------- small arithmetic of list_max ---------- *)

Lemma list_max_ge x l : In x l -> x <= list_max l.
Proof.
  intros H. pose proof (proj1 (list_max_le l (list_max l)) (le_n _)) as HF.
  rewrite Forall_forall in HF. apply HF. exact H.
Qed.

Lemma list_max_const n l : l <> [] -> Forall (fun x => x = n) l -> list_max l = n.
Proof.
  intros Hne Hall. apply Nat.le_antisymm.
  - apply list_max_le. eapply Forall_impl; [|exact Hall]. intros a ->. apply le_n.
  - destruct l as [|a l]; [congruence|]. inversion Hall; subst. apply list_max_ge. left. reflexivity.
Qed.

(* ---------- tokens ---------- *)

Lemma tokens_go_spaces a s : tokens_go [] (spaces a ++ s) = tokens_go [] s.
Proof. induction a as [|a IH]; [reflexivity|]. cbn [spaces repeat app tokens_go]. rewrite N.eqb_refl. exact IH. Qed.

Lemma tokens_go_word c : forall cur s, Forall (fun x => x <> c_space) c ->
  tokens_go cur (c ++ s) = tokens_go (rev c ++ cur) s.
Proof.
  induction c as [|x c IH]; intros cur s Hall; [reflexivity|].
  inversion Hall as [|? ? Hx Hc]; subst. cbn [app tokens_go].
  destruct (N.eqb_spec x c_space); [contradiction|]. rewrite IH by exact Hc.
  cbn [rev]. rewrite <- app_assoc. reflexivity.
Qed.

Lemma tokens_go_end_word cur s : cur <> [] -> tokens_go cur (c_space :: s) = rev cur :: tokens_go [] s.
Proof. intros H. cbn [tokens_go]. rewrite N.eqb_refl. destruct cur; [congruence|reflexivity]. Qed.

(* blanks, a word, at least one blank; repeated; then blanks *)
Lemma tokens_cells (l : list (nat * text * nat)) e :
  Forall (fun acb => snd (fst acb) <> [] /\ Forall (fun x => x <> c_space) (snd (fst acb)) /\ snd acb > 0) l ->
  tokens (concat (map (fun acb => spaces (fst (fst acb)) ++ snd (fst acb) ++ spaces (snd acb)) l) ++ spaces e)
  = map (fun acb => snd (fst acb)) l.
Proof.
  unfold tokens. induction l as [|[[a c] b] l IH]; intros Hall; cbn [map concat].
  - cbn [app]. rewrite <- (app_nil_r (spaces e)), tokens_go_spaces. reflexivity.
  - inversion Hall as [|? ? (Hne & Hns & Hb) Hl]; subst. cbn [fst snd] in *.
    rewrite <- !app_assoc. rewrite tokens_go_spaces. rewrite tokens_go_word by exact Hns. rewrite app_nil_r.
    destruct b as [|b]; [lia|]. cbn [spaces repeat app].
    rewrite tokens_go_end_word by (intros E; apply Hne; rewrite <- (rev_involutive c), E; reflexivity).
    rewrite rev_involutive. f_equal. change (repeat c_space b) with (spaces b). rewrite tokens_go_spaces. apply IH. exact Hl.
Qed.

(* ---------- glyphs ---------- *)

Lemma rule_at_glyphs st i n h : rule_at st i n = Some h ->
  is_glyph (h_main h) = true /\ is_glyph (h_inter h) = true /\ is_glyph (h_left h) = true /\ is_glyph (h_right h) = true.
Proof.
  destruct st; cbn [rule_at].
  - intros [= <-]. repeat split; reflexivity.
  - destruct (Nat.eqb i 0); [|destruct (Nat.eqb i n)]; intros [= <-]; repeat split; reflexivity.
  - destruct (Nat.eqb i 1); [|discriminate]. intros [= <-]. repeat split; reflexivity.
  - discriminate.
Qed.

Lemma is_glyph_not_lf c : is_glyph c = true -> c <> c_lf.
Proof. intros H ->. discriminate. Qed.

Lemma vglyph_not_lf st g : vglyph st = Some g -> g <> c_lf.
Proof. destruct st; cbn; intros [= <-]; discriminate. Qed.

Lemma in_spaces x n : In x (spaces n) -> x = c_space.
Proof. intros H. apply repeat_spec in H. exact H. Qed.

Lemma in_join x sep l : In x (tjoin sep l) -> In x sep \/ exists p, In p l /\ In x p.
Proof.
  induction l as [|p [|q l] IH]; [intros []| |].
  - cbn [tjoin]. intros H. right. exists p. split; [left; reflexivity|exact H].
  - rewrite join_cons, !in_app_iff. intros [H|[H|H]].
    + right. exists p. split; [left; reflexivity|exact H].
    + left. exact H.
    + destruct (IH H) as [Hs|(p' & Hp' & Hx)]; [left; exact Hs|].
      right. exists p'. split; [right; exact Hp'|exact Hx].
Qed.

Lemma rule_line_no_lf st i n h ws : rule_at st i n = Some h -> ~ In c_lf (rule_line h ws).
Proof.
  intros Hr. destruct (rule_at_glyphs st i n h Hr) as (Hm & Hi & Hl & Hrt).
  unfold rule_line. rewrite !in_app_iff. intros [H|[H|H]].
  - destruct H as [H|[]]. exact (is_glyph_not_lf _ Hl H).
  - apply in_join in H. destruct H as [H|(p & Hp & Hx)].
    + destruct H as [H|[]]. exact (is_glyph_not_lf _ Hi H).
    + apply in_map_iff in Hp. destruct Hp as (w & <- & _). apply repeat_spec in Hx.
      exact (is_glyph_not_lf _ Hm (eq_sym Hx)).
  - destruct H as [H|[]]. exact (is_glyph_not_lf _ Hrt H).
Qed.

(* ---------- clean cells ---------- *)

Lemma clean_charb_spec st x : clean_charb st x = true -> x <> c_space /\ x <> c_lf /\ vglyph st <> Some x.
Proof.
  unfold clean_charb. rewrite !andb_true_iff, !negb_true_iff. intros [[H1 H2] H3].
  apply N.eqb_neq in H1. apply N.eqb_neq in H2. repeat split; auto.
  intros E. rewrite E in H3. rewrite N.eqb_refl in H3. discriminate.
Qed.

Lemma clean_cellb_spec st c : clean_cellb st c = true ->
  c <> [] /\ Forall (fun x => x <> c_space /\ x <> c_lf /\ vglyph st <> Some x) c.
Proof.
  unfold clean_cellb. destruct c as [|x c]; [discriminate|]. intros H. split; [discriminate|].
  apply Forall_forall. intros y Hy. rewrite forallb_forall in H. apply clean_charb_spec, H, Hy.
Qed.

Lemma clean_rowsb_spec st rows : clean_rowsb st rows = true ->
  rows <> [] /\ exists n, n > 0 /\ Forall (fun r => length r = n /\ Forall (fun c => clean_cellb st c = true) r) rows.
Proof.
  unfold clean_rowsb. destruct rows as [|r rows]; [discriminate|]. rewrite andb_true_iff, negb_true_iff.
  intros [Hn Hall]. split; [discriminate|]. exists (length r). split; [apply Nat.eqb_neq in Hn; lia|].
  apply Forall_forall. intros r' Hr'. rewrite forallb_forall in Hall. specialize (Hall r' Hr').
  apply andb_true_iff in Hall. destruct Hall as [Hl Hc]. apply Nat.eqb_eq in Hl. split; [exact Hl|].
  apply Forall_forall. intros c Hcin. rewrite forallb_forall in Hc. apply Hc, Hcin.
Qed.

Lemma unframe_space st : unframe st c_space = c_space.
Proof. destruct st; reflexivity. Qed.

Lemma unframe_clean st x : vglyph st <> Some x -> unframe st x = x.
Proof.
  unfold unframe. destruct (vglyph st) as [g|]; [|reflexivity]. intros H.
  destruct (N.eqb_spec x g) as [->|]; [congruence|reflexivity].
Qed.

Lemma map_unframe_spaces st n : map (unframe st) (spaces n) = spaces n.
Proof. induction n as [|n IH]; [reflexivity|]. cbn [spaces repeat map]. rewrite unframe_space. f_equal. exact IH. Qed.

Lemma map_unframe_glyph st : map (unframe st) (opt_glyph (vglyph st)) = spaces (length (opt_glyph (vglyph st))).
Proof. destruct st; reflexivity. Qed.

Lemma map_unframe_cell st c : Forall (fun x => x <> c_space /\ x <> c_lf /\ vglyph st <> Some x) c -> map (unframe st) c = c.
Proof.
  induction 1 as [|x c (_ & _ & Hx) _ IH]; [reflexivity|]. cbn [map]. rewrite unframe_clean by exact Hx. f_equal. exact IH.
Qed.

Section RenderProofs.

Variable width : N -> nat.

Lemma cell_lines_clean c : ~ In c_lf c -> cell_lines c = [c].
Proof. apply split_on_nosep. Qed.

Lemma cell_width_clean c : ~ In c_lf c -> cell_width width c = text_width width c.
Proof. intros H. unfold cell_width. rewrite (cell_lines_clean c H). cbn [map list_max fold_right]. apply Nat.max_0_r. Qed.

Lemma cell_height_clean c : ~ In c_lf c -> cell_height c = 1.
Proof. intros H. unfold cell_height. rewrite (cell_lines_clean c H). reflexivity. Qed.

Lemma cell_line_clean st w c : ~ In c_lf c ->
  cell_line width st w c 0 = spaces (pad_left st) ++ c ++ spaces (w - pad_left st - text_width width c).
Proof. intros H. unfold cell_line. rewrite (cell_lines_clean c H). reflexivity. Qed.

(* cells by position = cells of the row, when the row has as many cells as there are columns *)
Lemma map_cells_combine {B} (F : text -> nat -> B) : forall (ws : list nat) (r : list text), length r = length ws ->
  map (fun jw => F (cell_at r (fst jw)) (snd jw)) (combine (seq 0 (length ws)) ws)
  = map (fun cw => F (fst cw) (snd cw)) (combine r ws).
Proof.
  induction ws as [|w ws IH]; intros r Hl; [destruct r; [reflexivity|discriminate]|].
  destruct r as [|c r]; [discriminate|]. cbn [length seq combine map fst snd]. f_equal.
  rewrite <- seq_shift, combine_map_l, map_map. cbn [fst snd].
  rewrite <- (IH r) by (cbn in Hl; lia). apply map_ext. intros [j w']. reflexivity.
Qed.

Variable st : style.

Definition good_cell (c : text) : Prop :=
  c <> [] /\ Forall (fun x => x <> c_space /\ x <> c_lf /\ vglyph st <> Some x) c.

Lemma good_cell_no_lf c : good_cell c -> ~ In c_lf c.
Proof. intros [_ H] Hin. rewrite Forall_forall in H. destruct (H _ Hin) as (_ & Hl & _). congruence. Qed.

Lemma good_cell_no_space c : good_cell c -> Forall (fun x => x <> c_space) c.
Proof. intros [_ H]. eapply Forall_impl; [|exact H]. intros x (Hs & _). exact Hs. Qed.

(* the line of a row whose cells are good *)
Lemma grid_line_clean ws r : length r = length ws -> Forall good_cell r ->
  grid_line width st ws r 0 =
  concat (map (fun cw => opt_glyph (vglyph st) ++ spaces (pad_left st) ++ fst cw
                         ++ spaces (snd cw - pad_left st - text_width width (fst cw))) (combine r ws))
  ++ opt_glyph (vglyph st).
Proof.
  intros Hl Hall. unfold grid_line. f_equal. f_equal.
  rewrite (map_cells_combine (fun c w => opt_glyph (vglyph st) ++ cell_line width st w c 0) ws r Hl).
  apply map_ext_in. intros [c w] Hin. cbn [fst snd]. apply in_combine_l in Hin.
  rewrite Forall_forall in Hall. rewrite cell_line_clean by (apply good_cell_no_lf, Hall, Hin). reflexivity.
Qed.

Lemma grid_line_no_lf ws r : length r = length ws -> Forall good_cell r -> ~ In c_lf (grid_line width st ws r 0).
Proof.
  intros Hl Hall. rewrite (grid_line_clean ws r Hl Hall). rewrite in_app_iff.
  assert (Hg : ~ In c_lf (opt_glyph (vglyph st))).
  { destruct (vglyph st) as [g|] eqn:E; cbn; [|tauto]. intros [H|[]]. exact (vglyph_not_lf st g E H). }
  intros [H|H]; [|exact (Hg H)].
  apply in_concat in H. destruct H as (piece & Hp & Hx). apply in_map_iff in Hp. destruct Hp as ([c w] & <- & Hin).
  cbn [fst snd] in Hx. rewrite !in_app_iff in Hx. destruct Hx as [Hx|[Hx|[Hx|Hx]]].
  - exact (Hg Hx).
  - apply in_spaces in Hx. discriminate.
  - apply in_combine_l in Hin. rewrite Forall_forall in Hall. exact (good_cell_no_lf c (Hall c Hin) Hx).
  - apply in_spaces in Hx. discriminate.
Qed.

(* the column is wide enough for the cell and its padding *)
Definition fits (ws : list nat) (r : list text) : Prop :=
  Forall (fun cw => text_width width (fst cw) + pad_left st + 1 <= snd cw) (combine r ws).

Lemma tokens_grid_line ws r : length r = length ws -> Forall good_cell r -> fits ws r ->
  tokens (map (unframe st) (grid_line width st ws r 0)) = r.
Proof.
  intros Hl Hall Hfit. rewrite (grid_line_clean ws r Hl Hall).
  rewrite map_app, concat_map, map_map, map_unframe_glyph.
  set (g := length (opt_glyph (vglyph st))).
  transitivity (tokens (concat (map (fun acb : nat * text * nat => spaces (fst (fst acb)) ++ snd (fst acb) ++ spaces (snd acb))
                                    (map (fun cw => (g + pad_left st, fst cw, snd cw - pad_left st - text_width width (fst cw))) (combine r ws)))
                        ++ spaces g)).
  - f_equal. f_equal. f_equal. rewrite map_map. apply map_ext_in. intros [c w] Hin. cbn [fst snd].
    rewrite !map_app, map_unframe_glyph, !map_unframe_spaces. fold g.
    apply in_combine_l in Hin. rewrite Forall_forall in Hall. destruct (Hall c Hin) as [_ Hc].
    rewrite (map_unframe_cell st c Hc). unfold spaces. rewrite repeat_app, <- app_assoc. reflexivity.
  - rewrite tokens_cells.
    + rewrite map_map. cbn [fst snd]. rewrite <- (map_fst_combine_len r ws Hl) at 2. reflexivity.
    + apply Forall_forall. intros acb Hin. apply in_map_iff in Hin. destruct Hin as ([c w] & <- & Hin). cbn [fst snd].
      unfold fits in Hfit. rewrite Forall_forall in Hfit. specialize (Hfit _ Hin). cbn [fst snd] in Hfit.
      apply in_combine_l in Hin. rewrite Forall_forall in Hall. specialize (Hall c Hin).
      split; [apply Hall|]. split; [apply good_cell_no_space, Hall|lia].
Qed.

(* ---------- rule lines are recognised, row lines are not ---------- *)

Lemma join_head (sep : text) x p l : exists tail, tjoin sep ((x :: p) :: l) = x :: tail.
Proof. destruct l; [exists p; reflexivity|]. rewrite join_cons. eexists. reflexivity. Qed.

Lemma is_rule_rule_line i n h w ws : rule_at st i n = Some h -> w > 0 -> is_rule st (rule_line h (w :: ws)) = true.
Proof.
  intros Hr Hw. unfold rule_line. destruct w as [|w]; [lia|]. cbn [map repeat].
  destruct (join_head [h_inter h] (h_main h) (repeat (h_main h) w) (map (repeat (h_main h)) ws)) as (tail & ->).
  revert Hr. destruct st; cbn [rule_at].
  - intros [= <-]. reflexivity.
  - destruct (Nat.eqb i 0); [|destruct (Nat.eqb i n)]; intros [= <-]; reflexivity.
  - destruct (Nat.eqb i 1); [|discriminate]. intros [= <-]. reflexivity.
  - discriminate.
Qed.

Lemma filter_opt_rule i n w ws : w > 0 ->
  filter (fun l => negb (is_rule st l)) (opt_rule st i n (w :: ws)) = [].
Proof.
  intros Hw. unfold opt_rule. destruct (rule_at st i n) as [h|] eqn:E; [|reflexivity].
  cbn [filter]. rewrite (is_rule_rule_line i n h w ws E Hw). reflexivity.
Qed.

Lemma opt_rule_no_lf i n ws : Forall (fun l => ~ In c_lf l) (opt_rule st i n ws).
Proof.
  unfold opt_rule. destruct (rule_at st i n) as [h|] eqn:E; [|constructor].
  constructor; [|constructor]. apply (rule_line_no_lf st i n h ws E).
Qed.

Lemma is_rule_grid_line ws r : r <> [] -> length r = length ws -> Forall good_cell r ->
  is_rule st (grid_line width st ws r 0) = false.
Proof.
  intros Hne Hl Hall. rewrite (grid_line_clean ws r Hl Hall).
  destruct r as [|c r]; [congruence|]. destruct ws as [|w ws]; [discriminate|].
  inversion Hall as [|? ? [Hc _] _]; subst. destruct c as [|x c]; [congruence|].
  cbn [combine map concat fst snd]. destruct st; cbn [vglyph opt_glyph pad_left spaces repeat app is_rule]; reflexivity.
Qed.

(* ---------- the lines of the grid ---------- *)

Lemma row_height_clean n r : n > 0 -> length r = n -> Forall good_cell r -> row_height n r = 1.
Proof.
  intros Hn Hl Hall. unfold row_height. apply list_max_const.
  - destruct n; [lia|]. discriminate.
  - apply Forall_forall. intros h Hh. apply in_map_iff in Hh. destruct Hh as (j & <- & Hj). apply in_seq in Hj.
    apply cell_height_clean, good_cell_no_lf. rewrite Forall_forall in Hall. apply Hall. unfold cell_at. apply nth_In. lia.
Qed.

Lemma grid_lines_cells w ws n nrows : w > 0 -> n > 0 -> length (w :: ws) = n ->
  forall rs i,
  Forall (fun r => length r = n /\ Forall good_cell r /\ fits (w :: ws) r) rs ->
  let L := grid_lines width st (w :: ws) n nrows i rs in
  Forall (fun l => ~ In c_lf l) L /\
  map (fun l => tokens (map (unframe st) l)) (filter (fun l => negb (is_rule st l)) L) = rs.
Proof.
  intros Hw Hn Hws. induction rs as [|r rs IH]; intros i Hall; cbn [grid_lines].
  - split; [apply opt_rule_no_lf|]. rewrite filter_opt_rule by exact Hw. reflexivity.
  - inversion Hall as [|? ? (Hl & Hg & Hf) Hrs]; subst.
    rewrite (row_height_clean (length (w :: ws)) r Hn Hl Hg). cbn [seq map].
    destruct (IH (S i) Hrs) as [IH1 IH2]. cbv zeta. split.
    + apply Forall_app. split; [apply opt_rule_no_lf|]. constructor; [|exact IH1].
      apply grid_line_no_lf; assumption.
    + rewrite filter_app, filter_opt_rule by exact Hw. cbn [app filter].
      rewrite is_rule_grid_line; [|destruct r; [cbn in Hl; lia|discriminate]|exact Hl|exact Hg].
      cbn [negb map]. rewrite tokens_grid_line by assumption. f_equal. exact IH2.
Qed.

End RenderProofs.

(* ---------- C18: reading the cells of a rendering back ---------- *)

Lemma count_columns_rect rows n : rows <> [] -> Forall (fun r : list text => length r = n) rows -> count_columns rows = n.
Proof.
  intros Hne Hall. unfold count_columns. apply list_max_const.
  - destruct rows; [congruence|discriminate].
  - apply Forall_forall. intros k Hk. apply in_map_iff in Hk. destruct Hk as (r & <- & Hr).
    rewrite Forall_forall in Hall. apply Hall, Hr.
Qed.

Lemma col_width_fits width st rows n r :
  Forall (fun r => length r = n /\ Forall (good_cell st) r) rows -> In r rows ->
  fits width st (map (col_width width st rows) (seq 0 n)) r.
Proof.
  intros Hall Hr. unfold fits. apply Forall_forall. intros [c w] Hin. cbn [fst snd].
  rewrite Forall_forall in Hall. destruct (Hall r Hr) as [Hl Hg].
  set (ws := map (col_width width st rows) (seq 0 n)) in *.
  assert (Hlw : length ws = n) by (unfold ws; rewrite map_length, seq_length; reflexivity).
  destruct (In_nth _ _ ([], 0) Hin) as (j & Hj & Hnth).
  rewrite combine_length, Hl, Hlw, Nat.min_id in Hj.
  rewrite combine_nth in Hnth by (rewrite Hlw; exact Hl). inversion Hnth as [[Hc Hwj]]. clear Hnth.
  assert (Hwcol : nth j ws 0 = col_width width st rows j).
  { unfold ws. rewrite nth_indep with (d' := col_width width st rows 0) by (rewrite map_length, seq_length; exact Hj).
    rewrite map_nth, seq_nth by exact Hj. reflexivity. }
  rewrite Hwcol. unfold col_width, pad_right.
  assert (Hcw : cell_width width (cell_at r j) = text_width width (nth j r [])).
  { apply cell_width_clean, (good_cell_no_lf st). rewrite Forall_forall in Hg. apply Hg. unfold cell_at. apply nth_In. lia. }
  apply Nat.le_trans with (cell_width width (cell_at r j) + pad_left st + 1); [rewrite Hcw; apply le_n|].
  apply (list_max_ge (cell_width width (cell_at r j) + pad_left st + 1)).
  apply in_map_iff. exists r. split; [reflexivity|exact Hr].
Qed.

Theorem cells_render width st rows : clean_rowsb st rows = true -> cells st (render width st rows) = rows.
Proof.
  intros Hc. destruct (clean_rowsb_spec st rows Hc) as (Hne & n & Hn & Hall).
  assert (Hall' : Forall (fun r => length r = n /\ Forall (good_cell st) r) rows).
  { eapply Forall_impl; [|exact Hall]. intros r [Hl Hcl]. split; [exact Hl|].
    eapply Forall_impl; [|exact Hcl]. intros c Hcc. apply clean_cellb_spec, Hcc. }
  assert (Hcc : count_columns rows = n).
  { apply count_columns_rect; [exact Hne|]. eapply Forall_impl; [|exact Hall]. intros r [Hl _]. exact Hl. }
  unfold render. rewrite Hcc.
  destruct (Nat.eqb_spec (length rows) 0) as [E|_]; [destruct rows; [congruence|discriminate]|].
  destruct (Nat.eqb_spec n 0) as [E|_]; [lia|]. cbn [orb].
  set (ws := map (col_width width st rows) (seq 0 n)).
  assert (Hlw : length ws = n) by (unfold ws; rewrite map_length, seq_length; reflexivity).
  assert (Hfits : Forall (fun r => length r = n /\ Forall (good_cell st) r /\ fits width st ws r) rows).
  { apply Forall_forall. intros r Hr. rewrite Forall_forall in Hall'. destruct (Hall' r Hr) as [Hl Hg].
    repeat split; auto. apply col_width_fits; [apply Forall_forall; exact Hall'|exact Hr]. }
  destruct ws as [|w ws'] eqn:Ews; [cbn in Hlw; lia|].
  assert (Hw : w > 0).
  { destruct rows as [|r rows']; [congruence|]. destruct (Forall_inv Hfits) as (Hl & Hg & Hf).
    destruct r as [|c r]; [cbn [length] in Hl; lia|]. unfold fits in Hf. cbn [combine] in Hf.
    pose proof (Forall_inv Hf) as Hcw. cbn [fst snd] in Hcw. lia. }
  destruct (grid_lines_cells width st w ws' n (length rows) Hw Hn Hlw rows 0 Hfits) as [Hnolf Hcells].
  unfold cells. rewrite split_on_join; [exact Hcells| |exact Hnolf].
  destruct rows as [|r rows']; [congruence|]. cbn [grid_lines].
  intros E. apply app_eq_nil in E. destruct E as [_ E]. apply app_eq_nil in E. destruct E as [E _].
  destruct (Forall_inv Hfits) as (Hl & Hg & _).
  rewrite (row_height_clean st n r Hn Hl Hg) in E. discriminate.
Qed.

(* the cells of the Boolean formattings and of "result" are clean in every style *)
Lemma format_bool_clean st f b : clean_cellb st (format_bool f b) = true.
Proof. destruct st, f, b; reflexivity. Qed.

Lemma result_clean st : clean_cellb st w_result = true.
Proof. destruct st; reflexivity. Qed.

Lemma table_rows_clean st fi fo t : wf_table t -> forallb (clean_cellb st) (t_inputs t) = true ->
  clean_rowsb st (table_rows fi fo t) = true.
Proof.
  intros Hwf Hnames. rewrite (table_rows_wf fi fo t Hwf). unfold clean_rowsb.
  apply andb_true_iff. split.
  - rewrite app_length. cbn [length]. apply negb_true_iff, Nat.eqb_neq. lia.
  - cbn [forallb]. apply andb_true_iff. split.
    + rewrite Nat.eqb_refl. cbn [andb]. rewrite forallb_app. apply andb_true_iff. split; [exact Hnames|].
      cbn [forallb]. rewrite result_clean. reflexivity.
    + apply forallb_forall. intros r Hr. apply in_map_iff in Hr. destruct Hr as ([p o] & <- & Hpo).
      apply in_combine_l in Hpo. apply points_In in Hpo. cbn [fst snd].
      apply andb_true_iff. split.
      * apply Nat.eqb_eq. rewrite !app_length, map_length, Hpo. reflexivity.
      * rewrite forallb_app. apply andb_true_iff. split.
        -- apply forallb_forall. intros c Hcin. apply in_map_iff in Hcin. destruct Hcin as (b & <- & _). apply format_bool_clean.
        -- cbn [forallb]. rewrite format_bool_clean. reflexivity.
Qed.

(* C18 for tables: every style, every formatting, every width function *)
Theorem cells_to_string_formatted width st fi fo t :
  wf_table t -> forallb (clean_cellb st) (t_inputs t) = true ->
  cells st (to_string_formatted width st fi fo t) = table_rows fi fo t.
Proof. intros Hwf Hn. apply cells_render, table_rows_clean; assumption. Qed.

Theorem display_is_empty_word width t : display_table width t = to_string_formatted width SEmpty FWord FWord t.
Proof. reflexivity. Qed.
