(* The six conversions between the representations. *)
From BBF Require Import Base.Prelude Base.Names Base.Bits Spec.Sem
     Model.Expr Model.Table Model.LibBdd Model.Bdd
     Proofs.ExprProofs Proofs.TableProofs Proofs.QuantProofs Proofs.DdProofs Proofs.BddProofs Proofs.BddOps.

(* ---------- expression -> table ---------- *)
Theorem table_of_expr_spec e :
  wf_table (table_of_expr e) /\ t_inputs (table_of_expr e) = literals e /\
  forall v, tsem (table_of_expr e) v = sem v e.
Proof.
  unfold table_of_expr. split; [apply tabulate_wf, literals_sset|]. split; [reflexivity|].
  intros v. rewrite tsem_tabulate, evaluate_sem. apply sem_coincidence_lits.
  intros x Hx. apply complete_combine_agrees. exact Hx.
Qed.

(* ---------- table -> expression ---------- *)
Lemma combine_map_r {A B} (f : A -> B) l : combine l (map f l) = map (fun x => (x, f x)) l.
Proof. induction l; simpl; congruence. Qed.

Lemma rows_of_table n outs : length outs = 2 ^ n ->
  combine (points n) outs = map (fun p => (p, lookup false outs p)) (points n).
Proof.
  intros H. rewrite <- (tabulate_lookup false n outs H) at 1. apply combine_map_r.
Qed.

Lemma filter_length_le' {A} (f : A -> bool) l : length (filter f l) <= length l.
Proof. induction l as [|a l IH]; simpl; [lia|]. destruct (f a); simpl; lia. Qed.

Lemma filter_length_all {A} (f : A -> bool) l : length (filter f l) = length l -> forall x, In x l -> f x = true.
Proof.
  induction l as [|a l IH]; simpl; intros H x Hx; [destruct Hx|].
  pose proof (filter_length_le' f l) as Hle. destruct (f a) eqn:E; simpl in H.
  - destruct Hx as [<-|Hx]; auto.
  - lia.
Qed.

Lemma sem_cube v inputs : forall p, length p = length inputs ->
  sem v (And (zip_with cell_expr inputs p)) = true <-> map v inputs = p.
Proof.
  induction inputs as [|x r IH]; intros [|b q] Hl; simpl in *; try discriminate.
  - split; auto.
  - rewrite andb_true_iff. fold (sem v (And (zip_with cell_expr r q))). rewrite IH by lia.
    unfold cell_expr. destruct b; simpl; destruct (v x); simpl; intuition congruence.
Qed.

Lemma occ_cube inputs : forall p x, In x (occurrences (And (zip_with cell_expr inputs p))) -> In x inputs.
Proof.
  induction inputs as [|y r IH]; intros [|b q] x; simpl; try tauto.
  rewrite in_app_iff. intros [H|H].
  - unfold cell_expr in H. destruct b; simpl in H; tauto.
  - right. apply (IH q). exact H.
Qed.

Lemma expr_body_spec t : wf_table t ->
  (forall v, sem v (expr_body t) = tsem t v) /\
  (forall x, In x (literals (expr_body t)) -> In x (t_inputs t)).
Proof.
  intros [Hs Hl]. unfold expr_body, t_nvars.
  set (n := length (t_inputs t)) in *.
  set (rows := filter (fun po : list bool * bool => snd po) (combine (points n) (t_outputs t))).
  assert (Hrows : forall p o, In (p, o) rows <-> length p = n /\ lookup false (t_outputs t) p = true /\ o = true).
  { intros p o. unfold rows. rewrite filter_In, (rows_of_table n _ Hl), in_map_iff. simpl. split.
    - intros [(q & [= <- <-] & Hq) Ho]. apply points_In in Hq. auto.
    - intros (Hp & Hlk & ->). split; auto. exists p. rewrite Hlk. split; auto. apply points_In; auto. }
  destruct (Nat.eqb_spec (length rows) 0) as [E0|N0].
  - split; [|intros x []]. intros v. simpl. unfold tsem.
    destruct (lookup false (t_outputs t) (map v (t_inputs t))) eqn:Elk; [|reflexivity].
    exfalso. assert (In (map v (t_inputs t), true) rows) by (apply Hrows; rewrite map_length; auto).
    destruct rows; [destruct H|discriminate].
  - destruct (Nat.eqb_spec (length rows) (length (t_outputs t))) as [Ea|Na].
    + split; [|intros x []]. intros v. simpl. unfold tsem.
      assert (Hall : forall po, In po (combine (points n) (t_outputs t)) -> snd po = true).
      { apply (filter_length_all (fun po : list bool * bool => snd po)).
        change (length rows = length (combine (points n) (t_outputs t))).
        rewrite Ea, combine_length, points_length, Hl. lia. }
      specialize (Hall (map v (t_inputs t), lookup false (t_outputs t) (map v (t_inputs t)))).
      simpl in Hall. symmetry. apply Hall. rewrite (rows_of_table n _ Hl). apply in_map_iff.
      exists (map v (t_inputs t)). split; auto. apply points_In. apply map_length.
    + split.
      * intros v. cbn [sem]. rewrite existsb_map. unfold tsem.
        destruct (lookup false (t_outputs t) (map v (t_inputs t))) eqn:Elk.
        -- apply existsb_exists. exists (map v (t_inputs t), true). split.
           ++ apply Hrows. rewrite map_length. auto.
           ++ apply sem_cube; [apply map_length|reflexivity].
        -- destruct (existsb _ rows) eqn:Eex; [|reflexivity]. exfalso.
           apply existsb_exists in Eex. destruct Eex as ([p o] & Hin & Hsem).
           apply Hrows in Hin. destruct Hin as (Hp & Hlk & _). simpl in Hsem.
           apply sem_cube in Hsem; [|exact Hp]. rewrite Hsem in Elk. congruence.
      * intros x Hx. apply literals_In in Hx. simpl in Hx. rewrite map_map in Hx.
        apply In_concat_map in Hx. destruct Hx as (po & _ & Hx). eapply occ_cube; eauto.
Qed.

Theorem expr_of_table_spec t : wf_table t ->
  (forall v, sem v (expr_of_table t) = tsem t v) /\
  (forall x, In x (literals (expr_of_table t)) -> In x (t_inputs t)).
Proof.
  intros Hwf. unfold expr_of_table, stub_value, t_nvars.
  destruct (Nat.eqb_spec (length (t_inputs t)) 0) as [E|N]; [|apply expr_body_spec; exact Hwf].
  destruct (t_outputs t) as [|o os] eqn:Eo; cbn [hd_error]; [apply expr_body_spec; exact Hwf|].
  split; [|intros x []]. intros v. simpl. unfold tsem. rewrite Eo.
  destruct (t_inputs t); [reflexivity|discriminate].
Qed.

(* ---------- diagram -> table ---------- *)
Theorem table_of_bdd_spec b : wf_bdd b ->
  wf_table (table_of_bdd b) /\ t_inputs (table_of_bdd b) = b_inputs b /\
  forall v, tsem (table_of_bdd b) v = bsem b v.
Proof.
  intros (Hs & Hnv & Hinv). unfold table_of_bdd, b_literals. rewrite (set_of_list_id _ Hs).
  split; [|split; [reflexivity|]].
  - split; [exact Hs|]. cbn [t_inputs t_outputs]. rewrite map_length, points_length. reflexivity.
  - intros v. unfold tsem. cbn [t_inputs t_outputs].
    rewrite <- (map_length v (b_inputs b)) at 1.
    rewrite (lookup_tabulate false (fun p => dd_eval (b_root b) (fun i => nth i p false))).
    unfold bsem. apply eval_ext. intros i. apply nth_map_error.
Qed.

(* ---------- expression -> diagram ---------- *)
Lemma dd_var_inv i nv : i < nv -> inv 0 nv (dd_var i).
Proof. intros H. repeat split; simpl; auto; try lia. discriminate. Qed.

Lemma fold_and_ok lits nv (v : env) es :
  Forall (fun e => exists t, dd_of_expr lits e = Ok t /\ inv 0 nv t /\ dd_eval t (ienv lits v) = sem v e) es ->
  forall t0, inv 0 nv t0 ->
  exists t, fold_left (fun acc e => a <- acc ;; d <- dd_of_expr lits e ;; Ok (dd_and a d)) es (Ok t0) = Ok t /\
            inv 0 nv t /\ dd_eval t (ienv lits v) = dd_eval t0 (ienv lits v) && forallb (sem v) es.
Proof.
  induction 1 as [|e es (d & Hd & Id & Sd) _ IH]; intros t0 H0; simpl.
  - exists t0. rewrite andb_true_r. auto.
  - rewrite Hd. cbn [bind].
    assert (Hi : inv 0 nv (dd_and t0 d)) by (apply apply_inv; auto).
    destruct (IH _ Hi) as (t & Ht & It & St). exists t. split; [exact Ht|]. split; [exact It|].
    rewrite St. unfold dd_and. rewrite (apply_sem andb _ _ 0); [|apply H0|apply Id]. rewrite Sd, andb_assoc. reflexivity.
Qed.

Lemma fold_or_ok lits nv (v : env) es :
  Forall (fun e => exists t, dd_of_expr lits e = Ok t /\ inv 0 nv t /\ dd_eval t (ienv lits v) = sem v e) es ->
  forall t0, inv 0 nv t0 ->
  exists t, fold_left (fun acc e => a <- acc ;; d <- dd_of_expr lits e ;; Ok (dd_or a d)) es (Ok t0) = Ok t /\
            inv 0 nv t /\ dd_eval t (ienv lits v) = dd_eval t0 (ienv lits v) || existsb (sem v) es.
Proof.
  induction 1 as [|e es (d & Hd & Id & Sd) _ IH]; intros t0 H0; simpl.
  - exists t0. rewrite orb_false_r. auto.
  - rewrite Hd. cbn [bind].
    assert (Hi : inv 0 nv (dd_or t0 d)) by (apply apply_inv; auto).
    destruct (IH _ Hi) as (t & Ht & It & St). exists t. split; [exact Ht|]. split; [exact It|].
    rewrite St. unfold dd_or. rewrite (apply_sem orb _ _ 0); [|apply H0|apply Id]. rewrite Sd, orb_assoc. reflexivity.
Qed.

(* the result does not depend on v; we prove existence once and the semantic equation for all v *)
Lemma dd_of_expr_ok lits e : sset lits -> (forall x, In x (occurrences e) -> In x lits) ->
  exists t, dd_of_expr lits e = Ok t /\ inv 0 (length lits) t /\ forall v, dd_eval t (ienv lits v) = sem v e.
Proof.
  intros Hs. induction e using expr_ind'; intros Hocc.
  - simpl. destruct (index_of_In x lits (Hocc x (or_introl eq_refl))) as (i & Hi). rewrite Hi.
    exists (dd_var i). split; [reflexivity|]. split; [apply dd_var_inv; eapply index_of_lt; eauto|].
    intros v. simpl. apply index_of_nth in Hi. rewrite (ienv_nth _ _ _ _ Hi). destruct (v x); reflexivity.
  - exists (Leaf b). simpl. repeat split; auto.
  - destruct IHe as (t & Ht & It & St); [exact Hocc|]. simpl. rewrite Ht. simpl.
    exists (dd_not t). split; [reflexivity|]. split; [apply dd_not_inv; auto|].
    intros v. rewrite dd_not_sem, St. reflexivity.
  - assert (HF : Forall (fun e => exists t, dd_of_expr lits e = Ok t /\ inv 0 (length lits) t /\
                                            forall v, dd_eval t (ienv lits v) = sem v e) es).
    { apply Forall_forall. intros e He. rewrite Forall_forall in H. apply H; auto.
      intros x Hx. apply Hocc. apply occ_And. eauto. }
    assert (HL : inv 0 (length lits) (Leaf true)) by (repeat split; simpl; auto).
    cbn [dd_of_expr].
    assert (Hex : exists t, fold_left (fun acc e => a <- acc ;; d <- dd_of_expr lits e ;; Ok (dd_and a d)) es (Ok (Leaf true)) = Ok t /\ inv 0 (length lits) t).
    { destruct (fold_and_ok lits (length lits) (fun _ => false) es) with (t0 := Leaf true) as (t & Ht & It & _); auto.
      apply Forall_forall. intros e He. rewrite Forall_forall in HF. destruct (HF e He) as (t & A & B & C). eauto. eauto. }
    destruct Hex as (t & Ht & It). exists t. split; [exact Ht|]. split; [exact It|]. intros v.
    destruct (fold_and_ok lits (length lits) v es) with (t0 := Leaf true) as (t' & Ht' & _ & St'); auto.
    { apply Forall_forall. intros e He. rewrite Forall_forall in HF. destruct (HF e He) as (t1 & A & B & C). eauto. }
    rewrite Ht in Ht'. injection Ht' as <-. rewrite St'. reflexivity.
  - assert (HF : Forall (fun e => exists t, dd_of_expr lits e = Ok t /\ inv 0 (length lits) t /\
                                            forall v, dd_eval t (ienv lits v) = sem v e) es).
    { apply Forall_forall. intros e He. rewrite Forall_forall in H. apply H; auto.
      intros x Hx. apply Hocc. apply occ_Or. eauto. }
    assert (HL : inv 0 (length lits) (Leaf false)) by (repeat split; simpl; auto).
    cbn [dd_of_expr].
    assert (Hex : exists t, fold_left (fun acc e => a <- acc ;; d <- dd_of_expr lits e ;; Ok (dd_or a d)) es (Ok (Leaf false)) = Ok t /\ inv 0 (length lits) t).
    { destruct (fold_or_ok lits (length lits) (fun _ => false) es) with (t0 := Leaf false) as (t & Ht & It & _); auto.
      apply Forall_forall. intros e He. rewrite Forall_forall in HF. destruct (HF e He) as (t & A & B & C). eauto. eauto. }
    destruct Hex as (t & Ht & It). exists t. split; [exact Ht|]. split; [exact It|]. intros v.
    destruct (fold_or_ok lits (length lits) v es) with (t0 := Leaf false) as (t' & Ht' & _ & St'); auto.
    { apply Forall_forall. intros e He. rewrite Forall_forall in HF. destruct (HF e He) as (t1 & A & B & C). eauto. }
    rewrite Ht in Ht'. injection Ht' as <-. rewrite St'. reflexivity.
Qed.

Theorem bdd_of_expr_spec e :
  (too_many (length (literals e)) = true -> bdd_of_expr e = Err 1) /\
  (too_many (length (literals e)) = false ->
   exists b, bdd_of_expr e = Ok b /\ wf_bdd b /\ b_inputs b = literals e /\ forall v, bsem b v = sem v e).
Proof.
  unfold bdd_of_expr. split; intros Ht; rewrite Ht; [reflexivity|].
  destruct (dd_of_expr_ok (literals e) e (literals_sset e)) as (t & Hd & It & St).
  { intros x Hx. apply literals_In. exact Hx. }
  rewrite Hd. cbn [bind]. eexists. split; [reflexivity|]. split; [|split; [reflexivity|]].
  - split; [apply literals_sset|]. split; [reflexivity|exact It].
  - intros v. unfold bsem. cbn [b_root b_inputs]. apply St.
Qed.

(* ---------- diagram -> expression ---------- *)
Definition path_holds (p : nat -> bool) (path : list (nat * bool)) : bool :=
  forallb (fun ib => Bool.eqb (p (fst ib)) (snd ib)) path.

Lemma existsb_cons_path p v b l :
  existsb (path_holds p) (map (cons (v, b)) l) = Bool.eqb (p v) b && existsb (path_holds p) l.
Proof.
  induction l as [|a l IH]; simpl; [rewrite andb_false_r; reflexivity|].
  rewrite IH. unfold path_holds at 1. cbn [forallb fst snd]. fold (path_holds p a).
  destruct (Bool.eqb (p v) b), (path_holds p a); reflexivity.
Qed.

Lemma paths_sem t p : dd_eval t p = existsb (path_holds p) (dd_paths t).
Proof.
  induction t as [[|]|v lo IHlo hi IHhi]; simpl; try reflexivity.
  rewrite existsb_app, !existsb_cons_path, <- IHlo, <- IHhi.
  destruct (p v); simpl; [reflexivity|]. rewrite orb_false_r. reflexivity.
Qed.

Lemma paths_vars t path i b : In path (dd_paths t) -> In (i, b) path -> occurs i t.
Proof.
  revert path. induction t as [[|]|v lo IHlo hi IHhi]; simpl; intros path Hp Hi.
  - destruct Hp as [<-|[]]. destruct Hi.
  - destruct Hp.
  - apply in_app_iff in Hp. destruct Hp as [Hp|Hp]; apply in_map_iff in Hp; destruct Hp as (q & <- & Hq);
      destruct Hi as [[= <- <-]|Hi]; eauto.
Qed.

Lemma clause_expr_ok b c : (forall i x, In (i, x) c -> i < length (b_inputs b)) ->
  exists es, clause_expr b c = Ok (And es) /\
             (forall v, sem v (And es) = path_holds (ienv (b_inputs b) v) c) /\
             (forall x, In x (occurrences (And es)) -> In x (b_inputs b)).
Proof.
  unfold clause_expr. induction c as [|[i x] r IH]; intros Hlt; simpl.
  - exists []. repeat split; auto. intros x [].
  - destruct IH as (es & He & Se & Oe); [intros j y Hj; apply (Hlt j y); right; auto|].
    destruct (fold_right _ (Ok []) r) as [l| |] eqn:El; simpl in He; try discriminate. injection He as <-.
    cbn [bind]. unfold inner_to_outer. destruct (nth_error (b_inputs b) i) as [y|] eqn:Ey.
    + simpl. exists (cell_expr y x :: l). split; [reflexivity|]. split.
      * intros v. cbn [forallb]. change (forallb (sem v) l) with (sem v (And l)). rewrite Se.
        f_equal. rewrite (ienv_nth _ _ _ _ Ey). unfold cell_expr. destruct x; simpl; destruct (v y); reflexivity.
      * intros z Hz. simpl in Hz. apply in_app_iff in Hz. destruct Hz as [Hz|Hz]; [|apply Oe; exact Hz].
        unfold cell_expr in Hz. destruct x; simpl in Hz; destruct Hz as [<-|[]]; eapply nth_error_In; eauto.
    + apply nth_error_None in Ey. specialize (Hlt i x (or_introl eq_refl)). lia.
Qed.

Theorem expr_of_bdd_spec b : wf_bdd b ->
  exists e, expr_of_bdd b = Ok e /\ (forall v, sem v e = bsem b v) /\ (forall x, In x (literals e) -> In x (b_inputs b)).
Proof.
  intros (Hs & Hnv & Hinv). unfold expr_of_bdd.
  destruct (is_true_dd (b_root b)) eqn:Et.
  - apply is_true_dd_spec in Et. exists (Const true). split; [reflexivity|]. split; [|intros x []].
    intros v. unfold bsem. rewrite Et. reflexivity.
  - destruct (is_false_dd (b_root b)) eqn:Ef.
    + exists (Const false). split; [reflexivity|]. split; [|intros x []].
      intros v. unfold bsem. destruct (b_root b) as [[|]|]; try discriminate. reflexivity.
    + assert (Hall : forall paths, (forall c, In c paths -> In c (dd_paths (b_root b))) ->
                exists es, fold_right (fun c acc => l <- acc ;; x <- clause_expr b c ;; Ok (x :: l)) (Ok []) paths = Ok es /\
                           (forall v, existsb (sem v) es = existsb (path_holds (ienv (b_inputs b) v)) paths) /\
                           (forall x, In x (occurrences (Or es)) -> In x (b_inputs b))).
      { induction paths as [|c r IH]; intros Hsub; simpl.
        - exists []. repeat split; auto. intros x [].
        - destruct IH as (es & -> & Se & Oe); [intros c' Hc'; apply Hsub; right; auto|]. cbn [bind].
          destruct (clause_expr_ok b c) as (cs & -> & Sc & Oc).
          { intros i x Hi. rewrite <- Hnv. apply (occurs_bounds i 0 (b_nv b) (b_root b)); auto.
            eapply paths_vars; eauto. apply Hsub. left. reflexivity. }
          cbn [bind]. exists (And cs :: es). split; [reflexivity|]. split.
          + intros v. cbn [existsb]. rewrite Sc, Se. reflexivity.
          + intros x Hx. simpl in Hx. apply in_app_iff in Hx. destruct Hx as [Hx|Hx]; [apply Oc; exact Hx|apply Oe; exact Hx]. }
      destruct (Hall (dd_paths (b_root b))) as (es & -> & Se & Oe); [auto|]. simpl.
      exists (Or es). split; [reflexivity|]. split.
      * intros v. cbn [sem]. rewrite Se. unfold bsem. symmetry. apply paths_sem.
      * intros x Hx. apply literals_In in Hx. apply Oe. exact Hx.
Qed.

(* ---------- table -> diagram: what the code does (known finding D1) ---------- *)
Fixpoint match_from (i : nat) (q : list bool) (p : nat -> bool) : bool :=
  match q with [] => true | b :: r => Bool.eqb (p i) b && match_from (S i) r p end.

Lemma cube_sem q : forall i p, dd_eval (dd_cube i q) p = match_from i q p.
Proof.
  induction q as [|b r IH]; intros i p; simpl; [reflexivity|].
  destruct b; simpl; destruct (p i); simpl; auto.
Qed.

Lemma cube_not_false q i : dd_cube i q <> Leaf false.
Proof. destruct q as [|[|] r]; simpl; discriminate. Qed.

Lemma cube_inv q : forall i nv, i + length q <= nv -> inv i nv (dd_cube i q).
Proof.
  induction q as [|b r IH]; intros i nv H; simpl; [repeat split; simpl; auto|].
  simpl in H. destruct (IH (S i) nv) as (O & R & B); [lia|].
  destruct b; repeat split; simpl; auto; try lia.
  - intros E. symmetry in E. exact (cube_not_false _ _ E).
  - apply cube_not_false.
Qed.

Lemma of_points_ok nv pts : (forall q, In q pts -> length q <= nv) ->
  forall t0, inv 0 nv t0 ->
  inv 0 nv (fold_left (fun acc p => dd_or acc (dd_cube 0 p)) pts t0) /\
  forall p, dd_eval (fold_left (fun acc p => dd_or acc (dd_cube 0 p)) pts t0) p
            = dd_eval t0 p || existsb (fun q => match_from 0 q p) pts.
Proof.
  induction pts as [|q r IH]; intros Hlen t0 H0; simpl.
  - split; [exact H0|]. intros p. rewrite orb_false_r. reflexivity.
  - assert (Hc : inv 0 nv (dd_cube 0 q)) by (apply cube_inv; simpl; apply Hlen; left; auto).
    assert (Hi : inv 0 nv (dd_or t0 (dd_cube 0 q))) by (apply apply_inv; auto).
    destruct (IH (fun q' Hq' => Hlen q' (or_intror Hq')) _ Hi) as (I & S). split; [exact I|].
    intros p. rewrite S. unfold dd_or at 1. rewrite (apply_sem orb _ _ 0); [|apply H0|apply Hc].
    rewrite cube_sem, orb_assoc. reflexivity.
Qed.

Lemma match_from_seq n : forall i p, match_from i (map p (seq i n)) p = true.
Proof. induction n as [|n IH]; intros i p; simpl; [reflexivity|]. rewrite eqb_reflx. simpl. apply IH. Qed.

Lemma all_points_cover n p : existsb (fun q => match_from 0 q p) (points n) = true.
Proof.
  apply existsb_exists. exists (map p (seq 0 n)). split; [|apply match_from_seq].
  apply points_In. rewrite map_length, seq_length. reflexivity.
Qed.

Theorem bdd_of_table_current t : wf_table t -> too_many (length (t_inputs t)) = false ->
  exists b, bdd_of_table t = Ok b /\ wf_bdd b /\ b_inputs b = t_inputs t /\ forall v, bsem b v = true.
Proof.
  intros Hwf Htm. pose proof Hwf as [Hs Hl]. unfold bdd_of_table. rewrite (t_literals_wf t Hwf), Htm.
  set (n := length (t_inputs t)).
  assert (HL : inv 0 n (Leaf false)) by (repeat split; simpl; auto).
  destruct (of_points_ok n (t_domain t)) with (t0 := Leaf false) as (I & S); auto.
  { intros q Hq. unfold t_domain in Hq. rewrite (t_literals_wf t Hwf) in Hq. apply points_In in Hq. fold n in Hq. lia. }
  eexists. split; [reflexivity|]. split; [|split; [reflexivity|]].
  - split; [exact Hs|]. split; [reflexivity|exact I].
  - intros v. unfold bsem. cbn [b_root b_inputs]. unfold dd_of_points. rewrite S. simpl.
    unfold t_domain. rewrite (t_literals_wf t Hwf). apply all_points_cover.
Qed.

(* outside the failing class (the tautologies) the conversion is right ... *)
Corollary bdd_of_table_tautology t : wf_table t -> too_many (length (t_inputs t)) = false ->
  (forall v, tsem t v = true) ->
  exists b, bdd_of_table t = Ok b /\ wf_bdd b /\ b_inputs b = t_inputs t /\ forall v, bsem b v = tsem t v.
Proof.
  intros Hwf Htm Ht. destruct (bdd_of_table_current t Hwf Htm) as (b & Hb & Wb & Ib & Sb).
  exists b. split; [exact Hb|]. split; [exact Wb|]. split; [exact Ib|]. intros v. rewrite Sb, Ht. reflexivity.
Qed.

(* ... and inside it, it is wrong: the finding *)
Theorem bdd_of_table_refuted t v : wf_table t -> too_many (length (t_inputs t)) = false ->
  tsem t v = false -> exists b, bdd_of_table t = Ok b /\ bsem b v <> tsem t v.
Proof.
  intros Hwf Htm Hv. destruct (bdd_of_table_current t Hwf Htm) as (b & Hb & _ & _ & Sb).
  exists b. split; [exact Hb|]. rewrite Sb, Hv. discriminate.
Qed.

Example bdd_of_table_witness :
  let t := {| t_inputs := [[97%N]; [98%N]]; t_outputs := [false; false; false; true] |} in
  wf_table t /\ exists b, bdd_of_table t = Ok b /\ b_image b = [true; true; true; true].
Proof. split; [split; [repeat constructor|reflexivity]|]. eexists. split; reflexivity. Qed.
