(* C20: the results do not depend on the iteration order of the hash containers the code builds
   (the permutation handed to rename_variables, the support set), and operands are never altered. *)
From BBF Require Import Base.Prelude Base.Names Base.Bits Model.LibBdd Model.Bdd Proofs.DdProofs Proofs.BddProofs.
From Coq Require Import Sorting.Permutation.

Lemma nat_get_In m k w : nat_get m k = Some w -> In (k, w) m.
Proof.
  induction m as [|[k' x] r IH]; simpl; [discriminate|].
  destruct (Nat.eqb_spec k k'); [intros [= ->]; subst; auto|auto].
Qed.
Lemma nat_get_NoDup m k w : NoDup (map fst m) -> In (k, w) m -> nat_get m k = Some w.
Proof.
  induction m as [|[k' x] r IH]; simpl; intros Hnd Hin; [destruct Hin|].
  inversion Hnd as [|? ? Hk Hr]; subst. destruct Hin as [[= -> ->]|Hin].
  - rewrite Nat.eqb_refl. reflexivity.
  - destruct (Nat.eqb_spec k k'); [|auto]. subst. exfalso. apply Hk. apply in_map_iff. exists (k', w). auto.
Qed.

(* a HashMap is a finite map: looking a key up does not depend on the order of its entries *)
Theorem nat_get_perm m m' k : NoDup (map fst m) -> Permutation m m' -> nat_get m k = nat_get m' k.
Proof.
  intros Hnd Hp.
  assert (Hnd' : NoDup (map fst m')) by (eapply Permutation_NoDup; [apply Permutation_map; exact Hp|exact Hnd]).
  destruct (nat_get m k) as [w|] eqn:E.
  - symmetry. apply nat_get_NoDup; auto. eapply Permutation_in; [exact Hp|]. apply nat_get_In. exact E.
  - destruct (nat_get m' k) as [w|] eqn:E'; [|reflexivity].
    apply nat_get_In in E'. apply (Permutation_in _ (Permutation_sym Hp)) in E'.
    rewrite (nat_get_NoDup m k w Hnd E') in E. discriminate.
Qed.

Lemma map_vars_ext f g t : (forall x, f x = g x) -> dd_map_vars f t = dd_map_vars g t.
Proof. intros H. induction t as [c|v lo IHlo hi IHhi]; simpl; [reflexivity|]. rewrite H, IHlo, IHhi. reflexivity. Qed.

Theorem dd_rename_perm nv m m' t : NoDup (map fst m) -> Permutation m m' -> dd_rename nv m t = dd_rename nv m' t.
Proof.
  intros Hnd Hp. unfold dd_rename.
  assert (Hf : forall v, match nat_get m v with Some w => w | None => v end = match nat_get m' v with Some w => w | None => v end)
    by (intros v; rewrite (nat_get_perm m m' v Hnd Hp); reflexivity).
  destruct (dd_support t) as [|s0 sup]; [reflexivity|].
  rewrite (map_ext _ _ Hf). rewrite (map_vars_ext _ _ t Hf). reflexivity.
Qed.

(* a HashSet is a finite set: membership tests and the sorted collection built from it do not depend on its order *)
Theorem forallb_perm {A} (f : A -> bool) l l' : Permutation l l' -> forallb f l = forallb f l'.
Proof.
  induction 1; simpl; auto.
  - congruence.
  - destruct (f x), (f y); reflexivity.
  - congruence.
Qed.

Theorem set_of_list_perm l l' : Permutation l l' -> set_of_list l = set_of_list l'.
Proof.
  intros Hp. apply sset_ext; try apply set_of_list_sset. intros x. rewrite !set_of_list_In.
  split; apply Permutation_in; [exact Hp|apply Permutation_sym; exact Hp].
Qed.

Theorem support_perm_essential b sup sup' : Permutation sup sup' ->
  (forall i, In i sup -> i < length (b_inputs b)) ->
  forall e e',
  fold_right (fun i acc => l <- acc ;; match inner_to_outer b i with Some x => Ok (set_insert x l) | None => Panic 22 end) (Ok []) sup = Ok e ->
  fold_right (fun i acc => l <- acc ;; match inner_to_outer b i with Some x => Ok (set_insert x l) | None => Panic 22 end) (Ok []) sup' = Ok e' ->
  e = e'.
Proof.
  intros Hp Hlt e e' He He'.
  destruct (essential_fold_ok b sup Hlt) as (s & Hs & Ss & Is).
  assert (Hlt' : forall i, In i sup' -> i < length (b_inputs b)) by (intros i Hi; apply Hlt; eapply Permutation_in; [apply Permutation_sym; exact Hp|exact Hi]).
  destruct (essential_fold_ok b sup' Hlt') as (s' & Hs' & Ss' & Is').
  rewrite Hs in He. rewrite Hs' in He'. injection He as <-. injection He' as <-.
  apply sset_ext; auto. intros x. rewrite Is, Is'. split; intros (i & Hi & E); exists i; (split; [|exact E]).
  - eapply Permutation_in; [exact Hp|exact Hi].
  - eapply Permutation_in; [apply Permutation_sym; exact Hp|exact Hi].
Qed.
