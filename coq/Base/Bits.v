(* Boolean points and row indices: row index = point read as a binary number,
   first coordinate most significant; `points n` = the domain in lexicographic order. *)
From BBF Require Import Base.Prelude.
From Coq Require Import FinFun.

Definition b2n (b : bool) : N := if b then 1%N else 0%N.

(* value of a point read as a binary number, most significant first *)
Fixpoint index_from (acc : N) (p : list bool) : N :=
  match p with [] => acc | b :: r => index_from (2 * acc + b2n b)%N r end.
Definition point_index (p : list bool) : N := index_from 0%N p.

Fixpoint points (n : nat) : list (list bool) :=
  match n with
  | O => [[]]
  | S k => map (cons false) (points k) ++ map (cons true) (points k)
  end.

Lemma points_length n : length (points n) = 2 ^ n.
Proof. induction n; simpl; [reflexivity|]. rewrite app_length, !map_length, IHn. lia. Qed.

Lemma points_In n p : In p (points n) <-> length p = n.
Proof.
  revert p; induction n as [|n IH]; intros p; simpl.
  - split; [intros [<-|[]]; reflexivity|]. destruct p; [auto|discriminate].
  - rewrite in_app_iff, !in_map_iff. split.
    + intros [(q & <- & Hq)|(q & <- & Hq)]; simpl; f_equal; apply IH; auto.
    + destruct p as [|b q]; [discriminate|]. intros [= Hq]. apply IH in Hq.
      destruct b; [right|left]; exists q; auto.
Qed.

Lemma index_from_acc acc p : index_from acc p = (acc * 2 ^ N.of_nat (length p) + point_index p)%N.
Proof.
  unfold point_index. revert acc. induction p as [|b r IH]; intros acc.
  - simpl. change (2 ^ N.of_nat 0)%N with 1%N. lia.
  - cbn [index_from length]. rewrite IH. rewrite (IH (2 * 0 + b2n b)%N).
    rewrite Nat2N.inj_succ, N.pow_succ_r'. lia.
Qed.

Lemma point_index_cons b p :
  point_index (b :: p) = (b2n b * 2 ^ N.of_nat (length p) + point_index p)%N.
Proof. unfold point_index at 1. cbn [index_from]. rewrite index_from_acc. lia. Qed.

Lemma point_index_lt p : (point_index p < 2 ^ N.of_nat (length p))%N.
Proof.
  induction p as [|b r IH].
  - cbn. lia.
  - rewrite point_index_cons. cbn [length]. rewrite Nat2N.inj_succ, N.pow_succ_r'.
    destruct b; cbn [b2n]; lia.
Qed.

Lemma pow2_N_nat n : N.to_nat (2 ^ N.of_nat n) = 2 ^ n.
Proof.
  induction n as [|n IH]; [reflexivity|].
  rewrite Nat2N.inj_succ, N.pow_succ_r', N2Nat.inj_mul, IH. simpl. lia.
Qed.

Lemma point_index_lt_nat p : N.to_nat (point_index p) < 2 ^ length p.
Proof. rewrite <- pow2_N_nat. pose proof (point_index_lt p). lia. Qed.

(* looking a point up in a list of 2^n values *)
Definition lookup {A} (d : A) (outs : list A) (p : list bool) : A :=
  nth (N.to_nat (point_index p)) outs d.

Lemma lookup_cons {A} (d : A) lo hi b p :
  length lo = 2 ^ length p ->
  lookup d (lo ++ hi) (b :: p) = if b then lookup d hi p else lookup d lo p.
Proof.
  intros Hlo. unfold lookup. rewrite point_index_cons.
  pose proof (point_index_lt_nat p) as Hlt.
  destruct b; cbn [b2n].
  - rewrite app_nth2; rewrite N2Nat.inj_add, N.mul_1_l, pow2_N_nat; [|lia]. f_equal. lia.
  - rewrite N.mul_0_l, N.add_0_l. rewrite app_nth1; [reflexivity|lia].
Qed.

(* tabulating a function of the point over the whole domain, and reading it back *)
Lemma lookup_tabulate {A} (d : A) (f : list bool -> A) p :
  lookup d (map f (points (length p))) p = f p.
Proof.
  revert f. induction p as [|b r IH]; intros f.
  - reflexivity.
  - cbn [length points]. rewrite map_app, !map_map.
    rewrite lookup_cons by (rewrite map_length, points_length; reflexivity).
    destruct b; apply (IH (fun q => f (_ :: q))).
Qed.

Lemma nth_points_index p : nth (N.to_nat (point_index p)) (points (length p)) [] = p.
Proof.
  pose proof (lookup_tabulate [] (fun q => q) p) as H. rewrite map_id in H. exact H.
Qed.

(* splitting a list of 2^(n+1) values into halves *)
Lemma halves {A} (l : list A) n : length l = 2 ^ S n ->
  exists lo hi, l = lo ++ hi /\ length lo = 2 ^ n /\ length hi = 2 ^ n.
Proof.
  intros H. exists (firstn (2 ^ n) l), (skipn (2 ^ n) l).
  rewrite firstn_skipn, firstn_length, skipn_length, H. simpl. repeat split; lia.
Qed.

(* a list of 2^n values is the tabulation of its own lookup *)
Lemma tabulate_lookup {A} (d : A) n : forall l, length l = 2 ^ n ->
  map (lookup d l) (points n) = l.
Proof.
  induction n as [|n IH]; intros l Hl.
  - destruct l as [|a [|]]; try discriminate. reflexivity.
  - destruct (halves l n Hl) as (lo & hi & -> & Hlo & Hhi).
    cbn [points]. rewrite map_app, !map_map. f_equal.
    + transitivity (map (lookup d lo) (points n)); [|apply IH; auto]. apply map_ext_in. intros p Hp. apply points_In in Hp.
      rewrite lookup_cons; [reflexivity|]. rewrite Hp; auto.
    + transitivity (map (lookup d hi) (points n)); [|apply IH; auto]. apply map_ext_in. intros p Hp. apply points_In in Hp.
      rewrite lookup_cons; [reflexivity|]. rewrite Hp; auto.
Qed.

(* the inverse codec, as the code computes it: binary digits of the index, padded on the left *)
Fixpoint index_bits (fuel : nat) (i : N) : list bool :=   (* least significant first *)
  match fuel with
  | O => []
  | S f => if (i =? 0)%N then [] else N.odd i :: index_bits f (i / 2)%N
  end.
Definition index_point (i : N) (n : nat) : list bool :=
  let bits := index_bits (S (N.to_nat (N.log2 i))) i in
  rev (bits ++ repeat false (n - length bits)).

Lemma points_NoDup n : NoDup (points n).
Proof.
  induction n as [|n IH]; simpl; [repeat constructor; auto|].
  apply NoDup_app_intro.
  - apply FinFun.Injective_map_NoDup; auto. intros a b [=]; auto.
  - apply FinFun.Injective_map_NoDup; auto. intros a b [=]; auto.
  - intros p H1 H2. apply in_map_iff in H1, H2. destruct H1 as (? & <- & _), H2 as (? & [=] & _).
Qed.
