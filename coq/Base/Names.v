(* Names (Rust `String`) as lists of Unicode scalar values, ordered lexicographically;
   this is the order of Rust's `String` (byte order of UTF-8 = code point order).
   Sorted duplicate-free lists model BTreeSet, association lists model BTreeMap. *)
From BBF Require Import Base.Prelude.
From Coq Require Import Sorting.Sorted.

Definition name := list N.

Fixpoint name_cmp (a b : name) : comparison :=
  match a, b with
  | [], [] => Eq
  | [], _ :: _ => Lt
  | _ :: _, [] => Gt
  | x :: a', y :: b' =>
      match N.compare x y with
      | Eq => name_cmp a' b'
      | c => c
      end
  end.

Definition name_eqb (a b : name) : bool := match name_cmp a b with Eq => true | _ => false end.
Definition name_ltb (a b : name) : bool := match name_cmp a b with Lt => true | _ => false end.
Definition name_lt (a b : name) : Prop := name_cmp a b = Lt.

Lemma name_cmp_eq a : forall b, name_cmp a b = Eq <-> a = b.
Proof.
  induction a as [|x a IH]; intros [|y b]; simpl.
  - split; auto.
  - split; discriminate.
  - split; discriminate.
  - destruct (N.compare_spec x y) as [E|L|G].
    + subst. rewrite IH. split; congruence.
    + split; [discriminate|]. intros [= -> _]. lia.
    + split; [discriminate|]. intros [= -> _]. lia.
Qed.

Lemma name_cmp_refl a : name_cmp a a = Eq.
Proof. apply name_cmp_eq. reflexivity. Qed.

Lemma name_cmp_antisym a : forall b, name_cmp b a = CompOpp (name_cmp a b).
Proof.
  induction a as [|x a IH]; intros [|y b]; simpl; auto.
  rewrite (N.compare_antisym x y). destruct (N.compare x y); simpl; auto.
Qed.

Lemma name_eqb_spec a b : reflect (a = b) (name_eqb a b).
Proof.
  unfold name_eqb. destruct (name_cmp a b) eqn:E.
  - constructor. apply name_cmp_eq; auto.
  - constructor. intros ->. rewrite name_cmp_refl in E. discriminate.
  - constructor. intros ->. rewrite name_cmp_refl in E. discriminate.
Qed.

Lemma name_eqb_refl a : name_eqb a a = true.
Proof. destruct (name_eqb_spec a a); congruence. Qed.

Lemma name_eq_dec (a b : name) : {a = b} + {a <> b}.
Proof. destruct (name_eqb_spec a b); auto. Qed.

Lemma name_lt_trans a : forall b c, name_lt a b -> name_lt b c -> name_lt a c.
Proof.
  unfold name_lt. induction a as [|x a IH]; intros [|y b] [|z c]; simpl; try congruence.
  destruct (N.compare_spec x y) as [E1|L1|G1]; try discriminate.
  - subst y. destruct (N.compare_spec x z); try discriminate; auto. apply IH.
  - destruct (N.compare_spec y z) as [E2|L2|G2]; try discriminate; intros _ _.
    + subst. destruct (N.compare_spec x z); auto; lia.
    + destruct (N.compare_spec x z); auto; lia.
Qed.

Lemma name_lt_irrefl a : ~ name_lt a a.
Proof. unfold name_lt. rewrite name_cmp_refl. discriminate. Qed.

Lemma name_lt_neq a b : name_lt a b -> a <> b.
Proof. intros H ->. exact (name_lt_irrefl _ H). Qed.

Lemma name_cmp_gt_lt a b : name_cmp a b = Gt <-> name_lt b a.
Proof.
  unfold name_lt. rewrite (name_cmp_antisym a b). destruct (name_cmp a b); simpl; split; congruence.
Qed.

Lemma name_trichotomy a b : name_lt a b \/ a = b \/ name_lt b a.
Proof.
  destruct (name_cmp a b) eqn:E.
  - right; left. apply name_cmp_eq; auto.
  - left; exact E.
  - right; right. apply name_cmp_gt_lt; auto.
Qed.

Lemma name_lt_asym a b : name_lt a b -> ~ name_lt b a.
Proof. intros H1 H2. exact (name_lt_irrefl _ (name_lt_trans _ _ _ H1 H2)). Qed.

(* ---------- sets: strictly sorted lists ---------- *)

Definition sset (l : list name) : Prop := StronglySorted name_lt l.

Fixpoint mem (x : name) (l : list name) : bool :=
  match l with [] => false | y :: r => name_eqb x y || mem x r end.

Lemma mem_In x l : mem x l = true <-> In x l.
Proof.
  induction l as [|y r IH]; simpl; [split; [discriminate|tauto]|].
  rewrite orb_true_iff, IH. destruct (name_eqb_spec x y); intuition congruence.
Qed.

Lemma mem_false_In x l : mem x l = false <-> ~ In x l.
Proof. rewrite <- mem_In. destruct (mem x l); split; congruence. Qed.

Fixpoint set_insert (x : name) (l : list name) : list name :=
  match l with
  | [] => [x]
  | y :: r =>
      match name_cmp x y with
      | Lt => x :: l
      | Eq => l
      | Gt => y :: set_insert x r
      end
  end.

Definition set_of_list (l : list name) : list name := fold_right set_insert [] l.
Definition set_union (a b : list name) : list name := set_of_list (a ++ b).
Definition set_diff (a b : list name) : list name := filter (fun x => negb (mem x b)) a.

Lemma set_insert_In x y l : In y (set_insert x l) <-> y = x \/ In y l.
Proof.
  induction l as [|z r IH]; simpl; [intuition|].
  destruct (name_cmp x z) eqn:E; simpl.
  - apply name_cmp_eq in E. subst. intuition.
  - intuition.
  - rewrite IH. intuition.
Qed.

Lemma sset_inv x l : sset (x :: l) -> sset l /\ Forall (name_lt x) l.
Proof. intros H. inversion H; auto. Qed.

Lemma sset_cons x l : sset l -> Forall (name_lt x) l -> sset (x :: l).
Proof. intros; constructor; auto. Qed.

Lemma set_insert_sset x l : sset l -> sset (set_insert x l).
Proof.
  induction l as [|z r IH]; simpl; intros H.
  - repeat constructor.
  - destruct (sset_inv _ _ H) as [Hr Hz]. destruct (name_cmp x z) eqn:E.
    + exact H.
    + apply sset_cons; auto. constructor; auto.
      eapply Forall_impl; [|exact Hz]. intros a Ha. eapply name_lt_trans; eauto.
    + apply sset_cons; auto. apply Forall_forall. intros y Hy.
      apply set_insert_In in Hy. destruct Hy as [->|Hy].
      * apply name_cmp_gt_lt; auto.
      * rewrite Forall_forall in Hz. auto.
Qed.

Lemma set_of_list_In y l : In y (set_of_list l) <-> In y l.
Proof.
  induction l as [|x r IH]; simpl; [tauto|]. rewrite set_insert_In, IH. intuition.
Qed.

Lemma set_of_list_sset l : sset (set_of_list l).
Proof. induction l; simpl; [constructor|apply set_insert_sset; auto]. Qed.

Lemma set_union_In y a b : In y (set_union a b) <-> In y a \/ In y b.
Proof. unfold set_union. rewrite set_of_list_In, in_app_iff. tauto. Qed.

Lemma set_union_sset a b : sset (set_union a b).
Proof. apply set_of_list_sset. Qed.

Lemma filter_sset f l : sset l -> sset (filter f l).
Proof.
  induction l as [|x r IH]; simpl; intros H; [constructor|].
  destruct (sset_inv _ _ H) as [Hr Hx]. destruct (f x); auto.
  apply sset_cons; auto. apply Forall_forall. intros y Hy. apply filter_In in Hy.
  rewrite Forall_forall in Hx. apply Hx. tauto.
Qed.

Lemma set_diff_In y a b : In y (set_diff a b) <-> In y a /\ ~ In y b.
Proof.
  unfold set_diff. rewrite filter_In, negb_true_iff, mem_false_In. tauto.
Qed.

Lemma set_diff_sset a b : sset a -> sset (set_diff a b).
Proof. apply filter_sset. Qed.

Lemma sset_NoDup l : sset l -> NoDup l.
Proof.
  induction l as [|x r IH]; intros H; constructor.
  - destruct (sset_inv _ _ H) as [_ Hx]. rewrite Forall_forall in Hx.
    intros Hin. exact (name_lt_irrefl _ (Hx _ Hin)).
  - apply IH. apply (sset_inv _ _ H).
Qed.

(* extensionality: a sorted duplicate-free list is determined by its elements *)
Lemma sset_ext a : forall b, sset a -> sset b -> (forall x, In x a <-> In x b) -> a = b.
Proof.
  induction a as [|x a IH]; intros [|y b] Ha Hb Hext.
  - reflexivity.
  - exfalso. apply (proj2 (Hext y)). left; auto.
  - exfalso. apply (proj1 (Hext x)). left; auto.
  - destruct (sset_inv _ _ Ha) as [Ha' Hx]. destruct (sset_inv _ _ Hb) as [Hb' Hy].
    rewrite Forall_forall in Hx, Hy.
    assert (x = y).
    { destruct (proj1 (Hext x) (or_introl eq_refl)) as [E|Hin]; [auto|].
      destruct (proj2 (Hext y) (or_introl eq_refl)) as [E|Hin']; [auto|].
      exfalso. exact (name_lt_asym _ _ (Hy _ Hin) (Hx _ Hin')). }
    subst y. f_equal. apply IH; auto. intros z. split; intros Hz.
    + destruct (proj1 (Hext z) (or_intror Hz)) as [E|]; auto.
      subst z. exfalso. exact (name_lt_irrefl _ (Hx _ Hz)).
    + destruct (proj2 (Hext z) (or_intror Hz)) as [E|]; auto.
      subst z. exfalso. exact (name_lt_irrefl _ (Hy _ Hz)).
Qed.

Lemma set_of_list_id l : sset l -> set_of_list l = l.
Proof.
  intros H. apply sset_ext; auto using set_of_list_sset. intros x. apply set_of_list_In.
Qed.

(* ---------- maps: association lists (BTreeMap iteration order = list order) ---------- *)

Fixpoint get {X} (m : list (name * X)) (k : name) : option X :=
  match m with
  | [] => None
  | (k', x) :: r => if name_eqb k k' then Some x else get r k
  end.

Definition has {X} (m : list (name * X)) (k : name) : bool :=
  match get m k with Some _ => true | None => false end.

Definition keys {X} (m : list (name * X)) : list name := map fst m.

Lemma get_None_keys {X} (m : list (name * X)) k : get m k = None <-> ~ In k (keys m).
Proof.
  induction m as [|[k' x] r IH]; simpl; [tauto|].
  destruct (name_eqb_spec k k'); [subst; split; [discriminate|intros H; exfalso; auto]|].
  rewrite IH. intuition congruence.
Qed.

Lemma get_Some_In {X} (m : list (name * X)) k x : get m k = Some x -> In (k, x) m.
Proof.
  induction m as [|[k' x'] r IH]; simpl; [discriminate|].
  destruct (name_eqb_spec k k'); [intros [= ->]; subst; auto|auto].
Qed.

Lemma has_keys {X} (m : list (name * X)) k : has m k = true <-> In k (keys m).
Proof.
  unfold has. destruct (get m k) eqn:E.
  - split; auto. intros _. apply get_Some_In in E. apply in_map_iff. exists (k, x). auto.
  - apply get_None_keys in E. split; [discriminate|tauto].
Qed.

(* environments *)
Definition env := name -> bool.
Definition complete (d : bool) (rho : list (name * bool)) : env :=
  fun x => match get rho x with Some b => b | None => d end.
Definition override (v : env) (rho : list (name * bool)) : env :=
  fun x => match get rho x with Some b => b | None => v x end.
Definition upd (v : env) (x : name) (b : bool) : env :=
  fun y => if name_eqb y x then b else v y.
