(* Prelude: result type, small list lemmas shared by the whole development. *)
From Coq Require Export List Bool Arith NArith Lia.
Export ListNotations.

Arguments N.add : simpl never.
Arguments N.sub : simpl never.
Arguments N.mul : simpl never.
Arguments N.pow : simpl never.
Arguments N.eqb : simpl never.
Arguments N.ltb : simpl never.
Arguments N.leb : simpl never.

(* Result of an operation of the library: a value, an error value (the payload is
   a small error code), or a panic (unwrap / expect / assert / explicit panic!). *)
Inductive Res (A : Type) : Type :=
| Ok (a : A)
| Err (code : nat)
| Panic (code : nat).
Arguments Ok {A} a.
Arguments Err {A} code.
Arguments Panic {A} code.

Definition bind {A B} (r : Res A) (f : A -> Res B) : Res B :=
  match r with Ok a => f a | Err c => Err c | Panic c => Panic c end.
Definition rmap {A B} (f : A -> B) (r : Res A) : Res B :=
  match r with Ok a => Ok (f a) | Err c => Err c | Panic c => Panic c end.
Notation "x <- r ;; k" := (bind r (fun x => k)) (at level 61, r at next level, right associativity).

Definition is_ok {A} (r : Res A) : bool := match r with Ok _ => true | _ => false end.

Lemma existsb_map {A B} (f : A -> B) g l : existsb g (map f l) = existsb (fun x => g (f x)) l.
Proof. induction l; simpl; congruence. Qed.
Lemma forallb_map {A B} (f : A -> B) g l : forallb g (map f l) = forallb (fun x => g (f x)) l.
Proof. induction l; simpl; congruence. Qed.

Lemma forallb_ext_in {A} (f g : A -> bool) l :
  (forall x, In x l -> f x = g x) -> forallb f l = forallb g l.
Proof.
  induction l as [|a l IH]; simpl; intros H; [reflexivity|].
  rewrite H by auto. rewrite IH; auto.
Qed.
Lemma existsb_ext_in {A} (f g : A -> bool) l :
  (forall x, In x l -> f x = g x) -> existsb f l = existsb g l.
Proof.
  induction l as [|a l IH]; simpl; intros H; [reflexivity|].
  rewrite H by auto. rewrite IH; auto.
Qed.

Lemma Forall_map_ext {A B} (f g : A -> B) l :
  Forall (fun x => f x = g x) l -> map f l = map g l.
Proof. induction 1; simpl; congruence. Qed.

Lemma negb_forallb {A} (f : A -> bool) l : negb (forallb f l) = existsb (fun x => negb (f x)) l.
Proof. induction l; simpl; [reflexivity|]. rewrite negb_andb. congruence. Qed.
Lemma negb_existsb {A} (f : A -> bool) l : negb (existsb f l) = forallb (fun x => negb (f x)) l.
Proof. induction l; simpl; [reflexivity|]. rewrite negb_orb. congruence. Qed.

(* concat-map, used for n-ary flattening *)
Definition flat_map_list {A B} (f : A -> list B) (l : list A) : list B := concat (map f l).

Lemma In_concat_map {A B} (f : A -> list B) l y :
  In y (concat (map f l)) <-> exists x, In x l /\ In y (f x).
Proof.
  rewrite in_concat. split.
  - intros (ys & Hys & Hy). apply in_map_iff in Hys. destruct Hys as (x & <- & Hx). eauto.
  - intros (x & Hx & Hy). exists (f x). split; [apply in_map; auto|auto].
Qed.

Lemma NoDup_app_intro {A} (l1 l2 : list A) :
  NoDup l1 -> NoDup l2 -> (forall x, In x l1 -> In x l2 -> False) -> NoDup (l1 ++ l2).
Proof.
  induction l1 as [|a l1 IH]; simpl; intros H1 H2 Hd; [auto|].
  inversion H1; subst. constructor.
  - rewrite in_app_iff. intros [?|?]; [auto|]. eapply Hd; eauto.
  - apply IH; auto. intros x ? ?. eapply Hd; eauto.
Qed.
