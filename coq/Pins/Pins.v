(* Pins: the statement of every property theorem, re-checked against the compiled files.
   Weakening a statement in Properties/ makes this file fail. *)
From BBF Require Import Base.Prelude Base.Names Base.Bits Spec.Sem
     Model.Expr Model.Table Proofs.ExprProofs Proofs.TableProofs.
From BBF Require Properties.C02 Properties.C05.

Check C02.C02_expr_default : forall e rho d, eval_default e rho d = sem (complete d rho) e.
Check C02.C02_expr_coincidence : forall e v v', (forall x, In x (literals e) -> v x = v' x) -> sem v e = sem v' e.
Check C02.C02_table_default : forall t rho d, t_eval_default t rho d = tsem t (complete d rho).
Check C05.C05_expr_sem : forall e rho v, sem v (e_restrict e rho) = sem (override v rho) e.
Check C05.C05_expr_inputs : forall e rho, literals (e_restrict e rho) = set_diff (literals e) (keys rho).
Check C05.C05_table_sem : forall t rho v, wf_table t -> tsem (t_restrict t rho) v = tsem t (override v rho).
Check C05.C05_table_inputs : forall t rho, t_inputs (t_restrict t rho) = set_diff (t_inputs t) (keys rho).
Check C05.C05_table_wf : forall t rho, wf_table t -> wf_table (t_restrict t rho).
