(* all pins *)
From BBF Require Pins.Pins_C01 Pins.Pins_C02 Pins.Pins_C03 Pins.Pins_C04 Pins.Pins_C05 Pins.Pins_C06 Pins.Pins_C07 Pins.Pins_C08 Pins.Pins_C09 Pins.Pins_C10 Pins.Pins_C11 Pins.Pins_C12 Pins.Pins_C13 Pins.Pins_C14 Pins.Pins_C15 Pins.Pins_C16 Pins.Pins_C17 Pins.Pins_C18 Pins.Pins_C19 Pins.Pins_C20.
