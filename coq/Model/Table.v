(* Faithful model of src/table (without CSV and rendering): the truth table and its operations.
   Definitions only; proofs are in Proofs/TableProofs.v. *)
From BBF Require Import Base.Prelude Base.Names Base.Bits Model.Expr.

Record table : Type := { t_inputs : list name; t_outputs : list bool }.

Definition t_nvars (t : table) : nat := length (t_inputs t).

(* values_to_row_index_common: the point of `order` under the valuation (default for the
   missing ones) read as a binary number *)
Definition point_of (order : list name) (rho : valuation) (d : bool) : list bool :=
  map (fun x => match get rho x with Some b => b | None => d end) order.
Definition row_index (order : list name) (rho : valuation) (d : bool) : N :=
  point_index (point_of order rho d).

(* outputs[index] *)
Definition t_eval_default (t : table) (rho : valuation) (d : bool) : bool :=
  lookup false (t_outputs t) (point_of (t_inputs t) rho d).
Definition t_evaluate (t : table) (rho : valuation) : bool := t_eval_default t rho false.

(* values_to_row_index_checked walks the inputs in reverse, so the missing inputs come out
   in reverse order *)
Definition t_eval_checked (t : table) (rho : valuation) : bool + list name :=
  match rev (filter (fun x => negb (has rho x)) (t_inputs t)) with
  | [] => inl (t_evaluate t rho)
  | missing => inr missing
  end.

(* building a table by evaluating a function at every point of the domain of `inputs` *)
Definition tabulate (inputs : list name) (f : valuation -> bool) : table :=
  {| t_inputs := inputs; t_outputs := map (fun p => f (combine inputs p)) (points (length inputs)) |}.

Definition t_literals (t : table) : list name := set_of_list (t_inputs t).

Fixpoint names_eqb (a b : list name) : bool :=
  match a, b with
  | [], [] => true
  | x :: r, y :: s => name_eqb x y && names_eqb r s
  | _, _ => false
  end.

Fixpoint zip_with {A B C} (f : A -> B -> C) (a : list A) (b : list B) : list C :=
  match a, b with x :: r, y :: s => f x y :: zip_with f r s | _, _ => [] end.

(* src/table/traits/bit/mod.rs *)
Definition t_bit (op : bool -> bool -> bool) (a b : table) : table :=
  if names_eqb (t_literals a) (t_literals b) then
    {| t_inputs := t_inputs a; t_outputs := zip_with op (t_outputs a) (t_outputs b) |}
  else
    tabulate (set_union (t_literals a) (t_literals b))
             (fun rho => op (t_evaluate a rho) (t_evaluate b rho)).

Definition t_not (a : table) : table :=
  {| t_inputs := t_inputs a; t_outputs := map negb (t_outputs a) |}.
Definition t_and := t_bit andb.
Definition t_or := t_bit orb.
Definition t_xor := t_bit xorb.
Definition t_imply (a b : table) : table := t_or (t_not a) b.
Definition t_iff (a b : table) : table := t_or (t_and a b) (t_and (t_not a) (t_not b)).

(* restrict (D3 repaired): a row is kept iff it agrees with the valuation on every fixed input *)
Fixpoint row_compatible (inputs : list name) (rho : valuation) (p : list bool) : bool :=
  match inputs, p with
  | x :: r, b :: q =>
      match get rho x with Some c => Bool.eqb c b | None => true end && row_compatible r rho q
  | _, _ => true
  end.

Definition t_restrict (t : table) (rho : valuation) : table :=
  {| t_inputs := filter (fun x => negb (has rho x)) (t_inputs t);
     t_outputs := map snd (filter (fun po => row_compatible (t_inputs t) rho (fst po))
                                  (combine (points (t_nvars t)) (t_outputs t))) |}.

(* quantifiers and derivative: one variable at a time (D4/D5 repaired) *)
Definition t_elim (op : table -> table -> table) (t : table) (vars : list name) : table :=
  fold_left (fun acc v => op (t_restrict acc [(v, false)]) (t_restrict acc [(v, true)])) vars t.
Definition t_exists := t_elim t_or.
Definition t_forall := t_elim t_and.
Definition t_derivative := t_elim t_xor.

(* substitute (D7 repaired): evaluate self at the valuation extended by the replacements' values *)
Definition t_substitute (t : table) (m : list (name * table)) : table :=
  let fin := set_union (set_diff (t_literals t) (keys m))
                       (set_of_list (concat (map (fun kv => t_inputs (snd kv)) m))) in
  tabulate fin (fun rho => t_evaluate t (map (fun kv => (fst kv, t_evaluate (snd kv) rho)) m ++ rho)).

Definition t_equiv (a b : table) : bool :=
  forallb (fun rho => Bool.eqb (t_evaluate a rho) (t_evaluate b rho))
          (power_set (set_union (t_literals a) (t_literals b))).
Definition t_implied_by (a b : table) : bool :=
  forallb (fun rho => negb (t_evaluate b rho) || t_evaluate a rho)
          (power_set (set_union (t_literals a) (t_literals b))).

(* essential_inputs: for input number j (from the left) compare every row with the row
   obtained by flipping that coordinate *)
Fixpoint flip_at (j : nat) (p : list bool) : list bool :=
  match p, j with
  | [], _ => []
  | b :: q, O => negb b :: q
  | b :: q, S k => b :: flip_at k q
  end.
Definition t_essential_at (t : table) (j : nat) : bool :=
  existsb (fun p => negb (nth j p false) &&
                    negb (Bool.eqb (lookup false (t_outputs t) p) (lookup false (t_outputs t) (flip_at j p))))
          (points (t_nvars t)).
Definition t_essential (t : table) : list name :=
  set_of_list (map snd (filter (fun jx => t_essential_at t (fst jx))
                               (combine (seq 0 (t_nvars t)) (t_inputs t)))).

(* conversions expression <-> table *)
Definition table_of_expr (e : expr) : table :=
  tabulate (literals e) (fun rho => evaluate e rho).

Definition cell_expr (x : name) (b : bool) : expr := if b then Lit x else Not (Lit x).
Definition stub_value (t : table) : option bool :=
  if Nat.eqb (t_nvars t) 0 then hd_error (t_outputs t) else None.
Definition expr_body (t : table) : expr :=
  let rows := filter (fun po : list bool * bool => snd po) (combine (points (t_nvars t)) (t_outputs t)) in
  if Nat.eqb (length rows) 0 then Const false
  else if Nat.eqb (length rows) (length (t_outputs t)) then Const true
  else Or (map (fun po => And (zip_with cell_expr (t_inputs t) (fst po))) rows).
(* to_expression_trivial *)
Definition expr_of_table (t : table) : expr :=
  match stub_value t with Some o => Const o | None => expr_body t end.

(* iterators *)
Definition t_domain (t : table) : list (list bool) := points (length (t_literals t)).
Definition t_image (t : table) : list bool := t_outputs t.
Definition t_relation (t : table) : list (list bool * bool) :=
  combine (map (fun i => index_point (N.of_nat i) (t_nvars t)) (seq 0 (length (t_outputs t)))) (t_outputs t).
Definition t_support (t : table) : list (list bool) :=
  map fst (filter (fun po => snd po) (t_relation t)).
Definition t_weight (t : table) : N := N.of_nat (length (t_support t)).
Definition t_sat_point (t : table) : option (list bool) := hd_error (t_support t).
Definition t_degree (t : table) : nat := length (t_literals t).
Definition t_essential_degree (t : table) : nat := length (t_essential t).

(* the representation invariant (what C15 names) *)
Definition wf_table (t : table) : Prop :=
  sset (t_inputs t) /\ length (t_outputs t) = 2 ^ length (t_inputs t).

Definition tsem (t : table) (v : env) : bool := lookup false (t_outputs t) (map v (t_inputs t)).
