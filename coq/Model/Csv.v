(* Model of src/table/csv: CSV import (from_csv.rs after the repair of D10), the cell parser
   (utils/string_to_bool.rs) and CSV export (to_csv.rs), together with the part of the csv /
   csv-core crates that the importer uses: ReaderBuilder::new().has_headers(false)
   .delimiter(b',').flexible(false), i.e. quoting with the double quote and doubled-quote escape, no escape
   character, no comments, no trimming, terminator "any of CR, LF, CRLF".
   Text = list of Unicode scalar values (the special bytes are ASCII, so cutting the UTF-8
   bytes and cutting the scalar values agree).  Definitions only; proofs in Proofs/CsvProofs.v. *)
From BBF Require Import Base.Prelude Base.Names Base.Bits Model.Table Model.Render.
From Coq Require Import Sorting.Permutation.

(* ---------- error codes: the variants of TruthTableFromCsvError ---------- *)
Definition E_DuplicateVariableName : nat := 1.
Definition E_UnexpectedEof : nat := 2.
Definition E_RecordDifferentSizeThanHeader : nat := 3.
Definition E_NonBooleanCellValue : nat := 4.
Definition E_NoOutputColumn : nat := 5.
Definition E_MismatchedRecordCountAndVariableCount : nat := 6.
Definition E_NoDelimiterFound : nat := 7.
Definition E_ParsingError : nat := 8.      (* csv::Error, here always UnequalLengths *)
Definition E_IOError : nat := 9.

(* ---------- the record splitter (csv-core's automaton) ---------- *)

Definition c_comma : N := 44%N.
Definition c_quote : N := 34%N.
Definition c_bom : N := 65279%N.

Definition is_term (c : N) : bool := N.eqb c c_lf || N.eqb c c_cr.

(* csv-core states: StartRecord, StartField, InField, InQuotedField, InDoubleEscapedQuote.
   (EndFieldDelim, EndFieldTerm, InRecordTerm, EndRecord are passed through by epsilon moves;
   CRLF behaves as StartRecord: both discard a following LF or CR.) *)
Inductive smode := MRec | MField | MIn | MQuoted | MDQ.

Record sstate := {
  s_mode : smode;
  s_fld : text;              (* current field, reversed *)
  s_rec : list text;         (* fields of the current record, reversed *)
  s_out : list (list text)   (* finished records, reversed *)
}.

Definition s_init : sstate := {| s_mode := MRec; s_fld := []; s_rec := []; s_out := [] |}.

Definition push (st : sstate) (m : smode) (c : N) : sstate :=
  {| s_mode := m; s_fld := c :: s_fld st; s_rec := s_rec st; s_out := s_out st |}.
Definition set_mode (st : sstate) (m : smode) : sstate :=
  {| s_mode := m; s_fld := s_fld st; s_rec := s_rec st; s_out := s_out st |}.
Definition end_field (st : sstate) : sstate :=
  {| s_mode := MField; s_fld := []; s_rec := rev (s_fld st) :: s_rec st; s_out := s_out st |}.
Definition end_record (st : sstate) : sstate :=
  {| s_mode := MRec; s_fld := []; s_rec := []; s_out := rev (rev (s_fld st) :: s_rec st) :: s_out st |}.

(* InField (also the continuation of the other field states on a non-quote character) *)
Definition in_field (st : sstate) (c : N) : sstate :=
  if N.eqb c c_comma then end_field st
  else if is_term c then end_record st
  else push st MIn c.
(* StartField *)
Definition start_field (st : sstate) (c : N) : sstate :=
  if N.eqb c c_quote then set_mode st MQuoted else in_field st c.

Definition sstep (st : sstate) (c : N) : sstate :=
  match s_mode st with
  | MRec => if is_term c then st else start_field st c
  | MField => start_field st c
  | MIn => in_field st c
  | MQuoted => if N.eqb c c_quote then set_mode st MDQ else push st MQuoted c
  | MDQ => if N.eqb c c_quote then push st MQuoted c else in_field st c
  end.

(* end of input: a record that has been started is finished *)
Definition sfinish (st : sstate) : list (list text) :=
  match s_mode st with
  | MRec => rev (s_out st)
  | _ => rev (s_out (end_record st))
  end.

(* a UTF-8 byte order mark at the very start is dropped *)
Definition strip_bom (s : text) : text :=
  match s with c :: r => if N.eqb c c_bom then r else s | [] => [] end.

Definition split_records (s : text) : list (list text) :=
  sfinish (fold_left sstep (strip_bom s) s_init).

(* ---------- cells ---------- *)

Definition false_strings : list text := [w_0; w_F; w_false; w_False].
Definition true_strings : list text := [w_1; w_T; w_true; w_True].

Definition string_to_bool (s : text) : option bool :=
  if existsb (name_eqb s) false_strings then Some false
  else if existsb (name_eqb s) true_strings then Some true
  else None.

(* ALL_BOOL_STRINGS.contains *)
Definition is_bool_string (s : text) : bool :=
  match string_to_bool s with Some _ => true | None => false end.

(* ---------- the importer ---------- *)

(* decimal digits of a number *)
Fixpoint digits_fuel (fuel : nat) (n : N) (acc : text) : text :=
  match fuel with
  | O => acc
  | S f =>
      let acc' := (48 + n mod 10)%N :: acc in
      if (n <? 10)%N then acc' else digits_fuel f (n / 10)%N acc'
  end.
Definition digits (n : N) : text := digits_fuel (S (N.to_nat (N.log2 n))) n [].

(* format!("x_{}", i) *)
Definition x_name (i : nat) : name := [120; 95]%N ++ digits (N.of_nat i).

(* first name that occurs twice (BTreeSet::insert returning false) *)
Fixpoint first_dup (seen : list name) (l : list name) : option name :=
  match l with
  | [] => None
  | x :: r => if mem x seen then Some x else first_dup (x :: seen) r
  end.

(* index of the column that carries variable x *)
Fixpoint column_of (x : name) (cols : list name) : nat :=
  match cols with
  | [] => 0
  | y :: r => if name_eqb x y then 0 else S (column_of x r)
  end.

Definition last_cell (r : list text) : option text :=
  match rev r with [] => None | c :: _ => Some c end.

(* usize::BITS of the platform of the validation: 2_usize.checked_pow(n) is None from 64 on *)
Definition usize_bits : nat := 64.

(* one data record: the point of the variables (in sorted order) and the output *)
Fixpoint parse_cells (r : list text) (cols : list name) (vars : list name) : Res (list bool) :=
  match vars with
  | [] => Ok []
  | x :: vs =>
      match nth_error r (column_of x cols) with
      | None => Err E_RecordDifferentSizeThanHeader
      | Some c =>
          match string_to_bool c with
          | None => Err E_NonBooleanCellValue
          | Some b => rmap (cons b) (parse_cells r cols vs)
          end
      end
  end.

Definition parse_record (w : nat) (cols vars : list name) (r : list text) : Res (list bool * bool) :=
  if negb (Nat.eqb (length r) w) then Err E_ParsingError        (* flexible(false) *)
  else
    p <- parse_cells r cols vars ;;
    match last_cell r with
    | None => Err E_NoOutputColumn
    | Some c =>
        match string_to_bool c with
        | None => Err E_NonBooleanCellValue
        | Some o => Ok (p, o)
        end
    end.

(* records are read one by one; the first failure ends the import *)
Fixpoint parse_records (w : nat) (cols vars : list name) (rs : list (list text)) : Res (list (list bool * bool)) :=
  match rs with
  | [] => Ok []
  | r :: rest =>
      po <- parse_record w cols vars r ;;
      rmap (cons po) (parse_records w cols vars rest)
  end.

Fixpoint bools_eqb (a b : list bool) : bool :=
  match a, b with
  | [], [] => true
  | x :: r, y :: s => Bool.eqb x y && bools_eqb r s
  | _, _ => false
  end.

Fixpoint has_dup (l : list (list bool)) : bool :=
  match l with
  | [] => false
  | p :: r => existsb (bools_eqb p) r || has_dup r
  end.

(* the output stored for a point: BTreeMap::insert, the last record wins *)
Fixpoint output_at (p : list bool) (rows : list (list bool * bool)) (d : bool) : bool :=
  match rows with
  | [] => d
  | (q, o) :: r => output_at p r (if bools_eqb p q then o else d)
  end.

Definition header_and_data (rs : list (list text)) : Res (bool * list text * list (list text)) :=
  match rs with
  | [] => Err E_UnexpectedEof
  | first :: rest =>
      match last_cell first with
      | None => Err E_NoOutputColumn
      | Some c => Ok (negb (is_bool_string c), first, rest)
      end
  end.

(* from_csv_common on the records the reader delivers *)
Definition import_records (rs : list (list text)) : Res table :=
  hfr <- header_and_data rs ;;
  let '(is_header, first, rest) := hfr in
  let w := length first in
  cols <- (if is_header then
             let names := removelast first in
             match first_dup [] names with
             | Some _ => Err E_DuplicateVariableName
             | None => Ok names
             end
           else Ok (map x_name (seq 0 (w - 1)))) ;;
  let vars := set_of_list cols in
  let n := length vars in
  rows <- parse_records w cols vars (if is_header then rest else first :: rest) ;;
  if Nat.leb usize_bits n then Err E_MismatchedRecordCountAndVariableCount
  else if negb (N.eqb (N.of_nat (length rows)) (2 ^ N.of_nat n)) then Err E_MismatchedRecordCountAndVariableCount
  else if has_dup (map fst rows) then Err E_MismatchedRecordCountAndVariableCount
  else Ok {| t_inputs := vars; t_outputs := map (fun p => output_at p rows false) (points n) |}.

Definition empty_table : table := {| t_inputs := []; t_outputs := [] |}.

Definition from_csv_string (s : text) : Res table :=
  match s with
  | [] => Ok empty_table
  | _ => import_records (split_records s)
  end.

(* the file entry point on a file whose content is the UTF-8 encoding of s: the same test for
   emptiness (no byte buffered), the same reader *)
Definition from_csv_file (s : text) : Res table :=
  if Nat.eqb (length s) 0 then Ok empty_table else import_records (split_records s).

(* ---------- export ---------- *)

Definition t_is_empty (t : table) : bool :=
  match t_inputs t, t_outputs t with [], [] => true | _, _ => false end.

Definition to_csv_formatted (delimiter : N) (fi fo : bfmt) (t : table) : text :=
  if t_is_empty t then []
  else
    (* format!("{header}\n{rows}"), rows joined with LF *)
    tjoin [delimiter] (header_row t) ++ [c_lf]
    ++ tjoin [c_lf] (map (fun po => tjoin [delimiter] (record_row fi fo po)) (t_relation t)).

Definition to_csv (t : table) : text := to_csv_formatted c_comma FNumber FNumber t.

(* ====================================================================================
   Specification vocabulary (used to state C16 and C17; not part of the model of the code)
   ==================================================================================== *)

(* ---------- what a list of records describes (specification vocabulary of C16) ---------- *)

(* the first record is a header iff its last cell is not a Boolean spelling *)
Definition csv_has_header (rs : list (list text)) : bool :=
  match rs with
  | first :: _ => match last_cell first with Some c => negb (is_bool_string c) | None => false end
  | [] => false
  end.
(* the names of the input columns, in column order *)
Definition csv_columns (rs : list (list text)) : list name :=
  match rs with
  | first :: _ => if csv_has_header rs then removelast first else map x_name (seq 0 (length first - 1))
  | [] => []
  end.
Definition csv_data (rs : list (list text)) : list (list text) :=
  match rs with
  | first :: rest => if csv_has_header rs then rest else rs
  | [] => []
  end.
Definition csv_width (rs : list (list text)) : nat := length (hd [] rs).

(* the cell of record r in the column named x *)
Definition cell_of (cols : list name) (r : list text) (x : name) : text := nth (column_of x cols) r [].
(* the valuation a record gives to the column names *)
Definition record_env (cols : list name) (r : list text) : env :=
  fun x => match string_to_bool (cell_of cols r x) with Some b => b | None => false end.
Definition record_output (r : list text) : option bool :=
  match last_cell r with Some c => string_to_bool c | None => None end.
(* the input combination of a record, over the sorted variables *)
Definition record_point (cols vars : list name) (r : list text) : list bool := map (record_env cols r) vars.

(* ---------- the acceptance criterion: the records describe a complete, unambiguous table ---------- *)

Definition describes_table (rs : list (list text)) : Prop :=
  let cols := csv_columns rs in
  let vars := set_of_list cols in
  NoDup cols /\
  (forall r, In r (csv_data rs) ->
     length r = csv_width rs /\
     Forall (fun x => exists b, string_to_bool (cell_of cols r x) = Some b) vars /\
     record_output r <> None) /\
  Permutation (map (record_point cols vars) (csv_data rs)) (points (length vars)).

(* cells that need no quoting *)
Definition plainb (c : N) : bool := negb (N.eqb c c_comma) && negb (N.eqb c c_quote) && negb (is_term c).
Definition plain_cell (s : text) : Prop := forallb plainb s = true.

(* the names need no quoting, and the text does not start with a byte order mark *)
Definition csv_safe (t : table) : bool :=
  forallb (forallb plainb) (t_inputs t)
  && match t_inputs t with (c :: _) :: _ => negb (N.eqb c c_bom) | _ => true end.

