(* Abstract model of biodivine-lib-bdd: a diagram is represented by its canonical unfolding,
   an ordered reduced decision tree.  lib-bdd itself is NOT verified; this file states what
   the wrapper relies on, in executable form, and Proofs/DdProofs.v shows that these
   definitions are a sound and canonical stand-in.  The correspondence check compares the
   unfolding of every real node array with these trees. *)
From BBF Require Import Base.Prelude.

Inductive dd : Type := Leaf (b : bool) | Node (v : nat) (lo hi : dd).

Fixpoint dd_eqb (a b : dd) : bool :=
  match a, b with
  | Leaf x, Leaf y => Bool.eqb x y
  | Node v l h, Node v' l' h' => Nat.eqb v v' && dd_eqb l l' && dd_eqb h h'
  | _, _ => false
  end.

Definition mk (v : nat) (lo hi : dd) : dd := if dd_eqb lo hi then lo else Node v lo hi.

Fixpoint dd_eval (t : dd) (p : nat -> bool) : bool :=
  match t with Leaf b => b | Node v lo hi => if p v then dd_eval hi p else dd_eval lo p end.

Section Apply.
  Variable op : bool -> bool -> bool.
  Fixpoint dd_apply (a : dd) : dd -> dd :=
    fix inner (b : dd) : dd :=
      match a, b with
      | Leaf x, Leaf y => Leaf (op x y)
      | Leaf _, Node w bl bh => mk w (inner bl) (inner bh)
      | Node v al ah, Leaf _ => mk v (dd_apply al b) (dd_apply ah b)
      | Node v al ah, Node w bl bh =>
          match Nat.compare v w with
          | Lt => mk v (dd_apply al b) (dd_apply ah b)
          | Gt => mk w (inner bl) (inner bh)
          | Eq => mk v (dd_apply al bl) (dd_apply ah bh)
          end
      end.
End Apply.

Fixpoint dd_not (t : dd) : dd :=
  match t with Leaf b => Leaf (negb b) | Node v lo hi => Node v (dd_not lo) (dd_not hi) end.

Definition dd_and := dd_apply andb.
Definition dd_or := dd_apply orb.
Definition dd_xor := dd_apply xorb.
Definition dd_imp := dd_apply implb.
Definition dd_iff := dd_apply Bool.eqb.
Definition dd_ite (g a b : dd) : dd := dd_or (dd_and g a) (dd_and (dd_not g) b).

Definition dd_var (i : nat) : dd := Node i (Leaf false) (Leaf true).
Definition dd_literal (i : nat) (b : bool) : dd :=
  if b then Node i (Leaf false) (Leaf true) else Node i (Leaf true) (Leaf false).

(* var_restrict *)
Fixpoint dd_restrict1 (x : nat) (b : bool) (t : dd) : dd :=
  match t with
  | Leaf _ => t
  | Node v lo hi =>
      if Nat.eqb v x then (if b then hi else lo)
      else mk v (dd_restrict1 x b lo) (dd_restrict1 x b hi)
  end.
Definition dd_restrict (xs : list (nat * bool)) (t : dd) : dd :=
  fold_left (fun acc xb => dd_restrict1 (fst xb) (snd xb) acc) xs t.
Definition dd_exists1 (x : nat) (t : dd) : dd := dd_or (dd_restrict1 x false t) (dd_restrict1 x true t).
Definition dd_forall1 (x : nat) (t : dd) : dd := dd_and (dd_restrict1 x false t) (dd_restrict1 x true t).
Definition dd_exists (xs : list nat) (t : dd) : dd := fold_left (fun acc x => dd_exists1 x acc) xs t.
Definition dd_forall (xs : list nat) (t : dd) : dd := fold_left (fun acc x => dd_forall1 x acc) xs t.

(* support_set, as a strictly increasing list *)
Fixpoint nat_insert (x : nat) (l : list nat) : list nat :=
  match l with
  | [] => [x]
  | y :: r => match Nat.compare x y with Lt => x :: l | Eq => l | Gt => y :: nat_insert x r end
  end.
Fixpoint nat_union (a b : list nat) : list nat :=
  match a with [] => b | x :: r => nat_insert x (nat_union r b) end.
Fixpoint dd_support (t : dd) : list nat :=
  match t with
  | Leaf _ => []
  | Node v lo hi => nat_insert v (nat_union (dd_support lo) (dd_support hi))
  end.

Fixpoint nat_get (m : list (nat * nat)) (k : nat) : option nat :=
  match m with [] => None | (k', x) :: r => if Nat.eqb k k' then Some x else nat_get r k end.

Fixpoint increasing (l : list nat) : bool :=
  match l with
  | x :: ((y :: _) as r) => Nat.ltb x y && increasing r
  | _ => true
  end.

Fixpoint dd_map_vars (f : nat -> nat) (t : dd) : dd :=
  match t with Leaf b => t | Node v lo hi => Node (f v) (dd_map_vars f lo) (dd_map_vars f hi) end.

(* unsafe rename_variables with its two assertions (panic code 10 / 11) *)
Definition dd_rename (nv : nat) (perm : list (nat * nat)) (t : dd) : Res dd :=
  let f := fun v => match nat_get perm v with Some w => w | None => v end in
  match dd_support t with
  | [] => Ok t
  | sup =>
      let after := map f sup in
      if negb (forallb (fun v => Nat.ltb v nv) after) then Panic 10
      else if negb (increasing after) then Panic 11
      else Ok (dd_map_vars f t)
  end.

(* unsafe set_num_vars with its check (panic code 12) *)
Definition dd_set_num_vars (k : nat) (t : dd) : Res dd :=
  if forallb (fun v => Nat.ltb v k) (dd_support t) then Ok t else Panic 12.

(* number of satisfying valuations over variables [from, nv) *)
Fixpoint dd_count_from (from nv : nat) (t : dd) : N :=
  match t with
  | Leaf b => if b then (2 ^ N.of_nat (nv - from))%N else 0%N
  | Node v lo hi =>
      (2 ^ N.of_nat (v - from) * (dd_count_from (S v) nv lo + dd_count_from (S v) nv hi))%N
  end.
Definition dd_count (nv : nat) (t : dd) : N := dd_count_from 0 nv t.

(* all paths to the terminal 1, as partial valuations (an instance of a DNF of the function) *)
Fixpoint dd_paths (t : dd) : list (list (nat * bool)) :=
  match t with
  | Leaf true => [[]]
  | Leaf false => []
  | Node v lo hi => map (cons (v, false)) (dd_paths lo) ++ map (cons (v, true)) (dd_paths hi)
  end.

(* the conjunction of literals given by a full point, variables i, i+1, ... *)
Fixpoint dd_cube (i : nat) (p : list bool) : dd :=
  match p with
  | [] => Leaf true
  | true :: r => Node i (Leaf false) (dd_cube (S i) r)
  | false :: r => Node i (dd_cube (S i) r) (Leaf false)
  end.
Definition dd_of_points (pts : list (list bool)) : dd :=
  fold_left (fun acc p => dd_or acc (dd_cube 0 p)) pts (Leaf false).

(* size(): both terminals are stored except for the constant false; decision nodes are shared *)
Fixpoint dd_subtrees (t : dd) (acc : list dd) : list dd :=
  match t with
  | Leaf _ => acc
  | Node v lo hi =>
      if existsb (dd_eqb t) acc then acc
      else t :: dd_subtrees hi (dd_subtrees lo acc)
  end.
Definition dd_size (t : dd) : nat :=
  match t with
  | Leaf false => 1
  | Leaf true => 2
  | _ => 2 + length (dd_subtrees t [])
  end.

(* well-formedness of a tree: ordered, reduced, variables below nv *)
Fixpoint ordered_from (k : nat) (t : dd) : Prop :=
  match t with
  | Leaf _ => True
  | Node v lo hi => k <= v /\ ordered_from (S v) lo /\ ordered_from (S v) hi
  end.
Fixpoint reduced (t : dd) : Prop :=
  match t with Leaf _ => True | Node _ lo hi => lo <> hi /\ reduced lo /\ reduced hi end.
Fixpoint bounded (nv : nat) (t : dd) : Prop :=
  match t with Leaf _ => True | Node v lo hi => v < nv /\ bounded nv lo /\ bounded nv hi end.
Definition robdd (nv : nat) (t : dd) : Prop := ordered_from 0 t /\ reduced t /\ bounded nv t.
