(* The case language as executed through the Python classes: every instruction forwards to the Rust
   operation of the same name (Model/Prog.v: exec); a Rust error becomes the exception class the
   binding source maps it to, a Rust panic becomes PyO3's PanicException. The observations of the
   Python objects are those of the Rust objects (the wrappers hold the Rust value). *)
From BBF Require Import Base.Prelude Base.Names Base.Bits Spec.Sem
     Model.Expr Model.Table Model.LibBdd Model.Bdd Model.Lexer Model.Parser Model.Display Model.Render Model.Csv
     Model.Prog Model.Py.

Inductive pyres : Type := PyOk (e : entry) | PyRaise (x : pyexc) | PyNa.

(* src/table/csv/error.rs maps the import errors one by one; every other error (parse errors,
   conversion errors) is a RuntimeError: src/parser/error.rs, src/bindings/error.rs *)
Definition exc_of_instr (i : instr) (code : nat) : pyexc :=
  match i with ICsvIn _ _ => exc_of_csv code | _ => RuntimeError end.

Definition py_exec (p : pool) (i : instr) : pyres :=
  match exec p i with
  | Ok e => PyOk e
  | Err c => if Nat.eqb c 90 then PyNa else PyRaise (exc_of_instr i c)
  | Panic _ => PyRaise PanicException
  end.

Definition py_step (p : pool) (i : instr) : pool :=
  p ++ [match py_exec p i with PyOk e => Some e | _ => None end].
Definition py_run (is : list instr) : pool := fold_left py_step is [].

(* checked evaluation of any of the three classes: the list of missing names becomes a KeyError *)
Definition py_eval_checked (o : obj) (rho : valuation) : bool + pyexc :=
  match obj_eval_checked o rho with inl b => inl b | inr _ => inr KeyError end.

(* a file that does not exist: the io::Error passes through as IOError *)
Definition exc_of_missing_file : pyexc := exc_of_csv E_IOError.
