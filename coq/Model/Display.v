(* Faithful model of Display for Expression<String> (src/expressions/traits/display.rs):
   Constant -> "true" / "false"; Literal -> the name as it is; Not(e) -> "!(" e ")";
   And / Or -> "(" operands joined by " & " / " | " ")"  (so an empty node prints "()" and a
   one-operand node prints "(" e ")"). *)
From BBF Require Import Base.Prelude Base.Names Model.Expr Model.Lexer.

Fixpoint join (sep : list N) (l : list (list N)) : list N :=
  match l with
  | [] => []
  | [x] => x
  | x :: r => x ++ sep ++ join sep r
  end.

Definition s_true : list N := [116; 114; 117; 101]%N.
Definition s_false : list N := [102; 97; 108; 115; 101]%N.
Definition s_and_sep : list N := [32; 38; 32]%N.
Definition s_or_sep : list N := [32; 124; 32]%N.
Definition c_lpar : N := 40%N.
Definition c_rpar : N := 41%N.
Definition c_bang : N := 33%N.

Fixpoint display (e : expr) : list N :=
  match e with
  | Const true => s_true
  | Const false => s_false
  | Lit x => x
  | Not e => c_bang :: c_lpar :: display e ++ [c_rpar]
  | And es => c_lpar :: join s_and_sep (map display es) ++ [c_rpar]
  | Or es => c_lpar :: join s_or_sep (map display es) ++ [c_rpar]
  end.
