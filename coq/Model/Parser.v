(* Faithful executable model of src/parser/parse.rs and of FromStr for Expression<String>
   (src/expressions/traits/parse.rs).  Definitions only.

   The code: priority_0_parse_or splits the slice at every `Or` token and parses each group
   with priority_1_parse_and, which splits at every `And` token and parses each group with
   priority_2_terminal: empty group -> EmptySideOfOperator; leading `Not` -> Not of the rest;
   more than one token -> UnexpectedLiteralsGroup; one token -> constant / literal /
   parse_tokens of the content of a parenthesised group (any other token: unreachable!()).
   One result is returned as it is, several are wrapped in one n-ary Or / And node.

   Recursion: the only recursive call that leaves the current slice is the one on the
   content of a `Parentheses` token.  The model evaluates it when the token is converted
   (`item_of`, structural recursion on the token); the value is looked at exactly where the
   code makes the call, so the first error in the code's order is the one returned.  The
   lemmas `parse_tokens_eq`, `terminal_parens` in Proofs/ParserProofs.v restate the code's
   own recursive equations for this definition. *)
From BBF Require Import Base.Prelude Base.Names Model.Expr Model.Lexer.

Inductive parse_tokens_error : Type := EmptySideOfOperator | UnexpectedLiteralsGroup.

Inductive pres : Type :=
| POk (e : expr)
| PErr (e : parse_tokens_error)
| PPanic.                         (* unreachable!() in priority_2_terminal: proved impossible *)

(* a token whose parenthesised content is already replaced by the result of parse_tokens on it *)
Inductive item : Type := IAnd | IOr | INot | IAtom (r : pres).

Definition is_iand (i : item) : bool := match i with IAnd => true | _ => false end.
Definition is_ior (i : item) : bool := match i with IOr => true | _ => false end.

(* slice::split: n separators give n+1 groups, possibly empty *)
Fixpoint split_on {A} (p : A -> bool) (l : list A) : list (list A) :=
  match l with
  | [] => [[]]
  | x :: r =>
      if p x then [] :: split_on p r
      else match split_on p r with
           | g :: gs => (x :: g) :: gs
           | [] => [[x]]
           end
  end.

(* `for group in groups { es.push(f(group)?) }` *)
Fixpoint collect (rs : list pres) : list expr + pres :=
  match rs with
  | [] => inl []
  | POk e :: rs' => match collect rs' with inl es => inl (e :: es) | inr x => inr x end
  | x :: _ => inr x
  end.

Fixpoint terminal (d : list item) : pres :=
  match d with
  | [] => PErr EmptySideOfOperator
  | INot :: r => match terminal r with POk e => POk (Not e) | x => x end
  | _ :: _ :: _ => PErr UnexpectedLiteralsGroup
  | [IAtom r] => r
  | [_] => PPanic
  end.

Definition nary (mk : list expr -> expr) (es : list expr) : pres :=
  match es with
  | [] => PErr EmptySideOfOperator
  | [e] => POk e
  | _ => POk (mk es)
  end.

Definition parse_and (d : list item) : pres :=
  match collect (map terminal (split_on is_iand d)) with
  | inl es => nary And es
  | inr x => x
  end.

Definition parse_or (d : list item) : pres :=
  match collect (map parse_and (split_on is_ior d)) with
  | inl es => nary Or es
  | inr x => x
  end.

Fixpoint item_of (t : token) : item :=
  match t with
  | TAnd => IAnd
  | TOr => IOr
  | TNot => INot
  | TTrue => IAtom (POk (Const true))
  | TFalse => IAtom (POk (Const false))
  | TLit x => IAtom (POk (Lit x))
  | TParens inner => IAtom (parse_or (map item_of inner))
  end.

Definition parse_tokens (ts : list token) : pres := parse_or (map item_of ts).

(* ---------- FromStr ---------- *)
Inductive parse_result : Type :=
| ParsedOk (e : expr)
| TokenizingError (e : tokenize_error)
| ParsingError (e : parse_tokens_error)
| ParsePanic (code : nat).         (* 1 = fuel of the tokenizer model, 2 = unreachable!() *)

Definition from_str_fuel (fuel : nat) (s : list N) : parse_result :=
  match tokenize_fuel fuel s with
  | TokOk toks => match parse_tokens toks with
                  | POk e => ParsedOk e
                  | PErr x => ParsingError x
                  | PPanic => ParsePanic 2
                  end
  | TokErr x => TokenizingError x
  | TokFuel => ParsePanic 1
  end.

Definition from_str_full (s : list N) : parse_result := from_str_fuel (S (length s)) s.

(* the same with the small error codes of `Res`: 1..7 TokenizeError variants in the order of
   their declaration, 11 EmptySideOfOperator, 12 UnexpectedLiteralsGroup *)
Definition tokenize_error_code (e : tokenize_error) : nat :=
  match e with
  | UnexpectedClosingParenthesis _ => 1
  | MissingClosingParenthesis _ => 2
  | UnexpectedClosingCurlyBrace _ => 3
  | MissingClosingCurlyBrace _ => 4
  | EmptyLiteralName _ => 5
  | UnknownSymbolError _ => 6
  | UnexpectedWhitespace => 7
  end.

Definition res_of_parse (r : parse_result) : Res expr :=
  match r with
  | ParsedOk e => Ok e
  | TokenizingError x => Err (tokenize_error_code x)
  | ParsingError EmptySideOfOperator => Err 11
  | ParsingError UnexpectedLiteralsGroup => Err 12
  | ParsePanic c => Panic c
  end.

Definition from_str (s : list N) : Res expr := res_of_parse (from_str_full s).
