(* The case language: instructions over a pool of objects of the three representations,
   interpreted by the faithful model and, side by side, by the specification. *)
From BBF Require Import Base.Prelude Base.Names Base.Bits Spec.Sem
     Model.Expr Model.Table Model.LibBdd Model.Bdd Model.Lexer Model.Parser Model.Display Model.Render Model.Csv.

Inductive obj : Type := OE (e : expr) | OT (t : table) | OB (b : bdd).

(* opaque: the structure of the object is not determined by the model (it descends from a
   diagram -> expression conversion, whose clause list is lib-bdd's heuristic) *)
Record entry : Type := { e_obj : obj; e_spec : bf; e_opaque : bool }.
Definition pool := list (option entry).

Inductive okind := KE | KT | KB.
Inductive op1 := ONot | ONnf | OCnf | ODnf.
Inductive op2 := OAnd | OOr | OXor | OImply | OIff.
Inductive quant := QExists | QForall | QDeriv.

Inductive instr : Type :=
| IExpr (e : expr)
| IOp1 (o : op1) (r : nat)
| IOp2 (o : op2) (r1 r2 : nat)
| IConv (k : okind) (r : nat)
| IRestrict (r : nat) (rho : valuation)
| IQuant (q : quant) (r : nat) (vars : list name)
| ISubst (r : nat) (m : list (name * nat))
| IMkConst (k : okind) (b : bool)
| IMkLiteral (k : okind) (x : name) (b : bool)
| INary (cj : bool) (rs : list nat)
| IBinary (cj : bool) (r1 r2 : nat)
| INegate (r : nat)
| IParse (s : list N)
| ICsvIn (file : bool) (s : list N).

Definition debug_build := true.   (* the harness is built with debug assertions *)

Definition reg (p : pool) (r : nat) : option entry :=
  match nth_error p r with Some (Some e) => Some e | _ => None end.

Definition obj_inputs (o : obj) : list name :=
  match o with OE e => literals e | OT t => t_literals t | OB b => b_literals b end.
Definition obj_kind (o : obj) : okind := match o with OE _ => KE | OT _ => KT | OB _ => KB end.

Definition bool_op (o : op2) : bool -> bool -> bool :=
  match o with OAnd => andb | OOr => orb | OXor => xorb | OImply => implb | OIff => Bool.eqb end.
Definition dd_op (o : op2) : dd -> dd -> dd :=
  match o with OAnd => dd_and | OOr => dd_or | OXor => dd_xor | OImply => dd_imp | OIff => dd_iff end.
Definition quant_op (q : quant) : bool -> bool -> bool :=
  match q with QExists => orb | QForall => andb | QDeriv => xorb end.

(* code 90: the instruction does not apply to these operands (generator error, not a library result) *)
Definition na {A} : Res A := Err 90.

Definition exec_op1 (o : op1) (x : obj) : Res obj :=
  match o, x with
  | ONot, OE e => Ok (OE (e_not e))
  | ONot, OT t => Ok (OT (t_not t))
  | ONot, OB b => Ok (OB (b_not b))
  | ONnf, OE e => Ok (OE (to_nnf e))
  | OCnf, OE e => Ok (OE (to_cnf e))
  | ODnf, OE e => Ok (OE (to_dnf e))
  | _, _ => na
  end.

Definition exec_op2 (o : op2) (x y : obj) : Res obj :=
  match x, y with
  | OE a, OE b =>
      Ok (OE (match o with OAnd => e_and a b | OOr => e_or a b | OXor => e_xor a b
                      | OImply => e_imply a b | OIff => e_iff a b end))
  | OT a, OT b =>
      Ok (OT (match o with OAnd => t_and a b | OOr => t_or a b | OXor => t_xor a b
                      | OImply => t_imply a b | OIff => t_iff a b end))
  | OB a, OB b => rmap OB (b_bit debug_build (dd_op o) a b)
  | _, _ => na
  end.

Definition exec_conv (k : okind) (x : obj) : Res obj :=
  match k, x with
  | KE, OE e => Ok (OE e)
  | KT, OT t => Ok (OT t)
  | KB, OB b => Ok (OB b)
  | KT, OE e => Ok (OT (table_of_expr e))
  | KB, OE e => rmap OB (bdd_of_expr e)
  | KE, OT t => Ok (OE (expr_of_table t))
  | KB, OT t => rmap OB (bdd_of_table t)
  | KE, OB b => rmap OE (expr_of_bdd b)
  | KT, OB b => Ok (OT (table_of_bdd b))
  end.

Definition exec_restrict (x : obj) (rho : valuation) : Res obj :=
  match x with
  | OE e => Ok (OE (e_restrict e rho))
  | OT t => Ok (OT (t_restrict t rho))
  | OB b => rmap OB (b_restrict debug_build b rho)
  end.

Definition exec_quant (q : quant) (x : obj) (vars : list name) : Res obj :=
  match x with
  | OE e => Ok (OE (match q with QExists => e_exists e vars | QForall => e_forall e vars
                            | QDeriv => e_derivative e vars end))
  | OT t => Ok (OT (match q with QExists => t_exists t vars | QForall => t_forall t vars
                            | QDeriv => t_derivative t vars end))
  | OB b => rmap OB (match q with QExists => b_exists debug_build b vars
                             | QForall => b_forall debug_build b vars
                             | QDeriv => b_derivative debug_build b vars end)
  end.

Fixpoint all_exprs (m : list (name * obj)) : option (list (name * expr)) :=
  match m with
  | [] => Some []
  | (k, OE e) :: r => option_map (cons (k, e)) (all_exprs r)
  | _ => None
  end.
Fixpoint all_tables (m : list (name * obj)) : option (list (name * table)) :=
  match m with
  | [] => Some []
  | (k, OT e) :: r => option_map (cons (k, e)) (all_tables r)
  | _ => None
  end.
Fixpoint all_bdds (m : list (name * obj)) : option (list (name * bdd)) :=
  match m with
  | [] => Some []
  | (k, OB e) :: r => option_map (cons (k, e)) (all_bdds r)
  | _ => None
  end.

Definition exec_subst (x : obj) (m : list (name * obj)) : Res obj :=
  match x with
  | OE e => match all_exprs m with Some m' => Ok (OE (e_substitute e m')) | None => na end
  | OT t => match all_tables m with Some m' => Ok (OT (t_substitute t m')) | None => na end
  | OB b => match all_bdds m with Some m' => rmap OB (b_substitute debug_build b m') | None => na end
  end.

Fixpoint regs {A} (p : pool) (f : entry -> A) (rs : list nat) : option (list A) :=
  match rs with
  | [] => Some []
  | r :: rest => match reg p r, regs p f rest with
                 | Some e, Some l => Some (f e :: l)
                 | _, _ => None
                 end
  end.
Fixpoint named_regs {A} (p : pool) (f : entry -> A) (m : list (name * nat)) : option (list (name * A)) :=
  match m with
  | [] => Some []
  | (k, r) :: rest => match reg p r, named_regs p f rest with
                      | Some e, Some l => Some ((k, f e) :: l)
                      | _, _ => None
                      end
  end.

Definition as_expr (o : obj) : option expr := match o with OE e => Some e | _ => None end.
Fixpoint exprs_of (l : list obj) : option (list expr) :=
  match l with
  | [] => Some []
  | OE e :: r => option_map (cons e) (exprs_of r)
  | _ => None
  end.

(* the specification of the same instruction *)
Definition spec_op2 (o : op2) (f g : bf) : bf := spec_bin (bool_op o) f g.

Definition subst_ins (k : okind) (x : obj) (f : bf) (m : list (name * bf)) : list name :=
  match k with
  | KB => (* keys that are not inputs of the diagram are skipped altogether *)
      let m1 := filter (fun kg => mem (fst kg) (ins f)) m in
      set_union (set_diff (ins f) (keys m1)) (set_of_list (concat (map (fun kg => ins (snd kg)) m1)))
  | _ => set_union (set_diff (ins f) (keys m)) (set_of_list (concat (map (fun kg => ins (snd kg)) m)))
  end.

Definition some_opaque (l : list entry) : bool := existsb e_opaque l.

Definition exec (p : pool) (i : instr) : Res entry :=
  match i with
  | IExpr e => Ok {| e_obj := OE e; e_spec := {| ins := literals e; fn := fun v => sem v e |}; e_opaque := false |}
  | IOp1 o r =>
      match reg p r with
      | None => na
      | Some x =>
          o' <- exec_op1 o (e_obj x) ;;
          Ok {| e_obj := o';
                e_spec := match o with ONot => spec_not (e_spec x) | _ => e_spec x end;
                e_opaque := e_opaque x |}
      end
  | IOp2 o r1 r2 =>
      match reg p r1, reg p r2 with
      | Some x, Some y =>
          o' <- exec_op2 o (e_obj x) (e_obj y) ;;
          Ok {| e_obj := o'; e_spec := spec_op2 o (e_spec x) (e_spec y);
                e_opaque := e_opaque x || e_opaque y |}
      | _, _ => na
      end
  | IConv k r =>
      match reg p r with
      | None => na
      | Some x =>
          o' <- exec_conv k (e_obj x) ;;
          Ok {| e_obj := o';
                e_spec := {| ins := match k, e_obj x with
                                    | KE, _ => ins (e_spec x)
                                    | _, OE e => literals e
                                    | _, _ => ins (e_spec x)
                                    end;
                             fn := fn (e_spec x) |};
                e_opaque := match k, e_obj x with
                            | KE, OB _ => true
                            | KE, _ => e_opaque x
                            | _, _ => false
                            end |}
      end
  | IRestrict r rho =>
      match reg p r with
      | None => na
      | Some x =>
          o' <- exec_restrict (e_obj x) rho ;;
          Ok {| e_obj := o'; e_spec := spec_restrict (e_spec x) rho; e_opaque := e_opaque x |}
      end
  | IQuant q r vars =>
      match reg p r with
      | None => na
      | Some x =>
          o' <- exec_quant q (e_obj x) vars ;;
          Ok {| e_obj := o'; e_spec := spec_elim (quant_op q) (e_spec x) vars; e_opaque := e_opaque x |}
      end
  | ISubst r m =>
      match reg p r, named_regs p (fun e => e) m with
      | Some x, Some me =>
          o' <- exec_subst (e_obj x) (map (fun ke => (fst ke, e_obj (snd ke))) me) ;;
          let ms := map (fun ke => (fst ke, e_spec (snd ke))) me in
          Ok {| e_obj := o';
                e_spec := {| ins := subst_ins (obj_kind (e_obj x)) (e_obj x) (e_spec x) ms;
                             fn := fn (spec_subst (e_spec x) ms) |};
                e_opaque := e_opaque x || some_opaque (map snd me) |}
      | _, _ => na
      end
  | IMkConst k b =>
      match k with
      | KE => Ok {| e_obj := OE (Const b); e_spec := spec_const b; e_opaque := false |}
      | KB => Ok {| e_obj := OB (mk_const b); e_spec := spec_const b; e_opaque := false |}
      | KT => na
      end
  | IMkLiteral k x b =>
      let s := if b then spec_var x else spec_not (spec_var x) in
      match k with
      | KE => Ok {| e_obj := OE (if b then Lit x else Not (Lit x)); e_spec := s; e_opaque := false |}
      | KB => Ok {| e_obj := OB (mk_literal x b); e_spec := s; e_opaque := false |}
      | KT => na
      end
  | INary cj rs =>
      match regs p (fun e => e) rs with
      | None => na
      | Some es =>
          match exprs_of (map e_obj es) with
          | None => na
          | Some xs =>
              Ok {| e_obj := OE (if cj then And xs else Or xs);
                    e_spec := fold_left (fun acc e => spec_bin (if cj then andb else orb) acc (e_spec e)) es
                                        (spec_const cj);
                    e_opaque := some_opaque es |}
          end
      end
  | IBinary cj r1 r2 =>
      match reg p r1, reg p r2 with
      | Some x, Some y =>
          match e_obj x, e_obj y with
          | OE a, OE b =>
              Ok {| e_obj := OE (if cj then And [a; b] else Or [a; b]);
                    e_spec := spec_bin (if cj then andb else orb) (e_spec x) (e_spec y);
                    e_opaque := e_opaque x || e_opaque y |}
          | _, _ => na
          end
      | _, _ => na
      end
  | ICsvIn file s =>
      t <- (if file then from_csv_file s else from_csv_string s) ;;
      Ok {| e_obj := OT t; e_spec := {| ins := t_inputs t; fn := tsem t |}; e_opaque := false |}
  | IParse s =>
      e <- from_str s ;;
      Ok {| e_obj := OE e; e_spec := {| ins := literals e; fn := fun v => sem v e |}; e_opaque := false |}
  | INegate r =>
      match reg p r with
      | Some x => match e_obj x with
                  | OE a => Ok {| e_obj := OE (Not a); e_spec := spec_not (e_spec x); e_opaque := e_opaque x |}
                  | _ => na
                  end
      | None => na
      end
  end.

Definition step (p : pool) (i : instr) : pool :=
  p ++ [match exec p i with Ok e => Some e | _ => None end].
Definition run (is : list instr) : pool := fold_left step is [].

(* ---------------- observations ---------------- *)

Definition obj_eval_default (o : obj) (rho : valuation) (d : bool) : bool :=
  match o with
  | OE e => eval_default e rho d
  | OT t => t_eval_default t rho d
  | OB b => b_eval_default b rho d
  end.
Definition obj_eval_checked (o : obj) (rho : valuation) : bool + list name :=
  match o with
  | OE e => eval_checked e rho
  | OT t => t_eval_checked t rho
  | OB b => b_eval_checked b rho
  end.

(* truth vector of the object over its own inputs, by evaluation at every point *)
Definition obj_tv (o : obj) : list bool :=
  let i := obj_inputs o in
  map (fun p => obj_eval_default o (combine i p) false) (points (length i)).

Definition obj_equiv (x y : obj) : Res bool :=
  match x, y with
  | OE a, OE b => Ok (e_equiv a b)
  | OT a, OT b => Ok (t_equiv a b)
  | OB a, OB b => b_equiv debug_build a b
  | _, _ => na
  end.
Definition obj_implied_by (x y : obj) : Res bool :=
  match x, y with
  | OE a, OE b => Ok (e_implied_by a b)
  | OT a, OT b => Ok (t_implied_by a b)
  | OB a, OB b => b_implied_by debug_build a b
  | _, _ => na
  end.

Definition obj_essential (o : obj) : Res (list name) :=
  match o with OE e => Ok (e_essential e) | OT t => Ok (t_essential t) | OB b => b_essential b end.
Definition obj_degree (o : obj) : nat :=
  match o with OE e => e_degree e | OT t => t_degree t | OB b => b_degree b end.
Definition obj_essential_degree (o : obj) : nat :=
  match o with OE e => e_essential_degree e | OT t => t_essential_degree t | OB b => b_essential_degree b end.
Definition obj_domain (o : obj) : list (list bool) :=
  match o with OE e => e_domain e | OT t => t_domain t | OB b => b_domain b end.
Definition obj_image (o : obj) : list bool :=
  match o with OE e => e_image e | OT t => t_image t | OB b => b_image b end.
Definition obj_relation (o : obj) : list (list bool * bool) :=
  match o with OE e => e_relation e | OT t => t_relation t | OB b => b_relation b end.
Definition obj_support (o : obj) : list (list bool) :=
  match o with OE e => e_support e | OT t => t_support t | OB b => b_support b end.
Definition obj_weight (o : obj) : N :=
  match o with OE e => e_weight e | OT t => t_weight t | OB b => b_weight b end.
Definition obj_sat_point (o : obj) : option (list bool) :=
  match o with OE e => e_sat_point e | OT t => t_sat_point t | OB b => b_sat_point b end.
