(* The Python layer (src/bindings): what each method forwards to where that is not simply the Rust method of
   the same name, and the error -> exception map. PyO3 itself (argument extraction, GIL, reference counting)
   is not modelled. *)
From BBF Require Import Base.Prelude Base.Names Base.Bits Model.Expr Model.Table Model.Lexer Model.Parser Model.Render Model.Csv.

(* Expression.__and__ / __or__ / __invert__ are the NON-flattening constructors (mk_and_binary, ...) *)
Definition py_and (a b : expr) : expr := And [a; b].
Definition py_or (a b : expr) : expr := Or [a; b].
Definition py_invert (a : expr) : expr := Not a.
Definition py_evaluate_safe (e : expr) (rho : valuation) : bool := evaluate e rho.

(* PanicException: what PyO3 raises for a Rust panic (a BaseException of the module pyo3_runtime);
   the interpreter goes on *)
Inductive pyexc := RuntimeError | KeyError | TypeError | EOFError | OSError | PanicException.

Definition py_evaluate_checked (e : expr) (rho : valuation) : bool + pyexc :=
  match eval_checked e rho with inl b => inl b | inr _ => inr KeyError end.

Inductive pyarg := AExpr (e : expr) | AStr (s : list N) | AOther.
Definition py_new (a : pyarg) : expr + pyexc :=
  match a with
  | AExpr e => inl e
  | AStr s => match from_str s with Ok e => inl e | _ => inr RuntimeError end
  | AOther => inr TypeError
  end.

(* TruthTableFromCsvError -> exception class (src/table/csv/error.rs) *)
Definition exc_of_csv (code : nat) : pyexc :=
  if Nat.eqb code E_UnexpectedEof then EOFError
  else if Nat.eqb code E_NonBooleanCellValue then TypeError
  else if Nat.eqb code E_IOError then OSError
  else RuntimeError.
Definition py_from_csv_string (s : list N) : table + pyexc :=
  match from_csv_string s with Ok t => inl t | Err c => inr (exc_of_csv c) | Panic _ => inr RuntimeError end.

Section W.
  Variable width : N -> nat.
  (* Table.to_string_formatted takes ONE formatting, used for inputs and output *)
  Definition py_to_string_formatted (st : style) (f : bfmt) (t : table) : text := to_string_formatted width st f f t.
End W.
