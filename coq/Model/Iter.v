(* The iterator structs of src/iterators/*.rs, src/table/iterators/*.rs, src/bdd/iterators/image.rs as
   state machines: one `*_new` per constructor and one `*_next : state -> option item * state` per
   `Iterator::next`, written after the Rust statement by statement (index counters are `N`, the native
   `usize` of the code is unbounded here: DESIGN.md section 8).  The default methods of `Iterator` that the
   code does NOT override (`nth`, `count`, `last`, `collect`) are given once for every machine, as the
   standard library defines them in terms of `next`.
   Definitions only; the refinement proofs (every machine produces exactly the list of Model/{Expr,Table,Bdd}.v,
   item by item, and stays exhausted) are in Proofs/IterProofs.v.
   The diagram's SupportIterator wraps lib-bdd's `into_sat_valuations`, whose order is not specified: it is
   not a machine here (its item *set* is `b_support`). *)
From BBF Require Import Base.Prelude Base.Names Base.Bits Spec.Sem Model.Expr Model.Table Model.LibBdd Model.Bdd Model.Prog.

(* ---------- what `Iterator` provides on top of `next` ---------- *)
Section Machine.
  Context {St A : Type} (next : St -> option A * St).

  (* the answers of k successive calls of next() *)
  Fixpoint steps (k : nat) (s : St) : list (option A) :=
    match k with
    | O => []
    | S k' => let '(o, s') := next s in o :: steps k' s'
    end.

  (* collect(): items until the first None (fuel: an upper bound on the number of calls) *)
  Fixpoint drain (fuel : nat) (s : St) : list A :=
    match fuel with
    | O => []
    | S f => match next s with
             | (None, _) => []
             | (Some a, s') => a :: drain f s'
             end
    end.

  (* nth(n): advance_by(n) stops at the first None; otherwise one more next() *)
  Fixpoint it_nth (n : nat) (s : St) : option A * St :=
    match n with
    | O => next s
    | S n' => match next s with
              | (None, s') => (None, s')
              | (Some _, s') => it_nth n' s'
              end
    end.

  Definition it_count (fuel : nat) (s : St) : nat := length (drain fuel s).
  Definition it_last (fuel : nat) (s : St) : option A := last (map Some (drain fuel s)) None.
End Machine.

(* ---------- DomainIterator (src/iterators/domain.rs; shared by the three representations) ---------- *)
Record dom_it : Type := { di_vc : nat; di_idx : N }.
Definition dom_new (count : nat) : dom_it := {| di_vc := count; di_idx := 0 |}.
Definition dom_next (it : dom_it) : option (list bool) * dom_it :=
  if (2 ^ N.of_nat (di_vc it) <=? di_idx it)%N then (None, it)
  else (Some (index_point (di_idx it) (di_vc it)), {| di_vc := di_vc it; di_idx := di_idx it + 1 |}).

(* ---------- expression iterators (src/iterators/{image,relation,support}.rs) ---------- *)
(* utils::boolean_point_to_valuation: None when the lengths differ *)
Definition point_valuation (vars : list name) (p : list bool) : option valuation :=
  if Nat.eqb (length p) (length vars) then Some (val_of_point vars p) else None.

Record e_it : Type := { ei_vars : list name; ei_expr : expr; ei_idx : N }.
Definition e_it_new (e : expr) : e_it := {| ei_vars := literals e; ei_expr := e; ei_idx := 0 |}.
Definition e_it_bump (it : e_it) : e_it :=
  {| ei_vars := ei_vars it; ei_expr := ei_expr it; ei_idx := ei_idx it + 1 |}.
Definition e_it_done (it : e_it) : bool := (2 ^ N.of_nat (length (ei_vars it)) <=? ei_idx it)%N.

Definition e_img_next (it : e_it) : option bool * e_it :=
  if e_it_done it then (None, it)
  else match point_valuation (ei_vars it) (index_point (ei_idx it) (length (ei_vars it))) with
       | None => (None, it)                                   (* the `?` *)
       | Some rho => (Some (evaluate (ei_expr it) rho), e_it_bump it)
       end.

Definition e_rel_next (it : e_it) : option (list bool * bool) * e_it :=
  if e_it_done it then (None, it)
  else let p := index_point (ei_idx it) (length (ei_vars it)) in
       match point_valuation (ei_vars it) p with
       | None => (None, it)
       | Some rho => (Some (p, evaluate (ei_expr it) rho), e_it_bump it)
       end.

(* the `while supporting_point.is_none()` loop; fuel: one more than the points that are left *)
Fixpoint e_sup_loop (fuel : nat) (it : e_it) : option (list bool) * e_it :=
  match fuel with
  | O => (None, it)
  | S f =>
      if e_it_done it then (None, it)
      else let p := index_point (ei_idx it) (length (ei_vars it)) in
           match point_valuation (ei_vars it) p with
           | None => (None, it)
           | Some rho => if evaluate (ei_expr it) rho then (Some p, e_it_bump it)
                         else e_sup_loop f (e_it_bump it)
           end
  end.
Definition e_sup_next (it : e_it) : option (list bool) * e_it :=
  e_sup_loop (S (N.to_nat (2 ^ N.of_nat (length (ei_vars it)) - ei_idx it))) it.

(* ---------- table iterators (src/table/iterators/{image,relation,support}.rs) ---------- *)
(* std::vec::IntoIter *)
Definition vec_next {A} (l : list A) : option A * list A :=
  match l with [] => (None, []) | a :: r => (Some a, r) end.

Definition t_img_new (t : table) : list bool := t_outputs t.
Definition t_img_next (s : list bool) : option bool * list bool := vec_next s.

(* Enumerate<IntoIter<bool>> + variable_count *)
Record t_rel_it : Type := { tr_pos : N; tr_rest : list bool; tr_vc : nat }.
Definition t_rel_new (t : table) : t_rel_it := {| tr_pos := 0; tr_rest := t_outputs t; tr_vc := t_nvars t |}.
Definition t_rel_next (it : t_rel_it) : option (list bool * bool) * t_rel_it :=
  match tr_rest it with
  | [] => (None, it)
  | b :: r => (Some (index_point (tr_pos it) (tr_vc it), b),
               {| tr_pos := tr_pos it + 1; tr_rest := r; tr_vc := tr_vc it |})
  end.

(* the indices of the true rows are collected by the constructor *)
Fixpoint true_rows (pos : N) (outs : list bool) : list N :=
  match outs with
  | [] => []
  | b :: r => if b then pos :: true_rows (pos + 1) r else true_rows (pos + 1) r
  end.
Record t_sup_it : Type := { ts_rows : list N; ts_vc : nat }.
Definition t_sup_new (t : table) : t_sup_it := {| ts_rows := true_rows 0 (t_outputs t); ts_vc := t_nvars t |}.
Definition t_sup_next (it : t_sup_it) : option (list bool) * t_sup_it :=
  match ts_rows it with
  | [] => (None, it)
  | i :: r => (Some (index_point i (ts_vc it)), {| ts_rows := r; ts_vc := ts_vc it |})
  end.

(* ---------- diagram iterators (src/bdd/iterators/image.rs, Zip in src/bdd/traits/boolean_function.rs) ---------- *)
Record b_img_it : Type := { bi_dom : dom_it; bi_root : dd }.
Definition b_img_new (b : bdd) : b_img_it := {| bi_dom := dom_new (length (b_inputs b)); bi_root := b_root b |}.
Definition b_img_next (it : b_img_it) : option bool * b_img_it :=
  let '(o, d) := dom_next (bi_dom it) in
  (option_map (fun p => dd_eval (bi_root it) (fun i => nth i p false)) o, {| bi_dom := d; bi_root := bi_root it |}).

(* core::iter::Zip::next (the general implementation): a.next()? then b.next()? *)
Definition zip_next {S1 S2 A B} (n1 : S1 -> option A * S1) (n2 : S2 -> option B * S2)
    (s : S1 * S2) : option (A * B) * (S1 * S2) :=
  match n1 (fst s) with
  | (None, s1) => (None, (s1, snd s))
  | (Some a, s1) => match n2 (snd s) with
                    | (None, s2) => (None, (s1, s2))
                    | (Some b, s2) => (Some (a, b), (s1, s2))
                    end
  end.
Definition b_rel_new (b : bdd) : dom_it * b_img_it := (dom_new (length (b_inputs b)), b_img_new b).
Definition b_rel_next := zip_next dom_next b_img_next.

(* ---------- per object: the answers of k calls of next() on a fresh iterator of each kind ---------- *)
Definition obj_dom_count (o : obj) : nat :=
  match o with
  | OE e => length (literals e)
  | OT t => length (t_literals t)
  | OB b => length (b_inputs b)
  end.
Definition obj_dom_steps (o : obj) (k : nat) : list (option (list bool)) :=
  steps dom_next k (dom_new (obj_dom_count o)).
Definition obj_img_steps (o : obj) (k : nat) : list (option bool) :=
  match o with
  | OE e => steps e_img_next k (e_it_new e)
  | OT t => steps t_img_next k (t_img_new t)
  | OB b => steps b_img_next k (b_img_new b)
  end.
Definition obj_rel_steps (o : obj) (k : nat) : list (option (list bool * bool)) :=
  match o with
  | OE e => steps e_rel_next k (e_it_new e)
  | OT t => steps t_rel_next k (t_rel_new t)
  | OB b => steps b_rel_next k (b_rel_new b)
  end.
(* None for a diagram: the order of its support iterator is lib-bdd's *)
Definition obj_sup_steps (o : obj) (k : nat) : option (list (option (list bool))) :=
  match o with
  | OE e => Some (steps e_sup_next k (e_it_new e))
  | OT t => Some (steps t_sup_next k (t_sup_new t))
  | OB _ => None
  end.

(* nth(n) followed by one more next(), count() and last() of fresh iterators (fuel: 2^degree + 1 calls) *)
Definition obj_fuel (o : obj) : nat := S (2 ^ obj_dom_count o).
Definition obj_dom_nth (o : obj) (n : nat) : option (list bool) * option (list bool) :=
  let '(a, s) := it_nth dom_next n (dom_new (obj_dom_count o)) in (a, fst (dom_next s)).
Definition obj_rel_nth (o : obj) (n : nat) : option (list bool * bool) * option (list bool * bool) :=
  match o with
  | OE e => let '(a, s) := it_nth e_rel_next n (e_it_new e) in (a, fst (e_rel_next s))
  | OT t => let '(a, s) := it_nth t_rel_next n (t_rel_new t) in (a, fst (t_rel_next s))
  | OB b => let '(a, s) := it_nth b_rel_next n (b_rel_new b) in (a, fst (b_rel_next s))
  end.
Definition obj_img_count (o : obj) : nat :=
  match o with
  | OE e => it_count e_img_next (obj_fuel o) (e_it_new e)
  | OT t => it_count t_img_next (S (length (t_outputs t))) (t_img_new t)
  | OB b => it_count b_img_next (obj_fuel o) (b_img_new b)
  end.
Definition obj_dom_last (o : obj) : option (list bool) := it_last dom_next (obj_fuel o) (dom_new (obj_dom_count o)).

(* count() and last() of a partly consumed iterator: after nth(n) and one more next() *)
Definition obj_dom_rest (o : obj) (n : nat) : nat * option (list bool) :=
  let s := snd (dom_next (snd (it_nth dom_next n (dom_new (obj_dom_count o))))) in
  (it_count dom_next (obj_fuel o) s, it_last dom_next (obj_fuel o) s).
Definition obj_img_rest (o : obj) (n : nat) : nat :=
  match o with
  | OE e => it_count e_img_next (obj_fuel o) (snd (e_img_next (snd (it_nth e_img_next n (e_it_new e)))))
  | OT t => it_count t_img_next (S (length (t_outputs t))) (snd (t_img_next (snd (it_nth t_img_next n (t_img_new t)))))
  | OB b => it_count b_img_next (obj_fuel o) (snd (b_img_next (snd (it_nth b_img_next n (b_img_new b)))))
  end.
