(* Faithful model of src/expressions: the expression tree and every operation on it.
   Definitions only; proofs are in Proofs/ExprProofs.v. *)
From BBF Require Import Base.Prelude Base.Names Base.Bits.

Inductive expr : Type :=
| Lit (x : name)
| Const (b : bool)
| Not (e : expr)
| And (es : list expr)
| Or (es : list expr).

Section ExprInd.
  Variable P : expr -> Prop.
  Hypotheses (HL : forall x, P (Lit x)) (HC : forall b, P (Const b)) (HN : forall e, P e -> P (Not e))
             (HA : forall es, Forall P es -> P (And es)) (HO : forall es, Forall P es -> P (Or es)).
  Fixpoint expr_ind' (e : expr) : P e :=
    match e with
    | Lit x => HL x
    | Const b => HC b
    | Not e => HN e (expr_ind' e)
    | And es => HA es ((fix go l : Forall P l :=
                          match l with [] => Forall_nil P | x :: r => Forall_cons x (expr_ind' x) (go r) end) es)
    | Or es => HO es ((fix go l : Forall P l :=
                         match l with [] => Forall_nil P | x :: r => Forall_cons x (expr_ind' x) (go r) end) es)
    end.
End ExprInd.

Fixpoint expr_eqb (a b : expr) : bool :=
  match a, b with
  | Lit x, Lit y => name_eqb x y
  | Const x, Const y => Bool.eqb x y
  | Not x, Not y => expr_eqb x y
  | And xs, And ys | Or xs, Or ys =>
      (fix go (l1 l2 : list expr) : bool :=
         match l1, l2 with
         | [], [] => true
         | x :: r1, y :: r2 => expr_eqb x y && go r1 r2
         | _, _ => false
         end) xs ys
  | _, _ => false
  end.

Fixpoint size (e : expr) : nat :=
  match e with
  | Lit _ | Const _ => 1
  | Not e => S (size e)
  | And es | Or es => S (list_sum (map size es))
  end.

(* ---- the mathematical meaning ---- *)
Fixpoint sem (v : env) (e : expr) : bool :=
  match e with
  | Lit x => v x
  | Const b => b
  | Not e => negb (sem v e)
  | And es => forallb (sem v) es
  | Or es => existsb (sem v) es
  end.

(* ---- Evaluate (src/expressions/traits/evaluate.rs) ---- *)
Definition valuation := list (name * bool).

Fixpoint eval_default (e : expr) (rho : valuation) (d : bool) : bool :=
  match e with
  | Lit t => match get rho t with Some b => b | None => d end
  | Const b => b
  | And es => forallb (fun e => eval_default e rho d) es
  | Or es => existsb (fun e => eval_default e rho d) es
  | Not x => negb (eval_default x rho d)
  end.

Definition evaluate (e : expr) (rho : valuation) : bool := eval_default e rho false.

(* evaluate_checked_rec: value (with `true` for a missing literal) and the missing
   occurrences, in traversal order, duplicates included; `fold` does not short-circuit. *)
Fixpoint checked_rec (e : expr) (rho : valuation) : bool * list name :=
  match e with
  | Lit t => match get rho t with None => (true, [t]) | Some b => (b, []) end
  | Const b => (b, [])
  | Not x => let '(b, errs) := checked_rec x rho in (negb b, errs)
  | And es =>
      fold_left (fun acc e => let '(b, errs) := checked_rec e rho in (andb (fst acc) b, snd acc ++ errs))
                es (true, [])
  | Or es =>
      fold_left (fun acc e => let '(b, errs) := checked_rec e rho in (orb (fst acc) b, snd acc ++ errs))
                es (false, [])
  end.

Definition eval_checked (e : expr) (rho : valuation) : bool + list name :=
  let '(b, errs) := checked_rec e rho in
  match errs with [] => inl b | _ => inr errs end.

(* ---- GatherLiterals ---- *)
Fixpoint occurrences (e : expr) : list name :=
  match e with
  | Lit x => [x]
  | Const _ => []
  | Not e => occurrences e
  | And es | Or es => concat (map occurrences es)
  end.
Definition literals (e : expr) : list name := set_of_list (occurrences e).

(* ---- operators (src/expressions/traits/bit, operations) ---- *)
Definition e_and (a b : expr) : expr :=
  match a, b with
  | And es1, And es2 => And (es1 ++ es2)
  | And es1, _ => And (es1 ++ [b])
  | _, And es2 => And (a :: es2)
  | _, _ => And [a; b]
  end.
Definition e_or (a b : expr) : expr :=
  match a, b with
  | Or es1, Or es2 => Or (es1 ++ es2)
  | Or es1, _ => Or (es1 ++ [b])
  | _, Or es2 => Or (a :: es2)
  | _, _ => Or [a; b]
  end.
Definition e_not (a : expr) : expr := Not a.
Definition e_xor (a b : expr) : expr := e_and (e_or a b) (e_not (e_and a b)).
Definition e_imply (a b : expr) : expr := e_or (e_not a) b.
Definition e_iff (a b : expr) : expr := e_or (e_and a b) (e_and (e_not a) (e_not b)).

(* ---- substitute / restrict / quantifiers / derivative ---- *)
Fixpoint e_substitute (e : expr) (m : list (name * expr)) : expr :=
  match e with
  | Lit x => match get m x with None => Lit x | Some g => g end
  | Not e => Not (e_substitute e m)
  | And es => And (map (fun e => e_substitute e m) es)
  | Or es => Or (map (fun e => e_substitute e m) es)
  | Const b => Const b
  end.

Definition e_restrict (e : expr) (rho : valuation) : expr :=
  e_substitute e (map (fun kv => (fst kv, Const (snd kv))) rho).

(* one variable at a time (after the repair of D4/D5) *)
Definition e_elim (op : expr -> expr -> expr) (e : expr) (vars : list name) : expr :=
  fold_left (fun acc v => op (e_restrict acc [(v, false)]) (e_restrict acc [(v, true)])) vars e.
Definition e_exists := e_elim e_or.
Definition e_forall := e_elim e_and.
Definition e_derivative := e_elim e_xor.

(* ---- power set, semantic equality, implication ---- *)
(* generate_power_set_rec pops the last (largest) variable, `true` branch first *)
Fixpoint power_rec (rev_vars : list name) (cur : valuation) : list valuation :=
  match rev_vars with
  | [] => [cur]
  | x :: r => power_rec r ((x, true) :: cur) ++ power_rec r ((x, false) :: cur)
  end.
Definition power_set (vars : list name) : list valuation := power_rec (rev vars) [].

Definition e_equiv (a b : expr) : bool :=
  forallb (fun rho => Bool.eqb (evaluate a rho) (evaluate b rho))
          (power_set (set_union (literals a) (literals b))).
Definition e_implied_by (a b : expr) : bool :=     (* a.is_implied_by(b) : b -> a *)
  forallb (fun rho => negb (evaluate b rho) || evaluate a rho)
          (power_set (set_union (literals a) (literals b))).

Definition e_essential (e : expr) : list name :=
  filter (fun x => negb (e_equiv (e_restrict e [(x, true)]) (e_restrict e [(x, false)]))) (literals e).

(* ---- normal forms (src/expressions/structs/expression.rs) ---- *)
(* to_nnf, written with a polarity: `nnf false e` = e.to_nnf(), `nnf true e` = (!e).to_nnf() *)
Fixpoint nnf (neg : bool) (e : expr) : expr :=
  match e with
  | Not e' => nnf (negb neg) e'
  | And es => if neg then Or (map (nnf true) es) else And (map (nnf false) es)
  | Or es => if neg then And (map (nnf true) es) else Or (map (nnf false) es)
  | leaf => if neg then Not leaf else leaf
  end.
Definition to_nnf (e : expr) : expr := nnf false e.

Definition is_and (e : expr) : bool := match e with And _ => true | _ => false end.
Definition is_or (e : expr) : bool := match e with Or _ => true | _ => false end.
Definition is_lit (e : expr) : bool := match e with Lit _ => true | _ => false end.

Fixpoint is_nnf (e : expr) : bool :=
  match e with
  | Lit _ => true
  | Const _ => false
  | Not e => is_lit e
  | And es | Or es => forallb is_nnf es
  end.
Fixpoint is_cnf (e : expr) : bool :=
  match e with
  | Lit _ => true
  | Const _ => false
  | Not e => is_lit e
  | And es => forallb is_cnf es
  | Or es => negb (existsb is_and es) && forallb is_cnf es
  end.
Fixpoint is_dnf (e : expr) : bool :=
  match e with
  | Lit _ => true
  | Const _ => false
  | Not e => is_lit e
  | Or es => forallb is_dnf es
  | And es => negb (existsb is_or es) && forallb is_dnf es
  end.

(* distribute_cnf(first, second): on the first argument, then on the second *)
Fixpoint dist_cnf (a : expr) : expr -> expr :=
  fix inner (b : expr) : expr :=
    match a with
    | And es => And (map (fun e => dist_cnf e b) es)
    | _ => match b with
           | And es => And (map inner es)
           | _ => Or [a; b]
           end
    end.
Fixpoint dist_dnf (a : expr) : expr -> expr :=
  fix inner (b : expr) : expr :=
    match a with
    | Or es => Or (map (fun e => dist_dnf e b) es)
    | _ => match b with
           | Or es => Or (map inner es)
           | _ => And [a; b]
           end
    end.

(* to_cnf on a tree that is already the result of to_nnf; the code calls to_nnf again on
   every child, which is the identity there (lemma nnf_idem), so
   e.to_cnf() = cnf_core (to_nnf e).  The empty disjunction is returned as it is (D9 repaired). *)
Fixpoint cnf_core (n : expr) : expr :=
  match n with
  | Or es => match map cnf_core es with
             | [] => n
             | c :: cs => fold_left dist_cnf cs c
             end
  | And es => And (map cnf_core es)
  | other => other
  end.
Fixpoint dnf_core (n : expr) : expr :=
  match n with
  | And es => match map dnf_core es with
              | [] => n
              | c :: cs => fold_left dist_dnf cs c
              end
  | Or es => Or (map dnf_core es)
  | other => other
  end.
Definition to_cnf (e : expr) : expr := cnf_core (to_nnf e).
Definition to_dnf (e : expr) : expr := dnf_core (to_nnf e).

(* ---- iterators (src/iterators) as list producers ---- *)
Definition val_of_point (vars : list name) (p : list bool) : valuation := combine vars p.

Definition e_domain (e : expr) : list (list bool) := points (length (literals e)).
Definition e_image (e : expr) : list bool :=
  map (fun p => evaluate e (val_of_point (literals e) p)) (e_domain e).
Definition e_relation (e : expr) : list (list bool * bool) :=
  map (fun p => (p, evaluate e (val_of_point (literals e) p))) (e_domain e).
Definition e_support (e : expr) : list (list bool) :=
  filter (fun p => evaluate e (val_of_point (literals e) p)) (e_domain e).
Definition e_weight (e : expr) : N := N.of_nat (length (e_support e)).
Definition e_sat_point (e : expr) : option (list bool) := hd_error (e_support e).
Definition e_degree (e : expr) : nat := length (literals e).
Definition e_essential_degree (e : expr) : nat := length (e_essential e).
