(* Model of src/table/display_formatted.rs and src/table/traits/display.rs: the rows of cells
   of a truth table (header_row_iterator / record_row of src/table/mod.rs), the four Boolean
   formattings, and the text that tabled 0.15 / papergrid 0.11 (basic grid, no spans, no
   colours, no margins) produces from a matrix of cells for the four styles that
   TableStyle::build_table_with selects.  Text = list of Unicode scalar values.
   Definitions only; proofs are in Proofs/RenderProofs.v. *)
From BBF Require Import Base.Prelude Base.Names Base.Bits Model.Table.

Definition text := list N.

Definition c_lf : N := 10%N.
Definition c_cr : N := 13%N.
Definition c_space : N := 32%N.

(* ---------- Boolean formatting (TableBooleanFormatting::format_bool) ---------- *)

Inductive bfmt := FNumber | FCharacter | FWord | FCapitalizedWord.

Definition w_0 : text := [48%N].
Definition w_1 : text := [49%N].
Definition w_F : text := [70%N].
Definition w_T : text := [84%N].
Definition w_false : text := [102;97;108;115;101]%N.
Definition w_true : text := [116;114;117;101]%N.
Definition w_False : text := [70;97;108;115;101]%N.
Definition w_True : text := [84;114;117;101]%N.
Definition w_result : text := [114;101;115;117;108;116]%N.

Definition format_bool (f : bfmt) (b : bool) : text :=
  match f with
  | FNumber => if b then w_1 else w_0
  | FCharacter => if b then w_T else w_F
  | FWord => if b then w_true else w_false
  | FCapitalizedWord => if b then w_True else w_False
  end.

(* ---------- the rows of cells ---------- *)

(* header_row_iterator: the inputs in order, then "result" *)
Definition header_row (t : table) : list text := t_inputs t ++ [w_result].

(* record_row for one (point, output) pair of the relation *)
Definition record_row (fi fo : bfmt) (po : list bool * bool) : list text :=
  map (format_bool fi) (fst po) ++ [format_bool fo (snd po)].

(* one record per stored output, the point being row_index_to_bool_point(index, variable_count) *)
Definition table_rows (fi fo : bfmt) (t : table) : list (list text) :=
  header_row t :: map (record_row fi fo) (t_relation t).

(* ---------- splitting and joining ---------- *)

Fixpoint tjoin (sep : text) (l : list text) : text :=
  match l with
  | [] => []
  | [x] => x
  | x :: r => x ++ sep ++ tjoin sep r
  end.

(* str::split(c): the pieces between the occurrences of c (always at least one piece) *)
Fixpoint cut_at (c : N) (s : text) : list text :=
  match s with
  | [] => [[]]
  | x :: r =>
      if N.eqb x c then [] :: cut_at c r
      else match cut_at c r with
           | [] => [[x]]            (* unreachable *)
           | p :: ps => (x :: p) :: ps
           end
  end.

(* ---------- styles ---------- *)

Inductive style := SAscii | SModern | SMarkdown | SEmpty.

(* a horizontal rule: the filling glyph, the glyph at an inner column boundary, the left and
   the right corner (HLine::full(main, intersection, left, right)) *)
Record hline := { h_main : N; h_inter : N; h_left : N; h_right : N }.

Definition g_minus : N := 45%N.        (* - *)
Definition g_plus : N := 43%N.         (* + *)
Definition g_bar : N := 124%N.         (* | *)
Definition g_h : N := 9472%N.          (* U+2500 *)
Definition g_v : N := 9474%N.          (* U+2502 *)
Definition g_dr : N := 9484%N.         (* U+250C *)
Definition g_dl : N := 9488%N.         (* U+2510 *)
Definition g_ur : N := 9492%N.         (* U+2514 *)
Definition g_ul : N := 9496%N.         (* U+2518 *)
Definition g_vr : N := 9500%N.         (* U+251C *)
Definition g_vl : N := 9508%N.         (* U+2524 *)
Definition g_dh : N := 9516%N.         (* U+252C *)
Definition g_uh : N := 9524%N.         (* U+2534 *)
Definition g_vh : N := 9532%N.         (* U+253C *)

(* the rule printed above row i of a grid of nrows rows (i = nrows: below the last row).
   Markdown has no frame but an explicit rule at index 1, which is also printed when the grid
   has the header row only. *)
Definition rule_at (st : style) (i nrows : nat) : option hline :=
  match st with
  | SAscii => Some {| h_main := g_minus; h_inter := g_plus; h_left := g_plus; h_right := g_plus |}
  | SModern =>
      if Nat.eqb i 0 then Some {| h_main := g_h; h_inter := g_dh; h_left := g_dr; h_right := g_dl |}
      else if Nat.eqb i nrows then Some {| h_main := g_h; h_inter := g_uh; h_left := g_ur; h_right := g_ul |}
      else Some {| h_main := g_h; h_inter := g_vh; h_left := g_vr; h_right := g_vl |}
  | SMarkdown =>
      if Nat.eqb i 1 then Some {| h_main := g_minus; h_inter := g_bar; h_left := g_bar; h_right := g_bar |}
      else None
  | SEmpty => None
  end.

(* the vertical glyph (the same at the left edge, between cells and at the right edge) *)
Definition vglyph (st : style) : option N :=
  match st with
  | SAscii => Some g_bar
  | SModern => Some g_v
  | SMarkdown => Some g_bar
  | SEmpty => None
  end.

(* Padding: tabled's default is one space on both sides; the Empty style is used with
   Padding::new(0, 1, 0, 0) *)
Definition pad_left (st : style) : nat := match st with SEmpty => 0 | _ => 1 end.
Definition pad_right (st : style) : nat := 1.

Definition opt_glyph (o : option N) : text := match o with Some c => [c] | None => [] end.

(* ---------- the grid ---------- *)

Section Render.

(* display width of one character (unicode-width); the width of a line is the sum *)
Variable width : N -> nat.

Definition text_width (s : text) : nat := list_sum (map width s).

(* a cell is cut into lines at LF (papergrid::util::string::get_lines = split('\n')) *)
Definition cell_lines (c : text) : list text := cut_at c_lf c.
Definition cell_width (c : text) : nat := list_max (map text_width (cell_lines c)).
Definition cell_height (c : text) : nat := length (cell_lines c).

(* Builder::build pads short rows with empty cells *)
Definition count_columns (rows : list (list text)) : nat := list_max (map (@length text) rows).
Definition cell_at (row : list text) (j : nat) : text := nth j row [].

(* PeekableDimension::estimate: content width plus horizontal padding, maximised over the column *)
Definition col_width (st : style) (rows : list (list text)) (j : nat) : nat :=
  list_max (map (fun r => cell_width (cell_at r j) + pad_left st + pad_right st) rows).
Definition row_height (ncols : nat) (row : list text) : nat :=
  list_max (map (fun j => cell_height (cell_at row j)) (seq 0 ncols)).

Definition spaces (n : nat) : text := repeat c_space n.

(* print_cell_line, top / left alignment: line k of a cell in a column of width w.
   A cell that has no line k is filled with the bottom padding character over the whole width. *)
Definition cell_line (st : style) (w : nat) (c : text) (k : nat) : text :=
  match nth_error (cell_lines c) k with
  | Some l => spaces (pad_left st) ++ l ++ spaces (w - pad_left st - text_width l)
  | None => spaces w
  end.

(* print_grid_line: vertical glyph before every cell and after the last one *)
Definition grid_line (st : style) (ws : list nat) (row : list text) (k : nat) : text :=
  concat (map (fun jw => opt_glyph (vglyph st) ++ cell_line st (snd jw) (cell_at row (fst jw)) k)
              (combine (seq 0 (length ws)) ws))
  ++ opt_glyph (vglyph st).

(* print_split_line *)
Definition rule_line (h : hline) (ws : list nat) : text :=
  [h_left h] ++ tjoin [h_inter h] (map (repeat (h_main h)) ws) ++ [h_right h].

Definition opt_rule (st : style) (i nrows : nat) (ws : list nat) : list text :=
  match rule_at st i nrows with Some h => [rule_line h ws] | None => [] end.

Fixpoint grid_lines (st : style) (ws : list nat) (ncols nrows i : nat) (rows : list (list text)) : list text :=
  match rows with
  | [] => opt_rule st i nrows ws
  | r :: rest =>
      opt_rule st i nrows ws
      ++ map (grid_line st ws r) (seq 0 (row_height ncols r))
      ++ grid_lines st ws ncols nrows (S i) rest
  end.

(* Table::to_string with the style applied: the lines joined with LF, no trailing LF.
   tabled prints nothing for a grid without rows or without columns. *)
Definition render (st : style) (rows : list (list text)) : text :=
  let ncols := count_columns rows in
  if Nat.eqb (length rows) 0 || Nat.eqb ncols 0 then []
  else
    let ws := map (col_width st rows) (seq 0 ncols) in
    tjoin [c_lf] (grid_lines st ws ncols (length rows) 0 rows).

(* TruthTable::to_string_formatted and Display *)
Definition to_string_formatted (st : style) (fi fo : bfmt) (t : table) : text :=
  render st (table_rows fi fo t).
Definition display_table (t : table) : text := to_string_formatted SEmpty FWord FWord t.

End Render.

(* ---------- reading a rendering back (used to state C18) ---------- *)

Definition is_glyph (c : N) : bool :=
  existsb (N.eqb c) [g_minus; g_plus; g_bar; g_h; g_v; g_dr; g_dl; g_ur; g_ul; g_vr; g_vl; g_dh; g_uh; g_vh].

(* a rule line is recognised by its first glyphs: a corner (Ascii, Modern), or a bar followed
   by a dash (Markdown; a row line continues with the padding space) *)
Definition is_rule (st : style) (l : text) : bool :=
  match st, l with
  | SAscii, c :: _ => N.eqb c g_plus
  | SModern, c :: _ => N.eqb c g_dr || N.eqb c g_vr || N.eqb c g_ur
  | SMarkdown, _ :: c :: _ => N.eqb c g_minus
  | _, _ => false
  end.

(* the maximal space-free pieces of a line *)
Fixpoint tokens_go (cur : text) (s : text) : list text :=
  match s with
  | [] => match cur with [] => [] | _ => [rev cur] end
  | c :: r =>
      if N.eqb c c_space then
        match cur with [] => tokens_go [] r | _ => rev cur :: tokens_go [] r end
      else tokens_go (c :: cur) r
  end.
Definition tokens (s : text) : list text := tokens_go [] s.

Definition unframe (st : style) (c : N) : N :=
  match vglyph st with
  | Some g => if N.eqb c g then c_space else c
  | None => c
  end.

(* cut into lines, drop the rule lines, blank the vertical glyphs, cut at blanks *)
Definition cells (st : style) (s : text) : list (list text) :=
  map (fun l => tokens (map (unframe st) l))
      (filter (fun l => negb (is_rule st l)) (cut_at c_lf s)).

(* specification vocabulary of C18 *)
(* a cell that can be read back: not empty, no blank, no line break, no vertical glyph of the style *)
Definition clean_charb (st : style) (x : N) : bool :=
  negb (N.eqb x c_space) && negb (N.eqb x c_lf)
  && match vglyph st with Some g => negb (N.eqb x g) | None => true end.
Definition clean_cellb (st : style) (c : text) : bool :=
  match c with [] => false | _ => forallb (clean_charb st) c end.
Definition clean_rowsb (st : style) (rows : list (list text)) : bool :=
  match rows with
  | [] => false
  | r :: _ => negb (Nat.eqb (length r) 0)
              && forallb (fun r' => Nat.eqb (length r') (length r) && forallb (clean_cellb st) r') rows
  end.


(* ---------- an executable width function ---------- *)

(* unicode-width 0.1.14, non-CJK context: the ranges of scalar values whose one-character string
   has a width other than 1 (generated from the crate over all 1 112 064 scalar values; LF is
   listed with 0 but never reaches a line).  The width of a line is the sum of the widths of its
   characters except for the ligature rules of the crate (CR LF, emoji sequences, Arabic
   lam-alef, Khmer coeng, Lisu tones, ...), which are outside the model. *)
Definition width_table : list (N * N * nat) :=
  [ (10, 10, 0%nat); (173, 173, 0%nat); (768, 879, 0%nat); (1155, 1161, 0%nat); (1425, 1469, 0%nat);
    (1471, 1471, 0%nat); (1473, 1474, 0%nat); (1476, 1477, 0%nat); (1479, 1479, 0%nat); (1541, 1541, 0%nat);
    (1552, 1562, 0%nat); (1564, 1564, 0%nat); (1611, 1631, 0%nat); (1648, 1648, 0%nat); (1750, 1756, 0%nat);
    (1759, 1764, 0%nat); (1767, 1768, 0%nat); (1770, 1773, 0%nat); (1807, 1807, 0%nat); (1809, 1809, 0%nat);
    (1840, 1866, 0%nat); (1958, 1968, 0%nat); (2027, 2035, 0%nat); (2045, 2045, 0%nat); (2070, 2073, 0%nat);
    (2075, 2083, 0%nat); (2085, 2087, 0%nat); (2089, 2093, 0%nat); (2137, 2139, 0%nat); (2192, 2193, 0%nat);
    (2200, 2207, 0%nat); (2250, 2306, 0%nat); (2362, 2362, 0%nat); (2364, 2364, 0%nat); (2369, 2376, 0%nat);
    (2381, 2381, 0%nat); (2385, 2391, 0%nat); (2402, 2403, 0%nat); (2433, 2433, 0%nat); (2492, 2492, 0%nat);
    (2494, 2494, 0%nat); (2497, 2500, 0%nat); (2509, 2509, 0%nat); (2519, 2519, 0%nat); (2530, 2531, 0%nat);
    (2558, 2558, 0%nat); (2561, 2562, 0%nat); (2620, 2620, 0%nat); (2625, 2626, 0%nat); (2631, 2632, 0%nat);
    (2635, 2637, 0%nat); (2641, 2641, 0%nat); (2672, 2673, 0%nat); (2677, 2677, 0%nat); (2689, 2690, 0%nat);
    (2748, 2748, 0%nat); (2753, 2757, 0%nat); (2759, 2760, 0%nat); (2765, 2765, 0%nat); (2786, 2787, 0%nat);
    (2810, 2815, 0%nat); (2817, 2817, 0%nat); (2876, 2876, 0%nat); (2878, 2879, 0%nat); (2881, 2884, 0%nat);
    (2893, 2893, 0%nat); (2901, 2903, 0%nat); (2914, 2915, 0%nat); (2946, 2946, 0%nat); (3006, 3006, 0%nat);
    (3008, 3008, 0%nat); (3021, 3021, 0%nat); (3031, 3031, 0%nat); (3072, 3072, 0%nat); (3076, 3076, 0%nat);
    (3132, 3132, 0%nat); (3134, 3136, 0%nat); (3142, 3144, 0%nat); (3146, 3149, 0%nat); (3157, 3158, 0%nat);
    (3170, 3171, 0%nat); (3201, 3201, 0%nat); (3260, 3260, 0%nat); (3263, 3264, 0%nat); (3266, 3266, 0%nat);
    (3270, 3272, 0%nat); (3274, 3277, 0%nat); (3285, 3286, 0%nat); (3298, 3299, 0%nat); (3328, 3329, 0%nat);
    (3387, 3388, 0%nat); (3390, 3390, 0%nat); (3393, 3396, 0%nat); (3405, 3406, 0%nat); (3415, 3415, 0%nat);
    (3426, 3427, 0%nat); (3457, 3457, 0%nat); (3530, 3530, 0%nat); (3535, 3535, 0%nat); (3538, 3540, 0%nat);
    (3542, 3542, 0%nat); (3551, 3551, 0%nat); (3633, 3633, 0%nat); (3636, 3642, 0%nat); (3655, 3662, 0%nat);
    (3761, 3761, 0%nat); (3764, 3772, 0%nat); (3784, 3790, 0%nat); (3864, 3865, 0%nat); (3893, 3893, 0%nat);
    (3895, 3895, 0%nat); (3897, 3897, 0%nat); (3953, 3966, 0%nat); (3968, 3972, 0%nat); (3974, 3975, 0%nat);
    (3981, 3991, 0%nat); (3993, 4028, 0%nat); (4038, 4038, 0%nat); (4141, 4144, 0%nat); (4146, 4151, 0%nat);
    (4153, 4154, 0%nat); (4157, 4158, 0%nat); (4184, 4185, 0%nat); (4190, 4192, 0%nat); (4209, 4212, 0%nat);
    (4226, 4226, 0%nat); (4229, 4230, 0%nat); (4237, 4237, 0%nat); (4253, 4253, 0%nat); (4352, 4447, 2%nat);
    (4448, 4607, 0%nat); (4957, 4959, 0%nat); (5906, 5908, 0%nat); (5938, 5939, 0%nat); (5970, 5971, 0%nat);
    (6002, 6003, 0%nat); (6052, 6052, 2%nat); (6068, 6069, 0%nat); (6071, 6077, 0%nat); (6086, 6086, 0%nat);
    (6089, 6099, 0%nat); (6104, 6104, 3%nat); (6109, 6109, 0%nat); (6155, 6159, 0%nat); (6277, 6278, 0%nat);
    (6313, 6313, 0%nat); (6432, 6434, 0%nat); (6439, 6440, 0%nat); (6450, 6450, 0%nat); (6457, 6459, 0%nat);
    (6679, 6680, 0%nat); (6683, 6683, 0%nat); (6742, 6742, 0%nat); (6744, 6750, 0%nat); (6752, 6752, 0%nat);
    (6754, 6754, 0%nat); (6757, 6764, 0%nat); (6771, 6780, 0%nat); (6783, 6783, 0%nat); (6832, 6862, 0%nat);
    (6912, 6915, 0%nat); (6964, 6973, 0%nat); (6978, 6979, 0%nat); (7019, 7027, 0%nat); (7040, 7041, 0%nat);
    (7074, 7077, 0%nat); (7080, 7081, 0%nat); (7083, 7085, 0%nat); (7142, 7142, 0%nat); (7144, 7145, 0%nat);
    (7149, 7149, 0%nat); (7151, 7153, 0%nat); (7212, 7219, 0%nat); (7222, 7223, 0%nat); (7376, 7378, 0%nat);
    (7380, 7392, 0%nat); (7394, 7400, 0%nat); (7405, 7405, 0%nat); (7412, 7412, 0%nat); (7416, 7417, 0%nat);
    (7616, 7679, 0%nat); (8203, 8207, 0%nat); (8234, 8238, 0%nat); (8288, 8303, 0%nat); (8400, 8432, 0%nat);
    (8986, 8987, 2%nat); (9001, 9002, 2%nat); (9193, 9196, 2%nat); (9200, 9200, 2%nat); (9203, 9203, 2%nat);
    (9725, 9726, 2%nat); (9748, 9749, 2%nat); (9800, 9811, 2%nat); (9855, 9855, 2%nat); (9875, 9875, 2%nat);
    (9889, 9889, 2%nat); (9898, 9899, 2%nat); (9917, 9918, 2%nat); (9924, 9925, 2%nat); (9934, 9934, 2%nat);
    (9940, 9940, 2%nat); (9962, 9962, 2%nat); (9970, 9971, 2%nat); (9973, 9973, 2%nat); (9978, 9978, 2%nat);
    (9981, 9981, 2%nat); (9989, 9989, 2%nat); (9994, 9995, 2%nat); (10024, 10024, 2%nat);
    (10060, 10060, 2%nat); (10062, 10062, 2%nat); (10067, 10069, 2%nat); (10071, 10071, 2%nat);
    (10133, 10135, 2%nat); (10160, 10160, 2%nat); (10175, 10175, 2%nat); (11035, 11036, 2%nat);
    (11088, 11088, 2%nat); (11093, 11093, 2%nat); (11503, 11505, 0%nat); (11744, 11775, 0%nat);
    (11904, 11929, 2%nat); (11931, 12019, 2%nat); (12032, 12245, 2%nat); (12272, 12329, 2%nat);
    (12330, 12335, 0%nat); (12336, 12350, 2%nat); (12353, 12438, 2%nat); (12441, 12442, 0%nat);
    (12443, 12543, 2%nat); (12549, 12591, 2%nat); (12593, 12643, 2%nat); (12644, 12644, 0%nat);
    (12645, 12686, 2%nat); (12688, 12771, 2%nat); (12783, 12830, 2%nat); (12832, 12871, 2%nat);
    (12880, 19903, 2%nat); (19968, 42124, 2%nat); (42128, 42182, 2%nat); (42607, 42610, 0%nat);
    (42612, 42621, 0%nat); (42654, 42655, 0%nat); (42736, 42737, 0%nat); (43010, 43010, 0%nat);
    (43014, 43014, 0%nat); (43019, 43019, 0%nat); (43045, 43046, 0%nat); (43052, 43052, 0%nat);
    (43204, 43205, 0%nat); (43232, 43249, 0%nat); (43258, 43258, 0%nat); (43263, 43263, 0%nat);
    (43302, 43309, 0%nat); (43335, 43345, 0%nat); (43360, 43388, 2%nat); (43392, 43394, 0%nat);
    (43443, 43443, 0%nat); (43446, 43449, 0%nat); (43452, 43453, 0%nat); (43493, 43493, 0%nat);
    (43561, 43566, 0%nat); (43569, 43570, 0%nat); (43573, 43574, 0%nat); (43587, 43587, 0%nat);
    (43596, 43596, 0%nat); (43644, 43644, 0%nat); (43696, 43696, 0%nat); (43698, 43700, 0%nat);
    (43703, 43704, 0%nat); (43710, 43711, 0%nat); (43713, 43713, 0%nat); (43756, 43757, 0%nat);
    (43766, 43766, 0%nat); (44005, 44005, 0%nat); (44008, 44008, 0%nat); (44013, 44013, 0%nat);
    (44032, 55203, 2%nat); (55216, 55238, 0%nat); (55243, 55291, 0%nat); (63744, 64255, 2%nat);
    (64286, 64286, 0%nat); (65024, 65039, 0%nat); (65040, 65049, 2%nat); (65056, 65071, 0%nat);
    (65072, 65106, 2%nat); (65108, 65126, 2%nat); (65128, 65131, 2%nat); (65279, 65279, 0%nat);
    (65281, 65376, 2%nat); (65438, 65440, 0%nat); (65504, 65510, 2%nat); (65520, 65528, 0%nat);
    (66045, 66045, 0%nat); (66272, 66272, 0%nat); (66422, 66426, 0%nat); (68097, 68099, 0%nat);
    (68101, 68102, 0%nat); (68108, 68111, 0%nat); (68152, 68154, 0%nat); (68159, 68159, 0%nat);
    (68325, 68326, 0%nat); (68900, 68903, 0%nat); (69291, 69292, 0%nat); (69373, 69375, 0%nat);
    (69446, 69456, 0%nat); (69506, 69509, 0%nat); (69633, 69633, 0%nat); (69688, 69702, 0%nat);
    (69744, 69744, 0%nat); (69747, 69748, 0%nat); (69759, 69761, 0%nat); (69811, 69814, 0%nat);
    (69817, 69818, 0%nat); (69826, 69826, 0%nat); (69888, 69890, 0%nat); (69927, 69931, 0%nat);
    (69933, 69940, 0%nat); (70003, 70003, 0%nat); (70016, 70017, 0%nat); (70070, 70078, 0%nat);
    (70082, 70083, 0%nat); (70089, 70092, 0%nat); (70095, 70095, 0%nat); (70191, 70193, 0%nat);
    (70196, 70196, 0%nat); (70198, 70199, 0%nat); (70206, 70206, 0%nat); (70209, 70209, 0%nat);
    (70367, 70367, 0%nat); (70371, 70378, 0%nat); (70400, 70401, 0%nat); (70459, 70460, 0%nat);
    (70462, 70462, 0%nat); (70464, 70464, 0%nat); (70487, 70487, 0%nat); (70502, 70508, 0%nat);
    (70512, 70516, 0%nat); (70712, 70719, 0%nat); (70722, 70724, 0%nat); (70726, 70726, 0%nat);
    (70750, 70750, 0%nat); (70832, 70832, 0%nat); (70835, 70840, 0%nat); (70842, 70842, 0%nat);
    (70845, 70845, 0%nat); (70847, 70848, 0%nat); (70850, 70851, 0%nat); (71087, 71087, 0%nat);
    (71090, 71093, 0%nat); (71100, 71101, 0%nat); (71103, 71104, 0%nat); (71132, 71133, 0%nat);
    (71219, 71226, 0%nat); (71229, 71229, 0%nat); (71231, 71232, 0%nat); (71339, 71339, 0%nat);
    (71341, 71341, 0%nat); (71344, 71349, 0%nat); (71351, 71351, 0%nat); (71453, 71455, 0%nat);
    (71458, 71461, 0%nat); (71463, 71467, 0%nat); (71727, 71735, 0%nat); (71737, 71738, 0%nat);
    (71984, 71984, 0%nat); (71995, 71996, 0%nat); (71998, 71999, 0%nat); (72001, 72001, 0%nat);
    (72003, 72003, 0%nat); (72148, 72151, 0%nat); (72154, 72155, 0%nat); (72160, 72160, 0%nat);
    (72193, 72202, 0%nat); (72243, 72248, 0%nat); (72250, 72254, 0%nat); (72263, 72263, 0%nat);
    (72273, 72278, 0%nat); (72281, 72283, 0%nat); (72324, 72342, 0%nat); (72344, 72345, 0%nat);
    (72752, 72758, 0%nat); (72760, 72765, 0%nat); (72767, 72767, 0%nat); (72850, 72871, 0%nat);
    (72874, 72880, 0%nat); (72882, 72883, 0%nat); (72885, 72886, 0%nat); (73009, 73014, 0%nat);
    (73018, 73018, 0%nat); (73020, 73021, 0%nat); (73023, 73031, 0%nat); (73104, 73105, 0%nat);
    (73109, 73109, 0%nat); (73111, 73111, 0%nat); (73459, 73460, 0%nat); (73472, 73474, 0%nat);
    (73526, 73530, 0%nat); (73536, 73536, 0%nat); (73538, 73538, 0%nat); (78912, 78912, 0%nat);
    (78919, 78933, 0%nat); (92912, 92916, 0%nat); (92976, 92982, 0%nat); (94031, 94031, 0%nat);
    (94095, 94098, 0%nat); (94176, 94179, 2%nat); (94180, 94180, 0%nat); (94192, 94193, 2%nat);
    (94208, 100343, 2%nat); (100352, 101589, 2%nat); (101632, 101640, 2%nat); (110576, 110579, 2%nat);
    (110581, 110587, 2%nat); (110589, 110590, 2%nat); (110592, 110882, 2%nat); (110898, 110898, 2%nat);
    (110928, 110930, 2%nat); (110933, 110933, 2%nat); (110948, 110951, 2%nat); (110960, 111355, 2%nat);
    (113821, 113822, 0%nat); (113824, 113827, 0%nat); (118528, 118573, 0%nat); (118576, 118598, 0%nat);
    (119141, 119141, 0%nat); (119143, 119145, 0%nat); (119150, 119170, 0%nat); (119173, 119179, 0%nat);
    (119210, 119213, 0%nat); (119362, 119364, 0%nat); (121344, 121398, 0%nat); (121403, 121452, 0%nat);
    (121461, 121461, 0%nat); (121476, 121476, 0%nat); (121499, 121503, 0%nat); (121505, 121519, 0%nat);
    (122880, 122886, 0%nat); (122888, 122904, 0%nat); (122907, 122913, 0%nat); (122915, 122916, 0%nat);
    (122918, 122922, 0%nat); (123023, 123023, 0%nat); (123184, 123190, 0%nat); (123566, 123566, 0%nat);
    (123628, 123631, 0%nat); (124140, 124143, 0%nat); (125136, 125142, 0%nat); (125252, 125258, 0%nat);
    (126980, 126980, 2%nat); (127183, 127183, 2%nat); (127374, 127374, 2%nat); (127377, 127386, 2%nat);
    (127488, 127490, 2%nat); (127504, 127547, 2%nat); (127552, 127560, 2%nat); (127568, 127569, 2%nat);
    (127584, 127589, 2%nat); (127744, 127776, 2%nat); (127789, 127797, 2%nat); (127799, 127868, 2%nat);
    (127870, 127891, 2%nat); (127904, 127946, 2%nat); (127951, 127955, 2%nat); (127968, 127984, 2%nat);
    (127988, 127988, 2%nat); (127992, 128062, 2%nat); (128064, 128064, 2%nat); (128066, 128252, 2%nat);
    (128255, 128317, 2%nat); (128331, 128334, 2%nat); (128336, 128359, 2%nat); (128378, 128378, 2%nat);
    (128405, 128406, 2%nat); (128420, 128420, 2%nat); (128507, 128591, 2%nat); (128640, 128709, 2%nat);
    (128716, 128716, 2%nat); (128720, 128722, 2%nat); (128725, 128727, 2%nat); (128732, 128735, 2%nat);
    (128747, 128748, 2%nat); (128756, 128764, 2%nat); (128992, 129003, 2%nat); (129008, 129008, 2%nat);
    (129292, 129338, 2%nat); (129340, 129349, 2%nat); (129351, 129535, 2%nat); (129648, 129660, 2%nat);
    (129664, 129672, 2%nat); (129680, 129725, 2%nat); (129727, 129733, 2%nat); (129742, 129755, 2%nat);
    (129760, 129768, 2%nat); (129776, 129784, 2%nat); (131072, 196605, 2%nat); (196608, 262141, 2%nat);
    (917504, 921599, 0%nat) ]%N.

Definition uwidth (c : N) : nat :=
  match find (fun r => N.leb (fst (fst r)) c && N.leb c (snd (fst r))) width_table with
  | Some r => snd r
  | None => 1
  end.
