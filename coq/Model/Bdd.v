(* Faithful model of src/bdd: the wrapper around a lib-bdd diagram. *)
From BBF Require Import Base.Prelude Base.Names Base.Bits Model.Expr Model.Table Model.LibBdd.

Record bdd : Type := { b_inputs : list name; b_nv : nat; b_root : dd }.

Fixpoint index_of (x : name) (l : list name) : option nat :=
  match l with
  | [] => None
  | y :: r => if name_eqb x y then Some 0 else option_map S (index_of x r)
  end.

(* map_var_outer_to_inner: binary search in the sorted input vector *)
Definition outer_to_inner (b : bdd) (x : name) : option nat := index_of x (b_inputs b).
Definition inner_to_outer (b : bdd) (i : nat) : option name := nth_error (b_inputs b) i.

Definition mk_const (v : bool) : bdd := {| b_inputs := []; b_nv := 0; b_root := Leaf v |}.
Definition mk_literal (x : name) (v : bool) : bdd :=
  {| b_inputs := [x]; b_nv := 1; b_root := dd_literal 0 v |}.

Fixpoint enumerate_from {A} (i : nat) (l : list A) : list (nat * A) :=
  match l with [] => [] | x :: r => (i, x) :: enumerate_from (S i) r end.

(* permutation of the indices that move, or Panic 20 if some name is not found (expect) *)
Fixpoint moved (src : list (nat * name)) (dst : list name) (forward : bool) : Res (list (nat * nat)) :=
  match src with
  | [] => Ok []
  | (i, x) :: r =>
      match index_of x dst with
      | None => Panic 20
      | Some j =>
          rest <- moved r dst forward ;;
          Ok (if Nat.eqb i j then rest else (if forward then (i, j) else (j, i)) :: rest)
      end
  end.

(* src/bdd/utils/extend_variables.rs; `debug` = debug_assert enabled *)
Definition extend (debug : bool) (b : bdd) (new_inputs : list name) : Res bdd :=
  if names_eqb (b_inputs b) new_inputs then Ok b
  else if debug && negb (forallb (fun x => mem x new_inputs) (b_inputs b)) then Panic 21
  else
    perm <- moved (enumerate_from 0 (b_inputs b)) new_inputs true ;;
    r1 <- dd_set_num_vars (length new_inputs) (b_root b) ;;
    r2 <- (match perm with [] => Ok r1 | _ => dd_rename (length new_inputs) perm r1 end) ;;
    Ok {| b_inputs := new_inputs; b_nv := length new_inputs; b_root := r2 |}.

Definition b_essential (b : bdd) : Res (list name) :=
  fold_right (fun i acc => l <- acc ;; match inner_to_outer b i with Some x => Ok (set_insert x l) | None => Panic 22 end)
             (Ok []) (dd_support (b_root b)).

(* src/bdd/utils/prune_variables.rs *)
Definition prune (debug : bool) (b : bdd) (new_inputs : list name) : Res bdd :=
  if names_eqb (b_inputs b) new_inputs then Ok b
  else
    ess <- (if debug then b_essential b else Ok []) ;;
    if debug && negb (forallb (fun x => mem x new_inputs) ess) then Panic 23
    else
      perm <- moved (enumerate_from 0 new_inputs) (b_inputs b) false ;;
      r1 <- (match perm with [] => Ok (b_root b) | _ => dd_rename (b_nv b) perm (b_root b) end) ;;
      r2 <- dd_set_num_vars (length new_inputs) r1 ;;
      Ok {| b_inputs := new_inputs; b_nv := length new_inputs; b_root := r2 |}.

(* union_and_extend: push-if-absent, then sort *)
Definition common_inputs (a b : list name) : list name := set_of_list (a ++ b).

Definition b_bit (debug : bool) (op : dd -> dd -> dd) (a b : bdd) : Res bdd :=
  if names_eqb (b_inputs a) (b_inputs b) then
    Ok {| b_inputs := b_inputs a; b_nv := b_nv a; b_root := op (b_root a) (b_root b) |}
  else
    let common := common_inputs (b_inputs a) (b_inputs b) in
    a' <- extend debug a common ;;
    b' <- extend debug b common ;;
    Ok {| b_inputs := common; b_nv := length common; b_root := op (b_root a') (b_root b') |}.

Definition b_not (a : bdd) : bdd :=
  {| b_inputs := b_inputs a; b_nv := b_nv a; b_root := dd_not (b_root a) |}.

(* Evaluate *)
Definition b_eval_default (b : bdd) (rho : valuation) (d : bool) : bool :=
  let p := point_of (b_inputs b) rho d in
  dd_eval (b_root b) (fun i => nth i p false).
Definition b_evaluate (b : bdd) (rho : valuation) : bool := b_eval_default b rho false.
Definition b_eval_checked (b : bdd) (rho : valuation) : bool + list name :=
  match filter (fun x => negb (has rho x)) (b_inputs b) with
  | [] => inl (b_evaluate b rho)
  | missing => inr missing
  end.

Definition kept_inputs {X} (b : bdd) (m : list (name * X)) : list name :=
  filter (fun x => negb (has m x)) (b_inputs b).

Definition b_restrict (debug : bool) (b : bdd) (rho : valuation) : Res bdd :=
  let lib := flat_map (fun kv => match outer_to_inner b (fst kv) with Some i => [(i, snd kv)] | None => [] end) rho in
  prune debug {| b_inputs := b_inputs b; b_nv := b_nv b; b_root := dd_restrict lib (b_root b) |}
        (kept_inputs b rho).

Definition set_valuation (vars : list name) : list (name * unit) := map (fun x => (x, tt)) vars.

Definition b_quant (debug : bool) (q : list nat -> dd -> dd) (b : bdd) (vars : list name) : Res bdd :=
  let lib := flat_map (fun x => match outer_to_inner b x with Some i => [i] | None => [] end) vars in
  prune debug {| b_inputs := b_inputs b; b_nv := b_nv b; b_root := q lib (b_root b) |}
        (kept_inputs b (set_valuation vars)).
Definition b_exists debug := b_quant debug dd_exists.
Definition b_forall debug := b_quant debug dd_forall.

(* derivative (D6 repaired): for each listed variable F := F[v=0] xor F[v=1]; a variable that
   is not an input gives F xor F *)
Definition b_derivative (debug : bool) (b : bdd) (vars : list name) : Res bdd :=
  let root :=
    fold_left (fun acc x =>
                 match outer_to_inner b x with
                 | Some i => dd_xor (dd_restrict1 i false acc) (dd_restrict1 i true acc)
                 | None => dd_xor acc acc
                 end) vars (b_root b) in
  prune debug {| b_inputs := b_inputs b; b_nv := b_nv b; b_root := root |}
        (kept_inputs b (set_valuation vars)).

(* substitute (D8 repaired): keys that are not inputs are skipped; simultaneous composition by
   Shannon expansion over the keys; a key stays an input iff some replacement declares it *)
Fixpoint dd_subst_all (items : list (nat * dd)) (t : dd) : dd :=
  match items with
  | [] => t
  | (x, g) :: rest =>
      if negb (existsb (Nat.eqb x) (dd_support t)) then dd_subst_all rest t
      else dd_ite g (dd_subst_all rest (dd_restrict1 x true t)) (dd_subst_all rest (dd_restrict1 x false t))
  end.

Fixpoint extend_all (debug : bool) (m : list (name * bdd)) (common : list name) : Res (list (name * bdd)) :=
  match m with
  | [] => Ok []
  | (k, g) :: r => g' <- extend debug g common ;; r' <- extend_all debug r common ;; Ok ((k, g') :: r')
  end.

Definition b_substitute (debug : bool) (b : bdd) (m : list (name * bdd)) : Res bdd :=
  if existsb (fun kv => mem (fst kv) (b_inputs (snd kv))) m then Panic 30
  else
    let m1 := filter (fun kv => mem (fst kv) (b_inputs b)) m in
    let common := set_of_list (b_inputs b ++ concat (map (fun kv => b_inputs (snd kv)) m1)) in
    b' <- extend debug b common ;;
    m2 <- extend_all debug m1 common ;;
    let items := flat_map (fun kv => match index_of (fst kv) common with
                                     | Some i => [(i, b_root (snd kv))] | None => [] end) m2 in
    let root := dd_subst_all items (b_root b') in
    let mentioned := concat (map (fun kv => b_inputs (snd kv)) m1) in
    prune debug {| b_inputs := common; b_nv := length common; b_root := root |}
          (filter (fun x => negb (has m1 x) || mem x mentioned) common).

Definition is_true_dd (t : dd) : bool := match t with Leaf true => true | _ => false end.
Definition is_false_dd (t : dd) : bool := match t with Leaf false => true | _ => false end.

Definition b_equiv (debug : bool) (a b : bdd) : Res bool :=
  let common := common_inputs (b_inputs a) (b_inputs b) in
  a' <- extend debug a common ;; b' <- extend debug b common ;;
  Ok (is_true_dd (dd_iff (b_root a') (b_root b'))).
Definition b_implied_by (debug : bool) (a b : bdd) : Res bool :=
  let common := common_inputs (b_inputs a) (b_inputs b) in
  a' <- extend debug a common ;; b' <- extend debug b common ;;
  Ok (is_true_dd (dd_imp (b_root b') (b_root a'))).

(* iterators *)
Definition b_literals (b : bdd) : list name := set_of_list (b_inputs b).
Definition b_domain (b : bdd) : list (list bool) := points (length (b_inputs b)).
Definition b_image (b : bdd) : list bool :=
  map (fun p => dd_eval (b_root b) (fun i => nth i p false)) (b_domain b).
Definition b_relation (b : bdd) : list (list bool * bool) := combine (b_domain b) (b_image b).
(* into_sat_valuations: every satisfying valuation of the b_nv inner variables, once; the
   order is lib-bdd's business (compared as a set) *)
Definition b_support (b : bdd) : list (list bool) :=
  filter (fun p => dd_eval (b_root b) (fun i => nth i p false)) (points (b_nv b)).
Definition b_weight (b : bdd) : N := dd_count (b_nv b) (b_root b).
Definition b_sat_point (b : bdd) : option (list bool) := hd_error (b_support b).
Definition b_degree (b : bdd) : nat := length (b_literals b).
Definition b_essential_degree (b : bdd) : nat := length (dd_support (b_root b)).
Definition b_node_count (b : bdd) : nat := dd_size (b_root b).

(* conversions *)
Definition too_many (n : nat) : bool := (65535 <? N.of_nat n)%N.

Fixpoint dd_of_expr (lits : list name) (e : expr) : Res dd :=
  match e with
  | Lit x => match index_of x lits with Some i => Ok (dd_var i) | None => Panic 40 end
  | Const b => Ok (Leaf b)
  | Not x => rmap dd_not (dd_of_expr lits x)
  | And es =>
      fold_left (fun acc e => a <- acc ;; d <- dd_of_expr lits e ;; Ok (dd_and a d)) es (Ok (Leaf true))
  | Or es =>
      fold_left (fun acc e => a <- acc ;; d <- dd_of_expr lits e ;; Ok (dd_or a d)) es (Ok (Leaf false))
  end.

Definition bdd_of_expr (e : expr) : Res bdd :=
  let lits := literals e in
  if too_many (length lits) then Err 1
  else r <- dd_of_expr lits e ;; Ok {| b_inputs := lits; b_nv := length lits; b_root := r |}.

(* The clauses handed to mk_dnf are ALL points of the domain (the code iterates domain(), not
   support()), so the result is the constant true whatever the table says: known finding D1.
   The repair breaks two tests of the suite whose expected values are themselves wrong, so the
   defect is recorded, not repaired; Proofs/ConvProofs.v has the refutation and the theorem for
   the tables outside the failing class (the tautologies). *)
Definition bdd_of_table (t : table) : Res bdd :=
  let lits := t_literals t in
  if too_many (length lits) then Err 1
  else Ok {| b_inputs := lits; b_nv := length lits; b_root := dd_of_points (t_domain t) |}.

Definition table_of_bdd (b : bdd) : table :=
  {| t_inputs := b_literals b;
     t_outputs := map (fun p => dd_eval (b_root b) (fun i => nth i p false))
                      (points (length (b_literals b))) |}.

Definition clause_expr (b : bdd) (c : list (nat * bool)) : Res expr :=
  rmap And (fold_right (fun ib acc => l <- acc ;;
                          match inner_to_outer b (fst ib) with
                          | Some x => Ok (cell_expr x (snd ib) :: l)
                          | None => Panic 41 end) (Ok []) c).

Definition expr_of_bdd (b : bdd) : Res expr :=
  if is_true_dd (b_root b) then Ok (Const true)
  else if is_false_dd (b_root b) then Ok (Const false)
  else rmap Or (fold_right (fun c acc => l <- acc ;; x <- clause_expr b c ;; Ok (x :: l)) (Ok []) (dd_paths (b_root b))).

(* the representation invariant *)
Definition wf_bdd (b : bdd) : Prop :=
  sset (b_inputs b) /\ b_nv b = length (b_inputs b) /\ robdd (b_nv b) (b_root b).

Definition bsem (b : bdd) (v : env) : bool :=
  dd_eval (b_root b) (fun i => match nth_error (b_inputs b) i with Some x => v x | None => false end).
