(* Faithful executable model of src/parser/tokenize.rs (with structs/*.rs, utils/*.rs).
   A string is the list of its Unicode scalar values (`str::chars`).  Definitions only;
   proofs are in Proofs/ParserProofs.v.

   What the code does, as modelled here:
   - `tokenize_level` repeatedly skips `char::is_whitespace` characters, peeks a window of
     LONGEST_TOKEN_LEN + 1 = 6 characters and asks the RegexSet which of the 26 patterns
     "(?i)^<escaped spelling>" (word-like spellings are followed by "([^-_a-zA-Z0-9]|$)")
     match the window; the first matching pattern in ALL_TOKEN_PATTERNS_FROM_LONGEST wins;
   - no pattern: `consume_while_literal` takes the maximal run of [-_a-zA-Z0-9] (the regex
     SHOULD_END_LITERAL has no (?i)); an empty run is UnknownSymbolError;
   - "(" recurses, ")" returns from the recursion (error at top level), "{" reads verbatim up
     to the first "}", "}" alone is an error; end of input inside "(" is an error.
   - the (?i) flag is Unicode simple case folding: a pattern letter matches itself, its ASCII
     capital and, for `s` and `k`, also U+017F / U+212A; the negated class in the
     "followed by" group is the complement of the FOLDED class, so U+017F and U+212A do not
     terminate a keyword there.
   Positions in errors are counts of characters consumed when the error is raised. *)
From BBF Require Import Base.Prelude Base.Names.
From Coq Require Import Strings.String Strings.Ascii.

Local Open Scope N_scope.

(* ---------- characters ---------- *)
Definition str (s : string) : list N := map N_of_ascii (list_ascii_of_string s).

Definition in_range (lo hi c : N) : bool := N.leb lo c && N.leb c hi.

(* char::is_whitespace = Unicode White_Space *)
Definition is_ws (c : N) : bool :=
  in_range 9 13 c || N.eqb c 32 || N.eqb c 133 || N.eqb c 160 || N.eqb c 5760 ||
  in_range 8192 8202 c || N.eqb c 8232 || N.eqb c 8233 || N.eqb c 8239 || N.eqb c 8287 ||
  N.eqb c 12288.

Definition is_lower (c : N) : bool := in_range 97 122 c.
Definition is_upper (c : N) : bool := in_range 65 90 c.
Definition is_digit (c : N) : bool := in_range 48 57 c.

(* [-_a-zA-Z0-9] *)
Definition is_ident (c : N) : bool :=
  N.eqb c 45 || N.eqb c 95 || is_lower c || is_upper c || is_digit c.

Definition long_s : N := 383.      (* U+017F LATIN SMALL LETTER LONG S, folds with s *)
Definition kelvin : N := 8490.     (* U+212A KELVIN SIGN, folds with k *)

(* (?i)[-_a-zA-Z0-9] : the class closed under simple case folding *)
Definition is_ident_ci (c : N) : bool := is_ident c || N.eqb c long_s || N.eqb c kelvin.

(* (?i) on one pattern character p (the spellings are lower case): does c match? *)
Definition ci_eq (p c : N) : bool :=
  N.eqb c p ||
  (is_lower p && N.eqb c (p - 32)) ||
  (N.eqb p 115 && N.eqb c long_s) ||
  (N.eqb p 107 && N.eqb c kelvin).

(* ---------- tokens ---------- *)
Inductive token : Type :=
| TAnd | TOr | TNot | TTrue | TFalse
| TLit (x : name)
| TParens (l : list token).

Section TokenInd.
  Variable P : token -> Prop.
  Hypotheses (HA : P TAnd) (HO : P TOr) (HN : P TNot) (HT : P TTrue) (HF : P TFalse)
             (HL : forall x, P (TLit x)) (HP : forall l, Forall P l -> P (TParens l)).
  Fixpoint token_ind' (t : token) : P t :=
    match t with
    | TAnd => HA | TOr => HO | TNot => HN | TTrue => HT | TFalse => HF
    | TLit x => HL x
    | TParens l => HP l ((fix go l : Forall P l :=
                            match l with [] => Forall_nil P | x :: r => Forall_cons x (token_ind' x) (go r) end) l)
    end.
End TokenInd.

(* the 7 variants of TokenizeError, with the reported position (vicinity strings dropped) *)
Inductive tokenize_error : Type :=
| UnexpectedClosingParenthesis (position : nat)
| MissingClosingParenthesis (position : nat)
| UnexpectedClosingCurlyBrace (position : nat)
| MissingClosingCurlyBrace (position : nat)
| EmptyLiteralName (position : nat)
| UnknownSymbolError (position : nat)
| UnexpectedWhitespace.                      (* declared by the code, never constructed *)

(* ---------- the pattern set ---------- *)
Inductive kind : Type :=
| KTok (t : token)        (* an operator or constant spelling *)
| KLParen | KRParen | KLBrace | KRBrace.

Definition p_false := Eval compute in str "false"%string.
Definition p_true := Eval compute in str "true"%string.
Definition p_and := Eval compute in str "and"%string.
Definition p_not := Eval compute in str "not"%string.
Definition p_or := Eval compute in str "or"%string.

(* ALL_TOKEN_PATTERNS_FROM_LONGEST: spelling, word-like (gets the "followed by" group), meaning *)
Definition patterns : list (list N * bool * kind) :=
  [ (p_false, true, KTok TFalse);
    (p_true, true, KTok TTrue);
    (p_and, true, KTok TAnd);
    (p_not, true, KTok TNot);
    ([38; 38], false, KTok TAnd);          (* && *)
    ([124; 124], false, KTok TOr);         (* || *)
    (p_or, true, KTok TOr);
    ([38], false, KTok TAnd);              (* & *)
    ([8743], false, KTok TAnd);            (* U+2227 *)
    ([94], false, KTok TAnd);              (* ^ *)
    ([42], false, KTok TAnd);              (* * *)
    ([124], false, KTok TOr);              (* | *)
    ([8744], false, KTok TOr);             (* U+2228 *)
    ([118], true, KTok TOr);               (* v *)
    ([43], false, KTok TOr);               (* + *)
    ([126], false, KTok TNot);             (* ~ *)
    ([33], false, KTok TNot);              (* ! *)
    ([172], false, KTok TNot);             (* U+00AC *)
    ([102], true, KTok TFalse);            (* f *)
    ([48], true, KTok TFalse);             (* 0 *)
    ([116], true, KTok TTrue);             (* t *)
    ([49], true, KTok TTrue);              (* 1 *)
    ([123], false, KLBrace);
    ([125], false, KRBrace);
    ([40], false, KLParen);
    ([41], false, KRParen) ].

(* "(?i)^spelling": the rest of the window after the spelling *)
Fixpoint strip_ci (p w : list N) : option (list N) :=
  match p with
  | [] => Some w
  | pc :: p' => match w with
                | [] => None
                | c :: w' => if ci_eq pc c then strip_ci p' w' else None
                end
  end.

(* "([^-_a-zA-Z0-9]|$)" under (?i), at the position after the spelling *)
Definition boundary (rest : list N) : bool :=
  match rest with [] => true | c :: _ => negb (is_ident_ci c) end.

Definition pat_matches (p : list N) (word : bool) (w : list N) : bool :=
  match strip_ci p w with
  | None => false
  | Some rest => if word then boundary rest else true
  end.

(* IntermediateToken::try_from: the first pattern of the list that matches the window;
   the consumed length is the number of characters of the spelling *)
Fixpoint first_match (ps : list (list N * bool * kind)) (w : list N) : option (kind * nat) :=
  match ps with
  | [] => None
  | (p, word, k) :: ps' => if pat_matches p word w then Some (k, List.length p) else first_match ps' w
  end.

Definition window : nat := 6%nat.       (* LONGEST_TOKEN_LEN + 1 *)
Definition classify (s : list N) : option (kind * nat) := first_match patterns (firstn window s).

(* ---------- the scanning helpers ---------- *)
Fixpoint trim_ws (s : list N) : list N :=
  match s with
  | c :: r => if is_ws c then trim_ws r else s
  | [] => []
  end.

(* consume_while_literal: the maximal run of identifier characters and what follows *)
Fixpoint span_ident (s : list N) : list N * list N :=
  match s with
  | c :: r => if is_ident c then let '(a, b) := span_ident r in (c :: a, b) else ([], s)
  | [] => ([], [])
  end.

(* consume_until_brace, after the opening brace: text before the first "}" and text after it *)
Fixpoint until_brace (s : list N) : option (list N * list N) :=
  match s with
  | [] => None
  | c :: r => if N.eqb c 125 then Some ([], r)
              else match until_brace r with
                   | Some (a, b) => Some (c :: a, b)
                   | None => None
                   end
  end.

(* ---------- tokenize_level ---------- *)
Inductive ekind := EUnexpParen | EMissingParen | EUnexpBrace | EMissingBrace | EEmptyName | EUnknown.

(* internal result: tokens and unread input / error kind and unread input when it is raised *)
Inductive lexr : Type :=
| LOk (toks : list token) (rest : list N)
| LErr (k : ekind) (rest : list N)
| LFuel.

(* One call = one iteration of the `while` loop (the loop is the tail call with the
   accumulator `acc`, in reverse) or the entry of a nested level. *)
Fixpoint lex_level (fuel : nat) (top : bool) (s : list N) (acc : list token) : lexr :=
  match fuel with
  | O => LFuel
  | S f =>
      match trim_ws s with
      | [] => if top then LOk (rev acc) [] else LErr EMissingParen []
      | c :: s' =>
          let s1 := c :: s' in
          match classify s1 with
          | None =>
              let '(nm, rest) := span_ident s1 in
              match nm with
              | [] => LErr EUnknown s1
              | _ => lex_level f top rest (TLit nm :: acc)
              end
          | Some (KTok t, n) => lex_level f top (skipn n s1) (t :: acc)
          | Some (KLParen, _) =>
              match lex_level f false s' [] with
              | LOk inner rest => lex_level f top rest (TParens inner :: acc)
              | r => r
              end
          | Some (KRParen, _) => if top then LErr EUnexpParen s1 else LOk (rev acc) s'
          | Some (KLBrace, _) =>
              match until_brace s' with
              | None => LErr EMissingBrace []
              | Some (nm, rest) =>
                  match nm with
                  | [] => LErr EEmptyName rest
                  | _ => lex_level f top rest (TLit nm :: acc)
                  end
              end
          | Some (KRBrace, _) => LErr EUnexpBrace s1
          end
      end
  end.

Inductive tokenize_result : Type :=
| TokOk (toks : list token)
| TokErr (e : tokenize_error)
| TokFuel.                         (* the model ran out of fuel: proved impossible *)

Definition mk_error (k : ekind) (pos : nat) : tokenize_error :=
  match k with
  | EUnexpParen => UnexpectedClosingParenthesis pos
  | EMissingParen => MissingClosingParenthesis pos
  | EUnexpBrace => UnexpectedClosingCurlyBrace pos
  | EMissingBrace => MissingClosingCurlyBrace pos
  | EEmptyName => EmptyLiteralName pos
  | EUnknown => UnknownSymbolError pos
  end.

Definition tokenize_fuel (fuel : nat) (s : list N) : tokenize_result :=
  match lex_level fuel true s [] with
  | LOk toks _ => TokOk toks
  | LErr k rest => TokErr (mk_error k (List.length s - List.length rest)%nat)
  | LFuel => TokFuel
  end.

(* the canonical fuel *)
Definition tokenize (s : list N) : tokenize_result := tokenize_fuel (S (List.length s)) s.
