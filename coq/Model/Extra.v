(* Public operations of the expression and table types that no instruction of the case language reached before:
   Expression::rename_literals (src/expressions/structs/expression.rs) and the public
   boolean_point_to_valuation methods of Expression and TruthTable (src/{expressions,table}/iterators/mod.rs).
   Definitions only; proofs in Proofs/ExtraProofs.v. *)
From BBF Require Import Base.Prelude Base.Names Base.Bits Spec.Sem Model.Expr Model.Table Model.LibBdd Model.Bdd Model.Prog Model.Iter Model.Render Model.Csv.

(* mapping.get(name).unwrap_or(name) *)
Definition rn (m : list (name * name)) (x : name) : name :=
  match get m x with Some y => y | None => x end.

Fixpoint e_rename (e : expr) (m : list (name * name)) : expr :=
  match e with
  | Lit x => Lit (rn m x)
  | Const b => Const b
  | Not a => Not (e_rename a m)
  | And es => And (map (fun a => e_rename a m) es)
  | Or es => Or (map (fun a => e_rename a m) es)
  end.

Definition e_point_valuation (e : expr) (p : list bool) : option valuation := point_valuation (literals e) p.
Definition t_point_valuation (t : table) (p : list bool) : option valuation := point_valuation (t_literals t) p.
Definition obj_point_valuation (o : obj) (p : list bool) : Res (option valuation) :=
  match o with
  | OE e => Ok (e_point_valuation e p)
  | OT t => Ok (t_point_valuation t p)
  | OB _ => na
  end.

(* the payload of TruthTableFromCsvError::DuplicateVariableName: the first header cell (output column excluded)
   that repeats an earlier one (inputs_from_header: BTreeSet::insert returning false) *)
Definition dup_of_records (rs : list (list text)) : option name :=
  match header_and_data rs with
  | Ok (true, first, _) => first_dup [] (removelast first)
  | _ => None
  end.
Definition csv_duplicate_name (s : text) : option name :=
  match s with [] => None | _ => dup_of_records (split_records s) end.

(* the payload of NonBooleanCellValue: the text of the first cell that is no Boolean spelling, in the order the
   import reads them (records in order; in a record the input cells in the order of the sorted variables, then
   the output cell) *)
Fixpoint bad_in_cells (r : list text) (cols vars : list name) : option text :=
  match vars with
  | [] => None
  | x :: vs =>
      match nth_error r (column_of x cols) with
      | None => None
      | Some c => match string_to_bool c with None => Some c | Some _ => bad_in_cells r cols vs end
      end
  end.
Definition bad_in_record (w : nat) (cols vars : list name) (r : list text) : option text :=
  if negb (Nat.eqb (length r) w) then None
  else match parse_cells r cols vars with
       | Ok _ => match last_cell r with
                 | Some c => match string_to_bool c with None => Some c | Some _ => None end
                 | None => None
                 end
       | _ => bad_in_cells r cols vars
       end.
Fixpoint bad_in_records (w : nat) (cols vars : list name) (rs : list (list text)) : option text :=
  match rs with
  | [] => None
  | r :: rest => match parse_record w cols vars r with
                 | Ok _ => bad_in_records w cols vars rest
                 | _ => bad_in_record w cols vars r
                 end
  end.
Definition bad_cell_of_records (rs : list (list text)) : option text :=
  match header_and_data rs with
  | Ok (is_header, first, rest) =>
      let w := length first in
      match (if is_header
             then match first_dup [] (removelast first) with Some _ => None | None => Some (removelast first) end
             else Some (map x_name (seq 0 (w - 1)))) with
      | None => None
      | Some cols => bad_in_records w cols (set_of_list cols) (if is_header then rest else first :: rest)
      end
  | _ => None
  end.
Definition csv_bad_cell (s : text) : option text :=
  match s with [] => None | _ => bad_cell_of_records (split_records s) end.
