#!/bin/bash
# Development aid: every saved seeded change against the quick check of the property recorded for it
# (meta.json: property_checked, else property). Applies to /repo, runs, restores. Prints one line per seed.
cd "$(dirname "$0")/.."
for d in seeded/*/; do
  id=$(basename $d); [ -f $d/meta.json ] || continue
  prop=$(python3 -c "import json; m=json.load(open('$d/meta.json')); print(m.get('property_checked') or str(m.get('property',''))[:3])")
  (cd /repo && git apply /verif/$d/patch.diff) || { echo "$id $prop patch-does-not-apply"; continue; }
  out=$(./vp check $prop 2>&1); rc=$?
  kind=$(echo "$out" | grep -E "^VIOLATION" | head -1 | grep -q "no-failing-input-found" && echo "corr-only" || echo "failing-input")
  [ $rc -eq 0 ] && kind="MISSED"
  echo "$id $prop exit=$rc $kind"
  git -C /repo checkout -- .
done
