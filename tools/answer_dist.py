#!/usr/bin/env python3
"""Development aid: distribution of the yes/no answers the implementation gives on the quick-tier cases of every
property (a query whose answer is almost always the same cannot show a wrong answer of the other kind).
Uses the case shards left in build/cases by the last run of each check and the built harness."""
import collections, glob, os, subprocess, sys
ROOT = os.path.dirname(os.path.dirname(os.path.abspath(__file__)))
H = os.path.join(ROOT, "build", "target", "debug", "bbf-harness")
KEYS = ("equiv", "implied", "semeq", "acc", "val", "nnf", "cnf", "dnf", "lit", "const")
for prop in sorted(os.listdir(os.path.join(ROOT, "build", "cases"))):
    if not prop.startswith("C"): continue
    cnt = collections.defaultdict(collections.Counter)
    for f in sorted(glob.glob(os.path.join(ROOT, "build", "cases", prop, "shard*.case"))):
        try: out = subprocess.run([H, f], capture_output=True, text=True, timeout=300).stdout
        except Exception: continue
        qs = {}
        cid = None; ln = 0
        for l in open(f):
            t = l.split()
            if not t: continue
            if t[0] == "case": cid = t[1]; ln = 0
            elif t[0] in ("r", "q"):
                ln += 1
                if t[0] == "q" and t[1] in ("equiv", "implied", "semeq"): qs[(cid, str(ln))] = t[1]
        for line in out.split("\n"):
            parts = line.split(" ")
            if len(parts) >= 3 and (parts[0], parts[1]) in qs and parts[2].startswith("ans="):
                cnt[qs[(parts[0], parts[1])]][parts[2][4:]] += 1
            for tok in parts[2:]:
                if "=" in tok:
                    k, v = tok.split("=", 1)
                    if k in KEYS and v in ("0", "1", "true", "false"): cnt[k][v] += 1
                    if k == "checked": cnt[k]["ok" if v.startswith("ok") else "missing" if v.startswith("missing") else v[:8]] += 1
                    if k == "sat": cnt[k]["none" if v == "none" else "some"] += 1
                    if k == "p2v": cnt[k]["none" if v == "none" else "some"] += 1
    if cnt: print(prop, {k: dict(v) for k, v in cnt.items()})
