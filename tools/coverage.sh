#!/bin/bash
# Development aid (not a registered check): how much of /repo/src does the correspondence execute?
# Builds the harness with -C instrument-coverage on the nightly toolchain (its llvm-tools) in a scratch
# target directory, runs it on the case shards of every property (quick tier) and prints the llvm-cov
# report for /repo/src plus every line that was never executed.  Scratch data is removed at the end.
set -e
cd "$(dirname "$0")/.."
T=$(mktemp -d /tmp/bbfcov.XXXXXX)
B=$(dirname "$(rustup +nightly which rustc)")/../lib/rustlib/x86_64-unknown-linux-gnu/bin
for p in C01 C02 C03 C04 C05 C06 C07 C08 C09 C10 C11 C12 C13 C14 C15 C16 C17 C18 C19 C20; do ./vp corr $p >/dev/null 2>&1 || true; done
(cd harness && LLVM_PROFILE_FILE=$T/build-%p.profraw CARGO_NET_OFFLINE=true CARGO_TARGET_DIR=$T/target RUSTFLAGS="-C instrument-coverage" cargo +nightly build --offline 2>&1 | tail -1)
ls build/cases/C*/shard*.case | xargs -P 12 -I{} bash -c "ulimit -s unlimited; LLVM_PROFILE_FILE=$T/prof/%p-%m.profraw timeout 600 $T/target/debug/bbf-harness {} >/dev/null 2>&1 || true"
$B/llvm-profdata merge -sparse $T/prof/*.profraw -o $T/cov.profdata
$B/llvm-cov report $T/target/debug/bbf-harness -instr-profile=$T/cov.profdata --ignore-filename-regex='(registry|rustc|harness|rustup)' | awk '{printf "%-55s regions %5s missed %4s  functions %4s missed %3s  lines %5s missed %4s\n", $1, $2, $3, $5, $6, $8, $9}'
echo "--- lines never executed ---"
$B/llvm-cov show $T/target/debug/bbf-harness -instr-profile=$T/cov.profdata --ignore-filename-regex='(registry|rustc|harness|rustup)' --show-regions=false 2>/dev/null | grep -B2 "^ *[0-9]*| *0|" || true
rm -rf $T
