#!/usr/bin/env python3
"""Regenerates MANIFEST.json from the table below (run after adding a property)."""
import json, os, subprocess
ROOT = os.path.dirname(os.path.dirname(os.path.abspath(__file__)))
props = [json.loads(l) for l in open(os.path.join(ROOT, "properties.jsonl"))]

# property -> (technique, level text, level note, design ref)
CLAIMED = {
 "C02": ("Coq theorems (evaluation = denotation, checked mode, coincidence) + differential correspondence model vs code",
         "machine-checked proof about the Gallina model of the three evaluators, for all expressions/tables/diagrams and all assignments; the model is tied to /repo by running both on all trees up to a size bound under all partial assignments",
         "Coq kernel; hand-written model; lib-bdd modelled as canonical decision trees; correspondence only on generated cases", "DESIGN.md section 6, C02"),
 "C05": ("Coq theorems (restriction refines override, inputs = difference, wf preserved) + differential correspondence",
         "machine-checked proof for all functions and all partial assignments (empty and foreign included); tie by exhaustive enumeration of functions of <= 3 variables x all partial assignments, three representations",
         "Coq kernel; hand-written model; lib-bdd modelled; correspondence only on generated cases", "DESIGN.md section 6, C05"),
}
REASONS = {}
hooks = subprocess.run("git -C /repo log --format=%h --grep='^verif hooks'", shell=True, capture_output=True, text=True).stdout.split()
m = {
 "version": 1,
 "setup_cmd": "./vp setup",
 "hooks": {"guard": "cargo feature `verif`",
           "enable": "harness/Cargo.toml depends on /repo with default-features=false, features=[\"csv\",\"verif\"]",
           "baseline_off_cmd": "cd /repo && cargo nextest run --workspace --no-fail-fast --test-threads 8 --offline",
           "source_commits": hooks, "add_only": True},
 "engines": [{"name": "coq-model", "path": "coq/", "serves_properties": sorted(CLAIMED), "kind_free_text": "Coq 8.16.1 development: faithful model, specification, theorems per property (Properties/Cxx.v), pins"},
             {"name": "correspondence", "path": "vp", "serves_properties": sorted(CLAIMED), "kind_free_text": "Rust harness linked against /repo vs OCaml-extracted model and specification on one shared case language"}],
 "checks": [],
 "not_applicable": [],
 "notes": "every check: (1) rebuilds the Coq development and re-checks the property's theorems with Print Assumptions, (2) rebuilds the harness from /repo's working tree, (3) runs impl / model / spec on generated cases and diffs. See DESIGN.md.",
}
for p in props:
    pid = p["id"]
    if pid in CLAIMED:
        tech, text, note, ref = CLAIMED[pid]
        m["checks"].append({
            "property_id": pid,
            "quick_cmd": "./vp check %s --tier quick" % pid,
            "thorough_cmd": "./vp check %s --tier thorough" % pid,
            "evidence_file": "evidence/%s.json" % pid,
            "replay_cmd_template": "./vp replay {path}",
            "engine": "coq-model+correspondence",
            "level_claimed": {"category": "proof", "text": text, "design_ref": ref},
            "level_note": note,
            "technique": tech,
        })
    else:
        m["not_applicable"].append({"property_id": pid, "reason": REASONS.get(pid, "check not built yet (work in progress, see DESIGN.md section 11); the technique applies")})
json.dump(m, open(os.path.join(ROOT, "MANIFEST.json"), "w"), indent=1)
print("claimed:", sorted(CLAIMED))
