#!/usr/bin/env python3
"""Regenerates MANIFEST.json from the table below (run after adding a property)."""
import json, os, subprocess
ROOT = os.path.dirname(os.path.dirname(os.path.abspath(__file__)))
props = [json.loads(l) for l in open(os.path.join(ROOT, "properties.jsonl"))]

# property -> (technique, level text, level note, design ref)
NOTE = "Coq kernel; hand-written model tied to /repo only by the correspondence check on the generated cases; lib-bdd, regex, csv, tabled modelled, not verified"
def C(tech, text, ref): return (tech, text, NOTE, "DESIGN.md section 6, " + ref)
CLAIMED = {
 "C01": C("Coq theorems per conversion (5 correct for all inputs; table->Bdd refuted = known finding D1) + differential correspondence on all conversion paths",
          "proof for all expressions/tables/diagrams that five conversions preserve function and inputs; the sixth is proved to be wrong (constant true) and listed as known finding D1; every conversion path up to a length bound for all functions of <= 3 variables is run against the code", "C01"),
 "C02": C("Coq theorems (evaluation = denotation, checked mode, coincidence) for the three representations + differential correspondence",
          "proof for all objects and assignments; tie by all trees up to a size bound under all partial assignments", "C02"),
 "C03": C("Coq theorems (connectives pointwise over the union of inputs, extend_ok = the unsafe block's precondition) + differential correspondence",
          "proof for all operands of the three representations; tie by every pair of functions of <= 2 variables under every alignment, three call forms", "C03"),
 "C04": C("Coq theorems (is_equivalent / is_implied_by decide semantic equality / entailment; canonicity of ordered reduced trees) + differential correspondence",
          "proof for all pairs; tie by all aligned pairs of small functions, directly and through identity histories", "C04"),
 "C05": C("Coq theorems (restriction refines override, inputs = difference, wf preserved, prune_ok) + differential correspondence",
          "proof for all functions and partial assignments; tie exhaustive on functions of <= 3 variables x all partial assignments", "C05"),
 "C06": C("Coq theorems (quantifiers = elimination one variable at a time = combination over all assignments, order independent) + differential correspondence",
          "proof for all functions and variable sets in the three representations; tie exhaustive on functions of <= 3 variables x all subsets of a 4-name universe", "C06/C07"),
 "C07": C("Coq theorems (derivative = xor-elimination = parity over all assignments; single variable; independent variable; empty set) + differential correspondence",
          "proof for all functions and variable sets; tie exhaustive as C06", "C06/C07"),
 "C08": C("Coq theorems (substitution = simultaneous composition; only the documented refusal panics; keys stay only if mentioned; rename_literals is substitution by variables) + differential correspondence",
          "proof for all functions and maps in the three representations; tie by exhaustive small maps incl. foreign keys, mutual references, fresh variables", "C08"),
 "C09": C("Coq theorems (essential inputs = variables the function depends on, three algorithms; support = dependence by canonicity) + differential correspondence",
          "proof for all objects; tie by all functions of <= 3 (4) variables with padded inessential inputs in every position", "C09"),
 "C10": C("Coq theorems (domain = all points once in value order; image, relation, support, weight, sat point characterised; codec; the iterator structs as state machines refine these lists call by call, incl. nth/count/last on partly consumed iterators) + differential correspondence",
          "proof for all objects of the three representations (diagram weight and sat point: correspondence only); tie by all functions of <= 3 (4) variables", "C10"),
 "C11": C("Coq theorems (nnf/cnf/dnf preserve the function, add no variables, have the promised shape; predicates = reference shapes) + differential correspondence",
          "proof for all expression trees; tie by all trees up to a size bound, returned tree compared structurally", "C11"),
 "C12": C("Coq theorems (tokenizer = declarative reference lexer on every Unicode string; parse_tokens = reference grammar; from_str = reference reading) + differential correspondence",
          "proof for all strings; tie by all token pairs/triples over the full alphabet, spacings, window edges, random sentences", "C12"),
 "C13": C("Coq theorems (from_str total, never panics, fuel suffices, rejects exactly what the reference grammar rejects; each malformed class) + differential correspondence",
          "proof for all strings about the model; stack depth and time are runtime behaviour exercised up to depth 300/1000 (partial)", "C13"),
 "C14": C("Coq theorems (print then parse: same tree for proper trees, same function and variables for printable ones) + differential correspondence",
          "proof for all printable expression trees; tie by all trees up to a size bound over identifier-safe names", "C14"),
 "C15": C("Coq theorems (every instruction keeps objects well-formed and denoting the specified function; closure over every program; only the documented panic; diagrams determined by function) + differential correspondence on random programs",
          "proof for all finite programs over the instruction set (excluding the known-finding conversion D1 and the explicitly empty table); tie by random programs with full observation after every instruction", "C15"),
 "C19": C("Coq theorems about an executable model of the Python layer (py_exec: every call returns what the Rust operation returns, exception classes of failures, PanicException only for the documented refusal) + differential execution of the built extension module against the Rust API and the model's exception classes on the same scripted calls (every method, iterator protocol, every error kind); partial: PyO3 glue is runtime behaviour",
          "the property is itself a correspondence between two executables: the Python layer is modelled as an interpreter of the case language over the Rust-level model and the forwarding / exception theorems are proved about it; the model is tied to the built module by executing every method of the three classes on the same inputs, value for value and exception class for exception class (the expected class comes from the extracted model); the Rust side of every call is covered by the theorems of C01-C18; interpreter aborts are caught as failed shards", "C19"),
 "C20": C("Coq theorems (independence of hash-container iteration order; operands never altered) + repeated-process differential runs with an in-place purity probe and error texts observed (partial: process-level randomness is exercised, not proved)",
          "proof that the model's results do not depend on the order of the hash containers the code builds and that registers are immutable; every call made twice per process (the second time on node-by-node rebuilt copies of its arguments) and in several processes with fresh hash seeds must agree; histories with short-lived objects and related parser inputs; source scan for interior mutability", "C20"),
 "C16": C("Coq theorems (import sound and complete w.r.t. 'the records describe a complete unambiguous table'; never panics; entry points agree; the reported duplicate name and offending cell characterised) + differential correspondence",
          "proof for all record lists / texts relative to the csv splitter model; tie by all small tables x permutations x spellings, all single-fault mutations, random text, both entry points", "C16"),
 "C17": C("Coq theorems (export/import round trip for csv-safe names, all 16 formattings; line structure) + differential correspondence",
          "proof for all well-formed tables with csv-safe names; tie by every function of <= 3 (4) variables x 16 formattings, byte for byte", "C17"),
 "C18": C("Coq theorems (cells read back from the rendering = header + relation, four styles, any width function; Display = frameless/word) + differential correspondence",
          "proof for all tables with clean names relative to the tabled model; tie byte for byte plus an independent cell reader on the real output", "C18"),
}
REASONS = {}
hooks = subprocess.run("git -C /repo log --format=%h --grep='^verif hooks'", shell=True, capture_output=True, text=True).stdout.split()
m = {
 "version": 1,
 "setup_cmd": "./vp setup",
 "hooks": {"guard": "cargo feature `verif`",
           "enable": "harness/Cargo.toml depends on /repo with default-features=false, features=[\"csv\",\"verif\"]",
           "baseline_off_cmd": "cd /repo && cargo nextest run --workspace --no-fail-fast --test-threads 8 --offline",
           "source_commits": hooks, "add_only": True},
 "engines": [{"name": "coq-model", "path": "coq/", "serves_properties": sorted(CLAIMED), "kind_free_text": "Coq 8.16.1 development: faithful model, specification, theorems per property (Properties/Cxx.v), pins"},
             {"name": "correspondence", "path": "vp", "serves_properties": sorted(CLAIMED), "kind_free_text": "Rust harness linked against /repo vs OCaml-extracted model and specification on one shared case language"}],
 "checks": [],
 "not_applicable": [],
 "notes": "every check: (1) rebuilds the Coq development and re-checks the property's theorems with Print Assumptions, (2) rebuilds the harness from /repo's working tree, (3) runs impl / model / spec on generated cases and diffs. See DESIGN.md.",
}
for p in props:
    pid = p["id"]
    if pid in CLAIMED:
        tech, text, note, ref = CLAIMED[pid]
        m["checks"].append({
            "property_id": pid,
            "quick_cmd": "./vp check %s --tier quick" % pid,
            "thorough_cmd": "./vp check %s --tier thorough" % pid,
            "evidence_file": "evidence/%s.json" % pid,
            "replay_cmd_template": "./vp replay {path}",
            "engine": "coq-model+correspondence",
            "level_claimed": {"category": "proof", "text": text, "design_ref": ref},
            "level_note": note,
            "technique": tech,
        })
    else:
        m["not_applicable"].append({"property_id": pid, "reason": REASONS.get(pid, "check not built yet (work in progress, see DESIGN.md section 11); the technique applies")})
json.dump(m, open(os.path.join(ROOT, "MANIFEST.json"), "w"), indent=1)
print("claimed:", sorted(CLAIMED))
