#!/usr/bin/env python3
"""regenerate section 0.7 of DESIGN.md (theorem names per property) and the theorem counts from coq/Properties/*.v"""
import re, glob, os
root = os.path.join(os.path.dirname(os.path.abspath(__file__)), "..")
s = open(os.path.join(root, "DESIGN.md")).read()
n = sum(len(re.findall(r'^Theorem ', open(f).read(), re.M)) for f in glob.glob(os.path.join(root, "coq/Properties/C*.v")))
s = re.sub(r'the \d+ property theorems', 'the %d property theorems' % n, s)
s = re.sub(r'for all \d+ property theorems', 'for all %d property theorems' % n, s)
a = s.index("### 0.7 Theorems per property"); b = s.index("-" * 75, a)
old = s[a:b]
notes = dict(re.findall(r'^\* \*\*(C\d\d)\*\* \(\d+\): .*? — \*(.*)\*$', old, re.M))
lines = ["### 0.7 Theorems per property (the files `coq/Properties/Cxx.v`; statements are pinned in `coq/Pins/`)\n\n"]
for i in range(1, 21):
    p = "C%02d" % i
    ths = re.findall(r'^Theorem (\w+)', open(os.path.join(root, "coq/Properties/%s.v" % p)).read(), re.M)
    lines.append("* **%s** (%d): %s.%s\n" % (p, len(ths), ", ".join("`%s`" % t for t in ths), " — *%s*" % notes[p] if p in notes else ""))
lines.append("\n")
open(os.path.join(root, "DESIGN.md"), "w").write(s[:a] + "".join(lines) + s[b:])
print(n, "theorems")
