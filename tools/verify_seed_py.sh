#!/bin/bash
# usage: verify_seed_py.sh <label> <srcdir>  -- as verify_seed.sh, for seeded changes in the Python bindings:
# the demonstration is demo/demo.py <dir holding biodivine_boolean_functions.so>
id=$1; src=$2; wt=/tmp/vs_$id
set -u
git -C /repo worktree remove --force $wt 2>/dev/null; rm -rf $wt
git -C /repo worktree add -q $wt HEAD || exit 2
export CARGO_NET_OFFLINE=true CARGO_TARGET_DIR=$wt/target
build() { cd $wt && timeout 1500 cargo build --offline --features csv -q 2>/dev/null; mkdir -p $wt/pymod; cp $wt/target/debug/libbiodivine_boolean_functions.so $wt/pymod/biodivine_boolean_functions.so; }
build; python3 $src/demo/demo.py $wt/pymod > $wt/demo_orig.out 2>&1; orig=$?
cd $wt && git apply $src/patch.diff || { echo "PATCH DOES NOT APPLY"; exit 2; }
timeout 1500 cargo nextest run --workspace --no-fail-fast --test-threads 8 --offline > $wt/suite.out 2>&1; suite=$?
build; python3 $src/demo/demo.py $wt/pymod > $wt/demo_changed.out 2>&1; changed=$?
echo "$id: demo_original_exit=$orig suite_exit=$suite ($(grep -o '[0-9]* passed' $wt/suite.out | tail -1)) demo_changed_exit=$changed"
tail -1 $wt/demo_orig.out; tail -1 $wt/demo_changed.out
cd /; git -C /repo worktree remove --force $wt
