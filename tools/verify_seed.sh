#!/bin/bash
# usage: verify_seed.sh Cxx [srcdir]  -- independent confirmation of a seeded change in a scratch worktree:
# demo passes on the original, suite passes with the change, demo fails with the change.
id=$1; src=${2:-/tmp/seedout/$id}; wt=/tmp/vs_$id
set -u
git -C /repo worktree remove --force $wt 2>/dev/null; rm -rf $wt
git -C /repo worktree add -q $wt HEAD || exit 2
mkdir -p $wt/demo && cp -r $src/demo/Cargo.toml $wt/demo/ && mkdir -p $wt/demo/src && cp $src/demo/src/*.rs $wt/demo/src/ && cp /repo/Cargo.lock $wt/demo/ 2>/dev/null
export CARGO_NET_OFFLINE=true CARGO_TARGET_DIR=$wt/target
cd $wt/demo && timeout 900 cargo run --offline -q > $wt/demo_orig.out 2>&1; orig=$?
cd $wt && git apply $src/patch.diff || { echo "PATCH DOES NOT APPLY"; exit 2; }
timeout 1500 cargo nextest run --workspace --no-fail-fast --test-threads 8 --offline > $wt/suite.out 2>&1; suite=$?
cd $wt/demo && timeout 900 cargo run --offline -q > $wt/demo_changed.out 2>&1; changed=$?
echo "$id: demo_original_exit=$orig suite_exit=$suite ($(grep -o '[0-9]* passed' $wt/suite.out | tail -1)) demo_changed_exit=$changed"
tail -2 $wt/demo_orig.out | head -2; tail -2 $wt/demo_changed.out
cd /; git -C /repo worktree remove --force $wt
