#!/bin/bash
# Development aid: for every `fix:` commit in /repo, undo it in the working tree (never committed), run the check of
# the property it repaired, and restore the tree. Each must print a VIOLATION with a failing input: a fixed
# entry of known_findings.json suppresses nothing, the defect is reported again if it returns.
cd "$(dirname "$0")/.."
for pair in "2568412 C05" "f52e9d2 C06" "33c6b74 C07" "acb7843 C08" "d575aa8 C11" "1c203a5 C04" "9443a35 C07" "31229d5 C08" "2d446fe C16"; do
  set -- $pair
  d=$(mktemp /tmp/fixrev.XXXXXX)
  git -C /repo diff $1^ $1 -- src > $d
  (cd /repo && git apply -R $d) || { echo "$1: revert does not apply"; git -C /repo checkout -- .; rm -f $d; continue; }
  out=$(./vp check $2 2>&1 | grep -E "^(OK|VIOLATION|KNOWN)" | head -1 | cut -c1-100)
  echo "$1 $2: $out"
  git -C /repo checkout -- .; rm -f $d
done
