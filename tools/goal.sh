#!/bin/bash
# usage: goal.sh FILE LINE  -- run FILE up to LINE (inclusive) in coqtop and show the goals
f=$1; n=$2
cd /verif/coq
( head -n "$n" "$f"; echo; echo "Show."; ) | timeout 120 coqtop -Q . BBF -w -deprecated-hint-without-locality 2>&1 | tail -n ${3:-40}
