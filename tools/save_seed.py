#!/usr/bin/env python3
"""save_seed.py <srcdir> <dest-id> [history text]  -- copy a confirmed seeded change into seeded/<dest-id>/"""
import json, os, shutil, sys
src, dest = sys.argv[1], sys.argv[2]
hist = sys.argv[3] if len(sys.argv) > 3 else ""
root = os.path.join(os.path.dirname(os.path.abspath(__file__)), "..", "seeded", dest)
shutil.rmtree(root, ignore_errors=True); os.makedirs(root)
shutil.copy(os.path.join(src, "patch.diff"), root)
def ign(d, names): return [n for n in names if n in ("target", "Cargo.lock", "__pycache__")]
shutil.copytree(os.path.join(src, "demo"), os.path.join(root, "demo"), ignore=ign)
m = json.load(open(os.path.join(src, "meta.json")))
prop = m.get("property", dest[:3])[:3]
m["verified_by_me"] = {
    "how": "tools/verify_seed.sh %s %s: fresh worktree of /repo HEAD; demo exit 0 on the original; suite 335 passed with the change; demo exit 1 with the change" % (prop, src),
    "detected_by": "tools/try_seed.sh seeded/%s/patch.diff %s -> VIOLATION with a failing input (replay file)" % (dest, prop)}
if hist: m["history"] = hist
json.dump(m, open(os.path.join(root, "meta.json"), "w"), indent=1)
print("saved", dest)
