#!/bin/bash
# usage: try_seed.sh <patch> <prop> [more props]  -- apply a seeded change to /repo, run the checks, undo it
patch=$(readlink -f "$1"); shift
cd /repo && git apply "$patch" || { echo "patch does not apply"; exit 2; }
cd /verif
for p in "$@"; do
  out=$(./vp check $p --tier ${TIER:-quick} 2>&1); rc=$?
  echo "== $p exit=$rc"; echo "$out" | grep -E "^(VIOLATION|KNOWN|OK)" | cut -c1-220 | head -4
done
git -C /repo checkout -- . ; cd /repo && git status --short | head -3
