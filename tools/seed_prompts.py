#!/usr/bin/env python3
"""seed_prompts.py <round-dir> <out-dir> <spec.json>  -- development aid for the seeded rounds: creates one scratch git
worktree of /repo per entry of spec.json ({"id": {"property": "Cxx", "angle": "..."}}) under <round-dir> and writes the
prompt <round-dir>/<id>.prompt.txt that a fresh sub-agent is pointed at.  The prompt contains the property text and
nothing from /verif.  (Agents must not use `git stash`: the stash is shared between worktrees.)"""
import json, subprocess, sys
rd, od, spec = sys.argv[1], sys.argv[2], json.load(open(sys.argv[3]))
props = {json.loads(l)['id']: json.loads(l) for l in open('/verif/properties.jsonl')}
head = '''You are helping to evaluate a verification framework by writing ONE realistic, subtle defect ("seeded change") for the Rust library sybila/biodivine-boolean-functions (Boolean functions as expression trees, truth tables and BDDs; parser; CSV I/O; PyO3 bindings).

Your private scratch checkout (a git worktree) is at: @WT@   -- work ONLY there. Do NOT read or touch anything under /verif, and do not modify /repo (you may read /repo/Cargo.lock to copy it). No network is available: always use `CARGO_NET_OFFLINE=true cargo ... --offline`. Use `CARGO_TARGET_DIR=@WT@/target` so build output stays inside your worktree. NEVER use `git stash` (the stash is shared between worktrees of other agents): to go back to the original source use `git diff -- src > @WT@/p.diff && git apply -R @WT@/p.diff`, and `git apply @WT@/p.diff` to restore your change.

The property your change must break:

@PROP@

Task:
1. Read the relevant source under @WT@/src and its existing tests.
2. Make a change to the library source (src/, not tests) that BREAKS the property above, while
   (a) the crate still compiles without new warnings, and
   (b) the whole existing, unedited test suite still passes:  cd @WT@ && CARGO_NET_OFFLINE=true CARGO_TARGET_DIR=@WT@/target cargo nextest run --workspace --no-fail-fast --test-threads 8 --offline   (335 tests; also with `--features csv`: 373 tests). Do not edit, delete or add tests in the library.
   The change must look like something a real contributor could plausibly commit (an "optimisation", a refactor, a fast path, a caching layer, a tidy-up, an off-by-one in a rarely used branch ...), and must need something SPECIFIC to manifest. Angle for you: @ANGLE@
   It must NOT be something ordinary use would expose at once. It must be a genuine violation of the property text as written (not a behaviour the property leaves open).
'''
rust_demo = '''3. Write a demonstration: a tiny standalone cargo binary crate in @WT@/demo with Cargo.toml exactly:
   [package]
   name = "demo"
   version = "0.1.0"
   edition = "2021"

   [workspace]

   [dependencies]
   bbf = { package = "biodivine-boolean-functions", path = "..", default-features = false, features = ["csv"] }
   and demo/src/main.rs which checks the property on the specific input(s)/sequence, prints PASS and exits 0 on the ORIGINAL code, and prints FAIL (with details) and exits 1 with your change. (Copy /repo/Cargo.lock to @WT@/demo/Cargo.lock before building; run with `cd @WT@/demo && CARGO_NET_OFFLINE=true CARGO_TARGET_DIR=@WT@/target cargo run --offline -q`.) The demo must judge against the property's own semantics (e.g. brute-force truth-table comparison), not against another possibly-affected library routine where avoidable. Check it on the original code first, then with the change.
4. Deliver into the directory @OUT@ (create it):
   - patch.diff  : `cd @WT@ && git diff -- src > @OUT@/patch.diff` (only src changes; must apply with `git apply` to a clean checkout)
   - demo/Cargo.toml and demo/src/main.rs (copies, no target dir, no Cargo.lock)
'''
py_demo = '''   The change must be in the Python binding layer (src/bindings/...), observable through the Python module.
3. Build the Python extension module: `cd @WT@ && CARGO_NET_OFFLINE=true CARGO_TARGET_DIR=@WT@/target cargo build --offline --features csv -q && mkdir -p @WT@/pymod && cp @WT@/target/debug/libbiodivine_boolean_functions.so @WT@/pymod/biodivine_boolean_functions.so` (abi3 module; classes Expression, Table, Bdd and helper functions).
   Write a demonstration @WT@/demo/demo.py which takes the directory holding biodivine_boolean_functions.so as its only argument (inserts it into sys.path, imports the module), checks the property on the specific input(s) by comparing the Python method's answer with what the Rust API / the property's own semantics says it must be, prints PASS and exits 0 on the ORIGINAL code, and prints FAIL (with details) and exits 1 with your change.
4. Deliver into the directory @OUT@ (create it):
   - patch.diff  : `cd @WT@ && git diff -- src > @OUT@/patch.diff` (only src changes; must apply with `git apply` to a clean checkout)
   - demo/demo.py
'''
tail = '''   - meta.json with keys: "property" ("@PID@"), "also_breaks" (list), "summary", "needs" (what specific input / sequence / condition it needs to manifest), "files_changed" (list), "demo_cmd", "demo_result_original", "demo_result_changed", "suite_result_with_change".
5. Finally remove your build output: rm -rf @WT@/target @WT@/demo/target @WT@/pymod. Leave the worktree itself in place.

Report back in a few lines: what you changed, what it needs to manifest, and the results of the three confirmations (demo on original, suite with change, demo with change). If after honest effort you cannot find a change that keeps the suite green, say so rather than delivering something that fails the constraints.
'''
for k, v in spec.items():
    p = v['property']; wt = '%s/%s' % (rd, k)
    subprocess.run(['git', '-C', '/repo', 'worktree', 'add', '-q', wt, 'HEAD'], check=True)
    d = props[p]
    txt = "Property %s: %s\n\n%s\n\nQuantifier: %s\n" % (p, d['title'], d['statement'], d['quantifier']['text'])
    t = head + (py_demo if v.get('python') else rust_demo) + tail
    s = t.replace('@WT@', wt).replace('@OUT@', '%s/%s' % (od, k)).replace('@PID@', p).replace('@ANGLE@', v['angle']).replace('@PROP@', txt)
    open('%s/%s.prompt.txt' % (rd, k), 'w').write(s)
print('ok', len(spec))
