"""Generators shared by all properties. Every random choice derives from one random.Random(seed)."""
import itertools, random
from .common import hexname

NAMES = ["a", "b", "c", "d", "e", "f", "g", "h", "i", "j"]

# ---- expressions as nested tuples: ('L', name) ('C', 0|1) ('N', e) ('A', [es]) ('O', [es])

def L(x): return ("L", x)
def C(b): return ("C", 1 if b else 0)
def Nn(e): return ("N", e)
def A(es): return ("A", list(es))
def O(es): return ("O", list(es))


def pe(e):
    """prefix token form of the case language"""
    t = e[0]
    if t == "L": return "L " + hexname(e[1])
    if t == "C": return "C %d" % e[1]
    if t == "N": return "N " + pe(e[1])
    return "%s %d%s" % (t, len(e[1]), "".join(" " + pe(x) for x in e[1]))


def ev(e, v, d=False):
    t = e[0]
    if t == "L": return v.get(e[1], d)
    if t == "C": return bool(e[1])
    if t == "N": return not ev(e[1], v, d)
    if t == "A": return all(ev(x, v, d) for x in e[1])
    return any(ev(x, v, d) for x in e[1])


def lits(e):
    t = e[0]
    if t == "L": return {e[1]}
    if t == "C": return set()
    if t == "N": return lits(e[1])
    s = set()
    for x in e[1]: s |= lits(x)
    return s


def size(e):
    t = e[0]
    if t in "LC": return 1
    if t == "N": return 1 + size(e[1])
    return 1 + sum(size(x) for x in e[1])


def points(n):
    return [tuple(bool((i >> (n - 1 - k)) & 1) for k in range(n)) for i in range(1 << n)]


def tv_of(e, vs=None):
    vs = sorted(lits(e)) if vs is None else vs
    return "".join("1" if ev(e, dict(zip(vs, p))) else "0" for p in points(len(vs)))


def expr_of_tv(vs, tv, form):
    """an expression over exactly the variables vs with truth vector tv (string of 0/1), in one of three shapes"""
    n = len(vs)
    ps = points(n)
    if n == 0:
        return C(tv == "1")
    def cube(p, pos=True):
        return [L(x) if (b == pos) else Nn(L(x)) for x, b in zip(vs, p)]
    if form == "dnf":
        terms = [A(cube(p)) for p, o in zip(ps, tv) if o == "1"]
        core = O(terms)
        # keep every variable declared even when the function is constant
        if lits(core) != set(vs):
            core = O([core] + [A([L(x), Nn(L(x))]) for x in vs if x not in lits(core)])
        return core
    if form == "cnf":
        clauses = [O(cube(p, pos=False)) for p, o in zip(ps, tv) if o == "0"]
        core = A(clauses)
        if lits(core) != set(vs):
            core = A([core] + [O([L(x), Nn(L(x))]) for x in vs if x not in lits(core)])
        return core
    # 'mix': Shannon expansion on the first variable, with constants
    def sh(i, lo, hi):
        if i == n:
            return C(tv[lo] == "1")
        mid = (lo + hi) // 2
        x = vs[i]
        return O([A([Nn(L(x)), sh(i + 1, lo, mid)]), A([L(x), sh(i + 1, mid, hi)])])
    return sh(0, 0, len(tv))


def all_tvs(n):
    return ["".join(t) for t in itertools.product("01", repeat=1 << n)]


def enum_trees(n, leaves, max_arity=3, memo=None):
    """all trees with exactly n nodes; n-ary nodes of arity 0..max_arity"""
    if memo is None: memo = {}
    key = (n, max_arity)
    if key in memo: return memo[key]
    out = []
    if n == 1:
        out = list(leaves) + [A([]), O([])]
    else:
        out += [Nn(x) for x in enum_trees(n - 1, leaves, max_arity, memo)]
        for ar in range(1, max_arity + 1):
            for parts in compositions(n - 1, ar):
                for kids in itertools.product(*[enum_trees(p, leaves, max_arity, memo) for p in parts]):
                    out.append(A(kids)); out.append(O(kids))
    memo[key] = out
    return out


def compositions(total, k):
    if k == 1:
        if total >= 1: yield (total,)
        return
    for first in range(1, total - k + 2):
        for rest in compositions(total - first, k - 1):
            yield (first,) + rest


def rand_tree(rng, depth, names, max_arity=4, consts=True, empties=True):
    r = rng.random()
    if depth <= 0 or r < 0.25:
        if consts and rng.random() < 0.12:
            return C(rng.random() < 0.5)
        return L(rng.choice(names))
    if r < 0.45:
        return Nn(rand_tree(rng, depth - 1, names, max_arity, consts, empties))
    lo = 0 if empties and rng.random() < 0.08 else (1 if rng.random() < 0.15 else 2)
    ar = lo if lo < 2 else rng.randint(2, max_arity)
    kids = [rand_tree(rng, depth - 1, names, max_arity, consts, empties) for _ in range(ar)]
    return A(kids) if rng.random() < 0.5 else O(kids)


def partial_valuations(universe):
    """all maps universe -> {0, 1, unassigned} as lists of (name, bool)"""
    for choice in itertools.product((None, False, True), repeat=len(universe)):
        yield [(x, b) for x, b in zip(universe, choice) if b is not None]


def val_tokens(v):
    return "%d%s" % (len(v), "".join(" %s %d" % (hexname(x), 1 if b else 0) for x, b in v))


def set_tokens(vs):
    return "%d%s" % (len(vs), "".join(" " + hexname(x) for x in vs))
