"""Comparison of the implementation's observations with the model's (Tier A) and with the
specification's (Tier B)."""
import re
from .common import fields


def pts(n):
    return ["".join("1" if (i >> (n - 1 - k)) & 1 else "0" for k in range(n)) for i in range(1 << n)]


def nlist(s):
    """list of names (hex); '~' is the empty name, '-' the empty list"""
    return [] if s in ("-", "") else [("" if x == "~" else x) for x in s.split(",")]


def plist(s):
    """list of points; '.' is the point with no coordinates"""
    return [] if s in ("-", "") else [("" if x == "." else x) for x in s.split(",")]


def expand(ins, tv, union):
    """truth vector of a function given over `ins`, re-tabulated over the superset `union`"""
    pos = [union.index(x) for x in ins]
    out = []
    for p in pts(len(union)):
        idx = 0
        for k in pos:
            idx = idx * 2 + (1 if p[k] == "1" else 0)
        out.append(tv[idx] if idx < len(tv) else "?")
    return "".join(out)


def parse_dd(s):
    """'V0(T,V2(T,F))' -> nested tuples; returns (tree, rest)"""
    if s[0] == "T": return True, s[1:]
    if s[0] == "F": return False, s[1:]
    m = re.match(r"V(\d+)\(", s)
    if not m: raise ValueError(s[:20])
    v = int(m.group(1))
    lo, rest = parse_dd(s[m.end():])
    assert rest[0] == ","
    hi, rest = parse_dd(rest[1:])
    assert rest[0] == ")"
    return (v, lo, hi), rest[1:]


def dd_ok(t, lo_bound, nv):
    if isinstance(t, bool): return True
    v, lo, hi = t
    return lo_bound <= v < nv and lo != hi and dd_ok(lo, v + 1, nv) and dd_ok(hi, v + 1, nv)


def read_cells(style, text):
    """independent reader of a rendered table: rule lines dropped, cells split at the style's
    vertical glyph (or at blanks for the frameless style) and trimmed"""
    rows = []
    for line in text.split("\n"):
        if style == "A":
            if line.startswith("+"): continue
            parts = line.split("|")[1:-1]
        elif style == "M":
            if line[:1] in "┌├└": continue
            parts = line.split("│")[1:-1]
        elif style == "D":
            parts = line.split("|")[1:-1]
            if parts and all(set(p.strip()) <= set("-:") and p.strip() for p in parts): continue
        else:
            parts = line.split()
        rows.append([p.strip() for p in parts])
    return rows


def wellformed(kind, struct):
    """representation invariants of C15, checked on the raw structure printed by the harness"""
    try:
        if kind == "T" and struct == "-:-":
            return None    # the explicitly empty table read from empty CSV text
        if kind == "T":
            ins, outs = struct.split(":")
            ins = nlist(ins); outs = "" if outs == "-" else outs
            if ins != sorted(set(ins)) or len(ins) != len(set(ins)): return "table inputs not strictly sorted"
            if len(outs) != 2 ** len(ins): return "table has %d outputs for %d inputs" % (len(outs), len(ins))
        elif kind == "B":
            ins, nv, tree = struct.split(":")
            ins = nlist(ins)
            if tree.endswith("!invalid"): return "lib-bdd validate() failed"
            if ins != sorted(set(ins)) or len(ins) != len(set(ins)): return "bdd inputs not strictly sorted"
            if int(nv) != len(ins): return "bdd num_vars %s != %d inputs" % (nv, len(ins))
            if "#" in tree: return None
            t, rest = parse_dd(tree)
            if rest != "" or not dd_ok(t, 0, int(nv)): return "diagram not ordered/reduced/bounded"
    except Exception as e:  # malformed print-out
        return "unparsable structure: %r" % (e,)
    return None


def checked_norm(s):
    if s.startswith("missing:"):
        return ("missing", tuple(sorted(set(nlist(s[8:])))))
    return ("ok", s[3:])


def compare(impl_payload, model_payload, line=""):
    """returns (tierA mismatching keys, tierB failures [(key, text)])"""
    a, b = [], []
    if impl_payload is None:
        return ["<no output>"], [("crash", "the implementation produced no output for this line (process died?)")]
    if model_payload is None:
        return ["<no model output>"], []
    if model_payload.split(" ")[0] == "pyonly":
        return [], []     # a query that only exists for the Python comparison (C19)
    I, M = fields(impl_payload), fields(model_payload)
    # ---- Tier A
    for k, mv in M.items():
        if k.startswith("s.") or k.startswith("py."): continue   # specification / Python-layer fields
        if mv == "*": continue
        if I.get(k) != mv: a.append(k)
    for k in I:
        if k.startswith("i."): continue     # an observation of the implementation alone (compared between executions only)
        if k not in M: a.append(k)
    # ---- Tier B
    st_i, st_m = I.get("status"), M.get("status")
    if st_i == "panic" and st_m != "panic":
        b.append(("status", "panic where the specification defines a result"))
    if st_i == "err" and st_m == "ok":
        b.append(("status", "error value where the specification defines a result"))
    if st_i == "ok" and st_m == "err" and line.split()[1:2] in (["csvin"], ["parse"]):
        b.append(("status", "text accepted although it is outside the language / does not describe a complete unambiguous table"))
    if "s.round" in M and I.get("round") != M["s.round"]:
        b.append(("round", "export then import gives %s, expected the table itself %s" % (I.get("round"), M["s.round"])))
    if "s.text" in M and I.get("text") != M["s.text"]:
        b.append(("text", "text differs from the documented equivalent form"))
    if "s.rows" in M and "text" in I:
        try:
            text = "" if I["text"] == "-" else bytes.fromhex(I["text"]).decode("utf-8")
            got = read_cells(M["s.style"], text)
            want = [[("" if c == "-" else bytes.fromhex(c).decode("utf-8")) for c in r.split(",")] for r in M["s.rows"].split(";")]
            if got != want:
                b.append(("rows", "cells read back from the rendering %r differ from header + relation %r" % (got[:3], want[:3])))
        except Exception as e:
            b.append(("rows", "rendering unreadable: %r" % (e,)))
    if "s.inputs" in M and "inputs" in I:
        sins, iins = nlist(M["s.inputs"]), nlist(I["inputs"])
        if M.get("s.rel") == "eq" and sins != iins:
            b.append(("inputs", "inputs %s, specified %s" % (I["inputs"], M["s.inputs"])))
        if M.get("s.rel") == "sub" and not set(iins) <= set(sins):
            b.append(("inputs", "inputs %s not within %s" % (I["inputs"], M["s.inputs"])))
        union = sorted(set(sins) | set(iins))
        if "s.tv" in M and "tv" in I and len(union) <= 16 and "skip" not in (M["s.tv"], I["tv"]):
            itv = "" if I["tv"] == "-" else I["tv"]
            stv = "" if M["s.tv"] == "-" else M["s.tv"]
            if I.get("struct") == "-:-" and itv == "":
                pass    # the explicitly empty table
            elif len(itv) != 2 ** len(iins):
                b.append(("tv", "truth vector of length %d for %d inputs" % (len(itv), len(iins))))
            elif expand(iins, itv, union) != expand(sins, stv, union):
                b.append(("tv", "function differs from the specified one: %s over %s vs %s over %s" % (I["tv"], I["inputs"], M["s.tv"], M["s.inputs"])))
        if "struct" in I and I.get("kind") in ("T", "B"):
            w = wellformed(I["kind"], I["struct"])
            if w: b.append(("struct", w))
    if "s.ess" in M and "ess" in I:
        iins = nlist(I.get("inputs", "-")); n = len(iins)
        if I["ess"] != M["s.ess"]:
            b.append(("ess", "essential inputs %s, specified %s" % (I["ess"], M["s.ess"])))
        if I.get("deg") != str(n): b.append(("deg", "degree %s for %d inputs" % (I.get("deg"), n)))
        if I.get("essdeg") != str(len(nlist(I["ess"]))): b.append(("essdeg", "essential degree %s" % I.get("essdeg")))
        if not set(nlist(I["ess"])) <= set(iins): b.append(("ess", "essential inputs not among the inputs"))
        dom = plist(I.get("dom", "-"))
        if dom != pts(n): b.append(("dom", "domain is not the 2^n points in lexicographic order"))
        img = "" if I.get("img") == "-" else I.get("img", "")
        sins = nlist(M["s.inputs"])
        ssup = set(plist(M["s.sup"]))
        spec_tv = "".join("1" if p in ssup else "0" for p in pts(len(sins)))
        union = sorted(set(sins) | set(iins))
        if len(img) != 2 ** n:
            b.append(("img", "image has %d values for %d inputs" % (len(img), n)))
        elif len(union) <= 16 and expand(iins, img, union) != expand(sins, spec_tv, union):
            b.append(("img", "image differs from the specified function"))
        else:
            exp_rel = ",".join("%s:%s" % (p or ".", o) for p, o in zip(pts(n), img))
            if I.get("rel") != exp_rel: b.append(("rel", "relation is not zip(domain, image)"))
            exp_sup = [p for p, o in zip(pts(n), img) if o == "1"]
            isup = plist(I.get("sup", "-"))
            if I.get("kind") == "B":
                ok = sorted(isup) == sorted(exp_sup)
            else:
                ok = isup == exp_sup
            if not ok: b.append(("sup", "support is not exactly the points where the function is 1, once each"))
            if I.get("w") != str(len(exp_sup)): b.append(("w", "weight %s, support has %d points" % (I.get("w"), len(exp_sup))))
            sat = I.get("sat")
            if exp_sup:
                if sat == "none" or ("" if sat == "." else sat) not in exp_sup:
                    b.append(("sat", "sat_point %s is not in the support" % sat))
            elif sat != "none":
                b.append(("sat", "sat_point %s for an unsatisfiable function" % sat))
        if "fused" in I: b.append(("fused", "iterator yields again after exhaustion"))
        if "nx.dom" in I:
            # the next() protocol: the lists above (each already judged against the specification), item by item,
            # then None for ever; nth / count / last as Iterator defines them
            k = 2 ** n + 2
            def want(items, sep):
                return sep.join(list(items) + ["~"] * (k - len(items)))
            raw = lambda key: [] if I.get(key, "-") in ("-", "") else I[key].split(",")
            if I["nx.dom"] != want(raw("dom"), ","): b.append(("nx.dom", "stepping the domain iterator does not give the domain, then None"))
            if I.get("nx.img") != want(list(img), ""): b.append(("nx.img", "stepping the image iterator does not give the image, then None"))
            if I.get("nx.rel") != want(raw("rel"), ","): b.append(("nx.rel", "stepping the relation iterator does not give the relation, then None"))
            if I.get("nx.sup") != want(raw("sup"), ","): b.append(("nx.sup", "stepping the support iterator does not give the support, then None"))
            def at(l, i): return l[i] if i < len(l) else "~"
            for key, l in (("nth.dom", raw("dom")), ("nth.rel", raw("rel"))):
                exp = ";".join("%s/%s" % (at(l, i), at(l, i + 1)) for i in (n, 2 ** n - 1))
                if I.get(key) != exp: b.append((key, "nth(i) then next() gives %s, the enumeration says %s" % (I.get(key), exp)))
            rd = raw("dom")[n + 2:]
            exp = "%d/%s;%d" % (len(rd), rd[-1] if rd else "~", len(img[n + 2:]))
            if I.get("rest") != exp: b.append(("rest", "count()/last() of a partly consumed iterator give %s, %s is left" % (I.get("rest"), exp)))
            if "sh" in I: b.append(("sh", "size_hint() does not bound the number of items that are really left"))
            if I.get("cnt.img") != str(len(img)): b.append(("cnt.img", "count() of the image is %s for %d values" % (I.get("cnt.img"), len(img))))
            if I.get("last.dom") != at(raw("dom"), len(raw("dom")) - 1 if raw("dom") else 0): b.append(("last.dom", "last() of the domain is %s" % I.get("last.dom")))
    if "s.acc" in M and I.get("acc") != M["s.acc"]:
        b.append(("acc", "%s, the reference grammar %s" % ("accepted" if I.get("acc") == "1" else "rejected (or crashed)", "accepts" if M["s.acc"] == "1" else "rejects")))
    if "s.parse" in M and I.get("parse") != M["s.parse"]:
        b.append(("parse", "printing and parsing gives %s, expected the original tree %s" % (I.get("parse"), M["s.parse"])))
    if any(I.get(k) == "panic" for k in ("tok", "parse", "pt")):
        b.append(("panic", "the parser panicked"))
    if "s.w" in M and "s.ess" not in M and I.get("w") != M["s.w"]:
        b.append(("w", "weight %s, the function has %s satisfying points" % (I.get("w"), M["s.w"])))
    for k_ in ("nnf", "cnf", "dnf"):
        if "s." + k_ in M and "shape" not in M and I.get(k_) != M["s." + k_]:
            b.append((k_, "is_%s answers %s, the reference shape predicate %s" % (k_, I.get(k_), M["s." + k_])))
    if "s.shape" in M and I.get("shape") != M["s.shape"]:
        b.append(("shape", "normal forms of a constant-free expression do not satisfy is_nnf / is_cnf / is_dnf: %s" % I.get("shape")))
    if "s.fresh" in M and I.get("fresh") != M["s.fresh"]:
        b.append(("fresh", "a freshly built object of the same function over the same inputs is told apart: flags %s (structure/node count, equivalent x2, implied x2)" % I.get("fresh")))
    if "s.rtv" in M and I.get("rtv") != M["s.rtv"]:
        b.append(("rtv", "the renamed expression denotes %s, the original after renaming its arguments is %s" % (I.get("rtv"), M["s.rtv"])))
    if "p2v" in I and line.split()[1:2] == ["p2v"]:
        pb = line.split()[3]; pb = "" if pb == "." else pb
        v = I["p2v"]
        if "s.n" in M and (v != "none") != (len(pb) == int(M["s.n"])):
            b.append(("p2v", "point of length %d, %s inputs, answer %s" % (len(pb), M["s.n"], v)))
        if v not in ("none", "-"):
            ks = [x.split(":")[0] for x in v.split(",")]; vs = "".join(x.split(":")[1] for x in v.split(","))
            dec = ["" if k == "~" else bytes.fromhex(k).decode("utf-8", "replace") for k in ks]
            if dec != sorted(set(dec)) or vs != pb:
                b.append(("p2v", "the valuation %s does not pair the sorted inputs with the point %s" % (v, pb)))
    if I.get("i.msg") == "panic":
        b.append(("i.msg", "formatting the returned error value (Display) panics"))
    if I.get("pure") == "0":
        b.append(("pure", "a register no longer equals (==) the clone taken before this call, or its Debug text changed: the call altered an operand"))
    if I.get("det") == "0":
        b.append(("det", "the same call made twice in one process gave two different results"))
    if "s.val" in M and I.get("val") != M["s.val"]:
        b.append(("val", "evaluates to %s, specified %s" % (I.get("val"), M["s.val"])))
    if "s.checked" in M and "checked" in I:
        if checked_norm(I["checked"]) != checked_norm(M["s.checked"]):
            b.append(("checked", "checked evaluation %s, specified %s" % (I["checked"], M["s.checked"])))
    if "s.ans" in M and I.get("ans") != M["s.ans"]:
        b.append(("ans", "answers %s, specified %s" % (I.get("ans"), M["s.ans"])))
    return a, b


# ---- C19: what the Python call returned vs what the Rust API returned for the same line; the exception class
# expected for a failure is the one the model of the Python layer computes (Model/PyProg.v, field py.exc of the
# model's line): nothing about the mapping is written down here
def compare_python(py_payload, impl_payload, line, model_payload=None):
    """list of reasons why the Python observation disagrees with the Rust one (empty = agree)"""
    if impl_payload is None:
        return ["no Rust observation for this line"]
    P, I = fields(py_payload), fields(impl_payload)
    M = fields(model_payload) if model_payload else {}
    want = M.get("py.exc")
    why = []
    ps, is_ = P.get("status"), I.get("status")
    if ps in ("ok", "na", "exc") or is_ in ("ok", "na", "err", "panic"):
        # a register line: success / failure must correspond, with the documented exception kind
        if is_ == "ok" and ps != "ok": why.append("Rust succeeds, Python %s %s" % (ps, P.get("exc", "")))
        elif is_ == "na" and ps not in ("na",): pass   # not expressible on one side: ignored
        elif is_ in ("err", "panic"):
            got = P.get("exc")
            if ps != "exc":
                why.append("Rust %s (%s), Python %s" % ("returns an error" if is_ == "err" else "panics", I.get("variant", "parse/conversion"), ps))
            elif want is None:
                why.append("Rust fails and Python raises %s, but the model of the Python layer defines no exception here" % got)
            elif got != want and not (want == "OSError" and got in ("OSError", "IOError", "FileNotFoundError")):
                why.append("Rust %s (%s), Python raises %s, documented kind %s" % ("returns an error" if is_ == "err" else "panics", I.get("variant", "parse/conversion"), got, want))
        return why
    if ps == "skip" or is_ == "skip":
        return why
    if ps == "exc":
        return ["Python raised %s where the Rust API returns a value" % P.get("exc")]
    for k, v in P.items():
        if k == "exc" and M.get("checked") == "*":
            # structure not determined by the model (expression out of a diagram): the Rust answer decides
            rust_missing = I.get("checked", "").startswith("missing")
            if (v == "KeyError") != rust_missing: why.append("exception %s, Rust checked evaluation %s" % (v, I.get("checked")))
            continue
        if k == "exc":
            w = want if want not in (None, "none") else None
            if want == "none" and v != "none": why.append("exception %s where the model of the Python layer returns a value" % v)
            elif w and v != w: why.append("exception %s, documented kind %s" % (v, w))
            elif want is None and v != "none": why.append("exception %s, not defined by the model of the Python layer" % v)
            continue
        if k == "proto":
            if v != "ok": why.append("iterator protocol: %s" % v)
            continue
        if k not in I: continue
        if I[k] != v: why.append("%s: Python %s, Rust %s" % (k, v[:80], I[k][:80]))
    return why
