"""Shared plumbing: paths, builds, running the two interpreters, evidence."""
import hashlib, json, os, re, subprocess, sys, time
from concurrent.futures import ThreadPoolExecutor

ROOT = os.path.dirname(os.path.dirname(os.path.abspath(__file__)))
BUILD = os.path.join(ROOT, "build")
COQ = os.path.join(ROOT, "coq")
EXTRACT = os.path.join(BUILD, "extract")
HARNESS_BIN = os.path.join(BUILD, "target", "debug", "bbf-harness")
DRIVER_BIN = os.path.join(EXTRACT, "driver")
CASES = os.path.join(BUILD, "cases")
REPLAYS = os.path.join(ROOT, "replays")
EVIDENCE = os.path.join(ROOT, "evidence")
NPROC = 16

ENV = dict(os.environ, CARGO_NET_OFFLINE="true")


def sh(cmd, cwd=None, timeout=3600, check=False, env=None):
    p = subprocess.run(cmd, cwd=cwd, shell=isinstance(cmd, str), stdout=subprocess.PIPE,
                       stderr=subprocess.STDOUT, timeout=timeout, env=env or ENV, text=True)
    if check and p.returncode != 0:
        raise RuntimeError("command failed: %s\n%s" % (cmd, p.stdout[-4000:]))
    return p.returncode, p.stdout


# Optional renaming of variable names at encoding time (see props.renamed_cases): the semantic generators are
# written over plain names (a, b, ..., z, zz, x1..); a second pass re-runs them with an order-preserving renaming
# into awkward names (multi-character, numeric-looking, keyword-like, with blanks, non-ASCII, outside the BMP)
RENAME = {}


def hexname(s):
    s = RENAME.get(s, s)
    return s.encode("utf-8").hex() if s else "-"


def unhex(h):
    return "" if h == "-" else bytes.fromhex(h).decode("utf-8")


# ---------------------------------------------------------------- builds

import contextlib, fcntl


@contextlib.contextmanager
def build_lock():
    """checks of different properties may be started at the same time: everything that writes shared build output
    (the Coq Makefile build, extraction, the driver, cargo's target directory, the Python module) is serialised"""
    os.makedirs(BUILD, exist_ok=True)
    with open(os.path.join(BUILD, ".buildlock"), "w") as fh:
        fcntl.flock(fh, fcntl.LOCK_EX)
        try:
            yield
        finally:
            fcntl.flock(fh, fcntl.LOCK_UN)


def coq_makefile():
    mk = os.path.join(COQ, "Makefile")
    proj = os.path.join(COQ, "_CoqProject")
    if not os.path.exists(mk) or os.path.getmtime(mk) < os.path.getmtime(proj):
        sh("coq_makefile -f _CoqProject -o Makefile", cwd=COQ, check=True)


def build_coq(targets=None, timeout=3000):
    """Full .vo build of the development (or of the given targets) through the Makefile."""
    coq_makefile()
    cmd = "timeout %d make -j%d %s" % (timeout, NPROC, " ".join(targets or []))
    rc, out = sh(cmd, cwd=COQ, timeout=timeout + 60)
    return rc == 0, out


def _stale(target, sources):
    if not os.path.exists(target):
        return True
    t = os.path.getmtime(target)
    return any(os.path.getmtime(s) > t for s in sources if os.path.exists(s))


def build_driver():
    """Extract the model to OCaml and link the driver."""
    os.makedirs(EXTRACT, exist_ok=True)
    vfiles = []
    for d, _, fs in os.walk(COQ):
        vfiles += [os.path.join(d, f) for f in fs if f.endswith(".v") and "/Proofs" not in d and "/Properties" not in d and "/Pins" not in d]
    drv_src = os.path.join(ROOT, "ocaml", "driver.ml")
    if not _stale(DRIVER_BIN, vfiles + [drv_src]):
        return True, ""
    rc, out = sh("coqc -Q %s BBF %s/Extract/Extract.v -o %s/Extract.vo" % (COQ, COQ, EXTRACT), cwd=EXTRACT, timeout=600)
    if rc != 0:
        return False, out
    sh("cp %s %s/driver.ml" % (drv_src, EXTRACT), check=True)
    rc, out2 = sh("ocamlfind ocamlopt -O3 -w -a model.mli model.ml driver.ml -o driver", cwd=EXTRACT, timeout=600)
    return rc == 0, out + out2


def build_harness():
    """Rebuild the harness against /repo's current working tree (cargo decides what is stale)."""
    env = dict(ENV, CARGO_TARGET_DIR=os.path.join(BUILD, "target"))
    rc, out = sh("cargo build --offline -q", cwd=os.path.join(ROOT, "harness"), timeout=1800, env=env)
    return rc == 0, out


PY_DIR = os.path.join(BUILD, "py")
PY_SO = os.path.join(PY_DIR, "biodivine_boolean_functions.so")


def build_pymodule():
    """the extension module, built from /repo's working tree (default features = python, plus csv)"""
    os.makedirs(PY_DIR, exist_ok=True)
    env = dict(ENV, CARGO_TARGET_DIR=os.path.join(BUILD, "pytarget"))
    rc, out = sh("cargo build --offline -q --features csv", cwd="/repo", timeout=1800, env=env)
    if rc != 0:
        return False, out
    sh("cp %s %s" % (os.path.join(BUILD, "pytarget", "debug", "libbiodivine_boolean_functions.so"), PY_SO), check=True)
    return True, out


def run_python(paths, timeout=1500):
    """the same case files through the Python module; returns (lines, called methods, problems)"""
    out, called, problems = {}, set(), []
    runner = os.path.join(ROOT, "py", "pyrun.py")
    env = dict(os.environ, RUST_BACKTRACE="0")
    def one(p):
        try:
            r = subprocess.run(["python3", runner, PY_DIR, p], stdout=subprocess.PIPE, stderr=subprocess.DEVNULL, timeout=timeout, text=True, env=env)
            return r.returncode, r.stdout
        except subprocess.TimeoutExpired:
            return 124, ""
    with ThreadPoolExecutor(max_workers=NPROC) as ex:
        for p, (rc, text) in zip(paths, ex.map(one, paths)):
            if rc != 0:
                problems.append("python on %s: exit %s (interpreter abort?)" % (os.path.basename(p), rc))
            for line in text.splitlines():
                if line.startswith("#called "):
                    called |= set(line.split()[1:]); continue
                parts = line.split(" ", 2)
                if len(parts) == 3:
                    out[(parts[0], int(parts[1]))] = parts[2]
    return out, called, problems


def python_methods():
    code = ("import sys; sys.path.insert(0, %r); import biodivine_boolean_functions as M\n"
            "keep=('__and__','__or__','__invert__','__str__','__repr__','__new__')\n"
            "for c in (M.Expression, M.Table, M.Bdd):\n"
            "    for x in dir(c):\n"
            "        if not x.startswith('__') or (x in keep and x in c.__dict__ and not (x=='__new__' and c is not M.Expression)): print(c.__name__+'.'+x)\n"
            "for f in ('var','vars','bool'): print('module.'+f)\n") % PY_DIR
    rc, out = sh(["python3", "-c", code])
    return set(out.split())


# ---------------------------------------------------------------- running cases

def write_shards(prop, cases, nshards=NPROC):
    d = os.path.join(CASES, prop)
    os.makedirs(d, exist_ok=True)
    for f in os.listdir(d):
        os.unlink(os.path.join(d, f))
    nshards = max(1, min(nshards, len(cases)))
    paths = []
    for k in range(nshards):
        path = os.path.join(d, "shard%02d.case" % k)
        with open(path, "w") as fh:
            for c in cases[k::nshards]:
                fh.write("case %s\n" % c["id"])
                for ln in c["lines"]:
                    fh.write(ln + "\n")
                fh.write("end\n")
        paths.append(path)
    return paths


def _run_one(binary, path, timeout, extra=""):
    try:
        p = subprocess.run(["bash", "-c", "ulimit -s unlimited 2>/dev/null; exec \"$0\" \"$1\" $2", binary, path, extra], stdout=subprocess.PIPE, stderr=subprocess.PIPE, timeout=timeout, text=True)
        return p.returncode, p.stdout, p.stderr
    except subprocess.TimeoutExpired as e:
        return 124, (e.stdout or b"").decode() if isinstance(e.stdout, bytes) else (e.stdout or ""), "timeout"


def run_impl_only(paths, extra="", timeout=1500):
    """the harness alone (used for the repeated-process determinism runs of C20)"""
    out = {}
    with ThreadPoolExecutor(max_workers=NPROC) as ex:
        futs = [(p, ex.submit(_run_one, HARNESS_BIN, p, timeout, extra)) for p in paths]
        for p, fut in futs:
            rc, text, err = fut.result()
            for line in text.splitlines():
                parts = line.split(" ", 2)
                if len(parts) == 3:
                    out[(parts[0], int(parts[1]))] = parts[2]
    return out


def run_both(paths, timeout=None, impl_extra=""):
    # a hang must show quickly: a shard normally takes a second or two
    timeout = timeout or (240 if os.environ.get("VERIF_TIER_EFFECTIVE", "quick") == "quick" else 1500)
    """Run harness and driver on every shard, in parallel. Returns (impl_lines, model_lines, problems)."""
    jobs = []
    with ThreadPoolExecutor(max_workers=NPROC) as ex:
        for p in paths:
            jobs.append(("impl", p, ex.submit(_run_one, HARNESS_BIN, p, timeout, impl_extra)))
            jobs.append(("model", p, ex.submit(_run_one, DRIVER_BIN, p, timeout)))
        impl, model, problems = {}, {}, []
        for who, p, fut in jobs:
            rc, out, err = fut.result()
            if rc != 0:
                problems.append("%s on %s: exit %s %s" % (who, os.path.basename(p), rc, err[-500:]))
            tgt = impl if who == "impl" else model
            for line in out.splitlines():
                parts = line.split(" ", 2)
                if len(parts) < 3:
                    continue
                tgt[(parts[0], int(parts[1]))] = parts[2]
    return impl, model, problems


def fields(payload):
    """'k=v k=v' -> dict; a bare word becomes {'status': word}."""
    d = {}
    for tok in payload.split(" "):
        if "=" in tok:
            k, v = tok.split("=", 1)
            d[k] = v
        elif tok:
            d["status"] = tok
    return d


# ---------------------------------------------------------------- evidence

def write_evidence(prop, tier, seed, coverage, wall, violations, assumptions):
    os.makedirs(EVIDENCE, exist_ok=True)
    ev = {"property_id": prop, "tier": tier, "seed": seed, "level": "proof", "coverage": coverage,
          "assumptions": assumptions, "wall_s": round(wall, 2), "violations": violations}
    with open(os.path.join(EVIDENCE, prop + ".json"), "w") as fh:
        json.dump(ev, fh, indent=1, sort_keys=True)
        fh.write("\n")
