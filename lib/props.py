"""Per-property case generators. Each returns {'cases': [...], 'rule': str, 'exhaustive': bool, 'dist': {...}};
a case is {'id', 'lines', 'key', 'nontrivial'}. Register numbers count the 'r' lines of the case."""
import collections, itertools
from . import gen
from .gen import pe, hexname, val_tokens, set_tokens


class Case:
    def __init__(self, cid):
        self.id = cid; self.lines = []; self.nreg = 0
    def r(self, text):
        self.lines.append("r " + text); self.nreg += 1; return self.nreg - 1
    def q(self, text):
        self.lines.append("q " + text)
    def done(self, key, nontrivial):
        return {"id": self.id, "lines": self.lines, "key": key, "nontrivial": bool(nontrivial)}


def three_reps(c, e):
    r0 = c.r("expr " + pe(e)); r1 = c.r("conv T %d" % r0); r2 = c.r("conv B %d" % r0)
    return [r0, r1, r2]


LEAVES = [gen.L("a"), gen.L("b"), gen.L("c"), gen.C(0), gen.C(1)]


def gen_C02(tier, rng):
    cases = []; dist = collections.Counter()
    universe = ["a", "b", "c", "z"]
    all_vals = list(gen.partial_valuations(universe))
    memo = {}
    full_upto = 3 if tier == "quick" else 4
    sampled = [4] if tier == "quick" else [5]
    n = 0
    def add(e, vals, tag):
        nonlocal n
        c = Case("c02_%d" % n); n += 1
        regs = three_reps(c, e)
        ls = gen.lits(e)
        nt = False
        for v in vals:
            assigned = {x for x, _ in v}
            if ls - assigned and ls & assigned: nt = True
            for r in regs:
                for d in ("0", "1", "-"):
                    c.q("eval %d %s %s" % (r, d, val_tokens(v)))
        dist[tag] += 1
        cases.append(c.done(pe(e), nt))
    for s in range(1, full_upto + 1):
        for e in gen.enum_trees(s, LEAVES, 3, memo):
            add(e, all_vals, "size%d_all81" % s)
    for s in sampled:
        trees = gen.enum_trees(s, LEAVES, 3, memo)
        pick = trees if tier != "quick" and len(trees) < 3000 else rng.sample(trees, min(len(trees), 1500 if tier == "quick" else 6000))
        for e in pick:
            add(e, rng.sample(all_vals, 9), "size%d_sampled" % s)
    for _ in range(300 if tier == "quick" else 3000):
        names = gen.NAMES[: rng.randint(2, 8)]
        e = gen.rand_tree(rng, rng.randint(3, 7), names)
        vals = []
        for _ in range(8):
            vals.append([(x, rng.random() < 0.5) for x in names + ["z"] if rng.random() < 0.7])
        add(e, vals, "random")
    return {"cases": cases, "exhaustive": True, "dist": dict(dist),
            "rule": "every expression tree with <= %d nodes over 3 names, constants and n-ary arities 0..3, in its expression, table and diagram form, under all 81 partial assignments of {a,b,c,z}, defaults 0/1 and checked mode; sampled larger trees and random trees up to 8 names; a case is non-trivial when some assignment leaves an input unassigned and assigns another; distinct = distinct trees" % full_upto}


def gen_C05(tier, rng):
    cases = []; dist = collections.Counter()
    n = 0
    vs_all = ["a", "b", "c"]
    for nv in range(0, 4):
        vs = vs_all[:nv]
        forms = ["dnf", "cnf", "mix"] if (nv <= 2 or tier != "quick") else ["dnf"]
        for tv in gen.all_tvs(nv):
            for form in forms:
                e = gen.expr_of_tv(vs, tv, form)
                c = Case("c05_%d" % n); n += 1
                regs = three_reps(c, e)
                nt = False
                for v in gen.partial_valuations(vs + ["z"]):
                    fixed = {x for x, _ in v} & set(vs)
                    if fixed and set(vs) - fixed: nt = True
                    for r in regs:
                        k = c.r("restrict %d %s" % (r, val_tokens(v)))
                        c.q("obs %d" % k)
                dist["vars%d_%s" % (nv, form)] += 1
                cases.append(c.done("%s/%s/%s" % (nv, tv, form), nt))
    for _ in range(150 if tier == "quick" else 1500):
        names = gen.NAMES[: rng.randint(4, 7)]
        e = gen.rand_tree(rng, rng.randint(3, 6), names)
        c = Case("c05_%d" % n); n += 1
        regs = three_reps(c, e)
        for _ in range(6):
            v = [(x, rng.random() < 0.5) for x in names + ["z", "zz"] if rng.random() < 0.4]
            for r in regs:
                k = c.r("restrict %d %s" % (r, val_tokens(v)))
                c.q("obs %d" % k)
        dist["random"] += 1
        cases.append(c.done(pe(e), True))
    return {"cases": cases, "exhaustive": True, "dist": dict(dist),
            "rule": "every truth function of <= 3 variables (as DNF, CNF and Shannon-with-constants expressions; quick: DNF only for 3 variables) in the three representations, restricted by every partial assignment of its inputs plus a foreign name (3^(n+1), the empty one included); random 4-7 input trees with random assignments; non-trivial = some assignment fixes an input and leaves another; distinct = (function, shape)"}


GENERATORS = {"C02": gen_C02, "C05": gen_C05}
